(** Model of MarshalledMessageBody (the builder) and MessageBodyParser (rustbus/src/message_builder.rs),
    after the fix: commits: every push goes through push_mult_helper (snapshot of signature length,
    buffer length and descriptor count; restored on error), reset clears all three. *)
From RB Require Import Base.Prelude Sig.Types Sig.Parser Sig.Validator Sig.Iter Wire.Bytes Wire.Align Wire.Text Wire.Value
  Wire.SpecEnc Wire.Marshal Wire.Relabel Wire.Decode Wire.Unmarshal Wire.HasSig.

Record body := { bbe : bool; bsig : list N; bbuf : list N; bfds : N }.
Definition new_body (be : bool) : body := {| bbe := be; bsig := []; bbuf := []; bfds := 0 |}.

(* one typed parameter: the Rust type's signature and the value *)
Definition item := (ty * val)%type.

Inductive bop :=
| Push (i : item)                     (* push_param *)
| PushN (l : list item)               (* push_param2..5: all or nothing *)
| PushParams (l : list item)          (* push_params(&[P]): all or nothing *)
| PushVariant (i : item)              (* push_variant *)
| PushOld (v : val)                   (* push_old_param *)
| PushOlds (l : list val)             (* push_old_params *)
| Reset.

(* the closure of push_param inside push_mult_helper: marshal, then append the type's signature *)
Definition push_inner (b : body) (i : item) : body * bool :=
  let '(c, ok) := marshal_t (bbe b) (snd i) {| mbuf := bbuf b; mfds := bfds b |} in
  if ok then ({| bbe := bbe b; bsig := bsig b ++ to_str (fst i); bbuf := mbuf c; bfds := mfds c |}, true)
  else ({| bbe := bbe b; bsig := bsig b; bbuf := mbuf c; bfds := mfds c |}, false).

(* push_mult_helper: run, and on error restore the three lengths *)
Definition helper (b : body) (f : body -> body * bool) : body * bool :=
  let '(b', ok) := f b in if ok then (b', true) else (b, false).

Definition push_param (b : body) (i : item) : body * bool := helper b (fun b => push_inner b i).

Fixpoint push_all (push : body -> item -> body * bool) (b : body) (l : list item) : body * bool :=
  match l with
  | [] => (b, true)
  | i :: r => let '(b', ok) := push b i in if ok then push_all push b' r else (b', false)
  end.

Definition push_variant (b : body) (i : item) : body * bool :=
  helper b (fun b =>
    (* self.sig.push_static("v"); p.marshal_as_variant(ctx) *)
    let '(c, ok) := marshal_t (bbe b) (VVariant (fst i) (snd i)) {| mbuf := bbuf b; mfds := bfds b |} in
    ({| bbe := bbe b; bsig := bsig b ++ [c_v]; bbuf := mbuf c; bfds := mfds c |}, ok)).

Definition push_old_inner (b : body) (v : val) : body * bool :=
  (* crate::wire::marshal::container::marshal_param(p, &mut ctx)?; p.sig().to_str(..) *)
  let '(c, ok) := marshal_param_top (bbe b) v {| mbuf := bbuf b; mfds := bfds b |} in
  if ok then ({| bbe := bbe b; bsig := bsig b ++ to_str (ty_of v); bbuf := mbuf c; bfds := mfds c |}, true)
  else ({| bbe := bbe b; bsig := bsig b; bbuf := mbuf c; bfds := mfds c |}, false).
Definition push_old_param (b : body) (v : val) : body * bool := helper b (fun b => push_old_inner b v).

Fixpoint push_olds (b : body) (l : list val) : body * bool :=
  match l with
  | [] => (b, true)
  | v :: r => let '(b', ok) := push_old_param b v in if ok then push_olds b' r else (b', false)
  end.

Definition step_body (b : body) (o : bop) : body * bool :=
  match o with
  | Push i => push_param b i
  | PushN l | PushParams l => helper b (fun b => push_all push_param b l)
  | PushVariant i => push_variant b i
  | PushOld v => push_old_param b v
  | PushOlds l => helper b (fun b => push_olds b l)
  | Reset => ({| bbe := bbe b; bsig := []; bbuf := []; bfds := 0 |}, true)
  end.

Fixpoint run_body (b : body) (ops : list bop) : body * list bool :=
  match ops with
  | [] => (b, [])
  | o :: r => let '(b', ok) := step_body b o in let '(b'', oks) := run_body b' r in (b'', ok :: oks)
  end.

(** ** the parser *)
Record parser := { pbody : body; psig_idx : N; pbuf_idx : N }.
Definition new_parser (b : body) : parser := {| pbody := b; psig_idx := 0; pbuf_idx := 0 |}.

(* SignatureIter::new_at_idx(sig, sig_idx).next() *)
Definition get_next_sig (p : parser) : outcome (option (list N)) :=
  if len (bsig (pbody p)) <=? psig_idx p then Ok None
  else do r <- iter_next (skipnN (psig_idx p) (bsig (pbody p)));
       Ok (match r with Some (s, _) => Some s | None => None end).
(* .count() *)
Definition sigs_left (p : parser) : outcome N :=
  if len (bsig (pbody p)) <=? psig_idx p then Ok 0
  else do l <- iter_all (S (length (bsig (pbody p)))) (skipnN (psig_idx p) (bsig (pbody p))); Ok (len l).

Inductive gres := GVal (v : val) | GWrongSig | GEnd | GErr.

(* get::<T>() *)
Definition get (p : parser) (e : ety) : outcome (parser * gres) :=
  do ns <- get_next_sig p;
  match ns with
  | None => Ok (p, GEnd)
  | Some s =>
      do hs <- has_sig e s;
      if negb hs then Ok (p, GWrongSig)
      else
        match unmarshal_t 66 (bbe (pbody p)) e
                {| ubuf := bbuf (pbody p); uoff := pbuf_idx p; unfds := bfds (pbody p); udepth := 0 |} with
        | Ok (v, c) => Ok ({| pbody := pbody p; psig_idx := psig_idx p + len s; pbuf_idx := uoff c |}, GVal v)
        | Err => Ok (p, GErr)
        | Panic => Panic | UB => UB | OutOfFuel => OutOfFuel
        end
  end.

(* get2..get5 through get_mult_helper: count check, then all-or-nothing *)
Fixpoint get_all (p : parser) (es : list ety) (acc : list val) : outcome (parser * option (list val)) :=
  match es with
  | [] => Ok (p, Some (rev acc))
  | e :: r =>
      do g <- get p e;
      match g with
      | (p', GVal v) => get_all p' r (v :: acc)
      | (_, _) => Ok (p, None)
      end
  end.
Definition get_n (p : parser) (es : list ety) : outcome (parser * option (list val)) :=
  do n <- sigs_left p;
  if n <? len es then Ok (p, None)
  else do r <- get_all p es [];
       match r with
       | (p', Some vs) => Ok (p', Some vs)
       | (_, None) => Ok (p, None)                          (* restore sig_idx and buf_idx *)
       end.

(* get_param *)
Definition get_param (p : parser) : outcome (parser * gres) :=
  do ns <- get_next_sig p;
  match ns with
  | None => Ok (p, GEnd)
  | Some s =>
      match parse_description s with
      | Ok (t :: _) =>
          match unmarshal_p 66 (bbe (pbody p)) t
                  {| ubuf := bbuf (pbody p); uoff := pbuf_idx p; unfds := bfds (pbody p); udepth := 0 |} with
          | Ok (v, c) => Ok ({| pbody := pbody p; psig_idx := psig_idx p + len s; pbuf_idx := uoff c |}, GVal v)
          | Err => Ok (p, GErr)
          | Panic => Panic | UB => UB | OutOfFuel => OutOfFuel
          end
      | Ok [] => Panic                                       (* [0] on an empty vector *)
      | Err => Ok (p, GErr)
      | _ => Panic
      end
  end.
