(** Non-vacuity for C15: a history with successful, failing (at an inner element) and reset
    operations, evaluated by the model; and a parser walk with a mismatching request. *)
From RB Require Import Base.Prelude Sig.Types Wire.Value Wire.SpecEnc Wire.Marshal Wire.Relabel Wire.MarshalProofs
  Wire.Unmarshal Wire.Body Wire.BodyProofs.

Definition u32t := TBase BUint32.
Definition ops_ex : list bop :=
  [ Push (u32t, VBase BUint32 7);
    Push (TStruct [u32t; TBase BUnixFd], VStruct [VBase BUint32 5; VBase BUnixFd 1]);          (* fails: taken descriptor *)
    PushN [(TBase BUnixFd, VBase BUnixFd 0); (TBase BString, VText BString [97; 0])];           (* fails at the 2nd element *)
    PushVariant (TBase BString, VText BString [97; 98]);
    Reset;
    Push (TBase BString, VText BString [97; 98]);
    PushOld (VArray (TBase BUint64) [VBase BUint64 1]) ].

Example ex_history :
  let '(b, oks) := run_body (new_body false) ops_ex in
  oks = [true; false; false; true; true; true; true]
  /\ (bsig b, bbuf b, bfds b) = render false (committed ops_ex oks [])
  /\ bsig b = [115; 97; 116] /\ bfds b = 0.
Proof. vm_compute. repeat split. Qed.

Lemma ops_ok_b ops :
  forallb (fun o => forallb (fun it : citem => wtv (snd it) && strings_small (snd it)) (items_of o)) ops = true ->
  Forall op_ok ops.
Proof.
  intros H. apply Forall_forall. intros o Ho. rewrite forallb_forall in H. specialize (H o Ho).
  unfold op_ok. apply Forall_forall. intros it Hit. rewrite forallb_forall in H. specialize (H it Hit).
  apply andb_prop in H. destruct H as [H1 H2]. split; [exists (ty_of (snd it)); exact H1|exact H2].
Qed.

Example ex_ops_ok : Forall op_ok ops_ex /\ total_fds ops_ex <= 2 ^ 32.
Proof. split; [apply ops_ok_b; vm_compute; reflexivity|vm_compute; discriminate]. Qed.

Example ex_parser :
  let b := fst (run_body (new_body false) ops_ex) in
  let p := new_parser b in
  match get p (EBase BUint32) with
  | Ok (p1, GWrongSig) =>
      p1 = p /\ match get p (EBase BString) with
                | Ok (p2, GVal v) => v = VText BString [97; 98] /\ psig_idx p2 = 1 /\ pbuf_idx p2 = 7
                | _ => False
                end
  | _ => False
  end.
Proof. vm_compute. repeat split. Qed.
