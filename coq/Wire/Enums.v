(** Models of the three generators of variant enums:
    (1) #[derive(Marshal, Unmarshal, Signature)] on an enum (rustbus_derive/src/variants.rs:
        variant_marshal, variant_unmarshal, make_variant_unmarshal_impl, make_variant_signature_imp),
    (2) dbus_variant_sig!  (rustbus/src/wire/variant_macros.rs: dbus_variant_sig_marshal, dbus_variant_sig_unmarshal),
    (3) dbus_variant_var!  (same file: dbus_variant_var_marshal, dbus_variant_var_unmarshal).
    All three have signature "v", alignment 1 and has_sig = starts_with('v').
    A value of such an enum is a case together with its payload; the payload types are types of the
    algebra [rty] (Wire/Derive.v). *)
From RB Require Import Base.Prelude Sig.Types Sig.Parser Sig.Validator Sig.Iter Wire.Bytes Wire.Align Wire.Text Wire.Value
  Wire.SpecEnc Wire.Marshal Wire.Decode Wire.Unmarshal Wire.HasSig Wire.Derive.

(** ** cases *)
Inductive ecase :=
| CSingle (r : rty)                        (* Name(T): exactly one unnamed field *)
| CFields (named : bool) (rs : list rty).  (* Name(T1, .., Tn), n > 1 (named = false) or Name { f1: T1, .. } (named = true):
                                              the generator emits the same code for both *)

(* the payload of an enum value *)
Inductive epay :=
| PSingle (v : val)
| PFields (vs : list val).
Definition payload_val (p : epay) : val := match p with PSingle v => v | PFields vs => VStruct vs end.

(* the Rust type that decodes like the case's payload: several fields are treated "as a struct" *)
Definition case_rty (k : ecase) : rty := match k with CSingle r => r | CFields _ rs => RDerived rs end.
Definition case_ty (k : ecase) : ty := sig_r (case_rty k).

(* the signature text the generated code builds for a case:
   single: <T as Signature>::sig_str;  fields: "(" + each field's sig_str + ")" *)
Definition case_sig_str (k : ecase) : list N :=
  match k with
  | CSingle r => sig_str_r r
  | CFields _ rs => [c_lpar] ++ flat_map sig_str_r rs ++ [c_rpar]
  end.

(* Signature for all three enum kinds: signature() = Variant, alignment() = 1, has_sig = starts_with('v') *)
Definition enum_sig : ty := TVariant.
Definition enum_align : N := 1.
Definition enum_has_sig (s : list N) : outcome bool := Ok (starts_with c_v s).

(** ** marshal *)
(* ctx.buf[pos] = x *)
Definition set_byte (pos x : N) (buf : list N) : list N := firstnN pos buf ++ [x] ++ skipnN (pos + 1) buf.

(* variant_marshal: one match arm per case (after fix dec59e1: a case signature of more than 255 bytes is refused; after
   fix ef1b771: a case signature the protocol forbids, e.g. nested too deeply, is refused) *)
Definition derive_case_marshal (be : bool) (k : ecase) (p : epay) (c : mctx) : mres :=
  match k, p with
  | CSingle r, PSingle v =>
      (* sig_str; if sig_str.len() > 255 { return Err(SignatureTooLong) }; validate_signature(sig_str)?;
         util::write_signature(sig_str, buf); val.marshal(ctx) *)
      if 255 <? len (sig_str_r r) then (c, false)
      else if is_ok (validate_signature (sig_str_r r)) then
        marshal_t be v {| mbuf := write_signature (sig_str_r r) (mbuf c); mfds := mfds c |}
      else (c, false)
  | CFields _ rs, PFields vs =>
      (* let pos = buf.len(); push(0); push('('); each field's sig_str; push(')'); push(0);
         let sig_len = buf.len() - pos - 2;
         if sig_len > 255 { buf.truncate(pos); return Err(SignatureTooLong) }
         buf[pos] = sig_len as u8;
         let valid = from_utf8(&buf[pos + 1..pos + 1 + sig_len]).map(|sig| validate_signature(sig).is_ok()).unwrap_or(false);
           (the bytes are sig_str output; the validator refuses every byte that is not a type character, so a failing
            from_utf8 and a failing validation coincide)
         if !valid { buf.truncate(pos); return Err(NestingTooDeep) }
         ctx.align_to(8); each field .marshal(ctx)? *)
      let pos := len (mbuf c) in
      let b1 := mbuf c ++ [0] ++ [c_lpar] ++ flat_map sig_str_r rs ++ [c_rpar] ++ [0] in
      let sig_len := len b1 - pos - 2 in
      if 255 <? sig_len then ({| mbuf := firstnN pos b1; mfds := mfds c |}, false) else
      let b2 := set_byte pos (sig_len mod 256) b1 in
      if negb (is_ok (validate_signature (slice b2 (pos + 1) sig_len))) then ({| mbuf := firstnN pos b2; mfds := mfds c |}, false) else
      derive_struct_marshal (map (marshal_t be) vs) {| mbuf := b2; mfds := mfds c |}
  | _, _ => (c, false)          (* not a value of the enum: cannot be written in Rust *)
  end.

(* dbus_variant_sig_marshal, arm Self::$name(v):
   sig_str; SignatureWrapper::new(sig_str)? (validates); sig.marshal (write_signature); v.marshal(ctx)?
   The arm Self::Catchall(_) is unimplemented!() - a programming error, outside the property. *)
Definition sig_macro_marshal (be : bool) (r : rty) (v : val) (c : mctx) : mres :=
  if is_ok (validate_signature (sig_str_r r)) then
    marshal_t be v {| mbuf := write_signature (sig_str_r r) (mbuf c); mfds := mfds c |}
  else (c, false).

(* dbus_variant_var_marshal, arm Self::$name(v): v.marshal_as_variant(ctx)?  (Marshal::marshal_as_variant: length test,
   validate_signature (fix ef1b771), write_signature, marshal); Catchall as above *)
Definition var_macro_marshal (be : bool) (r : rty) (v : val) (c : mctx) : mres :=
  let sg := sig_str_r r in
  if 255 <? len sg then (c, false)
  else if is_ok (validate_signature sg) then marshal_t be v {| mbuf := write_signature sg (mbuf c); mfds := mfds c |}
  else (c, false).

(** ** unmarshal *)
Inductive eres :=
| ECase (i : nat) (v : val)                  (* the i-th case with this payload (fields: as a struct value) *)
| ECatchSig (t : ty)                         (* dbus_variant_sig!: Catchall(signature::Type) *)
| ECatchVar (t : ty) (sub : uctx).           (* dbus_variant_var!: Catchall(unmarshal::traits::Variant { sig, sub_ctx }) *)

(* sig.eq(&expected_sig) on strings *)
Fixpoint str_eqb (a b : list N) : bool :=
  match a, b with
  | [], [] => true
  | x :: a', y :: b' => (x =? y) && str_eqb a' b'
  | _, _ => false
  end.

(* variant_unmarshal: the code emitted for each case, in order; a case whose text matches decides *)
Fixpoint derive_enum_cases (vf : nat) (be : bool) (cs : list ecase) (i : nat) (sg : list N) (c : uctx)
  : outcome (eres * uctx) :=
  match cs with
  | [] => Err                                            (* Err(NoMatchingVariantFound) *)
  | k :: rest =>
      if str_eqb sg (case_sig_str k) then
        (* single: <T as Unmarshal>::unmarshal(ctx)?;
           fields: ctx.align_to(8)?; each field's unmarshal(ctx)? - the code of a derived struct *)
        do r <- unmarshal_r vf be (case_rty k) c;
        Ok (ECase i (fst r), snd r)
      else derive_enum_cases vf be rest (S i) sg c
  end.
(* make_variant_unmarshal_impl: let sig = ctx.read_signature()?; <cases>; Err(NoMatchingVariantFound) *)
Definition derive_enum_unmarshal (vf : nat) (be : bool) (cs : list ecase) (c : uctx) : outcome (eres * uctx) :=
  do r <- u_read_sig c;
  derive_enum_cases vf be cs 0 (fst r) (snd r).

(* dbus_variant_sig_unmarshal: $( if sig == <$typ as Signature>::signature() { unmarshal; return } )+ *)
Fixpoint sig_macro_cases (vf : nat) (be : bool) (cs : list rty) (i : nat) (t : ty) (c : uctx)
  : outcome (option (eres * uctx)) :=
  match cs with
  | [] => Ok None
  | r :: rest =>
      if ty_eqb t (sig_r r) then
        do x <- unmarshal_r vf be r c; Ok (Some (ECase i (fst x), snd x))
      else sig_macro_cases vf be rest (S i) t c
  end.
Definition sig_macro_unmarshal (vf : nat) (be : bool) (cs : list rty) (c : uctx) : outcome (eres * uctx) :=
  do r <- u_read_sig c;
  do tys <- parse_description (fst r);
  match tys with
  | [t] =>
      do m <- sig_macro_cases vf be cs 0 t (snd r);
      match m with
      | Some x => Ok x
      | None =>
          (* ctx.sub_context_for_value(&sig)?: enter_container, validate_marshalled_at_depth at the cursor,
             sub_context(val_bytes) (which advances), leave_container;  Ok(Self::Catchall(sig)) *)
          let c1 := snd r in
          do c2 <- u_enter c1;
          do n <- validate 66 be (udepth c2) (uoff c2) (ubuf c2) t;
          do s <- u_sub n c2;
          Ok (ECatchSig t, u_leave (snd s))
      end
  | _ => Err                                             (* Err(WrongSignature) *)
  end.

(* dbus_variant_var_unmarshal: $( var_sig = sig_str of $typ; if sig_str == var_sig { unmarshal; return } )+ *)
Fixpoint var_macro_cases (vf : nat) (be : bool) (cs : list rty) (i : nat) (sg : list N) (c : uctx)
  : outcome (option (eres * uctx)) :=
  match cs with
  | [] => Ok None
  | r :: rest =>
      if str_eqb sg (sig_str_r r) then
        do x <- unmarshal_r vf be r c; Ok (Some (ECase i (fst x), snd x))
      else var_macro_cases vf be rest (S i) sg c
  end.
Definition var_macro_unmarshal (vf : nat) (be : bool) (cs : list rty) (c : uctx) : outcome (eres * uctx) :=
  do r <- u_read_sig c;
  do m <- var_macro_cases vf be cs 0 (fst r) (snd r);
  match m with
  | Some x => Ok x
  | None =>
      (* let Ok(sigs) = parse_description(sig_str) else Err(WrongSignature); len != 1 -> Err;
         Variant::unmarshal_with_sig(sig, ctx)?: align_to(sig.get_alignment()), sub_context_for_value *)
      match parse_description (fst r) with
      | Ok [t] =>
          do c1 <- u_align (align t) (snd r);
          (* sub_context_for_value: the sub-context is split off while the depth is raised, so it carries depth + 1 *)
          do c2 <- u_enter c1;
          do n <- validate 66 be (udepth c2) (uoff c2) (ubuf c2) t;
          do s <- u_sub n c2;
          Ok (ECatchVar t (fst s), u_leave (snd s))
      | _ => Err
      end
  end.

(* Catchall(var).get::<T>() (unmarshal::traits::Variant::get): signature check, then T::unmarshal on a copy of the sub-context *)
Definition catch_var_get (vf : nat) (be : bool) (t : ty) (sub : uctx) (r : rty) : outcome val :=
  if ty_eqb t (sig_r r) then do x <- unmarshal_r vf be r sub; Ok (fst x) else Err.
