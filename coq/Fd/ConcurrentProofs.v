(** C12 — invariant of the interleaving model [Fd/Concurrent.v] and the lemmas behind
    [Properties/C12.v]. Everything is by induction over the schedule: [Inv] holds initially
    ([inv_init]) and is preserved by every atomic action of every thread ([step_inv]). *)
From RB Require Import Base.Prelude Fd.Concurrent.

Local Close Scope N_scope.
Local Open Scope nat_scope.

(** * Generic list facts *)

Fixpoint sumf (f : thread -> nat) (l : list thread) : nat :=
  match l with [] => 0 | x :: r => f x + sumf f r end.

Lemma sumf_upd f l : forall t th th', nth_error l t = Some th ->
  sumf f (upd t th' l) + f th = sumf f l + f th'.
Proof.
  induction l as [|x r IH]; intros [|t] th th' H; cbn in *; try discriminate.
  - injection H as ->. lia.
  - specialize (IH _ _ th' H). lia.
Qed.

Lemma sumf_ge f l : forall t th, nth_error l t = Some th -> f th <= sumf f l.
Proof.
  induction l as [|x r IH]; intros [|t] th H; cbn in *; try discriminate.
  - injection H as ->. lia.
  - specialize (IH _ _ H). lia.
Qed.

Lemma sumf_le2 f g l : (forall x, f x <= g x) -> forall t th, nth_error l t = Some th ->
  sumf f l + g th <= sumf g l + f th.
Proof.
  intros Hfg. induction l as [|x r IH]; intros [|t] th H; cbn in *; try discriminate.
  - injection H as ->. clear IH. induction r as [|y r IHr]; cbn; [lia|]. specialize (Hfg y). lia.
  - specialize (IH _ _ H). specialize (Hfg x). lia.
Qed.

Lemma sumf_zero f l : sumf f l = 0 -> forall t th, nth_error l t = Some th -> f th = 0.
Proof. intros H t th E. pose proof (sumf_ge f l t th E). lia. Qed.

Lemma nth_upd_same {A} (l : list A) : forall t x y, nth_error l t = Some y -> nth_error (upd t x l) t = Some x.
Proof. induction l; intros [|t] x y H; cbn in *; try discriminate; eauto. Qed.

Lemma nth_upd_other {A} (l : list A) : forall t t' x, t <> t' -> nth_error (upd t x l) t' = nth_error l t'.
Proof. induction l; intros [|t] [|t'] x H; cbn in *; try congruence; eauto. Qed.

Lemma upd_same {A} (l : list A) : forall t x, nth_error l t = Some x -> upd t x l = l.
Proof. induction l; intros [|t] x H; cbn in *; try discriminate; [congruence|f_equal; eauto]. Qed.

Lemma upd_length {A} (l : list A) : forall t x, length (upd t x l) = length l.
Proof. induction l; intros [|t] x; cbn; auto. Qed.

Lemma upd_nil_iff {A} (l : list A) t x : upd t x l = [] <-> l = [].
Proof. destruct l, t; cbn; split; congruence. Qed.

Lemma has_In h l : has h l = true <-> In h l.
Proof.
  unfold has. rewrite existsb_exists. split.
  - intros (x & Hx & E). apply Nat.eqb_eq in E. now subst.
  - intros H. exists h. split; [assumption|apply Nat.eqb_refl].
Qed.

Lemma rm1_length h l : has h l = true -> S (length (rm1 h l)) = length l.
Proof.
  induction l as [|x r IH]; cbn; [discriminate|].
  destruct (Nat.eqb h x); cbn; [reflexivity|]. intros H. rewrite IH; auto.
Qed.

Lemma has_length h l : has h l = true -> 1 <= length l.
Proof. destruct l; cbn; [discriminate|lia]. Qed.

(** * Suffix-indexed properties of the log (newest first: the tail of an event is its past) *)

Fixpoint ForallSuf (P : event -> list event -> Prop) (l : list event) : Prop :=
  match l with [] => True | e :: r => P e r /\ ForallSuf P r end.

Lemma ForallSuf_split P l :
  ForallSuf P l <-> forall newer e older, l = newer ++ e :: older -> P e older.
Proof.
  induction l as [|x r IH]; cbn.
  - split; [|trivial]. intros _ [|? ?] ? ? H; discriminate.
  - rewrite IH. split.
    + intros [H1 H2] [|y newer] e older E; cbn in E; injection E as -> ->; eauto.
    + intros H. split.
      * apply (H [] x r eq_refl).
      * intros newer e older ->. apply (H (x :: newer) e older eq_refl).
Qed.

Fixpoint cnt (p : event -> bool) (l : list event) : nat :=
  match l with [] => 0 | e :: r => (if p e then 1 else 0) + cnt p r end.

Lemma cnt_app p a b : cnt p (a ++ b) = cnt p a + cnt p b.
Proof. induction a; cbn; lia. Qed.

Lemma cnt_rev p a : cnt p (rev a) = cnt p a.
Proof. induction a; cbn; [reflexivity|]. rewrite cnt_app; cbn. lia. Qed.

Lemma cnt_zero_iff p l : cnt p l = 0 <-> forall e, In e l -> p e = false.
Proof.
  induction l as [|x r IH]; cbn.
  - split; [intros _ e []|reflexivity].
  - split.
    + intros H e [->|Hin]; [destruct (p e); [discriminate|reflexivity]|]. apply IH; [lia|assumption].
    + intros H. rewrite (H x (or_introl eq_refl)). apply IH. intros e He. apply H. now right.
Qed.

Lemma cnt_pos_ex p l : 0 < cnt p l -> exists e, In e l /\ p e = true.
Proof.
  induction l as [|x r IH]; cbn; [lia|].
  destruct (p x) eqn:E; [exists x; auto|]. intros H. destruct IH as (e & ? & ?); [lia|]. exists e; auto.
Qed.

Lemma cnt_filter_length p l : cnt p l = length (filter p l).
Proof. induction l as [|x r IH]; cbn; [reflexivity|]. destruct (p x); cbn; lia. Qed.

(** * Event classifiers *)
Definition is_takecas e := match e with EvTakeCas _ _ => true | _ => false end.
Definition is_dtorcas e := match e with EvDtorCas _ _ => true | _ => false end.
Definition is_deczero e := match e with EvDecZero _ => true | _ => false end.
Definition is_close e := match e with EvClose _ _ => true | _ => false end.
Definition is_take_some e := match e with EvRet _ _ (RTake (Some _)) => true | _ => false end.

(** thread id of an event *)
Definition ev_tid e :=
  match e with
  | EvStart t _ | EvTakeCas t _ | EvDtorCas t _ | EvDecZero t | EvDupSys t _ _ | EvClose t _ | EvRet t _ _ => t
  end.

(** * Per-thread indicators *)
Definition nlive (th : thread) : nat := length (live th).
Definition holds_take (th : thread) : nat :=
  match pc th with
  | TakeDec _ (Some _) => 1
  | DtorLoad (RTake (Some _)) | DtorCas _ (RTake (Some _)) | DtorClose _ (RTake (Some _)) => 1
  | _ => 0
  end.
Definition in_close (th : thread) : nat := match pc th with DtorClose _ _ => 1 | _ => 0 end.
Definition in_dtor (th : thread) : nat :=
  match pc th with DtorLoad _ | DtorCas _ _ | DtorClose _ _ => 1 | _ => 0 end.

Arguments nlive !th /.
Arguments holds_take !th /.
Arguments in_close !th /.
Arguments in_dtor !th /.

Lemma in_close_le_dtor th : in_close th <= in_dtor th.
Proof. destruct th as [? ? [] ? ?]; cbn; lia. Qed.

(** * "Gone" results and "started after the take" *)

(** the descriptor was reported as gone (or the call is not a get/take/dup) *)
Definition gone (r : res) : Prop :=
  match r with RTake (Some _) | RGet (Some _) | RDup (Some _) => False | _ => True end.

(** [e] is the first atomic action of operation i of thread t => no successful take before it *)
Definition no_take_before (t i : nat) (e : event) (older : list event) : Prop :=
  e = EvStart t i -> cnt is_takecas older = 0.
Definition NB (lg : list event) (t i : nat) : Prop := ForallSuf (no_take_before t i) lg.

Lemma NB_cons_other lg t i e : e <> EvStart t i -> NB lg t i -> NB (e :: lg) t i.
Proof. intros Hne H. split; [intros E; contradiction|exact H]. Qed.

Lemma NB_cons_start lg t i : cnt is_takecas lg = 0 -> NB lg t i -> NB (EvStart t i :: lg) t i.
Proof. intros H0 H. split; [intros _; exact H0|exact H]. Qed.

Lemma NB_of_no_take lg t i : cnt is_takecas lg = 0 -> NB lg t i.
Proof.
  intros H. apply ForallSuf_split. intros newer e older -> _.
  rewrite cnt_app in H. cbn in H. lia.
Qed.

(** * The invariant *)

Definition okk (fd0 : Z) (k : res) : Prop := k = RDrop \/ k = RTake None \/ k = RTake (Some fd0).

Definition dt_ok (fd0 : Z) (lg : list event) (t : nat) (th : thread) (k : res) : Prop :=
  okk fd0 k /\ In (EvDecZero t) lg /\ In (EvStart t (done th)) lg /\ (~ gone k -> NB lg t (done th)).

Definition th_ok (fd0 : Z) (lg : list event) (t : nat) (th : thread) : Prop :=
  match pc th with
  | Idle => True
  | TakeCas h v => v = fd0 /\ has h (live th) = true /\ In (EvStart t (done th)) lg /\ NB lg t (done th)
  | TakeDec h r => has h (live th) = true /\ In (EvStart t (done th)) lg
                   /\ (r = None \/ (r = Some fd0 /\ NB lg t (done th)))
  | DupSys v => v = fd0 /\ In (EvStart t (done th)) lg /\ NB lg t (done th)
  | DtorLoad k => dt_ok fd0 lg t th k
  | DtorCas v k => v = fd0 /\ dt_ok fd0 lg t th k
  | DtorClose v k => v = fd0 /\ dt_ok fd0 lg t th k
  end.

Definition ev_ok (fd0 nf : Z) (e : event) : Prop :=
  match e with
  | EvClose _ fd => fd = fd0
  | EvDupSys _ src new => src = fd0 /\ (fd0 < new < nf)%Z
  | EvTakeCas _ v | EvDtorCas _ v => v = fd0
  | _ => True
  end.

Definition ret_ok (fd0 : Z) (e : event) (older : list event) : Prop :=
  forall t i r, e = EvRet t i r ->
    In (EvStart t i) older /\ (~ gone r -> NB older t i)
    /\ (forall v, r = RTake (Some v) -> v = fd0) /\ (forall v, r = RGet (Some v) -> v = fd0).

Definition close_ok (e : event) (older : list event) : Prop :=
  forall t fd, e = EvClose t fd -> In (EvDecZero t) older /\ cnt is_close older = 0.

Definition dup_ok (e : event) (older : list event) : Prop :=
  forall t s n, e = EvDupSys t s n -> forall t' s' n', In (EvDupSys t' s' n') older -> (n' < n)%Z.

Record Inv (fd0 : Z) (c : cfg) : Prop := mkInv {
  i_fd : fd0 <> FD_INVALID;
  i_cell : (cell (sh c) = fd0 /\ cnt is_takecas (log (sh c)) + cnt is_dtorcas (log (sh c)) = 0)
        \/ (cell (sh c) = FD_INVALID /\ cnt is_takecas (log (sh c)) + cnt is_dtorcas (log (sh c)) = 1);
  i_strong : strong (sh c) = sumf nlive (threads c);
  i_take : cnt is_take_some (log (sh c)) + sumf holds_take (threads c) = cnt is_takecas (log (sh c));
  i_close : cnt is_close (log (sh c)) + sumf in_close (threads c) = cnt is_dtorcas (log (sh c));
  i_dz1 : cnt is_deczero (log (sh c)) <= 1;
  i_dz2 : cnt is_deczero (log (sh c)) = 1 -> strong (sh c) = 0;
  i_dz3 : strong (sh c) = 0 -> cnt is_deczero (log (sh c)) = 1 \/ threads c = [];
  i_dz4 : sumf in_dtor (threads c) + cnt is_close (log (sh c)) <= cnt is_deczero (log (sh c));
  i_dz5 : cnt is_takecas (log (sh c)) = 0 ->
          cnt is_deczero (log (sh c)) = sumf in_dtor (threads c) + cnt is_close (log (sh c));
  i_next : (fd0 < next_fd (sh c))%Z;
  i_evs : Forall (ev_ok fd0 (next_fd (sh c))) (log (sh c));
  i_threads : forall t th, nth_error (threads c) t = Some th -> th_ok fd0 (log (sh c)) t th;
  i_rets : ForallSuf (ret_ok fd0) (log (sh c));
  i_closeord : ForallSuf close_ok (log (sh c));
  i_dupord : ForallSuf dup_ok (log (sh c))
}.

(** * Initially *)
Lemma sumf_init f progs : (forall p, f (init_thread p) = f (init_thread [])) ->
  sumf f (map init_thread progs) = length progs * f (init_thread []).
Proof. intros H. induction progs as [|p r IH]; cbn [map sumf length]; [reflexivity|]. rewrite IH, H. lia. Qed.

Lemma inv_init fd0 progs : fd0 <> FD_INVALID -> Inv fd0 (init fd0 progs).
Proof.
  intros Hfd. constructor; cbn; auto; try lia.
  - rewrite sumf_init by reflexivity. cbn. lia.
  - rewrite sumf_init by reflexivity. cbn. lia.
  - rewrite sumf_init by reflexivity. cbn. lia.
  - intros H. right. destruct progs; [reflexivity|discriminate].
  - rewrite sumf_init by reflexivity. cbn. lia.
  - rewrite sumf_init by reflexivity. cbn. lia.
  - intros t th H. apply nth_error_In in H. apply in_map_iff in H as (p & <- & _). exact I.
Qed.

(** * Preservation *)

Lemma th_ok_cons fd0 lg t' th e : ev_tid e <> t' -> th_ok fd0 lg t' th -> th_ok fd0 (e :: lg) t' th.
Proof.
  intros Hne. assert (Hs : forall i, e <> EvStart t' i) by (intros i ->; apply Hne; reflexivity).
  unfold th_ok, dt_ok. destruct (pc th); intros H; repeat match goal with
    | H : _ /\ _ |- _ => destruct H
    | |- _ /\ _ => split
    | |- In _ (_ :: _) => right; assumption
    | |- NB (_ :: _) _ _ => apply NB_cons_other; [apply Hs|assumption]
    end; auto.
  - destruct H1 as [->|[-> ?]]; [left; reflexivity|right; split; [reflexivity|apply NB_cons_other; auto]].
  - intros Hg. apply NB_cons_other; auto.
  - intros Hg. apply NB_cons_other; auto.
  - intros Hg. apply NB_cons_other; auto.
Qed.

Lemma ev_ok_mono fd0 nf nf' e : (nf <= nf')%Z -> ev_ok fd0 nf e -> ev_ok fd0 nf' e.
Proof. destruct e; cbn; intuition lia. Qed.

Ltac split_step ST :=
  unfold step_thread, dec_strong, retire, load_opt in ST;
  cbn [pc prog done live nexth cell strong next_fd log set_pc set_live emit set_cell set_strong set_next] in ST;
  repeat match type of ST with
  | context [if Z.eqb ?a ?b then _ else _] => destruct (Z.eqb a b) eqn:?;
      cbn [pc prog done live nexth cell strong next_fd log set_pc set_live emit set_cell set_strong set_next] in ST
  | context [match ?x with _ => _ end] => destruct x eqn:?;
      cbn [pc prog done live nexth cell strong next_fd log set_pc set_live emit set_cell set_strong set_next] in ST
  end;
  injection ST as <- <-.

Ltac bool_facts :=
  repeat match goal with
  | H : Z.eqb _ _ = true |- _ => apply Z.eqb_eq in H
  | H : Z.eqb _ _ = false |- _ => apply Z.eqb_neq in H
  | H : Nat.eqb _ _ = true |- _ => apply Nat.eqb_eq in H
  | H : Nat.eqb _ _ = false |- _ => apply Nat.eqb_neq in H
  end.

Ltac red_rec := unfold set_pc, set_live, emit, set_cell, set_strong, set_next;
  cbn [pc prog done live nexth cell strong next_fd log sh threads].
Ltac red_rec_in H := unfold set_pc, set_live, emit, set_cell, set_strong, set_next in H;
  cbn [pc prog done live nexth cell strong next_fd log sh threads] in H.
Ltac red_cnt := cbn [cnt is_takecas is_dtorcas is_deczero is_close is_take_some] in *.

Ltac solve_NB :=
  repeat first [ apply NB_cons_start; [lia|] | apply NB_cons_other; [discriminate|] ];
  first [ assumption | apply NB_of_no_take; lia ].

Ltac solve_In := cbn [In]; auto 6.

Ltac solve_evs :=
  repeat (apply Forall_cons; [cbn [ev_ok]; first [exact I | reflexivity | split; [reflexivity|lia] ] |]);
  first [ assumption
        | eapply Forall_impl; [|eassumption]; intros ? ?; eapply ev_ok_mono; [|eassumption]; lia ].

Ltac solve_gone_or_NB :=
  first [ solve [intros Hg; exfalso; apply Hg; exact I] | solve [intros _; solve_NB] ].

Ltac solve_ret_ok :=
  let Heq := fresh "Heq" in
  unfold ret_ok; intros ? ? ? Heq;
  first [ discriminate Heq
        | injection Heq as <- <- <-;
          repeat match goal with |- _ /\ _ => split end;
          [ solve_In
          | solve_gone_or_NB
          | let Hv := fresh in intros ? Hv; first [discriminate Hv | injection Hv as <-; first [reflexivity | lia]]
          | let Hv := fresh in intros ? Hv; first [discriminate Hv | injection Hv as <-; first [reflexivity | lia]] ] ].

Ltac solve_close_ok :=
  let Heq := fresh "Heq" in
  unfold close_ok; intros ? ? Heq;
  first [ discriminate Heq | injection Heq as <- <-; split; [solve_In | red_cnt; lia] ].

Ltac solve_dup_ok Ievs :=
  let Heq := fresh "Heq" in let Hin := fresh "Hin" in
  unfold dup_ok; intros ? ? ? Heq;
  first [ discriminate Heq
        | injection Heq as <- <- <-; intros ? ? ? Hin;
          rewrite Forall_forall in Ievs; apply Ievs in Hin; cbn [ev_ok] in Hin; lia ].

Lemma step_inv fd0 t c : Inv fd0 c -> Inv fd0 (step t c).
Proof.
  intros I. unfold step. destruct (nth_error (threads c) t) as [th|] eqn:E; [|exact I].
  destruct (step_thread t th (sh c)) as [th' s'] eqn:ST.
  destruct c as [[cl st nf lg] ths]. destruct th as [pg dn p lv nx].
  destruct I as [Ifd Icell Istrong Itake Iclose Idz1 Idz2 Idz3 Idz4 Idz5 Inext Ievs Ithreads Irets Icloseord Idupord].
  cbn [sh threads cell strong next_fd log] in *.
  assert (Idz3' : st = 0 -> cnt is_deczero lg = 1).
  { intros H. destruct (Idz3 H) as [Hx | ->]; [assumption|]. destruct t; discriminate. }
  clear Idz3.
  pose proof (Ithreads _ _ E) as Hth. unfold th_ok, dt_ok in Hth. cbn [pc done live] in Hth.
  pose proof (sumf_ge nlive _ _ _ E) as G1. pose proof (sumf_ge holds_take _ _ _ E) as G2.
  pose proof (sumf_ge in_close _ _ _ E) as G3. pose proof (sumf_ge in_dtor _ _ _ E) as G4.
  pose proof (sumf_le2 in_close in_dtor _ in_close_le_dtor _ _ E) as G5.
  split_step ST.
  all: cbn [nlive holds_take in_close in_dtor pc live] in G1, G2, G3, G4, G5.
  1: { rewrite (upd_same _ _ _ E). constructor; auto. }
  all: red_rec.
  all: bool_facts.
  all: match goal with |- Inv _ (mkCfg _ (upd ?t ?th' ?ths)) =>
         pose proof (sumf_upd nlive ths t _ th' E) as U1; pose proof (sumf_upd holds_take ths t _ th' E) as U2;
         pose proof (sumf_upd in_close ths t _ th' E) as U3; pose proof (sumf_upd in_dtor ths t _ th' E) as U4;
         cbn [nlive holds_take in_close in_dtor pc live length] in U1, U2, U3, U4
       end.
  all: try match goal with H : _ /\ _ |- _ => decompose [and] H; clear H end.
  all: try match goal with H : has ?h ?lv = true |- _ => pose proof (rm1_length _ _ H); pose proof (has_length _ _ H) end.
  all: try match goal with H : okk _ _ |- _ => destruct H as [-> | [-> | ->]] end.
  all: try match goal with H : _ = None \/ _ |- _ => destruct H as [-> | [-> ?]] end.
  all: subst.
  all: constructor; red_rec.
  all: try assumption.
  all: try solve [red_cnt; intros; lia].
  all: try match goal with H : ~ gone (RTake (Some _)) -> _ |- _ => specialize (H (fun x => x)) end.
  all: try solve [solve_evs].
  (* per-thread invariant *)
  all: try match goal with |- forall t0 th0, nth_error (upd _ _ _) t0 = Some th0 -> _ =>
         let t0 := fresh "t0" in let th0 := fresh "th0" in let H0 := fresh "H0" in
         intros t0 th0 H0; destruct (Nat.eq_dec t t0) as [<-|Hne];
         [ rewrite (nth_upd_same _ _ _ _ E) in H0; injection H0 as <-; unfold th_ok, dt_ok, okk; cbn [pc done live];
           repeat match goal with |- _ /\ _ => split end; auto; try solve_In; try lia; try solve [solve_NB]; try solve [intros; solve_NB]
         | rewrite nth_upd_other in H0 by assumption;
           repeat (apply th_ok_cons; [cbn [ev_tid]; assumption|]); apply Ithreads; assumption ]
       end.
  all: try solve [intros Hg; exfalso; apply Hg; exact I].
  all: try solve [right; split; [reflexivity|solve_NB]].
  all: try match goal with |- ForallSuf _ _ =>
         cbn [ForallSuf]; repeat match goal with |- _ /\ _ => split end; try assumption end.
  all: try solve [solve_ret_ok].
  all: try solve [solve_close_ok].
  all: try solve [solve_dup_ok Ievs].
Qed.

Lemma exec_inv fd0 sched : forall c, Inv fd0 c -> Inv fd0 (exec sched c).
Proof. induction sched as [|t r IH]; intros c I; cbn [exec]; [exact I|]. apply IH, step_inv, I. Qed.

Lemma inv_reach fd0 progs sched : fd0 <> FD_INVALID -> Inv fd0 (exec sched (init fd0 progs)).
Proof. intros H. apply exec_inv, inv_init, H. Qed.

(** * Consequences of the invariant, stated on the chronological [trace] *)

Lemma trace_split c pre e post :
  trace c = pre ++ e :: post -> log (sh c) = rev post ++ e :: rev pre.
Proof.
  unfold trace. intros H. apply (f_equal (@rev event)) in H. rewrite rev_involutive in H.
  rewrite H, rev_app_distr. cbn [rev]. rewrite <- app_assoc. reflexivity.
Qed.

Lemma In_trace c e : In e (trace c) <-> In e (log (sh c)).
Proof. unfold trace. symmetry. apply in_rev. Qed.

Lemma cnt_trace p c : cnt p (trace c) = cnt p (log (sh c)).
Proof. apply cnt_rev. Qed.

Lemma gone_dec r : gone r \/ ~ gone r.
Proof. destruct r as [[?|]|[?|]|[?|]| | | ]; cbn; auto. Qed.

Lemma sumf_all0 f l : (forall th, In th l -> f th = 0) -> sumf f l = 0.
Proof. induction l as [|x r IH]; cbn; intros H; [reflexivity|]. rewrite (H x), IH; auto. Qed.

Lemma sumf_0_all f l : sumf f l = 0 -> forall th, In th l -> f th = 0.
Proof.
  induction l as [|x r IH]; cbn; intros H th []; [subst; lia|]. apply IH; [lia|assumption].
Qed.

(** (a) at most one take returns Some, and it returns the original descriptor; so does every get *)
Lemma take_at_most_once fd0 c : Inv fd0 c ->
  cnt is_take_some (trace c) <= 1
  /\ cnt is_takecas (trace c) <= 1
  /\ (forall t i v, In (EvRet t i (RTake (Some v))) (trace c) -> v = fd0)
  /\ (forall t i v, In (EvRet t i (RGet (Some v))) (trace c) -> v = fd0).
Proof.
  intros I. rewrite !cnt_trace. destruct I. repeat split.
  - lia.
  - lia.
  - intros t i v H. apply In_trace, in_split in H as (newer & older & H).
    pose proof (proj1 (ForallSuf_split _ _) i_rets0 _ _ _ H) as R.
    destruct (R _ _ _ eq_refl) as (_ & _ & R3 & _). eauto.
  - intros t i v H. apply In_trace, in_split in H as (newer & older & H).
    pose proof (proj1 (ForallSuf_split _ _) i_rets0 _ _ _ H) as R.
    destruct (R _ _ _ eq_refl) as (_ & _ & _ & R4). eauto.
Qed.

(** every returned [Some] of a take is backed by THE successful compare_exchange *)
Lemma take_some_needs_cas fd0 c : Inv fd0 c ->
  cnt is_take_some (trace c) <= cnt is_takecas (trace c).
Proof. intros I. rewrite !cnt_trace. destruct I. lia. Qed.

(** (b) an operation whose first atomic action comes after the successful take's
    compare_exchange reports the descriptor as gone *)
Lemma after_take_gone fd0 c : Inv fd0 c ->
  forall pre tk v mid t i mid2 r post,
    trace c = pre ++ EvTakeCas tk v :: mid ++ EvStart t i :: mid2 ++ EvRet t i r :: post ->
    gone r.
Proof.
  intros I pre tk v mid t i mid2 r post H.
  replace (pre ++ EvTakeCas tk v :: mid ++ EvStart t i :: mid2 ++ EvRet t i r :: post)
    with ((pre ++ EvTakeCas tk v :: mid ++ EvStart t i :: mid2) ++ EvRet t i r :: post) in H
    by (rewrite <- !app_assoc; cbn; rewrite <- !app_assoc; reflexivity).
  apply trace_split in H.
  pose proof (proj1 (ForallSuf_split _ _) (i_rets _ _ I) _ _ _ H) as R.
  destruct (R _ _ _ eq_refl) as (_ & R2 & _).
  destruct (gone_dec r) as [G|G]; [exact G|exfalso].
  specialize (R2 G).
  assert (E : rev (pre ++ EvTakeCas tk v :: mid ++ EvStart t i :: mid2)
              = rev mid2 ++ EvStart t i :: rev (pre ++ EvTakeCas tk v :: mid)).
  { replace (pre ++ EvTakeCas tk v :: mid ++ EvStart t i :: mid2)
      with ((pre ++ EvTakeCas tk v :: mid) ++ EvStart t i :: mid2)
      by (rewrite <- !app_assoc; reflexivity).
    rewrite rev_app_distr. cbn [rev]. rewrite <- app_assoc. reflexivity. }
  pose proof (proj1 (ForallSuf_split _ _) R2 _ _ _ E eq_refl) as Z0.
  rewrite cnt_rev, cnt_app in Z0. cbn in Z0. lia.
Qed.

(** every return has its start before it (so (b) speaks about every finished operation) *)
Lemma ret_has_start fd0 c : Inv fd0 c ->
  forall pre t i r post, trace c = pre ++ EvRet t i r :: post -> In (EvStart t i) pre.
Proof.
  intros I pre t i r post H. apply trace_split in H.
  pose proof (proj1 (ForallSuf_split _ _) (i_rets _ _ I) _ _ _ H) as R.
  destruct (R _ _ _ eq_refl) as (R1 & _). apply in_rev. exact R1.
Qed.

(** (c)(d)(e) closes *)
Lemma close_facts fd0 c : Inv fd0 c ->
  cnt is_close (trace c) <= 1
  /\ (forall t fd, In (EvClose t fd) (trace c) -> fd = fd0)
  /\ (forall pre t fd post, trace c = pre ++ EvClose t fd :: post -> In (EvDecZero t) pre)
  /\ cnt is_deczero (trace c) <= 1
  /\ (0 < strong (sh c) -> cnt is_close (trace c) = 0)
  /\ (0 < cnt is_takecas (trace c) -> cnt is_close (trace c) = 0)
  /\ (forall t s n, In (EvDupSys t s n) (trace c) ->
        s = fd0 /\ n <> fd0 /\ forall t' fd, In (EvClose t' fd) (trace c) -> fd <> n).
Proof.
  intros I. rewrite !cnt_trace.
  assert (Hcl : forall t fd, In (EvClose t fd) (trace c) -> fd = fd0).
  { intros t fd H. apply In_trace in H. pose proof (i_evs _ _ I) as F.
    rewrite Forall_forall in F. apply (F _ H). }
  assert (Hcnt : cnt is_close (log (sh c)) <= 1) by (destruct I; lia).
  repeat split.
  - exact Hcnt.
  - exact Hcl.
  - intros pre t fd post H. apply trace_split in H.
    pose proof (proj1 (ForallSuf_split _ _) (i_closeord _ _ I) _ _ _ H) as R.
    destruct (R _ _ eq_refl) as (R1 & _). apply in_rev. exact R1.
  - destruct I; lia.
  - destruct I; lia.
  - destruct I; lia.
  - apply In_trace in H. pose proof (i_evs _ _ I) as F. rewrite Forall_forall in F. apply (F _ H).
  - apply In_trace in H. pose proof (i_evs _ _ I) as F. rewrite Forall_forall in F.
    specialize (F _ H). cbn in F. lia.
  - intros t' fd H'. apply Hcl in H'. subst fd.
    apply In_trace in H. pose proof (i_evs _ _ I) as F. rewrite Forall_forall in F.
    specialize (F _ H). cbn in F. lia.
Qed.

Definition quiescent (c : cfg) : Prop := forall th, In th (threads c) -> pc th = Idle.
Definition all_handles_dropped (c : cfg) : Prop := forall th, In th (threads c) -> live th = [].

Lemma strong_is_live_handles fd0 c : Inv fd0 c ->
  strong (sh c) = sumf nlive (threads c) /\ (strong (sh c) = 0 <-> all_handles_dropped c).
Proof.
  intros I. split; [apply (i_strong _ _ I)|]. rewrite (i_strong _ _ I). unfold all_handles_dropped. split.
  - intros H th Hin. pose proof (sumf_0_all _ _ H th Hin) as L. destruct th as [? ? ? [|] ?]; cbn in *; [reflexivity|discriminate].
  - intros H. apply sumf_all0. intros th Hin. specialize (H th Hin). destruct th; cbn in *. subst. reflexivity.
Qed.

(** (c) when no thread is inside a call, nobody took the descriptor and all handles are
    dropped, close(fd0) has been called exactly once; and every successful take has returned *)
Lemma close_exactly_once fd0 c : Inv fd0 c -> quiescent c -> threads c <> [] ->
  (cnt is_takecas (trace c) = 0 -> all_handles_dropped c -> cnt is_close (trace c) = 1)
  /\ cnt is_take_some (trace c) = cnt is_takecas (trace c).
Proof.
  intros I Q NE. rewrite !cnt_trace.
  assert (Z1 : sumf in_dtor (threads c) = 0).
  { apply sumf_all0. intros th Hin. specialize (Q th Hin). destruct th; cbn in *. subst. reflexivity. }
  assert (Z2 : sumf holds_take (threads c) = 0).
  { apply sumf_all0. intros th Hin. specialize (Q th Hin). destruct th; cbn in *. subst. reflexivity. }
  split.
  - intros NT AD. apply (strong_is_live_handles _ _ I) in AD.
    pose proof (i_dz5 _ _ I NT). destruct (i_dz3 _ _ I AD) as [?|?]; [lia|contradiction].
  - pose proof (i_take _ _ I). lia.
Qed.

(** * Ownership: programs accepted by [ownership_respected] never perform an invalid operation *)

Definition own_th (th : thread) : Prop :=
  match pc th with
  | Idle => own_ok (prog th) (live th) (nexth th) = true
  | TakeCas h _ | TakeDec h _ =>
      has h (live th) = true /\ own_ok (tl (prog th)) (rm1 h (live th)) (nexth th) = true
  | DupSys _ => own_ok (tl (prog th)) (live th) (nexth th) = true
  | DtorLoad k | DtorCas _ k | DtorClose _ k =>
      k <> RInvalid /\ own_ok (tl (prog th)) (live th) (nexth th) = true
  end.

Definition no_invalid (lg : list event) : Prop := forall t i, ~ In (EvRet t i RInvalid) lg.

Record OwnInv (c : cfg) : Prop := mkOwnInv {
  o_th : forall th, In th (threads c) -> own_th th;
  o_log : no_invalid (log (sh c))
}.

Lemma In_upd {A} (l : list A) : forall t x y, In y (upd t x l) -> y = x \/ In y l.
Proof.
  induction l as [|a r IH]; intros [|t] x y H; cbn in *; try contradiction.
  - destruct H; auto.
  - destruct H as [->|H]; auto. destruct (IH _ _ _ H); auto.
Qed.

Lemma own_init progs : ownership_respected progs = true -> OwnInv (init 0%Z progs) /\
  forall fd0, OwnInv (init fd0 progs).
Proof.
  intros H. unfold ownership_respected in H. rewrite forallb_forall in H.
  assert (G : forall fd0, OwnInv (init fd0 progs)).
  { intros fd0. constructor; cbn.
    - intros th Hin. apply in_map_iff in Hin as (p & <- & Hp). cbn. apply H, Hp.
    - intros t i []. }
  split; [apply G|exact G].
Qed.

Lemma step_own t c : OwnInv c -> OwnInv (step t c).
Proof.
  intros [Oth Olog]. unfold step. destruct (nth_error (threads c) t) as [th|] eqn:E; [|constructor; assumption].
  destruct (step_thread t th (sh c)) as [th' s'] eqn:ST.
  destruct c as [[cl st nf lg] ths]. destruct th as [pg dn p lv nx].
  cbn [sh threads cell strong next_fd log] in *.
  pose proof (Oth _ (nth_error_In _ _ E)) as Hth. unfold own_th in Hth. cbn [pc prog live nexth] in Hth.
  split_step ST.
  1: { rewrite (upd_same _ _ _ E). constructor; assumption. }
  all: red_rec.
  all: cbn [own_ok tl] in Hth.
  all: repeat match goal with
       | H : _ /\ _ |- _ => destruct H
       | H : andb _ _ = true |- _ => apply andb_prop in H
       end.
  all: try congruence.
  all: constructor; red_rec.
  all: try (intros th0 Hin; apply In_upd in Hin as [->|Hin]; [unfold own_th; cbn [pc prog live nexth tl]; auto|apply Oth; exact Hin]).
  all: try (intros t0 i0 Hin; cbn [In] in Hin;
            repeat match goal with H : _ \/ _ |- _ => destruct H as [H|H]; [try discriminate H; try (injection H as ? ? ?; subst; congruence)|] end;
            eapply Olog; eassumption).
  all: split; [discriminate|assumption].
Qed.

Lemma exec_own sched : forall c, OwnInv c -> OwnInv (exec sched c).
Proof. induction sched as [|t r IH]; intros c I; cbn [exec]; [exact I|]. apply IH, step_own, I. Qed.

(** * Termination of the run-to-completion phase *)

Definition measure (th : thread) : nat :=
  match pc th with
  | Idle => 6 * length (prog th)
  | TakeCas _ _ => 6 * length (tl (prog th)) + 5
  | TakeDec _ _ => 6 * length (tl (prog th)) + 4
  | DtorLoad _ => 6 * length (tl (prog th)) + 3
  | DtorCas _ _ => 6 * length (tl (prog th)) + 2
  | DtorClose _ _ | DupSys _ => 6 * length (tl (prog th)) + 1
  end.

Lemma measure_bound th : measure th <= steps_bound th.
Proof. unfold measure, steps_bound. destruct th as [[|o pg] dn [] lv nx]; cbn [pc prog tl length]; lia. Qed.

Lemma measure_0_finished th : measure th = 0 <-> finished th = true.
Proof.
  unfold measure, finished. destruct th as [[|o pg] dn [] lv nx]; cbn [pc prog tl length]; split; intros H; try lia; try discriminate; reflexivity.
Qed.

Lemma step_thread_measure t th s th' s' : step_thread t th s = (th', s') ->
  (measure th = 0 /\ th' = th /\ s' = s) \/ measure th' < measure th.
Proof.
  intros ST. destruct th as [pg dn p lv nx]. destruct s as [cl st nf lg].
  split_step ST.
  all: try solve [left; cbn; auto].
  all: right; unfold measure; red_rec; cbn [tl length]; try lia.
  all: destruct pg; cbn [tl length]; lia.
Qed.

Lemma step_threads_other t c j : j <> t -> nth_error (threads (step t c)) j = nth_error (threads c) j.
Proof.
  intros H. unfold step. destruct (nth_error (threads c) t) eqn:E; [|reflexivity].
  destruct (step_thread t t0 (sh c)). cbn [threads]. apply nth_upd_other. auto.
Qed.

Lemma step_threads_length t c : length (threads (step t c)) = length (threads c).
Proof.
  unfold step. destruct (nth_error (threads c) t) eqn:E; [|reflexivity].
  destruct (step_thread t t0 (sh c)). cbn [threads]. apply upd_length.
Qed.

Lemma step_same_measure t c th : nth_error (threads c) t = Some th ->
  exists th', nth_error (threads (step t c)) t = Some th'
              /\ (measure th' < measure th \/ (measure th = 0 /\ th' = th)).
Proof.
  intros E. unfold step. rewrite E. destruct (step_thread t th (sh c)) as [th' s'] eqn:ST. cbn [threads].
  exists th'. split; [eapply nth_upd_same; eassumption|].
  apply step_thread_measure in ST. intuition.
Qed.

Lemma exec_app a : forall b c, exec (a ++ b) c = exec b (exec a c).
Proof. induction a as [|t r IH]; intros b c; cbn [app exec]; [reflexivity|apply IH]. Qed.

Lemma exec_length sched : forall c, length (threads (exec sched c)) = length (threads c).
Proof. induction sched as [|t r IH]; intros c; cbn [exec]; [reflexivity|]. rewrite IH. apply step_threads_length. Qed.

Lemma repeat_measure n : forall t c th, nth_error (threads c) t = Some th -> measure th <= n ->
  exists th', nth_error (threads (exec (repeat t n) c)) t = Some th' /\ measure th' = 0.
Proof.
  induction n as [|n IH]; intros t c th E M; cbn [repeat exec].
  - exists th. split; [assumption|lia].
  - destruct (step_same_measure _ _ _ E) as (th' & E' & M'). apply IH with th'; [assumption|].
    destruct M' as [?|[? ->]]; lia.
Qed.

Lemma exec_repeat_other n t : forall c j, j <> t ->
  nth_error (threads (exec (repeat t n) c)) j = nth_error (threads c) j.
Proof.
  induction n as [|n IH]; intros c j H; cbn [repeat exec]; [reflexivity|].
  rewrite IH by assumption. apply step_threads_other. assumption.
Qed.

Lemma exec_keeps_finished sched : forall c j th, nth_error (threads c) j = Some th -> measure th = 0 ->
  nth_error (threads (exec sched c)) j = Some th.
Proof.
  induction sched as [|t r IH]; intros c j th E M; cbn [exec]; [assumption|].
  apply IH; [|assumption]. destruct (Nat.eq_dec j t) as [->|Hne].
  - destruct (step_same_measure _ _ _ E) as (th' & E' & [?|[_ ->]]); [lia|assumption].
  - rewrite step_threads_other by assumption. assumption.
Qed.

Lemma completion_from_all suffix : forall k c,
  (forall j th, nth_error suffix j = Some th -> nth_error (threads c) (k + j) = Some th) ->
  length (threads c) = k + length suffix ->
  (forall j th, j < k -> nth_error (threads c) j = Some th -> measure th = 0) ->
  forall j th, nth_error (threads (exec (completion_from k suffix) c)) j = Some th -> measure th = 0.
Proof.
  induction suffix as [|th0 r IH]; intros k c Hsuf Hlen Hfin j th Hj; cbn [completion_from exec] in Hj.
  - apply (Hfin j th); [|assumption]. cbn in Hlen.
    assert (j < length (threads c)) by (apply nth_error_Some; congruence). lia.
  - rewrite exec_app in Hj.
    set (c1 := exec (repeat k (steps_bound th0)) c) in *.
    revert j th Hj. apply (IH (S k) c1).
    + intros j th Hr. unfold c1. rewrite exec_repeat_other by lia.
      replace (S k + j) with (k + S j) by lia. apply Hsuf. exact Hr.
    + unfold c1. rewrite exec_length. cbn [length] in Hlen. lia.
    + intros j th Hlt Hj.
      assert (E0 : nth_error (threads c) k = Some th0).
      { replace k with (k + 0) by lia. apply Hsuf. reflexivity. }
      destruct (Nat.eq_dec j k) as [->|Hne].
      * destruct (repeat_measure (steps_bound th0) k c th0 E0 (measure_bound th0)) as (th' & E' & M').
        fold c1 in E'. congruence.
      * assert (Hjk : j < k) by lia.
        destruct (nth_error (threads c) j) as [thj|] eqn:Ej.
        -- pose proof (Hfin j thj Hjk Ej) as Mj.
           pose proof (exec_keeps_finished (repeat k (steps_bound th0)) c j thj Ej Mj) as K.
           fold c1 in K. congruence.
        -- apply nth_error_None in Ej. lia.
Qed.

(** whatever the schedule did, after the run-to-completion phase every thread has finished *)
Lemma run_all_finished sched c : all_finished (run sched c) = true.
Proof.
  unfold run, all_finished, completion. set (c1 := exec sched c).
  apply forallb_forall. intros th Hin. apply In_nth_error in Hin as (j & Hj).
  apply measure_0_finished.
  apply (completion_from_all (threads c1) 0 c1) with (j := j); auto.
  - intros ? ? ?; lia.
Qed.

Lemma all_finished_quiescent c : all_finished c = true -> quiescent c.
Proof.
  unfold all_finished, quiescent. rewrite forallb_forall. intros H th Hin. specialize (H th Hin).
  unfold finished in H. destruct (pc th); try discriminate. reflexivity.
Qed.

Lemma run_inv fd0 progs sched : fd0 <> FD_INVALID -> Inv fd0 (run sched (init fd0 progs)).
Proof. intros H. unfold run. apply exec_inv, exec_inv, inv_init, H. Qed.

Lemma run_is_exec sched c : run sched c = exec (sched ++ completion (exec sched c)) c.
Proof. unfold run. rewrite exec_app. reflexivity. Qed.

(** * The property, as stated in Properties/C12.v *)

(** take_raw_fd calls that returned Some, and close calls, in the order they happened *)
Definition successful_takes (c : cfg) : list event := filter is_take_some (trace c).
Definition closes (c : cfg) : list event := filter is_close (trace c).
(** the successful compare_exchange of a take_raw_fd (at most one exists) *)
Definition take_swaps (c : cfg) : list event := filter is_takecas (trace c).
(** Arc decrements that brought the strong count to 0 (at most one exists) *)
Definition last_drops (c : cfg) : list event := filter is_deczero (trace c).

Lemma filter_nil_cnt p l : filter p l = [] <-> cnt p l = 0.
Proof. rewrite cnt_filter_length. destruct (filter p l); cbn; split; intros; try reflexivity; try discriminate. Qed.

(** Safety, for every prefix of every interleaving (no assumption on the programs: an operation
    on a handle the thread does not own is skipped by the model; [ownership_respected] is what
    makes [c12_complete] below talk about all operations). *)
Lemma c12_safety fd0 progs sched : fd0 <> FD_INVALID ->
  let c := exec sched (init fd0 progs) in
  (* (a) at most one take returns Some, it returns the original descriptor (so does every get),
         and it is the call that performed the one successful compare_exchange *)
  length (successful_takes c) <= 1
  /\ length (take_swaps c) <= 1
  /\ length (successful_takes c) <= length (take_swaps c)
  /\ (forall t i v, In (EvRet t i (RTake (Some v))) (trace c) -> v = fd0)
  /\ (forall t i v, In (EvRet t i (RGet (Some v))) (trace c) -> v = fd0)
  (* (b) every get/take/dup whose first atomic action comes after that compare_exchange reports gone *)
  /\ (forall pre tk v mid t i mid2 r post,
        trace c = pre ++ EvTakeCas tk v :: mid ++ EvStart t i :: mid2 ++ EvRet t i r :: post -> gone r)
  /\ (forall pre t i r post, trace c = pre ++ EvRet t i r :: post -> In (EvStart t i) pre)
  (* (e) never two closes; only fd0 is ever closed; dup results are fresh numbers the library never closes *)
  /\ length (closes c) <= 1
  /\ (forall t fd, In (EvClose t fd) (trace c) -> fd = fd0)
  /\ (forall t s n, In (EvDupSys t s n) (trace c) ->
        s = fd0 /\ n <> fd0 /\ forall t' fd, In (EvClose t' fd) (trace c) -> fd <> n)
  (* (c) the close is made by the thread whose decrement brought the strong count to 0, after
         that decrement; there is at most one such decrement; not before: while a handle is
         alive nothing is closed *)
  /\ (forall pre t fd post, trace c = pre ++ EvClose t fd :: post -> In (EvDecZero t) pre)
  /\ length (last_drops c) <= 1
  /\ (strong (sh c) = 0 <-> all_handles_dropped c)
  /\ (~ all_handles_dropped c -> closes c = [])
  (* (d) if a take succeeded the library never closes *)
  /\ (take_swaps c <> [] -> closes c = [])
  /\ (successful_takes c <> [] -> closes c = []).
Proof.
  intros Hfd c. pose proof (inv_reach fd0 progs sched Hfd) as I. fold c in I.
  destruct (take_at_most_once _ _ I) as (A1 & A2 & A3 & A4).
  pose proof (take_some_needs_cas _ _ I) as A5.
  destruct (close_facts _ _ I) as (C1 & C2 & C3 & C4 & C5 & C6 & C7).
  destruct (strong_is_live_handles _ _ I) as (S1 & S2).
  unfold successful_takes, take_swaps, closes, last_drops.
  rewrite <- !cnt_filter_length.
  repeat match goal with |- _ /\ _ => split end; auto.
  - apply (after_take_gone _ _ I).
  - apply (ret_has_start _ _ I).
  - intros H. apply filter_nil_cnt. apply C5.
    destruct (strong (sh c)) eqn:E; [|lia]. exfalso. apply H. apply S2. reflexivity.
  - intros H. apply filter_nil_cnt. apply C6.
    destruct (cnt is_takecas (trace c)) eqn:E; [|lia]. apply filter_nil_cnt in E. contradiction.
  - intros H. apply filter_nil_cnt. apply C6.
    destruct (cnt is_take_some (trace c)) eqn:E; [|lia]. apply filter_nil_cnt in E. contradiction.
Qed.

(** Completed runs: [run] = the schedule followed by the run-to-completion phase
    (= [exec] on a longer schedule, [run_is_exec], so [c12_safety] applies to it too). *)
Lemma c12_complete fd0 progs sched : fd0 <> FD_INVALID -> progs <> [] ->
  ownership_respected progs = true ->
  let c := run sched (init fd0 progs) in
  all_finished c = true
  (* every operation of every program was executed on a handle its thread owned *)
  /\ (forall t i, ~ In (EvRet t i RInvalid) (trace c))
  (* (c) nobody took it and every handle was dropped: close(fd0) exactly once *)
  /\ (take_swaps c = [] -> all_handles_dropped c -> exists t, closes c = [EvClose t fd0])
  (* (c) not all handles dropped: not closed *)
  /\ (~ all_handles_dropped c -> closes c = [])
  (* (d) somebody took it: exactly one take returned Some, nothing closed *)
  /\ (take_swaps c <> [] -> length (successful_takes c) = 1 /\ closes c = []).
Proof.
  intros Hfd Hne Hown c.
  pose proof (run_inv fd0 progs sched Hfd) as I. fold c in I.
  pose proof (run_all_finished sched (init fd0 progs)) as F. fold c in F.
  pose proof (all_finished_quiescent _ F) as Q.
  assert (NE : threads c <> []).
  { intros E. apply (f_equal (@length thread)) in E. unfold c, run in E.
    rewrite !exec_length in E. cbn in E. rewrite map_length in E. destruct progs; [contradiction|discriminate]. }
  destruct (close_exactly_once _ _ I Q NE) as (X1 & X2).
  destruct (close_facts _ _ I) as (C1 & C2 & C3 & C4 & C5 & C6 & C7).
  destruct (strong_is_live_handles _ _ I) as (S1 & S2).
  destruct (take_at_most_once _ _ I) as (A1 & A2 & _).
  unfold successful_takes, take_swaps, closes.
  repeat match goal with |- _ /\ _ => split end.
  - exact F.
  - intros t i H. apply In_trace in H.
    destruct (own_init progs Hown) as (_ & O). specialize (O fd0).
    unfold c, run in H. apply (o_log _ (exec_own _ _ (exec_own _ _ O)) t i H).
  - intros NT AD. apply filter_nil_cnt in NT. specialize (X1 NT AD).
    rewrite cnt_filter_length in X1.
    destruct (filter is_close (trace c)) as [|e [|e' r]] eqn:E; cbn in X1; try lia.
    assert (Hin : In e (filter is_close (trace c))) by (rewrite E; left; reflexivity).
    apply filter_In in Hin as (Hin & Hc). destruct e; try discriminate.
    exists t. rewrite (C2 _ _ Hin). reflexivity.
  - intros H. apply filter_nil_cnt. apply C5.
    destruct (strong (sh c)) eqn:E; [|lia]. exfalso. apply H. apply S2. reflexivity.
  - intros H. rewrite <- cnt_filter_length.
    assert (0 < cnt is_takecas (trace c)).
    { destruct (cnt is_takecas (trace c)) eqn:E; [|lia]. apply filter_nil_cnt in E. contradiction. }
    split; [lia|]. apply filter_nil_cnt. apply C6. assumption.
Qed.

(** ** The hypotheses are inhabited; the statements are not vacuous *)

Example c12_ex_hyps : (100 <> FD_INVALID)%Z /\ ex3_progs <> [] /\ ownership_respected ex3_progs = true.
Proof. repeat split; [discriminate|discriminate]. Qed.

(* (b)'s premise occurs: thread 0 takes (load, compare_exchange), then thread 1 starts its get *)
Example c12_ex_after_take :
  trace (exec [0; 0; 1] (init 100 ex3_progs))
  = [EvStart 0 0] ++ EvTakeCas 0 100 :: [] ++ EvStart 1 0 :: [] ++ EvRet 1 0 (RGet None) :: [].
Proof. vm_compute. reflexivity. Qed.

(* nobody takes, everybody drops: one close, by thread 1 whose decrement was the last *)
Example c12_ex_close :
  let c := run [0; 0; 1] (init 7 [ [Dup 0; Drop 0]; [Get 0; Drop 0] ]) in
  take_swaps c = [] /\ all_finished c = true /\ strong (sh c) = 0
  /\ closes c = [EvClose 1 7] /\ last_drops c = [EvDecZero 1].
Proof. vm_compute. repeat split; reflexivity. Qed.

(* somebody takes: no close although everything is dropped *)
Example c12_ex_taken :
  let c := run [1; 0; 1; 0; 1; 2; 2; 0] (init 100 ex3_progs) in
  successful_takes c = [EvRet 0 0 (RTake (Some 100%Z))] /\ closes c = [] /\ strong (sh c) = 0.
Proof. vm_compute. repeat split; reflexivity. Qed.
