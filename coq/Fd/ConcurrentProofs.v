(** C12 — invariant of the interleaving model [Fd/Concurrent.v] and the lemmas behind
    [Properties/C12.v]. Everything is by induction over the schedule: [Inv] holds initially
    ([inv_init]) and is preserved by every atomic action of every thread ([step_inv]). *)
From RB Require Import Base.Prelude Fd.Concurrent.

Local Close Scope N_scope.
Local Open Scope nat_scope.

(** * Generic list facts *)

Fixpoint sumf (f : thread -> nat) (l : list thread) : nat :=
  match l with [] => 0 | x :: r => f x + sumf f r end.

Lemma sumf_upd f l : forall t th th', nth_error l t = Some th ->
  sumf f (upd t th' l) + f th = sumf f l + f th'.
Proof.
  induction l as [|x r IH]; intros [|t] th th' H; cbn in *; try discriminate.
  - injection H as ->. lia.
  - specialize (IH _ _ th' H). lia.
Qed.

Lemma sumf_ge f l : forall t th, nth_error l t = Some th -> f th <= sumf f l.
Proof.
  induction l as [|x r IH]; intros [|t] th H; cbn in *; try discriminate.
  - injection H as ->. lia.
  - specialize (IH _ _ H). lia.
Qed.

Lemma sumf_le2 f g l : (forall x, f x <= g x) -> forall t th, nth_error l t = Some th ->
  sumf f l + g th <= sumf g l + f th.
Proof.
  intros Hfg. induction l as [|x r IH]; intros [|t] th H; cbn in *; try discriminate.
  - injection H as ->. clear IH. induction r as [|y r IHr]; cbn; [lia|]. specialize (Hfg y). lia.
  - specialize (IH _ _ H). specialize (Hfg x). lia.
Qed.

Lemma sumf_zero f l : sumf f l = 0 -> forall t th, nth_error l t = Some th -> f th = 0.
Proof. intros H t th E. pose proof (sumf_ge f l t th E). lia. Qed.

Lemma nth_upd_same {A} (l : list A) : forall t x y, nth_error l t = Some y -> nth_error (upd t x l) t = Some x.
Proof. induction l; intros [|t] x y H; cbn in *; try discriminate; eauto. Qed.

Lemma nth_upd_other {A} (l : list A) : forall t t' x, t <> t' -> nth_error (upd t x l) t' = nth_error l t'.
Proof. induction l; intros [|t] [|t'] x H; cbn in *; try congruence; eauto. Qed.

Lemma upd_same {A} (l : list A) : forall t x, nth_error l t = Some x -> upd t x l = l.
Proof. induction l; intros [|t] x H; cbn in *; try discriminate; [congruence|f_equal; eauto]. Qed.

Lemma upd_length {A} (l : list A) : forall t x, length (upd t x l) = length l.
Proof. induction l; intros [|t] x; cbn; auto. Qed.

Lemma upd_nil_iff {A} (l : list A) t x : upd t x l = [] <-> l = [].
Proof. destruct l, t; cbn; split; congruence. Qed.

Lemma has_In h l : has h l = true <-> In h l.
Proof.
  unfold has. rewrite existsb_exists. split.
  - intros (x & Hx & E). apply Nat.eqb_eq in E. now subst.
  - intros H. exists h. split; [assumption|apply Nat.eqb_refl].
Qed.

Lemma nth_upd_eq {A} (l : list A) d : forall o x, o < length l -> nth o (upd o x l) d = x.
Proof. induction l; intros [|o] x H; cbn in *; try lia; [reflexivity|apply IHl; lia]. Qed.

Lemma nth_upd_neq {A} (l : list A) d : forall o o1 x, o <> o1 -> nth o (upd o1 x l) d = nth o l d.
Proof. induction l; intros [|o] [|o1] x H; cbn in *; try congruence; try reflexivity. apply IHl. congruence. Qed.

Lemma nth_app_len {A} (l : list A) x d : nth (length l) (l ++ [x]) d = x.
Proof. induction l; cbn; auto. Qed.

(** handles *)
Definition b2n (b : bool) : nat := if b then 1 else 0.

Fixpoint cnto (o : nat) (l : list (nat * nat)) : nat :=
  match l with [] => 0 | (_, o') :: r => b2n (Nat.eqb o o') + cnto o r end.

Lemma cnto_rm1 o h o1 lv : lookup h lv = Some o1 -> cnto o (rm1 h lv) + b2n (Nat.eqb o o1) = cnto o lv.
Proof.
  induction lv as [|[h' o'] r IH]; cbn; [discriminate|].
  destruct (Nat.eqb h h'); [intros [= ->]; lia|]. intros H. cbn. specialize (IH H). lia.
Qed.

Lemma lookup_cnto h o lv : lookup h lv = Some o -> 1 <= cnto o lv.
Proof.
  induction lv as [|[h' o'] r IH]; cbn; [discriminate|].
  destruct (Nat.eqb h h'); [intros [= ->]; rewrite Nat.eqb_refl; cbn; lia|]. intros H. specialize (IH H). lia.
Qed.

Definition live_bound (n : nat) (lv : list (nat * nat)) : Prop := Forall (fun p => snd p < n) lv.

Lemma lookup_bound n h o lv : live_bound n lv -> lookup h lv = Some o -> o < n.
Proof.
  unfold live_bound. induction lv as [|[h' o'] r IH]; cbn; [discriminate|]. intros F.
  inversion F as [|? ? F1 F2]; subst. destruct (Nat.eqb h h'); [intros [= <-]; exact F1|apply IH, F2].
Qed.

Lemma rm1_bound n h lv : live_bound n lv -> live_bound n (rm1 h lv).
Proof.
  unfold live_bound. induction lv as [|[h' o'] r IH]; cbn; [auto|]. intros F.
  inversion F; subst. destruct (Nat.eqb h h'); [assumption|constructor; auto].
Qed.

Lemma live_bound_mono n m lv : n <= m -> live_bound n lv -> live_bound m lv.
Proof. intros H F. eapply Forall_impl; [|exact F]. cbn. intros; lia. Qed.

Lemma cnto_fresh n lv : live_bound n lv -> cnto n lv = 0.
Proof.
  unfold live_bound. induction lv as [|[h' o'] r IH]; cbn; [reflexivity|]. intros F.
  inversion F as [|? ? F1 F2]; subst. cbn in F1. rewrite IH by assumption.
  replace (Nat.eqb n o') with false by (symmetry; apply Nat.eqb_neq; lia). reflexivity.
Qed.

(** * Suffix-indexed properties of the log (newest first: the tail of an event is its past) *)

Fixpoint ForallSuf (P : event -> list event -> Prop) (l : list event) : Prop :=
  match l with [] => True | e :: r => P e r /\ ForallSuf P r end.

Lemma ForallSuf_split P l :
  ForallSuf P l <-> forall newer e older, l = newer ++ e :: older -> P e older.
Proof.
  induction l as [|x r IH]; cbn.
  - split; [|trivial]. intros _ [|? ?] ? ? H; discriminate.
  - rewrite IH. split.
    + intros [H1 H2] [|y newer] e older E; cbn in E; injection E as -> ->; eauto.
    + intros H. split.
      * apply (H [] x r eq_refl).
      * intros newer e older ->. apply (H (x :: newer) e older eq_refl).
Qed.

Fixpoint cnt (p : event -> bool) (l : list event) : nat :=
  match l with [] => 0 | e :: r => (if p e then 1 else 0) + cnt p r end.

Lemma cnt_app p a b : cnt p (a ++ b) = cnt p a + cnt p b.
Proof. induction a; cbn; lia. Qed.

Lemma cnt_rev p a : cnt p (rev a) = cnt p a.
Proof. induction a; cbn; [reflexivity|]. rewrite cnt_app; cbn. lia. Qed.

Lemma cnt_zero_iff p l : cnt p l = 0 <-> forall e, In e l -> p e = false.
Proof.
  induction l as [|x r IH]; cbn.
  - split; [intros _ e []|reflexivity].
  - split.
    + intros H e [->|Hin]; [destruct (p e); [discriminate|reflexivity]|]. apply IH; [lia|assumption].
    + intros H. rewrite (H x (or_introl eq_refl)). apply IH. intros e He. apply H. now right.
Qed.

Lemma cnt_pos_ex p l : 0 < cnt p l -> exists e, In e l /\ p e = true.
Proof.
  induction l as [|x r IH]; cbn; [lia|].
  destruct (p x) eqn:E; [exists x; auto|]. intros H. destruct IH as (e & ? & ?); [lia|]. exists e; auto.
Qed.

Lemma cnt_filter_length p l : cnt p l = length (filter p l).
Proof. induction l as [|x r IH]; cbn; [reflexivity|]. destruct (p x); cbn; lia. Qed.

(** * Event classifiers (per object) *)
Definition is_takecas (o : nat) e := match e with EvTakeCas _ o' _ => Nat.eqb o o' | _ => false end.
Definition is_dtorcas (o : nat) e := match e with EvDtorCas _ o' _ => Nat.eqb o o' | _ => false end.
Definition is_deczero (o : nat) e := match e with EvDecZero _ o' => Nat.eqb o o' | _ => false end.
Definition is_close (o : nat) e := match e with EvClose _ o' _ => Nat.eqb o o' | _ => false end.
Definition is_take_some (o : nat) e := match e with EvRet _ _ o' (RTake (Some _)) => Nat.eqb o o' | _ => false end.

(** thread id and object of an event *)
Definition ev_tid e :=
  match e with
  | EvStart t _ _ | EvTakeCas t _ _ | EvDtorCas t _ _ | EvDecZero t _ | EvDupSys t _ _ _ | EvDupFail t _ _
  | EvClose t _ _ | EvRet t _ _ _ => t
  end.
Definition ev_obj e :=
  match e with
  | EvStart _ _ o | EvTakeCas _ o _ | EvDtorCas _ o _ | EvDecZero _ o | EvDupSys _ o _ _ | EvDupFail _ o _
  | EvClose _ o _ | EvRet _ _ o _ => o
  end.

Lemma cnt_fresh (p : nat -> event -> bool) n lg :
  (forall e, p n e = true -> ev_obj e = n) -> Forall (fun e => ev_obj e < n) lg -> cnt (p n) lg = 0.
Proof.
  intros Hp F. apply cnt_zero_iff. intros e He. rewrite Forall_forall in F. specialize (F e He).
  destruct (p n e) eqn:E; [|reflexivity]. apply Hp in E. lia.
Qed.
Lemma is_takecas_obj n e : is_takecas n e = true -> ev_obj e = n.
Proof. destruct e; cbn; try discriminate. intros H. apply Nat.eqb_eq in H. auto. Qed.
Lemma is_dtorcas_obj n e : is_dtorcas n e = true -> ev_obj e = n.
Proof. destruct e; cbn; try discriminate. intros H. apply Nat.eqb_eq in H. auto. Qed.
Lemma is_deczero_obj n e : is_deczero n e = true -> ev_obj e = n.
Proof. destruct e; cbn; try discriminate. intros H. apply Nat.eqb_eq in H. auto. Qed.
Lemma is_close_obj n e : is_close n e = true -> ev_obj e = n.
Proof. destruct e; cbn; try discriminate. intros H. apply Nat.eqb_eq in H. auto. Qed.
Lemma is_take_some_obj n e : is_take_some n e = true -> ev_obj e = n.
Proof. destruct e as [| | | | | | |? ? ? [[?|]| | | | | | |]]; cbn; try discriminate. intros H. apply Nat.eqb_eq in H. auto. Qed.

(** * Per-thread indicators (per object) *)
Definition nlive (o : nat) (th : thread) : nat := cnto o (live th).
Definition holds_take (o : nat) (th : thread) : nat :=
  match pc th with
  | TakeDec _ o' (Some _) => b2n (Nat.eqb o o')
  | DtorLoad o' (RTake (Some _)) | DtorCas o' _ (RTake (Some _)) | DtorClose o' _ (RTake (Some _)) => b2n (Nat.eqb o o')
  | _ => 0
  end.
Definition in_close (o : nat) (th : thread) : nat :=
  match pc th with DtorClose o' _ _ => b2n (Nat.eqb o o') | _ => 0 end.
Definition in_dtor (o : nat) (th : thread) : nat :=
  match pc th with DtorLoad o' _ | DtorCas o' _ _ | DtorClose o' _ _ => b2n (Nat.eqb o o') | _ => 0 end.

Arguments nlive o !th /.
Arguments holds_take o !th /.
Arguments in_close o !th /.
Arguments in_dtor o !th /.

Lemma in_close_le_dtor o th : in_close o th <= in_dtor o th.
Proof. destruct th as [? ? [] ? ? ?]; cbn; lia. Qed.

(** objects a thread refers to are below n *)
Definition pc_bound (n : nat) (p : pcs) : Prop :=
  match p with
  | Idle => True
  | TakeCas _ o _ | TakeDec _ o _ | DupSys o _ _ | DtorLoad o _ | DtorCas o _ _ | DtorClose o _ _ => o < n
  end.
Definition th_bound (n : nat) (th : thread) : Prop := live_bound n (live th) /\ pc_bound n (pc th).

Lemma th_bound_mono n m th : n <= m -> th_bound n th -> th_bound m th.
Proof.
  intros H [B1 B2]. split; [eapply live_bound_mono; eassumption|].
  destruct (pc th); cbn in *; lia.
Qed.

Lemma sumf_fresh (f : nat -> thread -> nat) n l :
  (forall th, th_bound n th -> f n th = 0) ->
  (forall t th, nth_error l t = Some th -> th_bound n th) -> sumf (f n) l = 0.
Proof.
  intros Hf. induction l as [|x r IH]; cbn; intros H; [reflexivity|].
  rewrite (Hf x (H 0 x eq_refl)). apply IH. intros t th E. apply (H (S t) th E).
Qed.
Lemma neq_b2n n o : o < n -> b2n (Nat.eqb n o) = 0.
Proof. intros H. replace (Nat.eqb n o) with false by (symmetry; apply Nat.eqb_neq; lia). reflexivity. Qed.
Lemma nlive_fresh n th : th_bound n th -> nlive n th = 0.
Proof. intros [B _]. destruct th; cbn in *. apply cnto_fresh, B. Qed.
Lemma holds_take_fresh n th : th_bound n th -> holds_take n th = 0.
Proof. intros [_ B]. destruct th as [? ? [| | ? ? [|]| | ? [[|]| | | | | | |]| ? ? [[|]| | | | | | |]| ? ? [[|]| | | | | | |]] ? ? ?]; cbn in *; auto using neq_b2n. Qed.
Lemma in_close_fresh n th : th_bound n th -> in_close n th = 0.
Proof. intros [_ B]. destruct th as [? ? [] ? ? ?]; cbn in *; auto using neq_b2n. Qed.
Lemma in_dtor_fresh n th : th_bound n th -> in_dtor n th = 0.
Proof. intros [_ B]. destruct th as [? ? [] ? ? ?]; cbn in *; auto using neq_b2n. Qed.

(** * "Gone" results and "started after the take" *)

(** the descriptor was reported as gone (or the call is not a successful get/take/dup) *)
Definition gone (r : res) : Prop :=
  match r with RTake (Some _) | RGet (Some _) | RDup (Some _) => False | _ => True end.

(** [e] is the first atomic action of operation i of thread t, on object o => no successful take of o before it *)
Definition no_take_before (o t i : nat) (e : event) (older : list event) : Prop :=
  e = EvStart t i o -> cnt (is_takecas o) older = 0.
Definition NB (o : nat) (lg : list event) (t i : nat) : Prop := ForallSuf (no_take_before o t i) lg.

Lemma NB_cons_other o lg t i e : e <> EvStart t i o -> NB o lg t i -> NB o (e :: lg) t i.
Proof. intros Hne H. split; [intros E; contradiction|exact H]. Qed.

Lemma NB_cons_start o lg t i : cnt (is_takecas o) lg = 0 -> NB o lg t i -> NB o (EvStart t i o :: lg) t i.
Proof. intros H0 H. split; [intros _; exact H0|exact H]. Qed.

Lemma NB_of_no_take o lg t i : cnt (is_takecas o) lg = 0 -> NB o lg t i.
Proof.
  intros H. apply ForallSuf_split. intros newer e older -> _.
  rewrite cnt_app in H. cbn in H. lia.
Qed.

(** * The invariant *)

Definition okk (fd : Z) (k : res) : Prop := k = RDrop \/ k = RTake None \/ k = RTake (Some fd).

Definition dt_ok (fd0 : Z) (lg : list event) (t : nat) (th : thread) (o : nat) (k : res) : Prop :=
  okk (obj_fd fd0 o) k /\ In (EvDecZero t o) lg /\ In (EvStart t (done th) o) lg
  /\ (~ gone k -> NB o lg t (done th)).

Definition th_ok (fd0 : Z) (lg : list event) (t : nat) (th : thread) : Prop :=
  match pc th with
  | Idle => True
  | TakeCas h o v => v = obj_fd fd0 o /\ lookup h (live th) = Some o
                     /\ In (EvStart t (done th) o) lg /\ NB o lg t (done th)
  | TakeDec h o r => lookup h (live th) = Some o /\ In (EvStart t (done th) o) lg
                     /\ (r = None \/ (r = Some (obj_fd fd0 o) /\ NB o lg t (done th)))
  | DupSys o v _ => v = obj_fd fd0 o /\ In (EvStart t (done th) o) lg /\ NB o lg t (done th)
  | DtorLoad o k => dt_ok fd0 lg t th o k
  | DtorCas o v k => v = obj_fd fd0 o /\ dt_ok fd0 lg t th o k
  | DtorClose o v k => v = obj_fd fd0 o /\ dt_ok fd0 lg t th o k
  end.

(** every event names an existing object and carries that object's descriptor; dup results are
    the descriptors of existing objects *)
Definition ev_ok (fd0 : Z) (n : nat) (e : event) : Prop :=
  ev_obj e < n /\
  match e with
  | EvClose _ o fd => fd = obj_fd fd0 o
  | EvDupSys _ o src new => src = obj_fd fd0 o /\ exists o', o' < n /\ 0 < o' /\ new = obj_fd fd0 o'
  | EvDupFail _ o src => src = obj_fd fd0 o
  | EvTakeCas _ o v | EvDtorCas _ o v => v = obj_fd fd0 o
  | _ => True
  end.

Definition ret_ok (fd0 : Z) (e : event) (older : list event) : Prop :=
  forall t i o r, e = EvRet t i o r ->
    In (EvStart t i o) older /\ (~ gone r -> NB o older t i)
    /\ (forall v, r = RTake (Some v) -> v = obj_fd fd0 o) /\ (forall v, r = RGet (Some v) -> v = obj_fd fd0 o).

Definition close_ok (e : event) (older : list event) : Prop :=
  forall t o fd, e = EvClose t o fd -> In (EvDecZero t o) older.

(** the numeric part, per object *)
Record InvO (fd0 : Z) (c : cfg) (o : nat) : Prop := mkInvO {
  i_cell : (cell (get_obj (sh c) o) = obj_fd fd0 o
            /\ cnt (is_takecas o) (log (sh c)) + cnt (is_dtorcas o) (log (sh c)) = 0)
        \/ (cell (get_obj (sh c) o) = FD_INVALID
            /\ cnt (is_takecas o) (log (sh c)) + cnt (is_dtorcas o) (log (sh c)) = 1);
  i_strong : strong (get_obj (sh c) o) = sumf (nlive o) (threads c);
  i_take : cnt (is_take_some o) (log (sh c)) + sumf (holds_take o) (threads c) = cnt (is_takecas o) (log (sh c));
  i_close : cnt (is_close o) (log (sh c)) + sumf (in_close o) (threads c) = cnt (is_dtorcas o) (log (sh c));
  i_dz1 : cnt (is_deczero o) (log (sh c)) <= 1;
  i_dz2 : cnt (is_deczero o) (log (sh c)) = 1 -> strong (get_obj (sh c) o) = 0;
  i_dz3 : strong (get_obj (sh c) o) = 0 -> cnt (is_deczero o) (log (sh c)) = 1 \/ threads c = [];
  i_dz4 : sumf (in_dtor o) (threads c) + cnt (is_close o) (log (sh c)) <= cnt (is_deczero o) (log (sh c));
  i_dz5 : cnt (is_takecas o) (log (sh c)) = 0 ->
          cnt (is_deczero o) (log (sh c)) = sumf (in_dtor o) (threads c) + cnt (is_close o) (log (sh c))
}.

Record Inv (fd0 : Z) (c : cfg) : Prop := mkInv {
  g_fd : (0 <= fd0)%Z;
  g_len : 1 <= length (objs (sh c));
  g_next : next_fd (sh c) = obj_fd fd0 (length (objs (sh c)));
  g_evs : Forall (ev_ok fd0 (length (objs (sh c)))) (log (sh c));
  g_threads : forall t th, nth_error (threads c) t = Some th ->
                th_ok fd0 (log (sh c)) t th /\ th_bound (length (objs (sh c))) th;
  g_rets : ForallSuf (ret_ok fd0) (log (sh c));
  g_closeord : ForallSuf close_ok (log (sh c));
  g_objs : forall o, o < length (objs (sh c)) -> InvO fd0 c o
}.

(** * Initially *)
Lemma sumf_init f progs : (forall p, f (init_thread p) = f (init_thread [])) ->
  sumf f (map init_thread progs) = length progs * f (init_thread []).
Proof. intros H. induction progs as [|p r IH]; cbn [map sumf length]; [reflexivity|]. rewrite IH, H. lia. Qed.

Lemma inv_init fd0 progs : (0 <= fd0)%Z -> Inv fd0 (init fd0 progs).
Proof.
  intros Hfd. constructor; cbn [init sh threads objs next_fd log length]; auto.
  - intros t th H. apply nth_error_In in H. apply in_map_iff in H as (p & <- & _).
    split; [exact I|]. split; cbn; [repeat constructor|exact I].
  - exact I.
  - exact I.
  - intros o Ho. assert (o = 0) by lia. subst o.
    constructor; unfold get_obj; cbn [init sh threads objs next_fd log length nth cell strong cnt]; try lia.
    + left. unfold obj_fd. split; lia.
    + rewrite sumf_init by reflexivity. cbn. lia.
    + rewrite sumf_init by reflexivity. cbn. lia.
    + rewrite sumf_init by reflexivity. cbn. lia.
    + intros H. right. destruct progs; [reflexivity|discriminate].
    + rewrite sumf_init by reflexivity. cbn. lia.
    + rewrite sumf_init by reflexivity. cbn. lia.
Qed.


(** * Preservation *)

Lemma th_ok_cons fd0 lg t' th e : ev_tid e <> t' -> th_ok fd0 lg t' th -> th_ok fd0 (e :: lg) t' th.
Proof.
  intros Hne. assert (Hs : forall i o, e <> EvStart t' i o) by (intros i o ->; apply Hne; reflexivity).
  unfold th_ok, dt_ok. destruct (pc th); intros H; repeat match goal with
    | H : _ /\ _ |- _ => destruct H
    | |- _ /\ _ => split
    | |- In _ (_ :: _) => right; assumption
    | |- NB _ (_ :: _) _ _ => apply NB_cons_other; [apply Hs|assumption]
    end; auto.
  - destruct H1 as [->|[-> ?]]; [left; reflexivity|right; split; [reflexivity|apply NB_cons_other; auto]].
  - intros Hg. apply NB_cons_other; auto.
  - intros Hg. apply NB_cons_other; auto.
  - intros Hg. apply NB_cons_other; auto.
Qed.

Lemma ev_ok_mono fd0 n m e : n <= m -> ev_ok fd0 n e -> ev_ok fd0 m e.
Proof.
  intros H [B E]. split; [lia|]. destruct e; auto.
  destruct E as (E1 & o' & ? & ? & ?). split; [assumption|]. exists o'. repeat split; auto; lia.
Qed.

Ltac red_rec := unfold set_pc, set_live, alloc_dead, alloc_live, emit, set_obj, get_obj;
  cbn [pc prog done live dead nexth objs next_fd log sh threads cell strong].
Ltac red_rec_in H := unfold set_pc, set_live, alloc_dead, alloc_live, emit, set_obj, get_obj in H;
  cbn [pc prog done live dead nexth objs next_fd log sh threads cell strong] in H.
Ltac red_cnt := cbn [cnt is_takecas is_dtorcas is_deczero is_close is_take_some] in *.

Ltac split_step ST :=
  unfold step_thread, skip_op, dec_strong, retire, load_opt in ST; red_rec_in ST;
  repeat match type of ST with
  | context [if Z.eqb ?a ?b then _ else _] => destruct (Z.eqb a b) eqn:?; red_rec_in ST
  | context [match ?x with _ => _ end] => destruct x eqn:?; red_rec_in ST
  end;
  injection ST as <- <-.

Ltac bool_facts :=
  repeat match goal with
  | H : Z.eqb _ _ = true |- _ => apply Z.eqb_eq in H
  | H : Z.eqb _ _ = false |- _ => apply Z.eqb_neq in H
  | H : Nat.eqb _ _ = true |- _ => apply Nat.eqb_eq in H
  | H : Nat.eqb _ _ = false |- _ => apply Nat.eqb_neq in H
  end.

Ltac solve_NB :=
  repeat first [ apply NB_cons_start; [lia|] | apply NB_cons_other; [discriminate|] ];
  first [ assumption | apply NB_of_no_take; lia ].

Ltac solve_In := cbn [In]; auto 6.

Ltac norm_len := rewrite ?upd_length, ?app_length in *; cbn [length] in *.

Ltac solve_ev1 :=
  split; [cbn [ev_obj]; lia
         | cbn beta iota; first [exact I | reflexivity | assumption | lia
                                | split; [first [reflexivity | assumption | lia]
                                         | eexists; repeat split; try reflexivity; lia] ]].

Ltac solve_evs Ievs :=
  repeat (apply Forall_cons; [solve_ev1|]);
  first [ exact Ievs
        | eapply Forall_impl; [|exact Ievs]; intros ? ?; eapply ev_ok_mono; [|eassumption]; lia ].

Ltac solve_gone_or_NB :=
  first [ solve [intros Hg; exfalso; apply Hg; exact I] | solve [intros _; solve_NB] ].

Ltac solve_ret_ok :=
  let Heq := fresh "Heq" in
  unfold ret_ok; intros ? ? ? ? Heq;
  first [ discriminate Heq
        | injection Heq as <- <- <- <-;
          repeat match goal with |- _ /\ _ => split end;
          [ solve_In
          | solve_gone_or_NB
          | let Hv := fresh in intros ? Hv; first [discriminate Hv | injection Hv as <-; first [reflexivity | assumption | lia]]
          | let Hv := fresh in intros ? Hv; first [discriminate Hv | injection Hv as <-; first [reflexivity | assumption | lia]] ] ].

Ltac solve_close_ok :=
  let Heq := fresh "Heq" in
  unfold close_ok; intros ? ? ? Heq;
  first [ discriminate Heq | injection Heq as <- <- <-; solve_In ].

Lemma evs_bound fd0 n lg : Forall (ev_ok fd0 n) lg -> Forall (fun e => ev_obj e < n) lg.
Proof. apply Forall_impl. intros e [H _]. exact H. Qed.

Ltac fin_obj :=

  repeat match goal with
         | H : Forall _ _ |- _ => clear H
         | H : ForallSuf _ _ |- _ => clear H
         | H : NB _ _ _ _ |- _ => clear H
         | H : In _ _ |- _ => clear H
         | H : forall o, o < _ -> InvO _ _ o |- _ => clear H
         | H : forall t th, nth_error _ t = Some th -> _ |- _ => clear H
         end;
  cbn [b2n] in *; unfold obj_fd, FD_INVALID in *;
  constructor; unfold get_obj; cbn [sh threads objs log];
  rewrite ?nth_upd_eq by assumption; rewrite ?nth_upd_neq by assumption;
  rewrite ?app_nth1 by assumption; rewrite ?nth_app_len;
  cbn [cell strong cnt is_takecas is_dtorcas is_deczero is_close is_take_some]; rewrite ?Nat.eqb_refl;
  try match goal with H : Nat.eqb _ _ = false |- _ => rewrite ?H end;
  cbn [b2n]; unfold obj_fd, FD_INVALID; intros; first [ lia | left; lia ].

Lemma step_inv fd0 t c : Inv fd0 c -> Inv fd0 (step t c).
Proof.
  intros I. unfold step. destruct (nth_error (threads c) t) as [th|] eqn:E; [|exact I].
  destruct (step_thread t th (sh c)) as [th' s'] eqn:ST.
  destruct c as [[obs nf lg] ths]. destruct th as [pg dn p lv dd nx].
  destruct I as [Ifd Ilen Inext Ievs Ithreads Irets Icloseord Iobjs].
  cbn [sh threads objs next_fd log] in *.
  destruct (Ithreads _ _ E) as [Hth Hbd]. unfold th_ok, dt_ok in Hth. cbn [pc done live] in Hth.
  destruct Hbd as [Hbl Hbp]. cbn [pc live] in Hbl, Hbp.
  split_step ST.
  all: try solve [rewrite (upd_same _ _ _ E); constructor; auto].
  all: bool_facts.
  all: cbn [op_handle] in *.
  all: try match goal with H : _ /\ _ |- _ => decompose [and] H; clear H end.
  all: cbn [pc_bound] in Hbp.
  all: try match goal with H : lookup ?h ?lv = Some ?o |- _ => pose proof (lookup_cnto _ _ _ H) as Hc1 end.
  all: first [ match type of Hbp with _ < _ => pose proof Hbp as Ho1 end
             | match goal with H : lookup ?h ?lv = Some ?o |- _ => pose proof (lookup_bound _ _ _ _ Hbl H) as Ho1 end
             | idtac ].
  all: try match type of Ho1 with ?o1 < _ =>
         destruct (Iobjs o1 Ho1) as [Jcell Jstrong Jtake Jclose Jdz1 Jdz2 Jdz3 Jdz4 Jdz5];
         unfold get_obj in Jcell, Jstrong, Jdz2, Jdz3;
         cbn [sh threads objs log] in Jcell, Jstrong, Jtake, Jclose, Jdz1, Jdz2, Jdz3, Jdz4, Jdz5 end.
  all: try match goal with H : okk _ _ |- _ => destruct H as [-> | [-> | ->]] end.
  all: try match goal with H : _ = None \/ _ |- _ => destruct H as [-> | [-> ?]] end.
  all: subst.
  all: try match goal with H : ~ gone (RTake (Some _)) -> _ |- _ => specialize (H (fun x => x)) end.
  all: constructor; red_rec.
  (* g_fd, g_len, g_next *)
  all: try assumption.
  all: try solve [norm_len; unfold obj_fd in *; lia].
  (* g_evs *)
  all: try solve [norm_len; solve_evs Ievs].
  (* g_rets, g_closeord *)
  all: try match goal with |- ForallSuf _ _ =>
         cbn [ForallSuf]; repeat match goal with |- _ /\ _ => split end; try assumption end.
  all: try solve [solve_ret_ok].
  all: try solve [solve_close_ok].
  (* g_threads *)
  all: try match goal with |- forall t0 th0, nth_error (upd _ _ _) t0 = Some th0 -> _ =>
         let t0 := fresh "t0" in let th0 := fresh "th0" in let H0 := fresh "H0" in
         intros t0 th0 H0; destruct (Nat.eq_dec t t0) as [<-|Hne];
         [ rewrite (nth_upd_same _ _ _ _ E) in H0; injection H0 as <-; split;
           [ unfold th_ok, dt_ok, okk; cbn [pc done live];
             repeat match goal with |- _ /\ _ => split end; auto; try solve_In; try lia; try solve [solve_NB]; try solve [intros; solve_NB]
           | split; cbn [pc live pc_bound]; norm_len; try exact I; try lia;
             try solve [apply rm1_bound; assumption];
             try solve [eapply live_bound_mono; [|eassumption]; lia];
             try solve [constructor; [cbn [snd]; lia | first [assumption | eapply live_bound_mono; [|eassumption]; lia]]] ]
         | rewrite nth_upd_other in H0 by assumption; destruct (Ithreads _ _ H0) as [K1 K2]; split;
           [ repeat (apply th_ok_cons; [cbn [ev_tid]; assumption|]); exact K1
           | norm_len; eapply th_bound_mono; [|exact K2]; lia ] ]
       end.
  all: try solve [intros Hg; exfalso; apply Hg; exact I].
  all: try solve [right; split; [f_equal; first [assumption | lia] | solve_NB]].
  (* g_objs *)
  all: intros oo Hoo; norm_len.
  all: match goal with |- InvO _ (mkCfg _ (upd ?t ?th' ?ths)) _ =>
         pose proof (sumf_upd (nlive oo) ths t _ th' E) as U1; pose proof (sumf_upd (holds_take oo) ths t _ th' E) as U2;
         pose proof (sumf_upd (in_close oo) ths t _ th' E) as U3; pose proof (sumf_upd (in_dtor oo) ths t _ th' E) as U4;
         pose proof (sumf_ge (nlive oo) _ _ _ E) as G1; pose proof (sumf_ge (holds_take oo) _ _ _ E) as G2;
         pose proof (sumf_ge (in_close oo) _ _ _ E) as G3; pose proof (sumf_ge (in_dtor oo) _ _ _ E) as G4;
         pose proof (sumf_le2 (in_close oo) (in_dtor oo) _ (in_close_le_dtor oo) _ _ E) as G5;
         cbn [nlive holds_take in_close in_dtor pc live cnto] in U1, U2, U3, U4, G1, G2, G3, G4, G5
       end.
  all: try match goal with H : lookup ?h ?lv = Some ?o1 |- _ => pose proof (cnto_rm1 oo _ _ _ H) as R1 end.
  (* the freshly created object of a successful dup *)
  all: try (lazymatch goal with |- InvO _ (mkCfg (mkShared (app _ _) _ _) _) _ => idtac end;

         destruct (Nat.eq_dec oo (length obs)) as [Hfr|Hfr];
         [ subst oo;
           pose proof (evs_bound _ _ _ Ievs) as Fb;
           pose proof (cnt_fresh is_takecas _ _ (is_takecas_obj _) Fb) as F1;
           pose proof (cnt_fresh is_dtorcas _ _ (is_dtorcas_obj _) Fb) as F2;
           pose proof (cnt_fresh is_deczero _ _ (is_deczero_obj _) Fb) as F3;
           pose proof (cnt_fresh is_close _ _ (is_close_obj _) Fb) as F4;
           pose proof (cnt_fresh is_take_some _ _ (is_take_some_obj _) Fb) as F5;
           pose proof (sumf_fresh nlive _ ths (nlive_fresh _) (fun t th H => proj2 (Ithreads t th H))) as S1;
           pose proof (sumf_fresh holds_take _ ths (holds_take_fresh _) (fun t th H => proj2 (Ithreads t th H))) as S2;
           pose proof (sumf_fresh in_close _ ths (in_close_fresh _) (fun t th H => proj2 (Ithreads t th H))) as S3;
           pose proof (sumf_fresh in_dtor _ ths (in_dtor_fresh _) (fun t th H => proj2 (Ithreads t th H))) as S4;
           rewrite ?Nat.eqb_refl in *;
           match type of Ho1 with ?o1 < _ =>
             assert (Hneb : Nat.eqb (length obs) o1 = false) by (apply Nat.eqb_neq; lia); rewrite ?Hneb in * end;
           try fin_obj
         | assert (Hoo' : oo < length obs) by lia;
           assert (Hnlen : Nat.eqb oo (length obs) = false) by (apply Nat.eqb_neq; lia);
           rewrite ?Hnlen in *; clear Hnlen ]).
  all: try match type of Ho1 with ?o1 < _ =>
         destruct (Nat.eq_dec oo o1) as [Heq|Hne];
         [ subst oo; rewrite ?Nat.eqb_refl in *; pose proof Ho1 as Hoo'
         | assert (Hneb : Nat.eqb oo o1 = false) by (apply Nat.eqb_neq; exact Hne); rewrite ?Hneb in * ] end.
  all: try (assert (Hoo' : oo < length obs) by lia).
  all: try (destruct (Iobjs _ Hoo') as [Kcell Kstrong Ktake Kclose Kdz1 Kdz2 Kdz3 Kdz4 Kdz5];
       unfold get_obj in Kcell, Kstrong, Kdz2, Kdz3;
       cbn [sh threads objs log] in Kcell, Kstrong, Ktake, Kclose, Kdz1, Kdz2, Kdz3, Kdz4, Kdz5).
  all: try match type of Kdz3 with ?A -> ?B \/ _ =>
         assert (Kdz3' : A -> B) by (intros Hz; destruct (Kdz3 Hz) as [Hx | Hx]; [assumption|subst ths; destruct t; discriminate]) end.
  all: try clear Jcell Jstrong Jtake Jclose Jdz1 Jdz2 Jdz3 Jdz4 Jdz5.
  all: fin_obj.
Qed.

Lemma exec_inv fd0 sched : forall c, Inv fd0 c -> Inv fd0 (exec sched c).
Proof. induction sched as [|t r IH]; intros c I; cbn [exec]; [exact I|]. apply IH, step_inv, I. Qed.

Lemma inv_reach fd0 progs sched : (0 <= fd0)%Z -> Inv fd0 (exec sched (init fd0 progs)).
Proof. intros H. apply exec_inv, inv_init, H. Qed.

(** * Consequences of the invariant, stated on the chronological [trace] *)

Lemma trace_split c pre e post :
  trace c = pre ++ e :: post -> log (sh c) = rev post ++ e :: rev pre.
Proof.
  unfold trace. intros H. apply (f_equal (@rev event)) in H. rewrite rev_involutive in H.
  rewrite H, rev_app_distr. cbn [rev]. rewrite <- app_assoc. reflexivity.
Qed.

Lemma In_trace c e : In e (trace c) <-> In e (log (sh c)).
Proof. unfold trace. symmetry. apply in_rev. Qed.

Lemma cnt_trace p c : cnt p (trace c) = cnt p (log (sh c)).
Proof. apply cnt_rev. Qed.

Lemma gone_dec r : gone r \/ ~ gone r.
Proof. destruct r as [[?|]|[?|]|[?|]| | | | | ]; cbn; auto. Qed.

Lemma sumf_all0 f l : (forall th, In th l -> f th = 0) -> sumf f l = 0.
Proof. induction l as [|x r IH]; cbn; intros H; [reflexivity|]. rewrite (H x), IH; auto. Qed.

Lemma sumf_0_all f l : sumf f l = 0 -> forall th, In th l -> f th = 0.
Proof.
  induction l as [|x r IH]; cbn; intros H th []; [subst; lia|]. apply IH; [lia|assumption].
Qed.

Lemma cnt_le p q l : (forall e, In e l -> p e = true -> q e = true) -> cnt p l <= cnt q l.
Proof.
  induction l as [|x r IH]; cbn; intros H; [lia|].
  assert (IH' : cnt p r <= cnt q r) by (apply IH; intros; apply H; auto).
  destruct (p x) eqn:E; [rewrite (H x (or_introl eq_refl) E)|destruct (q x)]; lia.
Qed.

Lemma ev_ok_In fd0 c e : Inv fd0 c -> In e (trace c) -> ev_ok fd0 (length (objs (sh c))) e.
Proof. intros I H. apply In_trace in H. pose proof (g_evs _ _ I) as F. rewrite Forall_forall in F. auto. Qed.

(** (a) at most one take of an object returns Some, and it returns that object's descriptor; so does every get *)
Lemma take_at_most_once fd0 c o : Inv fd0 c -> o < length (objs (sh c)) ->
  cnt (is_take_some o) (trace c) <= 1
  /\ cnt (is_takecas o) (trace c) <= 1
  /\ cnt (is_take_some o) (trace c) <= cnt (is_takecas o) (trace c).
Proof.
  intros I Ho. rewrite !cnt_trace. destruct (g_objs _ _ I o Ho). repeat split; lia.
Qed.

Lemma ret_values fd0 c : Inv fd0 c ->
  (forall t i o v, In (EvRet t i o (RTake (Some v))) (trace c) -> v = obj_fd fd0 o)
  /\ (forall t i o v, In (EvRet t i o (RGet (Some v))) (trace c) -> v = obj_fd fd0 o).
Proof.
  intros I. split.
  - intros t i o v H. apply In_trace, in_split in H as (newer & older & H).
    pose proof (proj1 (ForallSuf_split _ _) (g_rets _ _ I) _ _ _ H) as R.
    destruct (R _ _ _ _ eq_refl) as (_ & _ & R3 & _). eauto.
  - intros t i o v H. apply In_trace, in_split in H as (newer & older & H).
    pose proof (proj1 (ForallSuf_split _ _) (g_rets _ _ I) _ _ _ H) as R.
    destruct (R _ _ _ _ eq_refl) as (_ & _ & _ & R4). eauto.
Qed.

(** (b) an operation on object o whose first atomic action comes after the successful
    compare_exchange of the take of o reports the descriptor as gone *)
Lemma after_take_gone fd0 c : Inv fd0 c ->
  forall pre tk o v mid t i mid2 r post,
    trace c = pre ++ EvTakeCas tk o v :: mid ++ EvStart t i o :: mid2 ++ EvRet t i o r :: post ->
    gone r.
Proof.
  intros I pre tk o v mid t i mid2 r post H.
  replace (pre ++ EvTakeCas tk o v :: mid ++ EvStart t i o :: mid2 ++ EvRet t i o r :: post)
    with ((pre ++ EvTakeCas tk o v :: mid ++ EvStart t i o :: mid2) ++ EvRet t i o r :: post) in H
    by (rewrite <- !app_assoc; cbn; rewrite <- !app_assoc; reflexivity).
  apply trace_split in H.
  pose proof (proj1 (ForallSuf_split _ _) (g_rets _ _ I) _ _ _ H) as R.
  destruct (R _ _ _ _ eq_refl) as (_ & R2 & _).
  destruct (gone_dec r) as [G|G]; [exact G|exfalso].
  specialize (R2 G).
  assert (E : rev (pre ++ EvTakeCas tk o v :: mid ++ EvStart t i o :: mid2)
              = rev mid2 ++ EvStart t i o :: rev (pre ++ EvTakeCas tk o v :: mid)).
  { replace (pre ++ EvTakeCas tk o v :: mid ++ EvStart t i o :: mid2)
      with ((pre ++ EvTakeCas tk o v :: mid) ++ EvStart t i o :: mid2)
      by (rewrite <- !app_assoc; reflexivity).
    rewrite rev_app_distr. cbn [rev]. rewrite <- app_assoc. reflexivity. }
  pose proof (proj1 (ForallSuf_split _ _) R2 _ _ _ E eq_refl) as Z0.
  rewrite cnt_rev, cnt_app in Z0. cbn in Z0. rewrite Nat.eqb_refl in Z0. lia.
Qed.

(** every return has its start before it (so (b) speaks about every finished operation) *)
Lemma ret_has_start fd0 c : Inv fd0 c ->
  forall pre t i o r post, trace c = pre ++ EvRet t i o r :: post -> In (EvStart t i o) pre.
Proof.
  intros I pre t i o r post H. apply trace_split in H.
  pose proof (proj1 (ForallSuf_split _ _) (g_rets _ _ I) _ _ _ H) as R.
  destruct (R _ _ _ _ eq_refl) as (R1 & _). apply in_rev. exact R1.
Qed.

(** (c)(d)(e) closes of one object *)
Lemma close_facts fd0 c o : Inv fd0 c -> o < length (objs (sh c)) ->
  cnt (is_close o) (trace c) <= 1
  /\ cnt (is_deczero o) (trace c) <= 1
  /\ (0 < strong (get_obj (sh c) o) -> cnt (is_close o) (trace c) = 0)
  /\ (0 < cnt (is_takecas o) (trace c) -> cnt (is_close o) (trace c) = 0).
Proof.
  intros I Ho. rewrite !cnt_trace. destruct (g_objs _ _ I o Ho). repeat split; lia.
Qed.

Lemma close_events fd0 c : Inv fd0 c ->
  (forall t o fd, In (EvClose t o fd) (trace c) -> o < length (objs (sh c)) /\ fd = obj_fd fd0 o)
  /\ (forall pre t o fd post, trace c = pre ++ EvClose t o fd :: post -> In (EvDecZero t o) pre).
Proof.
  intros I. split.
  - intros t o fd H. destruct (ev_ok_In _ _ _ I H) as [B E]. cbn in B, E. auto.
  - intros pre t o fd post H. apply trace_split in H.
    pose proof (proj1 (ForallSuf_split _ _) (g_closeord _ _ I) _ _ _ H) as R.
    apply in_rev. exact (R _ _ _ eq_refl).
Qed.

(** (e) over all objects: no descriptor number is ever closed twice *)
Definition closes_fd (fd : Z) (e : event) : bool :=
  match e with EvClose _ _ f => Z.eqb f fd | _ => false end.

Lemma no_double_close fd0 c fd : Inv fd0 c -> cnt (closes_fd fd) (trace c) <= 1.
Proof.
  intros I. destruct (cnt (closes_fd fd) (trace c)) as [|k] eqn:E; [lia|].
  destruct (cnt_pos_ex (closes_fd fd) (trace c)) as (e & Hin & He); [lia|].
  destruct e as [| | | | | |t1 o1 f1|]; try discriminate. cbn in He. apply Z.eqb_eq in He. subst f1.
  destruct (proj1 (close_events _ _ I) _ _ _ Hin) as [Ho Hfd].
  rewrite <- E.
  transitivity (cnt (is_close o1) (trace c)); [|apply (close_facts _ _ _ I Ho)].
  apply cnt_le. intros e' Hin' He'. destruct e' as [| | | | | |t2 o2 f2|]; try discriminate.
  cbn in He'. apply Z.eqb_eq in He'.
  destruct (proj1 (close_events _ _ I) _ _ _ Hin') as [Ho' Hfd']. cbn.
  apply Nat.eqb_eq. unfold obj_fd in *. lia.
Qed.

(** dup: the source is the object's descriptor; the result is the descriptor of an object
    other than the shared one, to which all the clauses apply in turn *)
Lemma dup_events fd0 c : Inv fd0 c ->
  (forall t o src new, In (EvDupSys t o src new) (trace c) ->
     src = obj_fd fd0 o /\ exists o', o' < length (objs (sh c)) /\ 0 < o' /\ new = obj_fd fd0 o')
  /\ (forall t o src, In (EvDupFail t o src) (trace c) -> src = obj_fd fd0 o).
Proof.
  intros I. split.
  - intros t o src new H. destruct (ev_ok_In _ _ _ I H) as [B E]. exact E.
  - intros t o src H. destruct (ev_ok_In _ _ _ I H) as [B E]. exact E.
Qed.

Definition quiescent (c : cfg) : Prop := forall th, In th (threads c) -> pc th = Idle.
(** no thread owns a handle on object o *)
Definition all_handles_dropped (o : nat) (c : cfg) : Prop := forall th, In th (threads c) -> nlive o th = 0.

Lemma strong_is_live_handles fd0 c o : Inv fd0 c -> o < length (objs (sh c)) ->
  strong (get_obj (sh c) o) = sumf (nlive o) (threads c)
  /\ (strong (get_obj (sh c) o) = 0 <-> all_handles_dropped o c).
Proof.
  intros I Ho. pose proof (i_strong _ _ _ (g_objs _ _ I o Ho)) as S. split; [exact S|]. rewrite S.
  unfold all_handles_dropped. split; [apply sumf_0_all|apply sumf_all0].
Qed.

(** (c) when no thread is inside a call, nobody took object o's descriptor and all handles on o
    are dropped, close has been called exactly once for o; and every successful take has returned *)
Lemma close_exactly_once fd0 c o : Inv fd0 c -> o < length (objs (sh c)) -> quiescent c -> threads c <> [] ->
  (cnt (is_takecas o) (trace c) = 0 -> all_handles_dropped o c -> cnt (is_close o) (trace c) = 1)
  /\ cnt (is_take_some o) (trace c) = cnt (is_takecas o) (trace c).
Proof.
  intros I Ho Q NE. rewrite !cnt_trace.
  assert (Z1 : sumf (in_dtor o) (threads c) = 0).
  { apply sumf_all0. intros th Hin. specialize (Q th Hin). destruct th; cbn in *. subst. reflexivity. }
  assert (Z2 : sumf (holds_take o) (threads c) = 0).
  { apply sumf_all0. intros th Hin. specialize (Q th Hin). destruct th; cbn in *. subst. reflexivity. }
  pose proof (g_objs _ _ I o Ho) as IO.
  split.
  - intros NT AD. apply (strong_is_live_handles _ _ _ I Ho) in AD.
    pose proof (i_dz5 _ _ _ IO NT). destruct (i_dz3 _ _ _ IO AD) as [?|?]; [lia|contradiction].
  - pose proof (i_take _ _ _ IO). lia.
Qed.

(** a failing dup(2) changes nothing but the trace *)
Lemma dup_fail_no_effect t th s o v : pc th = DupSys o v true ->
  objs (snd (step_thread t th s)) = objs s /\ next_fd (snd (step_thread t th s)) = next_fd s
  /\ live (fst (step_thread t th s)) = live th.
Proof. intros H. unfold step_thread. rewrite H. cbn. auto. Qed.

(** * Ownership: programs accepted by [ownership_respected] never perform an invalid operation *)

Lemma In_rmh x h L : In x (rmh h L) -> In x L.
Proof.
  induction L as [|y r IH]; cbn; [auto|]. destruct (Nat.eqb h y); cbn; [auto|]. intros [->|H]; auto.
Qed.

Lemma NoDup_rmh h L : NoDup L -> NoDup (rmh h L).
Proof.
  induction L as [|y r IH]; cbn; [auto|]. intros H. inversion H; subst.
  destruct (Nat.eqb h y); [assumption|]. constructor; [|auto]. intros Hin. apply In_rmh in Hin. contradiction.
Qed.

Lemma In_rmh_neq x h L : NoDup L -> In x (rmh h L) -> x <> h.
Proof.
  induction L as [|y r IH]; cbn; [intros _ []|]. intros H. inversion H; subst.
  destruct (Nat.eqb_spec h y).
  - subst. intros Hin ->. contradiction.
  - cbn. intros [->|Hin]; [congruence|auto].
Qed.

Lemma lookup_rm1_other x h lv : x <> h -> lookup x (rm1 h lv) = lookup x lv.
Proof.
  intros Hne. induction lv as [|[h' o'] r IH]; cbn; [reflexivity|].
  destruct (Nat.eqb_spec h h').
  - subst. destruct (Nat.eqb_spec x h'); [congruence|reflexivity].
  - cbn. destruct (Nat.eqb x h'); auto.
Qed.

Definition Lok (L : list nat) (nx : nat) : Prop := NoDup L /\ forall h, In h L -> h < nx.
(** every handle number the static check counts on is, at run time, a live handle or a dead one *)
Definition sub_live (L : list nat) (lv : list (nat * nat)) (dd : list nat) : Prop :=
  forall h, In h L -> lookup h lv <> None \/ has h dd = true.

Definition own_pc (p : pcs) (pg : list op) (L : list nat) (nx : nat) : Prop :=
  match p with
  | Idle => own_ok pg L nx = true
  | TakeCas h _ _ | TakeDec h _ _ => In h L /\ own_ok (tl pg) (rmh h L) nx = true
  | DupSys _ _ false => own_ok (tl pg) (nx :: L) (S nx) = true
  | DupSys _ _ true => own_ok (tl pg) L nx = true
  | DtorLoad _ k | DtorCas _ _ k | DtorClose _ _ k => k <> RInvalid /\ own_ok (tl pg) L nx = true
  end.

Definition own_th (th : thread) : Prop :=
  exists L, Lok L (nexth th) /\ sub_live L (live th) (dead th) /\ own_pc (pc th) (prog th) L (nexth th).

Definition no_invalid (lg : list event) : Prop := forall t i o, ~ In (EvRet t i o RInvalid) lg.

Record OwnInv (c : cfg) : Prop := mkOwnInv {
  o_th : forall th, In th (threads c) -> own_th th;
  o_log : no_invalid (log (sh c))
}.

Lemma In_upd {A} (l : list A) : forall t x y, In y (upd t x l) -> y = x \/ In y l.
Proof.
  induction l as [|a r IH]; intros [|t] x y H; cbn in *; try contradiction.
  - destruct H; auto.
  - destruct H as [->|H]; auto. destruct (IH _ _ _ H); auto.
Qed.

Lemma own_init progs : ownership_respected progs = true -> forall fd0, OwnInv (init fd0 progs).
Proof.
  intros H. unfold ownership_respected in H. rewrite forallb_forall in H.
  intros fd0. constructor; cbn.
  - intros th Hin. apply in_map_iff in Hin as (p & <- & Hp). exists [0]. cbn. repeat split.
    + repeat constructor. intros [].
    + intros h [<-|[]]. lia.
    + intros h [<-|[]]. left. cbn. discriminate.
    + apply H, Hp.
  - intros t i o [].
Qed.

Lemma Lok_cons L nx : Lok L nx -> Lok (nx :: L) (S nx).
Proof.
  intros [N B]. split.
  - constructor; [|assumption]. intros Hin. apply B in Hin. lia.
  - intros h [<-|Hin]; [lia|]. apply B in Hin. lia.
Qed.

Lemma Lok_rmh h L nx : Lok L nx -> Lok (rmh h L) nx.
Proof. intros [N B]. split; [apply NoDup_rmh, N|]. intros x Hin. apply B. eapply In_rmh, Hin. Qed.

Lemma sub_live_rmh h L lv dd : NoDup L -> sub_live L lv dd -> sub_live (rmh h L) (rm1 h lv) dd.
Proof.
  intros N S x Hin. pose proof (In_rmh_neq _ _ _ N Hin) as Hne. apply In_rmh in Hin.
  rewrite (lookup_rm1_other _ _ _ Hne). apply S, Hin.
Qed.

Lemma sub_live_rmh_skip h L lv dd : sub_live L lv dd -> sub_live (rmh h L) lv dd.
Proof. intros S x Hin. apply S. eapply In_rmh, Hin. Qed.

Lemma sub_live_cons_live L lv dd nx o : sub_live L lv dd -> sub_live (nx :: L) ((nx, o) :: lv) dd.
Proof.
  intros S x [<-|Hin].
  - left. cbn. rewrite Nat.eqb_refl. discriminate.
  - destruct (S x Hin) as [H|H]; [left|right; exact H]. cbn. destruct (Nat.eqb x nx); [discriminate|exact H].
Qed.

Lemma sub_live_cons_dead L lv dd nx : sub_live L lv dd -> sub_live (nx :: L) lv (nx :: dd).
Proof.
  intros S x [<-|Hin].
  - right. unfold has. cbn. rewrite Nat.eqb_refl. reflexivity.
  - destruct (S x Hin) as [H|H]; [left; exact H|right]. unfold has in *. cbn. rewrite H. apply orb_true_r.
Qed.

Ltac own_facts :=
  repeat match goal with
  | H : _ /\ _ |- _ => destruct H
  | H : andb _ _ = true |- _ => apply andb_prop in H
  | H : has _ _ = true |- _ => apply has_In in H
  end.

Ltac solve_own_th HL HS :=
  repeat match goal with |- _ /\ _ => split end;
  first [ assumption
        | exact HL
        | apply Lok_cons; exact HL
        | apply Lok_rmh; exact HL
        | exact HS
        | apply sub_live_rmh; [apply HL|exact HS]
        | apply sub_live_rmh_skip; exact HS
        | apply sub_live_cons_live; exact HS
        | apply sub_live_cons_dead; exact HS
        | discriminate
        | idtac ].

Lemma step_own t c : OwnInv c -> OwnInv (step t c).
Proof.
  intros [Oth Olog]. unfold step. destruct (nth_error (threads c) t) as [th|] eqn:E; [|constructor; assumption].
  destruct (step_thread t th (sh c)) as [th' s'] eqn:ST.
  destruct c as [[obs nf lg] ths]. destruct th as [pg dn p lv dd nx].
  cbn [sh threads objs next_fd log] in *.
  destruct (Oth _ (nth_error_In _ _ E)) as (L & HL & HS & HP). cbn [pc prog live dead nexth] in HL, HS, HP.
  split_step ST.
  all: try solve [rewrite (upd_same _ _ _ E); constructor; assumption].
  all: red_rec; cbn [op_handle] in *.
  all: try match goal with oo : op |- _ => destruct oo; cbn [allocates op_handle] in *; try discriminate end.
  all: cbn [own_pc own_ok tl] in HP; own_facts.
  (* an operation on a handle that is neither live nor dead is impossible *)
  all: try match goal with Hn : lookup ?h _ = None, Hd : has ?h _ = false, Hi : In ?h _ |- _ =>
         exfalso; destruct (HS h Hi) as [X|X]; [apply X; exact Hn|rewrite X in Hd; discriminate] end.
  all: constructor; red_rec.
  all: try (intros th0 Hin; apply In_upd in Hin as [->|Hin]; [|apply Oth; exact Hin];
            unfold own_th; cbn [pc prog live dead nexth own_pc tl];
            first [ exists L; solve [solve_own_th HL HS]
                  | match goal with Hi : In ?h ?LL |- _ => exists (rmh h LL); solve [solve_own_th HL HS] end
                  | exists (nx :: L); solve [solve_own_th HL HS] ]).
  all: try (intros t0 i0 o0 Hin; cbn [In] in Hin;
            repeat match goal with H : _ \/ _ |- _ => destruct H as [H|H]; [try discriminate H; try (injection H as ? ? ? ?; subst; congruence)|] end;
            eapply Olog; eassumption).
Qed.

Lemma exec_own sched : forall c, OwnInv c -> OwnInv (exec sched c).
Proof. induction sched as [|t r IH]; intros c I; cbn [exec]; [exact I|]. apply IH, step_own, I. Qed.

(** * Termination of the run-to-completion phase *)

Definition measure (th : thread) : nat :=
  match pc th with
  | Idle => 6 * length (prog th)
  | TakeCas _ _ _ => 6 * length (tl (prog th)) + 5
  | TakeDec _ _ _ => 6 * length (tl (prog th)) + 4
  | DtorLoad _ _ => 6 * length (tl (prog th)) + 3
  | DtorCas _ _ _ => 6 * length (tl (prog th)) + 2
  | DtorClose _ _ _ | DupSys _ _ _ => 6 * length (tl (prog th)) + 1
  end.

Lemma measure_bound th : measure th <= steps_bound th.
Proof. unfold measure, steps_bound. destruct th as [[|o pg] dn [] lv dd nx]; cbn [pc prog tl length]; lia. Qed.

Lemma measure_0_finished th : measure th = 0 <-> finished th = true.
Proof.
  unfold measure, finished. destruct th as [[|o pg] dn [] lv dd nx]; cbn [pc prog tl length]; split; intros H; try lia; try discriminate; reflexivity.
Qed.

Lemma step_thread_measure t th s th' s' : step_thread t th s = (th', s') ->
  (measure th = 0 /\ th' = th /\ s' = s) \/ measure th' < measure th.
Proof.
  intros ST. destruct th as [pg dn p lv dd nx]. destruct s as [obs nf lg].
  split_step ST.
  all: try solve [left; cbn; auto].
  all: right; unfold measure; red_rec; cbn [tl length]; try lia.
  all: destruct pg; cbn [tl length]; lia.
Qed.

Lemma step_threads_other t c j : j <> t -> nth_error (threads (step t c)) j = nth_error (threads c) j.
Proof.
  intros H. unfold step. destruct (nth_error (threads c) t) eqn:E; [|reflexivity].
  destruct (step_thread t t0 (sh c)). cbn [threads]. apply nth_upd_other. auto.
Qed.

Lemma step_threads_length t c : length (threads (step t c)) = length (threads c).
Proof.
  unfold step. destruct (nth_error (threads c) t) eqn:E; [|reflexivity].
  destruct (step_thread t t0 (sh c)). cbn [threads]. apply upd_length.
Qed.

Lemma step_same_measure t c th : nth_error (threads c) t = Some th ->
  exists th', nth_error (threads (step t c)) t = Some th'
              /\ (measure th' < measure th \/ (measure th = 0 /\ th' = th)).
Proof.
  intros E. unfold step. rewrite E. destruct (step_thread t th (sh c)) as [th' s'] eqn:ST. cbn [threads].
  exists th'. split; [eapply nth_upd_same; eassumption|].
  apply step_thread_measure in ST. intuition.
Qed.

Lemma exec_app a : forall b c, exec (a ++ b) c = exec b (exec a c).
Proof. induction a as [|t r IH]; intros b c; cbn [app exec]; [reflexivity|apply IH]. Qed.

Lemma exec_length sched : forall c, length (threads (exec sched c)) = length (threads c).
Proof. induction sched as [|t r IH]; intros c; cbn [exec]; [reflexivity|]. rewrite IH. apply step_threads_length. Qed.

Lemma repeat_measure n : forall t c th, nth_error (threads c) t = Some th -> measure th <= n ->
  exists th', nth_error (threads (exec (repeat t n) c)) t = Some th' /\ measure th' = 0.
Proof.
  induction n as [|n IH]; intros t c th E M; cbn [repeat exec].
  - exists th. split; [assumption|lia].
  - destruct (step_same_measure _ _ _ E) as (th' & E' & M'). apply IH with th'; [assumption|].
    destruct M' as [?|[? ->]]; lia.
Qed.

Lemma exec_repeat_other n t : forall c j, j <> t ->
  nth_error (threads (exec (repeat t n) c)) j = nth_error (threads c) j.
Proof.
  induction n as [|n IH]; intros c j H; cbn [repeat exec]; [reflexivity|].
  rewrite IH by assumption. apply step_threads_other. assumption.
Qed.

Lemma exec_keeps_finished sched : forall c j th, nth_error (threads c) j = Some th -> measure th = 0 ->
  nth_error (threads (exec sched c)) j = Some th.
Proof.
  induction sched as [|t r IH]; intros c j th E M; cbn [exec]; [assumption|].
  apply IH; [|assumption]. destruct (Nat.eq_dec j t) as [->|Hne].
  - destruct (step_same_measure _ _ _ E) as (th' & E' & [?|[_ ->]]); [lia|assumption].
  - rewrite step_threads_other by assumption. assumption.
Qed.

Lemma completion_from_all suffix : forall k c,
  (forall j th, nth_error suffix j = Some th -> nth_error (threads c) (k + j) = Some th) ->
  length (threads c) = k + length suffix ->
  (forall j th, j < k -> nth_error (threads c) j = Some th -> measure th = 0) ->
  forall j th, nth_error (threads (exec (completion_from k suffix) c)) j = Some th -> measure th = 0.
Proof.
  induction suffix as [|th0 r IH]; intros k c Hsuf Hlen Hfin j th Hj; cbn [completion_from exec] in Hj.
  - apply (Hfin j th); [|assumption]. cbn in Hlen.
    assert (j < length (threads c)) by (apply nth_error_Some; congruence). lia.
  - rewrite exec_app in Hj.
    set (c1 := exec (repeat k (steps_bound th0)) c) in *.
    revert j th Hj. apply (IH (S k) c1).
    + intros j th Hr. unfold c1. rewrite exec_repeat_other by lia.
      replace (S k + j) with (k + S j) by lia. apply Hsuf. exact Hr.
    + unfold c1. rewrite exec_length. cbn [length] in Hlen. lia.
    + intros j th Hlt Hj.
      assert (E0 : nth_error (threads c) k = Some th0).
      { replace k with (k + 0) by lia. apply Hsuf. reflexivity. }
      destruct (Nat.eq_dec j k) as [->|Hne].
      * destruct (repeat_measure (steps_bound th0) k c th0 E0 (measure_bound th0)) as (th' & E' & M').
        fold c1 in E'. congruence.
      * assert (Hjk : j < k) by lia.
        destruct (nth_error (threads c) j) as [thj|] eqn:Ej.
        -- pose proof (Hfin j thj Hjk Ej) as Mj.
           pose proof (exec_keeps_finished (repeat k (steps_bound th0)) c j thj Ej Mj) as K.
           fold c1 in K. congruence.
        -- apply nth_error_None in Ej. lia.
Qed.

(** whatever the schedule did, after the run-to-completion phase every thread has finished *)
Lemma run_all_finished sched c : all_finished (run sched c) = true.
Proof.
  unfold run, all_finished, completion. set (c1 := exec sched c).
  apply forallb_forall. intros th Hin. apply In_nth_error in Hin as (j & Hj).
  apply measure_0_finished.
  apply (completion_from_all (threads c1) 0 c1) with (j := j); auto.
  - intros ? ? ?; lia.
Qed.

Lemma all_finished_quiescent c : all_finished c = true -> quiescent c.
Proof.
  unfold all_finished, quiescent. rewrite forallb_forall. intros H th Hin. specialize (H th Hin).
  unfold finished in H. destruct (pc th); try discriminate. reflexivity.
Qed.

Lemma run_inv fd0 progs sched : (0 <= fd0)%Z -> Inv fd0 (run sched (init fd0 progs)).
Proof. intros H. unfold run. apply exec_inv, exec_inv, inv_init, H. Qed.

Lemma run_is_exec sched c : run sched c = exec (sched ++ completion (exec sched c)) c.
Proof. unfold run. rewrite exec_app. reflexivity. Qed.

(** * The property, as stated in Properties/C12.v *)

(** per object o: take_raw_fd calls that returned Some, close calls, the successful
    compare_exchange of a take_raw_fd, Arc decrements that brought the strong count to 0 *)
Definition successful_takes (o : nat) (c : cfg) : list event := filter (is_take_some o) (trace c).
Definition closes (o : nat) (c : cfg) : list event := filter (is_close o) (trace c).
Definition take_swaps (o : nat) (c : cfg) : list event := filter (is_takecas o) (trace c).
Definition last_drops (o : nat) (c : cfg) : list event := filter (is_deczero o) (trace c).
(** all close(fd) calls, whatever the object *)
Definition closes_of_fd (fd : Z) (c : cfg) : list event := filter (closes_fd fd) (trace c).

Lemma filter_nil_cnt p l : filter p l = [] <-> cnt p l = 0.
Proof. rewrite cnt_filter_length. destruct (filter p l); cbn; split; intros; try reflexivity; try discriminate. Qed.

(** what holds for one object (the shared one, o = 0, or one created by a dup) *)
Definition object_safe (fd0 : Z) (c : cfg) (o : nat) : Prop :=
  (* (a) at most one take returns Some, and only the call that performed the one successful compare_exchange *)
  length (successful_takes o c) <= 1
  /\ length (take_swaps o c) <= 1
  /\ length (successful_takes o c) <= length (take_swaps o c)
  (* (e) at most one close *)
  /\ length (closes o c) <= 1
  (* (c) at most one decrement reaches 0; not before: while a handle on o is alive nothing is closed *)
  /\ length (last_drops o c) <= 1
  /\ (strong (get_obj (sh c) o) = 0 <-> all_handles_dropped o c)
  /\ (~ all_handles_dropped o c -> closes o c = [])
  (* (d) if a take succeeded the library never closes *)
  /\ (take_swaps o c <> [] -> closes o c = [])
  /\ (successful_takes o c <> [] -> closes o c = []).

(** Safety, for every prefix of every interleaving (no assumption on the programs: an operation
    on a handle the thread does not own is skipped by the model; [ownership_respected] is what
    makes [c12_complete] below talk about all operations). *)
Lemma c12_safety fd0 progs sched : (0 <= fd0)%Z ->
  let c := exec sched (init fd0 progs) in
  (* object 0 is the shared one, over fd0 *)
  1 <= length (objs (sh c)) /\ obj_fd fd0 0 = fd0
  (* (a) takes and gets return the object's own descriptor *)
  /\ (forall t i o v, In (EvRet t i o (RTake (Some v))) (trace c) -> v = obj_fd fd0 o)
  /\ (forall t i o v, In (EvRet t i o (RGet (Some v))) (trace c) -> v = obj_fd fd0 o)
  (* (b) every get/take/dup on o whose first atomic action comes after the take's compare_exchange on o reports gone *)
  /\ (forall pre tk o v mid t i mid2 r post,
        trace c = pre ++ EvTakeCas tk o v :: mid ++ EvStart t i o :: mid2 ++ EvRet t i o r :: post -> gone r)
  /\ (forall pre t i o r post, trace c = pre ++ EvRet t i o r :: post -> In (EvStart t i o) pre)
  (* (c)(e) every close is the close of an existing object's own descriptor, made by the thread whose
     decrement brought that object's strong count to 0, after that decrement; no number is closed twice *)
  /\ (forall t o fd, In (EvClose t o fd) (trace c) -> o < length (objs (sh c)) /\ fd = obj_fd fd0 o)
  /\ (forall pre t o fd post, trace c = pre ++ EvClose t o fd :: post -> In (EvDecZero t o) pre)
  /\ (forall fd, length (closes_of_fd fd c) <= 1)
  (* dup reads the object's own descriptor; a successful dup returns the descriptor of a new object
     (never object 0), for which [object_safe] holds like for any other; a failing dup only reads *)
  /\ (forall t o src new, In (EvDupSys t o src new) (trace c) ->
        src = obj_fd fd0 o /\ exists o', o' < length (objs (sh c)) /\ 0 < o' /\ new = obj_fd fd0 o')
  /\ (forall t o src, In (EvDupFail t o src) (trace c) -> src = obj_fd fd0 o)
  /\ (forall o, o < length (objs (sh c)) -> object_safe fd0 c o).
Proof.
  intros Hfd c. pose proof (inv_reach fd0 progs sched Hfd) as I. fold c in I.
  destruct (ret_values _ _ I) as (V1 & V2).
  destruct (close_events _ _ I) as (E1 & E2).
  destruct (dup_events _ _ I) as (D1 & D2).
  repeat match goal with |- _ /\ _ => split end; auto.
  - apply (g_len _ _ I).
  - unfold obj_fd. cbn. lia.
  - apply (after_take_gone _ _ I).
  - apply (ret_has_start _ _ I).
  - intros fd. unfold closes_of_fd. rewrite <- cnt_filter_length. apply (no_double_close _ _ _ I).
  - intros o Ho.
    destruct (take_at_most_once _ _ _ I Ho) as (A1 & A2 & A3).
    destruct (close_facts _ _ _ I Ho) as (C1 & C4 & C5 & C6).
    destruct (strong_is_live_handles _ _ _ I Ho) as (S1 & S2).
    unfold object_safe, successful_takes, take_swaps, closes, last_drops.
    rewrite <- !cnt_filter_length.
    repeat match goal with |- _ /\ _ => split end; auto.
    + intros H. apply filter_nil_cnt. apply C5.
      destruct (strong (get_obj (sh c) o)) eqn:E; [|lia]. exfalso. apply H. apply S2. reflexivity.
    + intros H. apply filter_nil_cnt. apply C6.
      destruct (cnt (is_takecas o) (trace c)) eqn:E; [|lia]. apply filter_nil_cnt in E. contradiction.
    + intros H. apply filter_nil_cnt. apply C6.
      destruct (cnt (is_take_some o) (trace c)) eqn:E; [|lia]. apply filter_nil_cnt in E. contradiction.
Qed.

(** Completed runs: [run] = the schedule followed by the run-to-completion phase
    (= [exec] on a longer schedule, [run_is_exec], so [c12_safety] applies to it too). *)
Lemma c12_complete fd0 progs sched : (0 <= fd0)%Z -> progs <> [] ->
  ownership_respected progs = true ->
  let c := run sched (init fd0 progs) in
  all_finished c = true
  (* every operation was executed on a handle its thread owned, or skipped because the dup that
     would have created the handle did not succeed *)
  /\ (forall t i o, ~ In (EvRet t i o RInvalid) (trace c))
  /\ (forall o, o < length (objs (sh c)) ->
        (* (c) nobody took it and every handle was dropped: close(its descriptor) exactly once *)
        (take_swaps o c = [] -> all_handles_dropped o c -> exists t, closes o c = [EvClose t o (obj_fd fd0 o)])
        (* (c) not all handles dropped: not closed *)
        /\ (~ all_handles_dropped o c -> closes o c = [])
        (* (d) somebody took it: exactly one take returned Some, nothing closed *)
        /\ (take_swaps o c <> [] -> length (successful_takes o c) = 1 /\ closes o c = [])).
Proof.
  intros Hfd Hne Hown c.
  pose proof (run_inv fd0 progs sched Hfd) as I. fold c in I.
  pose proof (run_all_finished sched (init fd0 progs)) as F. fold c in F.
  pose proof (all_finished_quiescent _ F) as Q.
  assert (NE : threads c <> []).
  { intros E. apply (f_equal (@length thread)) in E. unfold c, run in E.
    rewrite !exec_length in E. cbn in E. rewrite map_length in E. destruct progs; [contradiction|discriminate]. }
  repeat match goal with |- _ /\ _ => split end.
  - exact F.
  - intros t i o H. apply In_trace in H.
    pose proof (own_init progs Hown fd0) as O.
    unfold c, run in H. apply (o_log _ (exec_own _ _ (exec_own _ _ O)) t i o H).
  - intros o Ho.
    destruct (close_exactly_once _ _ _ I Ho Q NE) as (X1 & X2).
    destruct (close_facts _ _ _ I Ho) as (C1 & C4 & C5 & C6).
    destruct (strong_is_live_handles _ _ _ I Ho) as (S1 & S2).
    destruct (take_at_most_once _ _ _ I Ho) as (A1 & A2 & _).
    destruct (close_events _ _ I) as (E1 & _).
    unfold successful_takes, take_swaps, closes.
    repeat match goal with |- _ /\ _ => split end.
    + intros NT AD. apply filter_nil_cnt in NT. specialize (X1 NT AD).
      rewrite cnt_filter_length in X1.
      destruct (filter (is_close o) (trace c)) as [|e [|e' r]] eqn:E; cbn in X1; try lia.
      assert (Hin : In e (filter (is_close o) (trace c))) by (rewrite E; left; reflexivity).
      apply filter_In in Hin as (Hin & Hc). destruct e as [| | | | | |t1 o1 f1|]; try discriminate.
      cbn in Hc. apply Nat.eqb_eq in Hc. subst o1.
      exists t1. rewrite (proj2 (E1 _ _ _ Hin)). reflexivity.
    + intros H. apply filter_nil_cnt. apply C5.
      destruct (strong (get_obj (sh c) o)) eqn:E; [|lia]. exfalso. apply H. apply S2. reflexivity.
    + intros H. rewrite <- cnt_filter_length.
      assert (0 < cnt (is_takecas o) (trace c)).
      { destruct (cnt (is_takecas o) (trace c)) eqn:E; [|lia]. apply filter_nil_cnt in E. contradiction. }
      split; [lia|]. apply filter_nil_cnt. apply C6. assumption.
Qed.

(** ** The hypotheses are inhabited; the statements are not vacuous *)

Example c12_ex_hyps : (0 <= 100)%Z /\ ex3_progs <> [] /\ ownership_respected ex3_progs = true.
Proof. repeat split; [discriminate|discriminate]. Qed.

(* (b)'s premise occurs: thread 0 takes (load, compare_exchange), then thread 1 starts its get *)
Example c12_ex_after_take :
  trace (exec [0; 0; 1] (init 100 ex3_progs))
  = [EvStart 0 0 0] ++ EvTakeCas 0 0 100 :: [] ++ EvStart 1 0 0 :: [] ++ EvRet 1 0 0 (RGet None) :: [].
Proof. vm_compute. reflexivity. Qed.

(* nobody takes, everybody drops: one close per object, by the thread whose decrement was the
   last; the dup result (object 1 over 8) is closed when its only handle is dropped *)
Example c12_ex_close :
  let c := run [0; 0; 1] (init 7 [ [Dup 0; Drop 0; Drop 1]; [Get 0; Drop 0] ]) in
  take_swaps 0 c = [] /\ all_finished c = true /\ map strong (objs (sh c)) = [0; 0]
  /\ closes 0 c = [EvClose 1 0 7] /\ last_drops 0 c = [EvDecZero 1 0]
  /\ closes 1 c = [EvClose 0 1 8] /\ closes_of_fd 8 c = [EvClose 0 1 8].
Proof. vm_compute. repeat split; reflexivity. Qed.

(* somebody takes: no close although everything is dropped *)
Example c12_ex_taken :
  let c := run [1; 0; 1; 0; 1; 2; 2; 0] (init 100 ex3_progs) in
  successful_takes 0 c = [EvRet 0 0 0 (RTake (Some 100%Z))] /\ closes 0 c = [] /\ map strong (objs (sh c)) = [0].
Proof. vm_compute. repeat split; reflexivity. Qed.

(* a failing dup while another clone is alive: nothing is closed until the last drop *)
Example c12_ex_dupfail :
  let c := exec [0; 0] (init 7 [ [DupFail 0; Drop 0]; [Get 0; Drop 0] ]) in
  results_of 0 c = [RDupErr] /\ syscalls c = [EvDupFail 0 0 7] /\ closes 0 c = []
  /\ map strong (objs (sh c)) = [2].
Proof. vm_compute. repeat split; reflexivity. Qed.
