(** C11 — histories: the operations a caller can perform on descriptors, handles, message bodies
    and the connection, their effect on the process model of Fd/Table.v, and the vocabulary in
    which the property is stated (the SPECIFICATION part at the end is written from the property
    text and only reads the ghost trace, the table and the owners' handle lists).

    Mirrors: rustbus/src/wire/util.rs (marshal_unixfd), wire/wrapper_types/unixfd.rs (UnixFd::new,
    take_raw_fd, dup, Clone, Drop for UnixFdInner, impl Marshal for &dyn AsRawFd),
    message_builder.rs (push_param.. via push_mult_helper, reset, drop, get_raw_fds, from_parts),
    connection/ll_conn.rs (write_once: descriptors go with the first sendmsg; refill_buffer +
    get_next_message: received descriptors are wrapped and moved into the message),
    wire/unmarshal_context.rs (read_unixfd), wire/marshal.rs (UNIX_FDS = get_fds().len()). *)
From RB Require Import Base.Prelude Fd.Table.

Inductive op :=
| Open                                   (* the caller opens a file (pipe, temp file) *)
| CallerClose (c : nat)                  (* the caller closes descriptor slot c *)
| Wrap (c : nat)                         (* UnixFd::new(fd of slot c) *)
| NewBody                                (* MarshalledMessageBody::new() *)
| Push (b : nat) (its : list pitem)      (* one push_param/push_param2../push_params call whose value contains these descriptors in marshalling order *)
| Reset (b : nat)                        (* body.reset() *)
| DropBody (b : nat)                     (* drop(body) *)
| Send (b : nat)                         (* conn.send.send_message(&msg)?.write_all() *)
| Inject (cs : list nat) (idxs : list N) (* the peer sends a message with the caller's descriptors cs attached and the indices idxs in its body *)
| Recv                                   (* conn.recv.get_next_message() *)
| Unmarshal (b : nat) (idx : N)          (* UnmarshalContext::read_unixfd on body b's descriptor list with index idx read from the buffer *)
| Parse (b : nat) (j : nat)              (* body.parser(): the j-th descriptor stored in body b's bytes *)
| Decode (b : nat) (k : nat)             (* body.parser().get_param() (dynamic Param API) over the leading params of body b that
                                            hold its first k stored descriptors; the decoded Params own the results *)
| DecodeOwned (b : nat)                  (* msg.unmarshall_all(): the whole body through the dynamic API; consumes the message
                                            (Message.raw_fds keeps the list); on Err the message is dropped *)
| Clone (h : nat)                        (* h.clone() *)
| DupH (h : nat)                         (* h.dup() *)
| Take (h : nat)                         (* h.take_raw_fd() *)
| DropHandle (h : nat).                  (* drop(h) *)

Inductive res :=
| RInvalid                    (* the operation names something that does not exist (any more): skipped *)
| RUnit
| RErr                        (* the call returned Err *)
| RCfd (c : nat)              (* new descriptor slot of the caller *)
| RHandle (h : nat)           (* new handle variable of the caller *)
| RHandles (hs : list nat)    (* several new handle variables (one per decoded descriptor, in wire order) *)
| RBody (b : nat)             (* new body *)
| RPushed (idxs : list N)     (* Ok: the indices written into the body *)
| RSent (hdr n : N)           (* Ok: UNIX_FDS header value (0 = field absent), number of descriptors attached to the first sendmsg *)
| RTaken (c : option nat).    (* take_raw_fd: Some(fd) stored in new slot c / None *)

(** [MarshalledMessageBody::push_param] & friends = [push_mult_helper(|msg| ...)]:
    remember [fds_len]/[buf_len], run the marshal calls, on Err truncate [buf] and [raw_fds]
    ([Vec::truncate] drops the removed handles). *)
Definition push_multi (b : nat) (its : list pitem) (s : st) : st * res :=
  match lookup_b s b with
  | None => (s, RInvalid)
  | Some bd =>
    if forallb (item_valid s) its then
      let fds_len := length (bfds bd) in
      let buf_len := length (bidx bd) in
      let (s1, ok) := marshal_items b its s in
      match lookup_b s1 b with
      | None => (s1, RInvalid)
      | Some bd1 =>
        if ok then (s1, RPushed (skipn buf_len (bidx bd1)))
        else
          let s2 := set_body b (Some (mkBody (firstn fds_len (bfds bd1)) (firstn buf_len (bidx bd1)))) s1 in
          (drop_objs (skipn fds_len (bfds bd1)) s2, RErr)
      end
    else (s, RInvalid)
  end.

(** [RecvConn::refill_buffer]: [fds_in.extend(fds.into_iter().map(UnixFd::new))] for the
    ScmRights control message of the first byte: the kernel installs a new descriptor per file *)
Definition recv_fds (ofds : list N) (s : st) : st :=
  fold_left (fun s o => lib_new_fd (fun f => EvRecvFd f o) o s) ofds s.

(** the open files a descriptor list refers to *)
Definition ofds_of (s : st) (fds : list N) : list N := filter_some (map (tab s) fds).

(** [read_unixfd] Ok branch: [Ok(val.clone())] into a new variable of the caller *)
Definition unmarshal_at (bd : body) (idx : N) (s : st) : st * res :=
  match read_unixfd (bfds bd) idx with
  | Some o => (add_hnd o (clone_obj o s), RHandle (length (hnd s)))
  | None => (s, RErr)
  end.

(** The dynamic API (wire/unmarshal/param/base.rs [unmarshal_base], reached from
    [MessageBodyParser::get_param], [unmarshal_body] = [MarshalledMessage::unmarshall_all] and
    [params::Variant]) decodes a descriptor with the very same call as the typed API:
    [signature::Base::UnixFd => { let val = ctx.read_unixfd()?; Ok(params::Base::UnixFd(val)) }],
    on an [UnmarshalContext] over the message's own [raw_fds]. A value with several descriptors is
    that call once per stored index, [?] on each. *)
Fixpoint read_all (fds : list nat) (idxs : list N) : option (list nat) :=
  match idxs with
  | [] => Some []
  | i :: r =>
    match read_unixfd fds i, read_all fds r with
    | Some o, Some os => Some (o :: os)
    | _, _ => None
    end
  end.

(** every decoded descriptor is [val.clone()] in a new place owned by the caller *)
Definition clone_all (os : list nat) (s : st) : st :=
  fold_left (fun s o => add_hnd o (clone_obj o s)) os s.

(** On [Err] the partially built value is dropped: the clones made so far go away again, while the
    message still holds its own handle of each object, so no count reaches 0, nothing is closed
    and the state is what it was. The model therefore decides first and clones only on success. *)
Definition decode_at (bd : body) (idxs : list N) (s : st) : st * res :=
  match read_all (bfds bd) idxs with
  | Some os => (clone_all os s, RHandles (seq (length (hnd s)) (length os)))
  | None => (s, RErr)
  end.

Definition step (s : st) (o : op) : st * res :=
  match o with
  | Open => (caller_open s, RCfd (length (cfds s)))
  | CallerClose c =>
    match lookup_c s c with
    | Some f => (caller_close c f s, RUnit)
    | None => (s, RInvalid)
    end
  | Wrap c =>
    match lookup_c s c with
    | Some f => (add_hnd (nobj s) (wrap_fd c f s), RHandle (length (hnd s)))
    | None => (s, RInvalid)
    end
  | NewBody => (set_bods (bods s ++ [Some (mkBody [] [])]) s, RBody (length (bods s)))
  | Push b its => push_multi b its s
  | Reset b =>
    (* self.buf.clear(); self.raw_fds.clear() *)
    match lookup_b s b with
    | Some bd => (drop_objs (bfds bd) (set_body b (Some (mkBody [] [])) s), RUnit)
    | None => (s, RInvalid)
    end
  | DropBody b =>
    match lookup_b s b with
    | Some bd => (drop_objs (bfds bd) (set_body b None s), RUnit)
    | None => (s, RInvalid)
    end
  | Send b =>
    (* send_message -> marshal::marshal -> marshal_header:
         if !msg.body.get_fds().is_empty() {
           if msg.body.get_raw_fds().len() != msg.body.get_fds().len() { return Err(EmptyUnixFd) }   (a handle was taken)
           UNIX_FDS = msg.body.get_fds().len() }                                  (field omitted when 0)
       write_once: if bytes_sent == 0 { msg.body.get_raw_fds() } else { vec![] } in ScmRights;
       the handles of the body stay where they are *)
    match lookup_b s b with
    | Some bd =>
      let raw := get_raw_fds s bd in
      if negb (len raw =? len (bfds bd)) then (s, RErr)
      else if SCM_MAX_FD <? len raw then (s, RErr)
      else
        let ofds := ofds_of s raw in
        (emit (EvSend (len (bfds bd)) ofds) (set_wire (wire s ++ [(ofds, bidx bd)]) s),
         RSent (len (bfds bd)) (len raw))
    | None => (s, RInvalid)
    end
  | Inject cs idxs =>
    if forallb (fun c => match lookup_c s c with Some _ => true | None => false end) cs then
      let raw := filter_some (map (lookup_c s) cs) in
      if SCM_MAX_FD <? len raw then (s, RErr)
      else
        let ofds := ofds_of s raw in
        (emit (EvInject ofds) (set_wire (wire s ++ [(ofds, idxs)]) s), RUnit)
    else (s, RInvalid)
  | Recv =>
    (* get_next_message: read_whole_message (refill_buffer collects the descriptors of this
       message's bytes), raw_fds = mem::take(&mut self.fds_in), unmarshal_next_message ->
       MarshalledMessageBody::from_parts(buf, offset, raw_fds, sig, byteorder) *)
    match wire s with
    | [] => (s, RInvalid)
    | (ofds, idxs) :: w =>
      let s1 := recv_fds ofds (set_wire w s) in
      let bd := mkBody (seq (nobj s) (length ofds)) idxs in
      let s2 := set_bods (bods s1 ++ [Some bd]) s1 in
      (emit (EvRecv (length (bods s)) (ofds_of s2 (get_raw_fds s2 bd))) s2, RBody (length (bods s)))
    end
  | Unmarshal b idx =>
    match lookup_b s b with
    | Some bd => unmarshal_at bd idx s
    | None => (s, RInvalid)
    end
  | Parse b j =>
    match lookup_b s b with
    | Some bd =>
      match nth_error (bidx bd) j with
      | Some idx => unmarshal_at bd idx s
      | None => (s, RInvalid)
      end
    | None => (s, RInvalid)
    end
  | Decode b k =>
    match lookup_b s b with
    | Some bd => if (k <=? length (bidx bd))%nat then decode_at bd (firstn k (bidx bd)) s else (s, RInvalid)
    | None => (s, RInvalid)
    end
  | DecodeOwned b =>
    (* unmarshall_all(self): params = unmarshal_body(.., &self.body.raw_fds, ..)?;
       Ok(Message { params, raw_fds: self.body.raw_fds, .. }): the list lives on in the Message (it
       stays body b here); on Err `self` is dropped with everything it holds *)
    match lookup_b s b with
    | Some bd =>
      match read_all (bfds bd) (bidx bd) with
      | Some _ => decode_at bd (bidx bd) s
      | None => (drop_objs (bfds bd) (set_body b None s), RErr)
      end
    | None => (s, RInvalid)
    end
  | Clone h =>
    match lookup_h s h with
    | Some o => (add_hnd o (clone_obj o s), RHandle (length (hnd s)))
    | None => (s, RInvalid)
    end
  | DupH h =>
    (* UnixFdInner::dup: get() -> None => Err(AlreadyTaken); nix::unistd::dup(fd) -> Arc::new *)
    match lookup_h s h with
    | Some o =>
      match cell (objs s o) with
      | Some f =>
        match tab s f with
        | Some od => (add_hnd (nobj s) (lib_new_fd (fun n => EvDup f n od) od s), RHandle (length (hnd s)))
        | None => (s, RErr)
        end
      | None => (s, RErr)
      end
    | None => (s, RInvalid)
    end
  | Take h =>
    (* take_raw_fd(self): self.0.take(), then self is dropped *)
    match lookup_h s h with
    | Some o =>
      match cell (objs s o) with
      | Some f => (drop_obj o (take_cell o f (clear_hnd h s)), RTaken (Some (length (cfds s))))
      | None => (drop_obj o (clear_hnd h s), RTaken None)
      end
    | None => (s, RInvalid)
    end
  | DropHandle h =>
    match lookup_h s h with
    | Some o => (drop_obj o (clear_hnd h s), RUnit)
    | None => (s, RInvalid)
    end
  end.

Fixpoint run (ops : list op) (s : st) : st :=
  match ops with
  | [] => s
  | o :: r => run r (fst (step s o))
  end.

(** ** Observation (what the correspondence check compares with the real process) *)

Record snap := mkSnap {
  sn_tab : list (N * N);                               (* open descriptors with their open file *)
  sn_cfds : list (option N);                           (* the caller's descriptor slots *)
  sn_hnd : list (option (option N));                   (* per handle variable: None = gone, Some (get_raw_fd()) *)
  sn_bods : list (option (list (option N) * list N));  (* per body: get_fds() as get_raw_fd() values, indices in the bytes *)
  sn_wire : list (list N * list N)
}.

Definition table_list (s : st) : list (N * N) :=
  flat_map (fun n => let f := N.of_nat n in match tab s f with Some o => [(f, o)] | None => [] end)
           (seq 0 (N.to_nat (nfd s))).

Definition snapshot (s : st) : snap :=
  mkSnap (table_list s) (cfds s)
         (map (fun x => match x with Some o => Some (cell (objs s o)) | None => None end) (hnd s))
         (map (fun x => match x with
                        | Some bd => Some (map (fun o => cell (objs s o)) (bfds bd), bidx bd)
                        | None => None end) (bods s))
         (wire s).

(** per operation: result, the events it emitted (oldest first), the state after it *)
Fixpoint observe_from (s : st) (ops : list op) : list (res * list event * snap) :=
  match ops with
  | [] => []
  | o :: r =>
    let (s1, x) := step s o in
    (x, rev (firstn (length (log s1) - length (log s)) (log s1)), snapshot s1) :: observe_from s1 r
  end.
Definition observe (ops : list op) := observe_from init ops.

(** a flat numeric rendering, used to compare the extracted OCaml model with vm_compute in Coq *)
Definition enc_opt (x : option N) : list N := match x with Some v => [1; v] | None => [0] end.
Definition enc_list {A} (f : A -> list N) (l : list A) : list N := len l :: flat_map f l.
Definition enc_res (r : res) : list N :=
  match r with
  | RInvalid => [0] | RUnit => [1] | RErr => [2]
  | RCfd c => [3; N.of_nat c] | RHandle h => [4; N.of_nat h] | RBody b => [5; N.of_nat b]
  | RHandles l => 10 :: enc_list (fun x => [N.of_nat x]) l
  | RPushed l => 6 :: enc_list (fun x => [x]) l
  | RSent h n => [7; h; n]
  | RTaken None => [8] | RTaken (Some c) => [9; N.of_nat c]
  end.
Definition enc_event (e : event) : list N :=
  match e with
  | EvOpen f o => [0; f; o] | EvCallerClose f => [1; f] | EvWrap f => [2; f]
  | EvDup a f o => [3; a; f; o] | EvRecvFd f o => [4; f; o] | EvClose f => [5; f] | EvTake f => [6; f]
  | EvSend h l => 7 :: h :: enc_list (fun x => [x]) l
  | EvInject l => 8 :: enc_list (fun x => [x]) l
  | EvRecv b l => 9 :: N.of_nat b :: enc_list (fun x => [x]) l
  end.
Definition enc_snap (n : snap) : list N :=
  enc_list (fun p => [fst p; snd p]) (sn_tab n)
  ++ enc_list enc_opt (sn_cfds n)
  ++ enc_list (fun x => match x with None => [0] | Some c => 1 :: enc_opt c end) (sn_hnd n)
  ++ enc_list (fun x => match x with
                        | None => [0]
                        | Some (l, ix) => 1 :: enc_list enc_opt l ++ enc_list (fun x => [x]) ix end) (sn_bods n)
  ++ enc_list (fun p => enc_list (fun x => [x]) (fst p) ++ enc_list (fun x => [x]) (snd p)) (sn_wire n).
Definition encode (l : list (res * list event * snap)) : list N :=
  flat_map (fun t => match t with (r, evs, n) => enc_res r ++ enc_list enc_event evs ++ enc_snap n end) l.

(** ** SPECIFICATION vocabulary (independent of the transition functions) *)

(** every [close] the library performed, newest first *)
Fixpoint closes_l (l : list event) : list N :=
  match l with
  | [] => []
  | EvClose f :: r => f :: closes_l r
  | _ :: r => closes_l r
  end.
Definition closes (s : st) : list N := closes_l (log s).
(** descriptors the library created itself: duplicates made while marshalling (or by [dup]),
    descriptors received *)
Fixpoint created_l (l : list event) : list N :=
  match l with
  | [] => []
  | EvDup _ f _ :: r => f :: created_l r
  | EvRecvFd f _ :: r => f :: created_l r
  | _ :: r => created_l r
  end.
Definition lib_created (s : st) : list N := created_l (log s).
(** descriptors the library was made the owner of: the above plus those given to [UnixFd::new] *)
Fixpoint owned_l (l : list event) : list N :=
  match l with
  | [] => []
  | EvDup _ f _ :: r => f :: owned_l r
  | EvRecvFd f _ :: r => f :: owned_l r
  | EvWrap f :: r => f :: owned_l r
  | _ :: r => owned_l r
  end.
Definition lib_owned (s : st) : list N := owned_l (log s).
(** descriptors whose ownership was taken back with [take_raw_fd] *)
Fixpoint taken_l (l : list event) : list N :=
  match l with
  | [] => []
  | EvTake f :: r => f :: taken_l r
  | _ :: r => taken_l r
  end.
Definition taken (s : st) : list N := taken_l (log s).
(** the descriptors the caller is responsible for, as the history tells it: those it opened or
    took back with [take_raw_fd], minus those it closed itself or handed to [UnixFd::new] *)
Fixpoint caller_l (l : list event) : list N :=
  match l with
  | [] => []
  | EvOpen f _ :: r => f :: caller_l r
  | EvTake f :: r => f :: caller_l r
  | EvWrap f :: r => remove N.eq_dec f (caller_l r)
  | EvCallerClose f :: r => remove N.eq_dec f (caller_l r)
  | _ :: r => caller_l r
  end.
Definition caller_fds (s : st) : list N := caller_l (log s).
(** which file a descriptor was created for *)
Definition born (s : st) (f o : N) : Prop :=
  In (EvOpen f o) (log s) \/ (exists a, In (EvDup a f o) (log s)) \/ In (EvRecvFd f o) (log s).

(** all handles that exist: the caller's variables and the bodies' lists *)
Definition oref (x : option nat) : list nat := match x with Some o => [o] | None => [] end.
Definition bref (x : option body) : list nat := match x with Some bd => bfds bd | None => [] end.
Definition refs (s : st) : list nat := flat_map oref (hnd s) ++ flat_map bref (bods s).
Definition cnt (o : nat) (l : list nat) : nat := count_occ Nat.eq_dec l o.
Global Arguments cnt : simpl never.
(** the number of live handles of object o *)
Definition live_handles (s : st) (o : nat) : nat := cnt o (refs s).
(** the caller owns f *)
Definition caller_owns (s : st) (f : N) : Prop := In (Some f) (cfds s).
(** f is held by a library object that still has a live handle *)
Definition held (s : st) (f : N) : Prop :=
  exists o, cell (objs s o) = Some f /\ (0 < live_handles s o)%nat.

(** the files attached to the messages put on the socket / taken from it, in order of time *)
Fixpoint sent_l (l : list event) : list (list N) :=
  match l with
  | [] => []
  | EvSend _ x :: r => sent_l r ++ [x]
  | EvInject x :: r => sent_l r ++ [x]
  | _ :: r => sent_l r
  end.
Definition sent_msgs (s : st) : list (list N) := sent_l (log s).
Fixpoint recv_l (l : list event) : list (list N) :=
  match l with
  | [] => []
  | EvRecv _ x :: r => recv_l r ++ [x]
  | _ :: r => recv_l r
  end.
Definition recv_msgs (s : st) : list (list N) := recv_l (log s).

(** every handle has been dropped *)
Definition all_dropped (s : st) : Prop := refs s = [].

(** Everything that existed in [s] is unchanged in [s']: the caller's variables and
    descriptors, every object and every table entry that was allocated. *)
Definition frame (s s' : st) : Prop :=
  hnd s' = hnd s /\ cfds s' = cfds s /\ (nobj s <= nobj s')%nat /\ nfd s <= nfd s'
  /\ (forall o, (o < nobj s)%nat -> objs s' o = objs s o)
  /\ (forall f, f < nfd s -> tab s' f = tab s f).

(** What a successful push of the descriptors [its] must have done, stated from the property
    text: the j-th element was duplicated ([fnew] is a different number for the same open file
    as the source [src], which is still open and unchanged), the duplicate is held by the j-th
    new object [o], which sits at position [pos + j] of the body's descriptor list, and that
    position (as a u32) is the index written into the body. *)
Fixpoint pushed (s s' : st) (pos : N) (its : list pitem) (news : list nat) (idxs : list N) : Prop :=
  match its, news, idxs with
  | [], [], [] => True
  | it :: its', o :: news', idx :: idxs' =>
    (exists src fnew, item_src s it = Some src /\ cell (objs s' o) = Some fnew /\ fnew <> src
                      /\ tab s src <> None /\ tab s' fnew = tab s src /\ tab s' src = tab s src)
    /\ strong (objs s' o) = 1%nat
    /\ idx = pos mod 2 ^ 32
    /\ pushed s s' (pos + 1) its' news' idxs'
  | _, _, _ => False
  end.
