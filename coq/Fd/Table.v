(** C11 — abstract process model for descriptor identity and lifetime.

    One process (the test process holds both ends of the connection, as the harness does):
    - [tab]  : the descriptor table, descriptor number -> open file description ("ofd");
    - [objs] : the library's [UnixFdInner] objects (rustbus/src/wire/wrapper_types/unixfd.rs):
               [cell] = the [AtomicI32] (a descriptor, or [None] for -1 = taken/closed),
               [strong] = the [Arc] strong count;
    - handles ([UnixFd] values = one [Arc] reference each) are owned by the caller ([hnd]) or by
      message bodies ([bods], the [raw_fds: Vec<UnixFd>] of a [MarshalledMessageBody]; a received
      message is a [MarshalledMessageBody] as well, built by [from_parts]);
    - [cfds] : the descriptors the caller owns (opened by it, or obtained through [take_raw_fd]);
    - [wire] : messages in flight on the socket: the kernel holds a reference to each attached open
               file description (SCM_RIGHTS), plus the descriptor indices stored in the body bytes;
    - [log]  : ghost trace of the system calls ([dup]/[close]/[recvmsg] delivering a descriptor) and
               of the ownership transfers, newest first.

    Descriptor numbers are never reused in the model ([nfd] is a fresh-number supply); the real
    kernel hands out the lowest free number, so the correspondence check compares tables up to a
    renaming of descriptor numbers that preserves the open file description.

    Sequential: one thread. The concurrent behaviour of one shared handle is C12 (Fd/Concurrent.v).
    [Arc] is modelled, not verified (DESIGN.md section 4): clone = increment, drop = decrement, the
    destructor runs exactly once when the count reaches 0. *)
From RB Require Import Base.Prelude.

(** [UnixFdInner { inner: AtomicI32 }] behind an [Arc] *)
Record obj := mkObj { cell : option N; strong : nat }.

(** The descriptor-relevant part of a [MarshalledMessageBody]: [raw_fds] (one handle = one object
    id per element) and the descriptor indices that were written into [buf], in order. *)
Record body := mkBody { bfds : list nat; bidx : list N }.

Inductive event :=
| EvOpen (f o : N)           (* the caller opened a file: descriptor f, new open file description o *)
| EvCallerClose (f : N)      (* the caller closed its own descriptor *)
| EvWrap (f : N)             (* UnixFd::new(f): the library now owns f *)
| EvDup (src f o : N)        (* the library called dup(src) = f; both refer to o *)
| EvRecvFd (f o : N)         (* recvmsg inside the library delivered descriptor f for o *)
| EvClose (f : N)            (* the library called close(f) (Drop for UnixFdInner) *)
| EvTake (f : N)             (* take_raw_fd returned Some f: the caller owns f now *)
| EvSend (hdr : N) (ofds : list N)   (* the library sent a message: UNIX_FDS header, attached files *)
| EvInject (ofds : list N)   (* the peer sent a message with these files attached *)
| EvRecv (b : nat) (ofds : list N).  (* the library received a message into body b *)

Record st := mkSt {
  tab : N -> option N;
  nfd : N;                        (* every descriptor number ever used is < nfd *)
  nofd : N;                       (* every open file description ever created is < nofd *)
  objs : nat -> obj;
  nobj : nat;                     (* every object ever allocated is < nobj *)
  hnd : list (option nat);        (* the caller's UnixFd variables: Some object | None = moved/dropped *)
  cfds : list (option N);         (* the caller's descriptors: Some f | None = closed or given to UnixFd::new *)
  bods : list (option body);      (* message bodies: None = dropped *)
  wire : list (list N * list N);  (* in flight, oldest first: (attached ofds, indices in the body) *)
  log : list event
}.

Definition init : st :=
  mkSt (fun _ => None) 0 0 (fun _ => mkObj None 0) 0%nat [] [] [] [] [].

(** ** Small helpers *)

Definition updN {A} (f : N -> A) (k : N) (v : A) : N -> A :=
  fun x => if N.eqb x k then v else f x.
Definition updn {A} (f : nat -> A) (k : nat) (v : A) : nat -> A :=
  fun x => if Nat.eqb x k then v else f x.

Fixpoint set_nth {A} (l : list A) (n : nat) (x : A) : list A :=
  match l, n with
  | [], _ => []
  | _ :: r, O => x :: r
  | y :: r, S n' => y :: set_nth r n' x
  end.

Definition set_tab t s := mkSt t (nfd s) (nofd s) (objs s) (nobj s) (hnd s) (cfds s) (bods s) (wire s) (log s).
Definition set_objs o s := mkSt (tab s) (nfd s) (nofd s) o (nobj s) (hnd s) (cfds s) (bods s) (wire s) (log s).
Definition set_hnd h s := mkSt (tab s) (nfd s) (nofd s) (objs s) (nobj s) h (cfds s) (bods s) (wire s) (log s).
Definition set_cfds c s := mkSt (tab s) (nfd s) (nofd s) (objs s) (nobj s) (hnd s) c (bods s) (wire s) (log s).
Definition set_bods b s := mkSt (tab s) (nfd s) (nofd s) (objs s) (nobj s) (hnd s) (cfds s) b (wire s) (log s).
Definition set_wire w s := mkSt (tab s) (nfd s) (nofd s) (objs s) (nobj s) (hnd s) (cfds s) (bods s) w (log s).
Definition emit e s := mkSt (tab s) (nfd s) (nofd s) (objs s) (nobj s) (hnd s) (cfds s) (bods s) (wire s) (e :: log s).

Definition lookup_h (s : st) (h : nat) : option nat :=
  match nth_error (hnd s) h with Some (Some o) => Some o | _ => None end.
Definition lookup_c (s : st) (c : nat) : option N :=
  match nth_error (cfds s) c with Some (Some f) => Some f | _ => None end.
Definition lookup_b (s : st) (b : nat) : option body :=
  match nth_error (bods s) b with Some (Some bd) => Some bd | _ => None end.

(** ** Primitive transitions *)

(** the caller's [open]/[pipe]: a new descriptor for a new open file description, owned by the caller *)
Definition caller_open (s : st) : st :=
  let f := nfd s in
  let o := nofd s in
  mkSt (updN (tab s) f (Some o)) (f + 1) (o + 1) (objs s) (nobj s) (hnd s) (cfds s ++ [Some f])
       (bods s) (wire s) (EvOpen f o :: log s).

(** the caller's [close(c)] *)
Definition caller_close (c : nat) (f : N) (s : st) : st :=
  mkSt (updN (tab s) f None) (nfd s) (nofd s) (objs s) (nobj s) (hnd s) (set_nth (cfds s) c None)
       (bods s) (wire s) (EvCallerClose f :: log s).

(** The library obtains a new descriptor for open file [o] (from [dup] or from [recvmsg]) and
    wraps it: [UnixFd::new(new_fd)] = [Arc::new(UnixFdInner{inner: AtomicI32::new(new_fd)})].
    The new object has the id [nobj s]; its one handle is held by the code that continues. *)
Definition lib_new_fd (ev : N -> event) (o : N) (s : st) : st :=
  let f := nfd s in
  mkSt (updN (tab s) f (Some o)) (f + 1) (nofd s)
       (updn (objs s) (nobj s) (mkObj (Some f) 1)) (S (nobj s))
       (hnd s) (cfds s) (bods s) (wire s) (ev f :: log s).

(** [UnixFd::new(f)] on a descriptor of the caller (slot [c]): ownership moves into the library *)
Definition wrap_fd (c : nat) (f : N) (s : st) : st :=
  mkSt (tab s) (nfd s) (nofd s)
       (updn (objs s) (nobj s) (mkObj (Some f) 1)) (S (nobj s))
       (hnd s) (set_nth (cfds s) c None) (bods s) (wire s) (EvWrap f :: log s).

(** [#[derive(Clone)] struct UnixFd(Arc<UnixFdInner>)]: [Arc::clone] = strong + 1 *)
Definition clone_obj (o : nat) (s : st) : st :=
  let ob := objs s o in
  set_objs (updn (objs s) o (mkObj (cell ob) (S (strong ob)))) s.

(** A handle goes away: [Arc::drop] = strong - 1; at 0 [Drop for UnixFdInner] runs:
    [if let Some(fd) = self.take() { nix::unistd::close(fd).ok(); }] *)
Definition drop_obj (o : nat) (s : st) : st :=
  let ob := objs s o in
  match strong ob with
  | 1%nat =>
    match cell ob with
    | Some f =>
      mkSt (updN (tab s) f None) (nfd s) (nofd s) (updn (objs s) o (mkObj None 0)) (nobj s)
           (hnd s) (cfds s) (bods s) (wire s) (EvClose f :: log s)
    | None => set_objs (updn (objs s) o (mkObj None 0)) s
    end
  | n => set_objs (updn (objs s) o (mkObj (cell ob) (pred n))) s
  end.

(** dropping a [Vec<UnixFd>] (or its tail, [Vec::truncate]/[Vec::clear]): elements in order *)
Fixpoint drop_objs (l : list nat) (s : st) : st :=
  match l with
  | [] => s
  | o :: r => drop_objs r (drop_obj o s)
  end.

(** [UnixFdInner::take] succeeding on object [o] holding [f]: the cell becomes -1 and the
    descriptor is returned to the caller, who owns it from now on *)
Definition take_cell (o : nat) (f : N) (s : st) : st :=
  mkSt (tab s) (nfd s) (nofd s) (updn (objs s) o (mkObj None (strong (objs s o)))) (nobj s)
       (hnd s) (cfds s ++ [Some f]) (bods s) (wire s) (EvTake f :: log s).

Definition set_body (b : nat) (x : option body) (s : st) : st := set_bods (set_nth (bods s) b x) s.
Definition add_hnd (o : nat) (s : st) : st := set_hnd (hnd s ++ [Some o]) s.
Definition clear_hnd (h : nat) (s : st) : st := set_hnd (set_nth (hnd s) h None) s.

(** ** Marshalling a descriptor *)

(** the tail of [util::marshal_unixfd] / [impl Marshal for &dyn AsRawFd]:
    [ctx.fds.push(UnixFd::new(new_fd)); let idx = ctx.fds.len() - 1; ... write_u32(idx as u32, ..)] *)
Definition body_push (b : nat) (o : nat) (s : st) : option st :=
  match lookup_b s b with
  | Some bd =>
    let fds' := bfds bd ++ [o] in
    let idx := (len fds' - 1) mod 2 ^ 32 in
    Some (set_body b (Some (mkBody fds' (bidx bd ++ [idx]))) s)
  | None => None
  end.

(** [util::marshal_unixfd] from [let new_fd = nix::unistd::dup(fd).map_err(..)?] on, and the same
    lines of [impl Marshal for &dyn AsRawFd]: [src] is the number [get_raw_fd()]/[as_raw_fd()] gave *)
Definition marshal_fd (b : nat) (src : N) (s : st) : option st :=
  match tab s src with
  | None => None                                   (* dup fails (EBADF): Err(DupUnixFd) *)
  | Some o => body_push b (nobj s) (lib_new_fd (fun f => EvDup src f o) o s)
  end.

(** One element of the value that is being marshalled: a [UnixFd] (handle variable [h] of the
    caller), a [&dyn AsRawFd] (descriptor slot [c] of the caller), or an element whose own
    [marshal] fails (e.g. a string with an embedded NUL) *)
Inductive pitem := PH (h : nat) | PR (c : nat) | PBad.

(** the descriptor number the [marshal] impl starts from:
    [if let Some(fd) = i.get_raw_fd() {..} else { Err(MarshalError::EmptyUnixFd) }] / [self.as_raw_fd()] *)
Definition item_src (s : st) (it : pitem) : option N :=
  match it with
  | PH h => match lookup_h s h with Some o => cell (objs s o) | None => None end
  | PR c => lookup_c s c
  | PBad => None
  end.

Definition marshal_item (b : nat) (it : pitem) (s : st) : option st :=
  match item_src s it with
  | Some f => marshal_fd b f s
  | None => None
  end.

(** the elements of a tuple / [Vec] / map / several [push_param]s are marshalled in order, [?] on each *)
Fixpoint marshal_items (b : nat) (its : list pitem) (s : st) : st * bool :=
  match its with
  | [] => (s, true)
  | it :: r =>
    match marshal_item b it s with
    | Some s1 => marshal_items b r s1
    | None => (s, false)
    end
  end.

Definition item_valid (s : st) (it : pitem) : bool :=
  match it with
  | PH h => match lookup_h s h with Some _ => true | None => false end
  | PR c => match lookup_c s c with Some _ => true | None => false end
  | PBad => true
  end.

(** ** Reading a descriptor *)

(** [UnmarshalContext::read_unixfd] after [let idx = self.cursor.read_u32(..)?]:
    [if self.fds.len() <= idx as usize { Err(BadFdIndex) } else { Ok(self.fds[idx].clone()) }] *)
Definition read_unixfd (fds : list nat) (idx : N) : option nat :=
  if len fds <=? idx then None else nth_error fds (N.to_nat idx).

(** ** Sending *)

Fixpoint filter_some {A} (l : list (option A)) : list A :=
  match l with
  | [] => []
  | Some x :: r => x :: filter_some r
  | None :: r => filter_some r
  end.

(** [MarshalledMessageBody::get_raw_fds]: [raw_fds.iter().filter_map(|fd| fd.get_raw_fd())] *)
Definition get_raw_fds (s : st) (bd : body) : list N :=
  filter_some (map (fun o => cell (objs s o)) (bfds bd)).

(** SCM_MAX_FD: one sendmsg carries at most 253 descriptors (the kernel refuses more with EINVAL) *)
Definition SCM_MAX_FD : N := 253.
