(** C11 — proofs about the process model (Fd/Table.v, Fd/History.v): an invariant that every
    primitive transition preserves, hence every history; the clauses of the property follow. *)
From RB Require Import Base.Prelude Fd.Table Fd.History.

(** ** Helpers *)

Lemma updN_eq {A} (f : N -> A) k v : updN f k v k = v.
Proof. unfold updN. now rewrite N.eqb_refl. Qed.
Lemma updN_neq {A} (f : N -> A) k v x : x <> k -> updN f k v x = f x.
Proof. unfold updN. intros H. destruct (N.eqb_spec x k); congruence. Qed.
Lemma updn_eq {A} (f : nat -> A) k v : updn f k v k = v.
Proof. unfold updn. now rewrite Nat.eqb_refl. Qed.
Lemma updn_neq {A} (f : nat -> A) k v x : x <> k -> updn f k v x = f x.
Proof. unfold updn. intros H. destruct (Nat.eqb_spec x k); congruence. Qed.

Lemma cnt_app o a b : cnt o (a ++ b) = (cnt o a + cnt o b)%nat.
Proof. unfold cnt. apply count_occ_app. Qed.
Lemma cnt_cons_eq o l : cnt o (o :: l) = S (cnt o l).
Proof. unfold cnt. cbn. destruct (Nat.eq_dec o o); congruence. Qed.
Lemma cnt_cons_neq o x l : x <> o -> cnt o (x :: l) = cnt o l.
Proof. unfold cnt. cbn. destruct (Nat.eq_dec x o); congruence. Qed.
Lemma cnt_nil o : cnt o [] = 0%nat.
Proof. reflexivity. Qed.
Lemma cnt_pos_in o l : (0 < cnt o l)%nat <-> In o l.
Proof. unfold cnt. symmetry. apply count_occ_In. Qed.
Lemma cnt_zero_notin o l : ~ In o l -> cnt o l = 0%nat.
Proof. unfold cnt. apply count_occ_not_In. Qed.

Lemma nth_error_set_nth_eq {A} (l : list A) n x : (n < length l)%nat -> nth_error (set_nth l n x) n = Some x.
Proof. revert n. induction l as [|y l IH]; intros [|n] H; cbn in *; try lia; auto. apply IH. lia. Qed.
Lemma nth_error_set_nth_neq {A} (l : list A) n m x : n <> m -> nth_error (set_nth l n x) m = nth_error l m.
Proof.
  revert n m. induction l as [|y l IH]; intros [|n] [|m] H; cbn; auto; try congruence.
Qed.
Lemma length_set_nth {A} (l : list A) n x : length (set_nth l n x) = length l.
Proof. revert n. induction l as [|y l IH]; intros [|n]; cbn; auto. Qed.
Lemma in_set_nth {A} (l : list A) n x y : In y (set_nth l n x) -> y = x \/ In y l.
Proof.
  revert n. induction l as [|z l IH]; intros [|n] H; cbn in *; auto.
  - destruct H; auto.
  - destruct H as [H|H]; auto. apply IH in H. tauto.
Qed.
Lemma in_set_nth_other {A} (l : list A) n x old y :
  nth_error l n = Some old -> In y l -> y <> old -> In y (set_nth l n x).
Proof.
  revert n. induction l as [|z l IH]; intros [|n] Hn H Hy; cbn in *; try tauto.
  - injection Hn as ->. destruct H; [congruence|auto].
  - destruct H; auto.
Qed.

(** replacing one element of a list of owners moves exactly that element's references *)
Lemma cnt_flat_map_set_nth {A} (g : A -> list nat) o (l : list A) n old x :
  nth_error l n = Some old ->
  (cnt o (flat_map g (set_nth l n x)) + cnt o (g old) = cnt o (flat_map g l) + cnt o (g x))%nat.
Proof.
  revert n. induction l as [|z l IH]; intros [|n] H; cbn in *; try discriminate.
  - injection H as ->. rewrite !cnt_app. lia.
  - rewrite !cnt_app. specialize (IH n H). lia.
Qed.
Lemma cnt_flat_map_snoc {A} (g : A -> list nat) o (l : list A) x :
  cnt o (flat_map g (l ++ [x])) = (cnt o (flat_map g l) + cnt o (g x))%nat.
Proof. rewrite flat_map_app, cnt_app. cbn. now rewrite app_nil_r. Qed.

Lemma in_filter_some {A} (l : list (option A)) x : In x (filter_some l) <-> In (Some x) l.
Proof.
  induction l as [|[y|] l IH]; cbn; [tauto| |].
  - rewrite IH. split; intros [H|H]; auto; left; congruence.
  - rewrite IH. split; [auto|]. intros [H|H]; [discriminate|auto].
Qed.
Lemma filter_some_app {A} (a b : list (option A)) : filter_some (a ++ b) = filter_some a ++ filter_some b.
Proof. induction a as [|[x|] a IH]; cbn; auto. now rewrite IH. Qed.
Lemma nodup_filter_some_set_none {A} (l : list (option A)) n :
  NoDup (filter_some l) -> NoDup (filter_some (set_nth l n None)).
Proof.
  revert n. induction l as [|[y|] l IH]; intros [|n] H; cbn in *; auto.
  - now inversion H.
  - inversion H; subst. constructor; auto.
    rewrite in_filter_some in *. intros Hin. apply in_set_nth in Hin. destruct Hin; [discriminate|auto].
Qed.
Lemma nodup_set_none_notin {A} (l : list (option A)) n x :
  NoDup (filter_some l) -> nth_error l n = Some (Some x) -> ~ In (Some x) (set_nth l n None).
Proof.
  revert n. induction l as [|[y|] l IH]; intros [|n] H Hn; cbn in *; try discriminate.
  - injection Hn as ->. inversion H; subst. rewrite in_filter_some in *. intros [E|E]; [discriminate|auto].
  - inversion H; subst. intros [E|E].
    + injection E as ->. apply H2. rewrite in_filter_some. eapply nth_error_In; eauto.
    + eapply IH; eauto.
  - intros [E|E]; [discriminate|]. eapply IH; eauto.
Qed.
Lemma nodup_snoc {A} (l : list A) x : NoDup l -> ~ In x l -> NoDup (l ++ [x]).
Proof.
  induction l as [|y l IH]; cbn; intros H Hx.
  - constructor; auto.
  - inversion H; subst. constructor.
    + rewrite in_app_iff. cbn. intros [E|[E|[]]]; [auto|]. subst. tauto.
    + apply IH; tauto.
Qed.

(** ** The invariant *)

(** [p] = handles held in temporaries by the code that is running (created or detached from an
    owner, not yet attached or dropped). *)
Record inv0 (p : list nat) (s : st) : Prop := mkInv {
  i_tabfresh : forall f, nfd s <= f -> tab s f = None;
  i_objfresh : forall o, (nobj s <= o)%nat -> objs s o = mkObj None 0;
  i_count : forall o, strong (objs s o) = (cnt o (refs s) + cnt o p)%nat;
  i_cell : forall o f, cell (objs s o) = Some f ->
      (0 < strong (objs s o))%nat /\ tab s f <> None /\ ~ In (Some f) (cfds s)
      /\ ~ In f (closes s) /\ In f (lib_owned s);
  i_cell_inj : forall o o' f, cell (objs s o) = Some f -> cell (objs s o') = Some f -> o = o';
  i_cfds_nodup : NoDup (filter_some (cfds s));
  i_cfds : forall f, In (Some f) (cfds s) -> tab s f <> None /\ ~ In f (closes s);
  i_owned : forall f, tab s f <> None -> In (Some f) (cfds s) \/ exists o, cell (objs s o) = Some f;
  i_closes_nodup : NoDup (closes s);
  i_closes : forall f, In f (closes s) -> In f (lib_owned s) /\ tab s f = None;
  i_leak : forall f, In f (lib_owned s) ->
      In f (taken s) \/ In f (closes s) \/ exists o, cell (objs s o) = Some f;
  i_born : forall f o, born s f o -> f < nfd s /\ (tab s f = None \/ tab s f = Some o);
  i_ownedfresh : forall f, In f (lib_owned s) -> f < nfd s;
  i_callerhist : forall f, In f (caller_fds s) <-> In (Some f) (cfds s)
}.

Lemma open_lt p s f : inv0 p s -> tab s f <> None -> f < nfd s.
Proof.
  intros I H. destruct (N.lt_ge_cases f (nfd s)) as [L|L]; auto. exfalso. apply H. now apply (i_tabfresh _ _ I).
Qed.
Lemma cell_lt p s o f : inv0 p s -> cell (objs s o) = Some f -> f < nfd s.
Proof. intros I H. eapply open_lt; eauto. now apply (i_cell _ _ I) in H. Qed.
Lemma cfd_lt p s f : inv0 p s -> In (Some f) (cfds s) -> f < nfd s.
Proof. intros I H. eapply open_lt; eauto. now apply (i_cfds _ _ I) in H. Qed.
Lemma closes_lt p s f : inv0 p s -> In f (closes s) -> f < nfd s.
Proof. intros I H. apply (i_ownedfresh _ _ I). now apply (i_closes _ _ I) in H. Qed.
Lemma strong_lt p s o : inv0 p s -> (0 < strong (objs s o))%nat -> (o < nobj s)%nat.
Proof.
  intros I H. destruct (Nat.lt_ge_cases o (nobj s)) as [L|L]; auto.
  rewrite (i_objfresh _ _ I o L) in H. cbn in H. lia.
Qed.
Lemma ref_lt p s o : inv0 p s -> In o (refs s) -> (o < nobj s)%nat.
Proof.
  intros I H. eapply strong_lt; eauto. rewrite (i_count _ _ I). apply cnt_pos_in in H. lia.
Qed.
Lemma lookup_c_in s c f : lookup_c s c = Some f -> In (Some f) (cfds s).
Proof.
  unfold lookup_c. destruct (nth_error (cfds s) c) as [[g|]|] eqn:E; try discriminate.
  intros [= ->]. eapply nth_error_In; eauto.
Qed.
Lemma lookup_c_nth s c f : lookup_c s c = Some f -> nth_error (cfds s) c = Some (Some f).
Proof.
  unfold lookup_c. destruct (nth_error (cfds s) c) as [[g|]|] eqn:E; try discriminate. now intros [= ->].
Qed.

Ltac unf := unfold caller_fds, closes, lib_owned, lib_created, taken, refs, born, sent_msgs, recv_msgs in *.
Ltac proj := cbn [tab nfd nofd objs nobj hnd cfds bods wire log].

(** ** The primitive transitions preserve it *)

Lemma inv_caller_open p s : inv0 p s -> inv0 p (caller_open s).
Proof.
  intros I.
  pose proof (fun f => open_lt p s f I) as Hlt.
  pose proof (fun f => cfd_lt p s f I) as Hclt.
  pose proof (fun f => closes_lt p s f I) as Hcllt.
  destruct I as [Hfr Hofr Hcnt Hcell Hinj Hnd Hcf Hown Hcnd Hcl Hleak Hborn Hofresh Hch].
  destruct s as [tb nf no ob nob hn cf bo wi lg]; unf; cbn in *.
  constructor; unf; cbn.
  - intros f L. rewrite updN_neq by lia. apply Hfr. lia.
  - exact Hofr.
  - exact Hcnt.
  - intros o f E. destruct (Hcell o f E) as (A & B & C & D & F). pose proof (Hlt f B).
    rewrite updN_neq by lia. repeat split; auto.
    rewrite in_app_iff. cbn. intros [G|[G|[]]]; [auto|]. injection G as G. lia.
  - exact Hinj.
  - rewrite filter_some_app. cbn. apply nodup_snoc; auto. rewrite in_filter_some. intros G. apply Hclt in G. lia.
  - intros f G. rewrite in_app_iff in G. cbn in G. destruct G as [G|[G|[]]].
    + pose proof (Hclt f G). rewrite updN_neq by lia. now apply Hcf.
    + injection G as <-. rewrite updN_eq. split; [discriminate|]. intros G. apply Hcllt in G. lia.
  - intros f G. destruct (N.eq_dec f nf) as [->|Ne].
    + left. rewrite in_app_iff. cbn. auto.
    + rewrite updN_neq in G by auto. destruct (Hown f G) as [X|X]; auto. left. rewrite in_app_iff. auto.
  - exact Hcnd.
  - intros f G. pose proof (Hcllt f G). rewrite updN_neq by lia. now apply Hcl.
  - exact Hleak.
  - intros f o [G|[[a G]|G]].
    + destruct G as [G|G].
      * injection G as <- <-. rewrite updN_eq. split; [lia|auto].
      * destruct (Hborn f o (or_introl G)) as [L T]. rewrite updN_neq by lia. split; [lia|auto].
    + destruct G as [G|G]; [discriminate|].
      destruct (Hborn f o (or_intror (or_introl (ex_intro _ a G)))) as [L T]. rewrite updN_neq by lia. split; [lia|auto].
    + destruct G as [G|G]; [discriminate|].
      destruct (Hborn f o (or_intror (or_intror G))) as [L T]. rewrite updN_neq by lia. split; [lia|auto].
  - intros f G. apply Hofresh in G. lia.
  - intros f. rewrite in_app_iff, <- Hch. cbn. intuition congruence.
Qed.

Definition ev_born (e : event) (f o : N) : Prop :=
  e = EvOpen f o \/ (exists a, e = EvDup a f o) \/ e = EvRecvFd f o.
Definition born_l (lg : list event) (f o : N) : Prop :=
  In (EvOpen f o) lg \/ (exists a, In (EvDup a f o) lg) \/ In (EvRecvFd f o) lg.
Lemma born_cons e lg f o : born_l (e :: lg) f o <-> ev_born e f o \/ born_l lg f o.
Proof.
  unfold born_l, ev_born. cbn. split.
  - intros [[H|H]|[[a [H|H]]|[H|H]]]; eauto 6.
  - intros [[H|[[a H]|H]]|[H|[[a H]|H]]]; eauto 6.
Qed.
Lemma born_tab_mono (tb tb' : N -> option N) f o :
  (tb f = None \/ tb f = Some o) -> (tb' f = None \/ tb' f = tb f) -> tb' f = None \/ tb' f = Some o.
Proof. intros [A|A] [B|B]; auto; rewrite B; auto. Qed.

Lemma inv_caller_close p s c f : lookup_c s c = Some f -> inv0 p s -> inv0 p (caller_close c f s).
Proof.
  intros Hc I.
  pose proof (lookup_c_in _ _ _ Hc) as Hin. pose proof (lookup_c_nth _ _ _ Hc) as Hnth.
  destruct I as [Hfr Hofr Hcnt Hcell Hinj Hnd Hcf Hown Hcnd Hcl Hleak Hborn Hofresh Hch].
  destruct s as [tb nf no ob nob hn cf bo wi lg]; unf; cbn in *.
  pose proof (nodup_set_none_notin _ _ _ Hnd Hnth) as Hgone.
  constructor; unf; cbn.
  - intros g L. unfold updN. destruct (N.eqb g f); auto.
  - exact Hofr.
  - exact Hcnt.
  - intros o g E. destruct (Hcell o g E) as (A & B & C & D & F).
    assert (g <> f) by (intros ->; auto). rewrite updN_neq by auto. repeat split; auto.
    intros G. apply in_set_nth in G. destruct G; [discriminate|auto].
  - exact Hinj.
  - now apply nodup_filter_some_set_none.
  - intros g G. assert (g <> f) by (intros ->; auto). rewrite updN_neq by auto.
    apply in_set_nth in G. destruct G; [discriminate|]. now apply Hcf.
  - intros g G. destruct (N.eq_dec g f) as [->|Ne]; [rewrite updN_eq in G; congruence|].
    rewrite updN_neq in G by auto. destruct (Hown g G) as [X|X]; auto. left.
    eapply in_set_nth_other; eauto. congruence.
  - exact Hcnd.
  - intros g G. destruct (Hcl g G). split; auto. unfold updN. destruct (N.eqb g f); auto.
  - exact Hleak.
  - intros g o G. change (born_l (EvCallerClose f :: lg) g o) in G. apply born_cons in G.
    destruct G as [[G|[[a G]|G]]|G]; try discriminate. destruct (Hborn g o G) as [L T]. split; auto.
    eapply born_tab_mono; eauto. unfold updN. destruct (N.eqb g f); auto.
  - exact Hofresh.
  - intros g. split; intros G.
    + apply in_remove in G. destruct G as [G Ne]. apply Hch in G. eapply in_set_nth_other; eauto. congruence.
    + pose proof G as G0. apply in_set_nth in G. destruct G as [G|G]; [discriminate|].
      apply in_in_remove; [intros ->; now apply Hgone|now apply Hch].
Qed.

Definition creation_event (ev : N -> event) (o : N) : Prop :=
  (exists src, forall f, ev f = EvDup src f o) \/ (forall f, ev f = EvRecvFd f o).

Lemma inv_lib_new_fd p s ev o : creation_event ev o -> inv0 p s -> inv0 (nobj s :: p) (lib_new_fd ev o s).
Proof.
  intros Hev I.
  pose proof (fun f => open_lt p s f I) as Hlt.
  pose proof (fun f => cfd_lt p s f I) as Hclt.
  pose proof (fun f => closes_lt p s f I) as Hcllt.
  pose proof (fun o f => cell_lt p s o f I) as Hcelt.
  pose proof (fun o => ref_lt p s o I) as Hrlt.
  destruct I as [Hfr Hofr Hcnt Hcell Hinj Hnd Hcf Hown Hcnd Hcl Hleak Hborn Hofresh Hch].
  destruct s as [tb nf no ob nob hn cf bo wi lg]; unf; cbn in *.
  assert (Hnew : ob nob = mkObj None 0) by (apply Hofr; lia).
  assert (E1 : closes_l (ev nf :: lg) = closes_l lg) by (destruct Hev as [[src Hev]|Hev]; rewrite Hev; reflexivity).
  assert (E2 : owned_l (ev nf :: lg) = nf :: owned_l lg) by (destruct Hev as [[src Hev]|Hev]; rewrite Hev; reflexivity).
  assert (E3 : taken_l (ev nf :: lg) = taken_l lg) by (destruct Hev as [[src Hev]|Hev]; rewrite Hev; reflexivity).
  assert (E5 : caller_l (ev nf :: lg) = caller_l lg) by (destruct Hev as [[src Hev]|Hev]; rewrite Hev; reflexivity).
  assert (E4 : forall f' o', ev_born (ev nf) f' o' -> f' = nf /\ o' = o).
  { intros f' o' G. destruct Hev as [[src Hev]|Hev]; rewrite Hev in G; destruct G as [G|[[a G]|G]]; try discriminate;
      injection G; intros; subst; auto. }
  assert (Hold : forall o' g, cell (ob o') = Some g -> o' <> nob).
  { intros o' g G ->. rewrite Hnew in G. discriminate. }
  constructor; unf; unfold lib_new_fd; proj; rewrite ?E1, ?E2, ?E3, ?E5.
  - intros f L. rewrite updN_neq by lia. apply Hfr. lia.
  - intros o' L. rewrite updn_neq by lia. apply Hofr. lia.
  - intros o'. destruct (Nat.eq_dec o' nob) as [->|Ne].
    + rewrite updn_eq, cnt_cons_eq. cbn. specialize (Hcnt nob). rewrite Hnew in Hcnt. cbn in Hcnt. lia.
    + rewrite updn_neq, cnt_cons_neq by congruence. apply Hcnt.
  - intros o' g E. destruct (Nat.eq_dec o' nob) as [->|Ne].
    + rewrite updn_eq in *. cbn in E. injection E as <-. rewrite updN_eq. repeat split; cbn; auto; try discriminate.
      * intros G. apply Hclt in G. lia.
      * intros G. apply Hcllt in G. lia.
    + rewrite updn_neq in * by auto. destruct (Hcell o' g E) as (A & B & C & D & F).
      pose proof (Hlt g B). rewrite updN_neq by lia. repeat split; cbn; auto.
  - intros o1 o2 g G1 G2. destruct (Nat.eq_dec o1 nob) as [->|N1]; destruct (Nat.eq_dec o2 nob) as [->|N2]; auto.
    + rewrite updn_eq in G1. rewrite updn_neq in G2 by auto. cbn in G1. injection G1 as <-. apply Hcelt in G2. lia.
    + rewrite updn_eq in G2. rewrite updn_neq in G1 by auto. cbn in G2. injection G2 as <-. apply Hcelt in G1. lia.
    + rewrite updn_neq in G1, G2 by auto. eauto.
  - exact Hnd.
  - intros g G. pose proof (Hclt g G). rewrite updN_neq by lia. now apply Hcf.
  - intros g G. destruct (N.eq_dec g nf) as [->|Ne].
    + right. exists nob. now rewrite updn_eq.
    + rewrite updN_neq in G by auto. destruct (Hown g G) as [X|[o' X]]; auto. right. exists o'.
      rewrite updn_neq; eauto.
  - exact Hcnd.
  - intros g G. pose proof (Hcllt g G). destruct (Hcl g G). rewrite updN_neq by lia. split; cbn; auto.
  - intros g [<-|G].
    + right. right. exists nob. now rewrite updn_eq.
    + destruct (Hleak g G) as [X|[X|[o' X]]]; auto. right. right. exists o'. rewrite updn_neq; eauto.
  - intros g o' G. change (born_l (ev nf :: lg) g o') in G. apply born_cons in G. destruct G as [G|G].
    + apply E4 in G. destruct G as [-> ->]. rewrite updN_eq. split; [lia|auto].
    + destruct (Hborn g o' G) as [L T]. rewrite updN_neq by lia. split; [lia|auto].
  - intros g [<-|G]; [lia|]. apply Hofresh in G. lia.
  - exact Hch.
Qed.

Lemma inv_wrap_fd p s c f : lookup_c s c = Some f -> inv0 p s -> inv0 (nobj s :: p) (wrap_fd c f s).
Proof.
  intros Hc I.
  pose proof (lookup_c_in _ _ _ Hc) as Hin. pose proof (lookup_c_nth _ _ _ Hc) as Hnth.
  pose proof (fun f => cfd_lt p s f I) as Hclt.
  destruct I as [Hfr Hofr Hcnt Hcell Hinj Hnd Hcf Hown Hcnd Hcl Hleak Hborn Hofresh Hch].
  destruct s as [tb nf no ob nob hn cf bo wi lg]; unf; cbn in *.
  pose proof (nodup_set_none_notin _ _ _ Hnd Hnth) as Hgone.
  assert (Hnew : ob nob = mkObj None 0) by (apply Hofr; lia).
  assert (Hold : forall o' g, cell (ob o') = Some g -> o' <> nob).
  { intros o' g G ->. rewrite Hnew in G. discriminate. }
  constructor; unf; cbn.
  - exact Hfr.
  - intros o' L. rewrite updn_neq by lia. apply Hofr. lia.
  - intros o'. destruct (Nat.eq_dec o' nob) as [->|Ne].
    + rewrite updn_eq, cnt_cons_eq. cbn. specialize (Hcnt nob). rewrite Hnew in Hcnt. cbn in Hcnt. lia.
    + rewrite updn_neq, cnt_cons_neq by congruence. apply Hcnt.
  - intros o' g E. destruct (Nat.eq_dec o' nob) as [->|Ne].
    + rewrite updn_eq in *. cbn in E. injection E as <-. destruct (Hcf f Hin). repeat split; cbn; auto.
    + rewrite updn_neq in * by auto. destruct (Hcell o' g E) as (A & B & C & D & F). repeat split; auto.
      intros G. apply in_set_nth in G. destruct G; [discriminate|auto].
  - intros o1 o2 g G1 G2. destruct (Nat.eq_dec o1 nob) as [->|N1]; destruct (Nat.eq_dec o2 nob) as [->|N2]; auto.
    + rewrite updn_eq in G1. rewrite updn_neq in G2 by auto. cbn in G1. injection G1 as <-.
      apply Hcell in G2. tauto.
    + rewrite updn_eq in G2. rewrite updn_neq in G1 by auto. cbn in G2. injection G2 as <-.
      apply Hcell in G1. tauto.
    + rewrite updn_neq in G1, G2 by auto. eauto.
  - now apply nodup_filter_some_set_none.
  - intros g G. apply in_set_nth in G. destruct G; [discriminate|]. now apply Hcf.
  - intros g G. destruct (Hown g G) as [X|[o' X]].
    + destruct (N.eq_dec g f) as [->|Ne].
      * right. exists nob. now rewrite updn_eq.
      * left. eapply in_set_nth_other; eauto. congruence.
    + right. exists o'. rewrite updn_neq; eauto.
  - exact Hcnd.
  - intros g G. destruct (Hcl g G). auto.
  - intros g [<-|G].
    + right. right. exists nob. now rewrite updn_eq.
    + destruct (Hleak g G) as [X|[X|[o' X]]]; auto. right. right. exists o'. rewrite updn_neq; eauto.
  - intros g o' G. change (born_l (EvWrap f :: lg) g o') in G. apply born_cons in G.
    destruct G as [[G|[[a G]|G]]|G]; try discriminate. auto.
  - intros g [<-|G]; auto.
  - intros g. split; intros G.
    + apply in_remove in G. destruct G as [G Ne]. apply Hch in G. eapply in_set_nth_other; eauto. congruence.
    + pose proof G as G0. apply in_set_nth in G. destruct G as [G|G]; [discriminate|].
      apply in_in_remove; [intros ->; now apply Hgone|now apply Hch].
Qed.

(** changing only the strong count of one object *)
Lemma inv_restrong p p' s o k :
  (o < nobj s)%nat ->
  k = (cnt o (refs s) + cnt o p')%nat ->
  (forall o', o' <> o -> cnt o' p' = cnt o' p) ->
  (cell (objs s o) <> None -> (0 < k)%nat) ->
  inv0 p s -> inv0 p' (set_objs (updn (objs s) o (mkObj (cell (objs s o)) k)) s).
Proof.
  intros Hlt Hk Hp Hpos I.
  destruct I as [Hfr Hofr Hcnt Hcell Hinj Hnd Hcf Hown Hcnd Hcl Hleak Hborn Hofresh Hch].
  destruct s as [tb nf no ob nob hn cf bo wi lg]; unf; cbn in *.
  assert (Hc : forall x, cell (updn ob o (mkObj (cell (ob o)) k) x) = cell (ob x)).
  { intros x. destruct (Nat.eq_dec x o) as [->|Ne]; [now rewrite updn_eq|now rewrite updn_neq]. }
  constructor; unf; cbn; try assumption.
  - intros o' L. rewrite updn_neq by lia. now apply Hofr.
  - intros o'. destruct (Nat.eq_dec o' o) as [->|Ne].
    + now rewrite updn_eq.
    + rewrite updn_neq by auto. rewrite Hp by auto. apply Hcnt.
  - intros o' g E. rewrite Hc in E. destruct (Hcell o' g E) as (A & B & C & D & F). repeat split; auto.
    destruct (Nat.eq_dec o' o) as [->|Ne].
    + rewrite updn_eq. cbn. apply Hpos. congruence.
    + now rewrite updn_neq.
  - intros o1 o2 g. rewrite !Hc. apply Hinj.
  - intros g G. destruct (Hown g G) as [X|[o' X]]; auto. right. exists o'. now rewrite Hc.
  - intros g G. destruct (Hleak g G) as [X|[X|[o' X]]]; auto. right. right. exists o'. now rewrite Hc.
Qed.

Lemma inv_clone_obj p s o : (0 < strong (objs s o))%nat -> inv0 p s -> inv0 (o :: p) (clone_obj o s).
Proof.
  intros Hs I. unfold clone_obj. apply inv_restrong with (p := p); auto.
  - eapply strong_lt; eauto.
  - rewrite (i_count _ _ I), cnt_cons_eq. lia.
  - intros o' Ne. rewrite cnt_cons_neq by congruence. reflexivity.
Qed.

Lemma inv_drop_obj p s o : inv0 (o :: p) s -> inv0 p (drop_obj o s).
Proof.
  intros I. unfold drop_obj.
  pose proof (i_count _ _ I o) as Hso. rewrite cnt_cons_eq in Hso.
  assert (Hlt : (o < nobj s)%nat) by (eapply strong_lt; eauto; lia).
  destruct (strong (objs s o)) as [|[|n]] eqn:Es; [lia| |].
  - (* the last handle *)
    destruct (cell (objs s o)) as [f|] eqn:Ec.
    + destruct I as [Hfr Hofr Hcnt Hcell Hinj Hnd Hcf Hown Hcnd Hcl Hleak Hborn Hofresh Hch].
      destruct s as [tb nf no ob nob hn cf bo wi lg]; unf; cbn in *.
      destruct (Hcell o f Ec) as (A & B & C & D & F).
      assert (Hne : forall o' g, o' <> o -> cell (ob o') = Some g -> g <> f).
      { intros o' g Ne G ->. apply Ne. eauto. }
      constructor; unf; cbn.
      * intros g L. unfold updN. destruct (N.eqb g f); auto.
      * intros o' L. rewrite updn_neq by lia. now apply Hofr.
      * intros o'. destruct (Nat.eq_dec o' o) as [->|Ne].
        -- rewrite updn_eq. cbn. lia.
        -- rewrite updn_neq by auto. rewrite Hcnt, cnt_cons_neq by congruence. reflexivity.
      * intros o' g E. destruct (Nat.eq_dec o' o) as [->|Ne]; [rewrite updn_eq in E; discriminate|].
        rewrite updn_neq in * by auto. destruct (Hcell o' g E) as (A' & B' & C' & D' & F').
        pose proof (Hne o' g Ne E). rewrite updN_neq by auto. repeat split; auto. intros [G|G]; congruence.
      * intros o1 o2 g G1 G2.
        destruct (Nat.eq_dec o1 o) as [->|N1]; [rewrite updn_eq in G1; discriminate|].
        destruct (Nat.eq_dec o2 o) as [->|N2]; [rewrite updn_eq in G2; discriminate|].
        rewrite updn_neq in G1, G2 by auto. eauto.
      * exact Hnd.
      * intros g G. assert (g <> f) by (intros ->; auto). rewrite updN_neq by auto.
        destruct (Hcf g G). split; auto. intros [X|X]; congruence.
      * intros g G. destruct (N.eq_dec g f) as [->|Ne]; [rewrite updN_eq in G; congruence|].
        rewrite updN_neq in G by auto. destruct (Hown g G) as [X|[o' X]]; auto. right. exists o'.
        rewrite updn_neq; auto. intros ->. congruence.
      * constructor; auto.
      * intros g [<-|G].
        -- split; auto. now rewrite updN_eq.
        -- destruct (Hcl g G). split; auto. unfold updN. destruct (N.eqb g f); auto.
      * intros g G. destruct (Hleak g G) as [X|[X|[o' X]]]; auto.
        destruct (Nat.eq_dec o' o) as [->|Ne].
        -- right. left. left. congruence.
        -- right. right. exists o'. now rewrite updn_neq.
      * intros g o' G. change (born_l (EvClose f :: lg) g o') in G. apply born_cons in G.
        destruct G as [[G|[[a G]|G]]|G]; try discriminate. destruct (Hborn g o' G) as [L T]. split; auto.
        eapply born_tab_mono; eauto. unfold updN. destruct (N.eqb g f); auto.
      * exact Hofresh.
      * exact Hch.
    + replace (mkObj None 0) with (mkObj (cell (objs s o)) 0) by now rewrite Ec.
      apply inv_restrong with (p := o :: p); auto.
      * lia.
      * intros o' Ne. rewrite cnt_cons_neq by congruence. reflexivity.
      * congruence.
  - cbn [pred]. apply inv_restrong with (p := o :: p); auto.
    + lia.
    + intros o' Ne. rewrite cnt_cons_neq by congruence. reflexivity.
    + lia.
Qed.

Lemma inv_drop_objs l p s : inv0 (l ++ p) s -> inv0 p (drop_objs l s).
Proof.
  revert s. induction l as [|o l IH]; intros s I; cbn in *; auto. apply IH. now apply inv_drop_obj.
Qed.

Lemma inv_take_cell p s o f : cell (objs s o) = Some f -> inv0 p s -> inv0 p (take_cell o f s).
Proof.
  intros Ec I.
  assert (Hlt : (o < nobj s)%nat) by (eapply strong_lt; eauto; now apply (i_cell _ _ I) in Ec).
  destruct I as [Hfr Hofr Hcnt Hcell Hinj Hnd Hcf Hown Hcnd Hcl Hleak Hborn Hofresh Hch].
  destruct s as [tb nf no ob nob hn cf bo wi lg]; unf; cbn in *.
  destruct (Hcell o f Ec) as (A & B & C & D & F).
  assert (Hne : forall o' g, o' <> o -> cell (ob o') = Some g -> g <> f).
  { intros o' g Ne G ->. apply Ne. eauto. }
  constructor; unf; cbn.
  - exact Hfr.
  - intros o' L. rewrite updn_neq by lia. now apply Hofr.
  - intros o'. destruct (Nat.eq_dec o' o) as [->|Ne]; [rewrite updn_eq; cbn; apply Hcnt|rewrite updn_neq by auto; apply Hcnt].
  - intros o' g E. destruct (Nat.eq_dec o' o) as [->|Ne]; [rewrite updn_eq in E; discriminate|].
    rewrite updn_neq in * by auto. destruct (Hcell o' g E) as (A' & B' & C' & D' & F').
    pose proof (Hne o' g Ne E). repeat split; auto. rewrite in_app_iff. cbn. intros [G|[G|[]]]; congruence.
  - intros o1 o2 g G1 G2.
    destruct (Nat.eq_dec o1 o) as [->|N1]; [rewrite updn_eq in G1; discriminate|].
    destruct (Nat.eq_dec o2 o) as [->|N2]; [rewrite updn_eq in G2; discriminate|].
    rewrite updn_neq in G1, G2 by auto. eauto.
  - rewrite filter_some_app. cbn. apply nodup_snoc; auto. now rewrite in_filter_some.
  - intros g G. rewrite in_app_iff in G. cbn in G. destruct G as [G|[G|[]]]; [now apply Hcf|].
    injection G as <-. auto.
  - intros g G. destruct (Hown g G) as [X|[o' X]].
    + left. rewrite in_app_iff. auto.
    + destruct (Nat.eq_dec o' o) as [->|Ne].
      * left. rewrite in_app_iff. cbn. right. left. congruence.
      * right. exists o'. now rewrite updn_neq.
  - exact Hcnd.
  - exact Hcl.
  - intros g G. destruct (Hleak g G) as [X|[X|[o' X]]]; auto.
    destruct (Nat.eq_dec o' o) as [->|Ne].
    + left. left. congruence.
    + right. right. exists o'. now rewrite updn_neq.
  - intros g o' G. change (born_l (EvTake f :: lg) g o') in G. apply born_cons in G.
    destruct G as [[G|[[a G]|G]]|G]; try discriminate. auto.
  - exact Hofresh.
  - intros g. rewrite in_app_iff, <- Hch. cbn. intuition congruence.
Qed.

(** moving handles between owners and temporaries *)
Lemma inv_refs p p' s hn' bo' :
  (forall o, (cnt o (refs (set_bods bo' (set_hnd hn' s))) + cnt o p' = cnt o (refs s) + cnt o p)%nat) ->
  inv0 p s -> inv0 p' (set_bods bo' (set_hnd hn' s)).
Proof.
  intros Hm I.
  destruct I as [Hfr Hofr Hcnt Hcell Hinj Hnd Hcf Hown Hcnd Hcl Hleak Hborn Hofresh Hch].
  destruct s as [tb nf no ob nob hn cf bo wi lg]; unf; cbn in *.
  constructor; unf; cbn; try assumption.
  intros o. rewrite Hm. apply Hcnt.
Qed.

Definition msg_event (e : event) : Prop :=
  match e with EvSend _ _ | EvInject _ | EvRecv _ _ => True | _ => False end.

Lemma inv_emit_msg p s e w : msg_event e -> inv0 p s -> inv0 p (emit e (set_wire w s)).
Proof.
  intros He I.
  destruct I as [Hfr Hofr Hcnt Hcell Hinj Hnd Hcf Hown Hcnd Hcl Hleak Hborn Hofresh Hch].
  destruct s as [tb nf no ob nob hn cf bo wi lg]; unf; cbn in *.
  assert (E1 : closes_l (e :: lg) = closes_l lg) by (destruct e; cbn in He; try tauto; reflexivity).
  assert (E2 : owned_l (e :: lg) = owned_l lg) by (destruct e; cbn in He; try tauto; reflexivity).
  assert (E3 : taken_l (e :: lg) = taken_l lg) by (destruct e; cbn in He; try tauto; reflexivity).
  assert (E5 : caller_l (e :: lg) = caller_l lg) by (destruct e; cbn in He; try tauto; reflexivity).
  constructor; unf; unfold emit, set_wire; proj; rewrite ?E1, ?E2, ?E3, ?E5; try assumption.
  intros g o' G. change (born_l (e :: lg) g o') in G. apply born_cons in G.
  destruct G as [[G|[[a G]|G]]|G]; auto; subst e; cbn in He; tauto.
Qed.

Lemma inv_set_wire p s w : inv0 p s -> inv0 p (set_wire w s).
Proof.
  intros I. destruct I as [Hfr Hofr Hcnt Hcell Hinj Hnd Hcf Hown Hcnd Hcl Hleak Hborn Hofresh Hch].
  destruct s as [tb nf no ob nob hn cf bo wi lg]; unf; cbn in *.
  constructor; unf; cbn; assumption.
Qed.
Lemma inv_emit p s e : msg_event e -> inv0 p s -> inv0 p (emit e s).
Proof.
  intros He I. destruct s as [tb nf no ob nob hn cf bo wi lg].
  apply (inv_emit_msg p _ e wi He I).
Qed.

Lemma inv_perm p p' s : (forall o, cnt o p' = cnt o p) -> inv0 p s -> inv0 p' s.
Proof.
  intros Hp I. destruct I as [Hfr Hofr Hcnt Hcell Hinj Hnd Hcf Hown Hcnd Hcl Hleak Hborn Hofresh Hch].
  constructor; auto. intros o. rewrite Hp. apply Hcnt.
Qed.

Lemma inv_add_hnd p s o : inv0 (o :: p) s -> inv0 p (add_hnd o s).
Proof.
  intros I. destruct s as [tb nf no ob nob hn cf bo wi lg].
  match goal with |- inv0 _ (add_hnd _ ?S) => change (add_hnd o S) with (set_bods bo (set_hnd (hn ++ [Some o]) S)) end.
  apply inv_refs with (p := o :: p); auto.
  intros o'. unf; cbn. rewrite !cnt_app, cnt_flat_map_snoc. cbn [oref].
  change (o :: p) with ([o] ++ p). rewrite cnt_app. lia.
Qed.

Lemma lookup_h_nth s h o : lookup_h s h = Some o -> nth_error (hnd s) h = Some (Some o).
Proof.
  unfold lookup_h. destruct (nth_error (hnd s) h) as [[g|]|] eqn:E; try discriminate. now intros [= ->].
Qed.
Lemma lookup_b_nth s b bd : lookup_b s b = Some bd -> nth_error (bods s) b = Some (Some bd).
Proof.
  unfold lookup_b. destruct (nth_error (bods s) b) as [[g|]|] eqn:E; try discriminate. now intros [= ->].
Qed.

Lemma inv_clear_hnd p s h o : lookup_h s h = Some o -> inv0 p s -> inv0 (o :: p) (clear_hnd h s).
Proof.
  intros Hh I. apply lookup_h_nth in Hh. destruct s as [tb nf no ob nob hn cf bo wi lg]. cbn in Hh.
  match goal with |- inv0 _ (clear_hnd _ ?S) => change (clear_hnd h S) with (set_bods bo (set_hnd (set_nth hn h None) S)) end.
  apply inv_refs with (p := p); auto.
  intros o'. unf; cbn. rewrite !cnt_app.
  pose proof (cnt_flat_map_set_nth oref o' hn h (Some o) None Hh) as E. cbn [oref] in E. rewrite cnt_nil in E.
  change (o :: p) with ([o] ++ p). rewrite cnt_app. lia.
Qed.

Lemma inv_set_body p p' s b x old :
  nth_error (bods s) b = Some old ->
  (forall o, (cnt o (bref x) + cnt o p' = cnt o (bref old) + cnt o p)%nat) ->
  inv0 p s -> inv0 p' (set_body b x s).
Proof.
  intros Hb Hm I. destruct s as [tb nf no ob nob hn cf bo wi lg]. cbn in Hb.
  match goal with |- inv0 _ (set_body _ _ ?S) => change (set_body b x S) with (set_bods (set_nth bo b x) (set_hnd hn S)) end.
  apply inv_refs with (p := p); auto.
  intros o'. unf; cbn. rewrite !cnt_app.
  pose proof (cnt_flat_map_set_nth bref o' bo b old x Hb) as E. specialize (Hm o'). lia.
Qed.

Lemma inv_add_body p p' s x :
  (forall o, (cnt o (bref x) + cnt o p' = cnt o p)%nat) ->
  inv0 p s -> inv0 p' (set_bods (bods s ++ [x]) s).
Proof.
  intros Hm I. destruct s as [tb nf no ob nob hn cf bo wi lg].
  cbn [bods]. match goal with |- inv0 _ (set_bods _ ?S) => change (set_bods (bo ++ [x]) S) with (set_bods (bo ++ [x]) (set_hnd hn S)) end.
  apply inv_refs with (p := p); auto.
  intros o'. unf; cbn. rewrite !cnt_app, cnt_flat_map_snoc. specialize (Hm o'). lia.
Qed.

Lemma lookup_h_refs s h o : lookup_h s h = Some o -> In o (refs s).
Proof.
  intros H. apply lookup_h_nth in H. unfold refs. rewrite in_app_iff. left.
  apply in_flat_map. exists (Some o). split; [eapply nth_error_In; eauto|cbn; auto].
Qed.
Lemma lookup_b_refs s b bd o : lookup_b s b = Some bd -> In o (bfds bd) -> In o (refs s).
Proof.
  intros H Ho. apply lookup_b_nth in H. unfold refs. rewrite in_app_iff. right.
  apply in_flat_map. exists (Some bd). split; [eapply nth_error_In; eauto|cbn; auto].
Qed.
Lemma ref_strong p s o : inv0 p s -> In o (refs s) -> (0 < strong (objs s o))%nat.
Proof. intros I H. rewrite (i_count _ _ I). apply cnt_pos_in in H. lia. Qed.

(** *** marshalling *)

Lemma inv_marshal_fd s b src s1 : inv0 [] s -> marshal_fd b src s = Some s1 -> inv0 [] s1.
Proof.
  unfold marshal_fd. intros I H. destruct (tab s src) as [o|] eqn:Et; [|discriminate].
  unfold body_push in H.
  destruct (lookup_b _ b) as [bd|] eqn:Eb; [|discriminate]. injection H as <-.
  eapply inv_set_body; [apply lookup_b_nth; eauto| |apply inv_lib_new_fd; [left; eauto|exact I]].
  intros o'. cbn [bref bfds]. rewrite cnt_app, cnt_nil. lia.
Qed.

Lemma inv_marshal_items b its s : inv0 [] s -> inv0 [] (fst (marshal_items b its s)).
Proof.
  revert s. induction its as [|it r IH]; intros s I; cbn; auto.
  unfold marshal_item. destruct (item_src s it) as [f|]; [|cbn; auto].
  destruct (marshal_fd b f s) as [s1|] eqn:E; [|cbn; auto].
  apply IH. eapply inv_marshal_fd; eauto.
Qed.

Lemma cnt_firstn_skipn o n (l : list nat) : (cnt o (firstn n l) + cnt o (skipn n l) = cnt o l)%nat.
Proof. rewrite <- cnt_app. now rewrite firstn_skipn. Qed.

Lemma inv_push_multi b its s : inv0 [] s -> inv0 [] (fst (push_multi b its s)).
Proof.
  intros I. unfold push_multi.
  destruct (lookup_b s b) as [bd|]; [|auto].
  destruct (forallb (item_valid s) its); [|auto].
  pose proof (inv_marshal_items b its s I) as I1.
  destruct (marshal_items b its s) as [s1 ok]. cbn [fst] in I1.
  destruct (lookup_b s1 b) as [bd1|] eqn:Eb; [|auto].
  destruct ok; [auto|]. cbn [fst].
  apply inv_drop_objs. rewrite app_nil_r.
  eapply inv_set_body; [apply lookup_b_nth; eauto| |exact I1].
  intros o. cbn [bref bfds]. rewrite cnt_nil. pose proof (cnt_firstn_skipn o (length (bfds bd)) (bfds bd1)). lia.
Qed.

(** *** receiving *)

Lemma cnt_seq_cons o a n p : cnt o (seq (S a) n ++ a :: p) = cnt o (seq a (S n) ++ p).
Proof. cbn [seq]. rewrite !cnt_app. change (a :: p) with ([a] ++ p). change (a :: seq (S a) n) with ([a] ++ seq (S a) n). rewrite !cnt_app. lia. Qed.

Lemma inv_recv_fds ofds p s : inv0 p s -> inv0 (seq (nobj s) (length ofds) ++ p) (recv_fds ofds s).
Proof.
  revert p s. induction ofds as [|o r IH]; intros p s I; cbn [recv_fds fold_left length seq app]; auto.
  change (fold_left _ r ?x) with (recv_fds r x).
  pose proof (IH (nobj s :: p) _ (inv_lib_new_fd p s _ o (or_intror (fun f => eq_refl)) I)) as I1.
  cbn [lib_new_fd nobj] in I1.
  eapply inv_perm; [|exact I1]. intros o'. symmetry. apply (cnt_seq_cons o' (nobj s) (length r) p).
Qed.

Lemma recv_fds_frame ofds s :
  (nobj s <= nobj (recv_fds ofds s))%nat /\ nfd s <= nfd (recv_fds ofds s)
  /\ (forall o, (o < nobj s)%nat -> objs (recv_fds ofds s) o = objs s o)
  /\ (forall f, f < nfd s -> tab (recv_fds ofds s) f = tab s f).
Proof.
  revert s. induction ofds as [|o r IH]; intros s; cbn [recv_fds fold_left].
  - repeat split; auto; lia.
  - change (fold_left _ r ?x) with (recv_fds r x).
    destruct (IH (lib_new_fd (fun f => EvRecvFd f o) o s)) as (A & B & C & D). cbn [lib_new_fd nobj nfd objs tab] in *.
    repeat split; try lia.
    + intros o' L. rewrite C by lia. now rewrite updn_neq by lia.
    + intros f L. rewrite D by lia. now rewrite updN_neq by lia.
Qed.

Lemma recv_fds_cells ofds s :
  map (fun o => cell (objs (recv_fds ofds s) o)) (seq (nobj s) (length ofds))
  = map (fun i => Some (nfd s + N.of_nat i)) (seq 0 (length ofds))
  /\ map (fun i => tab (recv_fds ofds s) (nfd s + N.of_nat i)) (seq 0 (length ofds)) = map Some ofds.
Proof.
  revert s. induction ofds as [|o r IH]; intros s; cbn [recv_fds fold_left length seq map]; auto.
  change (fold_left _ r ?x) with (recv_fds r x).
  set (s1 := lib_new_fd (fun f => EvRecvFd f o) o s).
  destruct (recv_fds_frame r s1) as (_ & _ & C & D).
  destruct (IH s1) as [E1 E2]. cbn [s1 lib_new_fd nobj nfd] in E1, E2.
  split; f_equal.
  - rewrite C by (cbn; lia). cbn. rewrite updn_eq. cbn. f_equal. lia.
  - fold s1. rewrite E1. rewrite <- seq_shift, map_map. apply map_ext. intros i. f_equal. lia.
  - rewrite D by (cbn; lia). cbn. rewrite N.add_0_r. apply updN_eq.
  - fold s1. rewrite <- E2. rewrite <- seq_shift, map_map. apply map_ext. intros i. f_equal. lia.
Qed.

Lemma filter_some_map_some {A} (l : list A) : filter_some (map Some l) = l.
Proof. induction l; cbn; congruence. Qed.

(** the descriptors a received message carries refer to exactly the files that were attached *)
Lemma recv_same_files ofds idxs s bo :
  let s2 := set_bods bo (recv_fds ofds s) in
  ofds_of s2 (get_raw_fds s2 (mkBody (seq (nobj s) (length ofds)) idxs)) = ofds.
Proof.
  cbn zeta. unfold ofds_of, get_raw_fds. cbn [bfds set_bods objs tab].
  destruct (recv_fds_cells ofds s) as [E1 E2].
  rewrite E1.
  replace (map (fun i => Some (nfd s + N.of_nat i)) (seq 0 (length ofds)))
    with (map Some (map (fun i => nfd s + N.of_nat i) (seq 0 (length ofds)))) by now rewrite map_map.
  rewrite filter_some_map_some, map_map, E2. apply filter_some_map_some.
Qed.

(** ** Every operation preserves the invariant *)

Lemma read_unixfd_in fds idx o : read_unixfd fds idx = Some o -> In o fds.
Proof.
  unfold read_unixfd. destruct (len fds <=? idx); [discriminate|]. apply nth_error_In.
Qed.

Lemma inv_unmarshal_at s b bd idx : lookup_b s b = Some bd -> inv0 [] s -> inv0 [] (fst (unmarshal_at bd idx s)).
Proof.
  intros Hb I. unfold unmarshal_at. destruct (read_unixfd (bfds bd) idx) as [o|] eqn:E; [|auto].
  cbn [fst]. apply inv_add_hnd. apply inv_clone_obj; auto.
  eapply ref_strong; eauto. eapply lookup_b_refs; eauto. eapply read_unixfd_in; eauto.
Qed.

Lemma read_all_in fds idxs : forall os, read_all fds idxs = Some os -> forall o, In o os -> In o fds.
Proof.
  induction idxs as [|i r IH]; intros os H o Ho; cbn in H.
  - injection H as <-. destruct Ho.
  - destruct (read_unixfd fds i) as [o1|] eqn:E1; [|discriminate].
    destruct (read_all fds r) as [os1|]; [|discriminate]. injection H as <-.
    destruct Ho as [<-|Ho]; [eapply read_unixfd_in; eauto|eapply IH; eauto].
Qed.

Lemma refs_add_clone s o x : In x (refs s) -> In x (refs (add_hnd o (clone_obj o s))).
Proof.
  unfold refs. cbn. rewrite !in_app_iff, flat_map_app, in_app_iff. tauto.
Qed.

Lemma inv_clone_all os : forall s, inv0 [] s -> (forall o, In o os -> In o (refs s)) -> inv0 [] (clone_all os s).
Proof.
  induction os as [|o r IH]; intros s I H; cbn [clone_all fold_left]; auto.
  change (fold_left _ r ?x) with (clone_all r x). apply IH.
  - apply inv_add_hnd. apply inv_clone_obj; auto. eapply ref_strong; eauto. apply H. now left.
  - intros x Hx. apply refs_add_clone. apply H. now right.
Qed.

Lemma inv_decode_at s b bd idxs : lookup_b s b = Some bd -> inv0 [] s -> inv0 [] (fst (decode_at bd idxs s)).
Proof.
  intros Hb I. unfold decode_at. destruct (read_all (bfds bd) idxs) as [os|] eqn:E; cbn [fst]; auto.
  apply inv_clone_all; auto. intros o Ho. eapply lookup_b_refs; eauto. eapply read_all_in; eauto.
Qed.

Lemma step_inv0 s o : inv0 [] s -> inv0 [] (fst (step s o)).
Proof.
  intros I. destruct o; cbn [step].
  - (* Open *) apply inv_caller_open; auto.
  - (* CallerClose *) destruct (lookup_c s c) eqn:E; cbn [fst]; auto. apply inv_caller_close; auto.
  - (* Wrap *) destruct (lookup_c s c) eqn:E; cbn [fst]; auto.
    apply inv_add_hnd. replace (nobj s) with (nobj s) by reflexivity.
    apply (inv_wrap_fd [] s c n E I).
  - (* NewBody *) cbn [fst]. apply inv_add_body with (p := []); auto.
  - (* Push *) apply inv_push_multi; auto.
  - (* Reset *) destruct (lookup_b s b) as [bd|] eqn:E; cbn [fst]; auto.
    apply inv_drop_objs. rewrite app_nil_r.
    eapply inv_set_body; [apply lookup_b_nth; eauto| |exact I]. intros o. cbn [bref bfds]. lia.
  - (* DropBody *) destruct (lookup_b s b) as [bd|] eqn:E; cbn [fst]; auto.
    apply inv_drop_objs. rewrite app_nil_r.
    eapply inv_set_body; [apply lookup_b_nth; eauto| |exact I]. intros o. cbn [bref bfds]. lia.
  - (* Send *) destruct (lookup_b s b) as [bd|] eqn:E; cbn [fst]; auto.
    destruct (negb (len (get_raw_fds s bd) =? len (bfds bd))); cbn [fst]; auto.
    destruct (SCM_MAX_FD <? len (get_raw_fds s bd)); cbn [fst]; auto.
    apply inv_emit_msg; cbn; auto.
  - (* Inject *) destruct (forallb _ cs); cbn [fst]; auto.
    destruct (SCM_MAX_FD <? _); cbn [fst]; auto.
    apply inv_emit_msg; cbn; auto.
  - (* Recv *) destruct (wire s) as [|[ofds idxs] w] eqn:E; cbn [fst]; auto.
    apply inv_emit; cbn; auto.
    pose proof (inv_recv_fds ofds [] _ (inv_set_wire [] s w I)) as I1. rewrite app_nil_r in I1.
    cbn [set_wire nobj] in I1.
    eapply inv_add_body; [|exact I1]. intros o. cbn [bref bfds]. rewrite cnt_nil. lia.
  - (* Unmarshal *) destruct (lookup_b s b) as [bd|] eqn:E; cbn [fst]; auto. eapply inv_unmarshal_at; eauto.
  - (* Parse *) destruct (lookup_b s b) as [bd|] eqn:E; cbn [fst]; auto.
    destruct (nth_error (bidx bd) j); cbn [fst]; auto. eapply inv_unmarshal_at; eauto.
  - (* Decode *) destruct (lookup_b s b) as [bd|] eqn:E; cbn [fst]; auto.
    destruct (k <=? length (bidx bd))%nat; cbn [fst]; auto. eapply inv_decode_at; eauto.
  - (* DecodeOwned *) destruct (lookup_b s b) as [bd|] eqn:E; cbn [fst]; auto.
    destruct (read_all (bfds bd) (bidx bd)) eqn:Er.
    + eapply inv_decode_at; eauto.
    + cbn [fst]. apply inv_drop_objs. rewrite app_nil_r.
      eapply inv_set_body; [apply lookup_b_nth; eauto| |exact I]. intros o. cbn [bref bfds]. lia.
  - (* Clone *) destruct (lookup_h s h) as [o|] eqn:E; cbn [fst]; auto.
    apply inv_add_hnd. apply inv_clone_obj; auto. eapply ref_strong; eauto. eapply lookup_h_refs; eauto.
  - (* DupH *) destruct (lookup_h s h) as [o|] eqn:E; cbn [fst]; auto.
    destruct (cell (objs s o)) as [f|]; cbn [fst]; auto.
    destruct (tab s f) as [od|]; cbn [fst]; auto.
    apply inv_add_hnd. apply inv_lib_new_fd; auto. left. eauto.
  - (* Take *) destruct (lookup_h s h) as [o|] eqn:E; cbn [fst]; auto.
    destruct (cell (objs s o)) as [f|] eqn:Ec; cbn [fst].
    + apply inv_drop_obj. apply inv_take_cell; [exact Ec|]. apply inv_clear_hnd; auto.
    + apply inv_drop_obj. apply inv_clear_hnd; auto.
  - (* DropHandle *) destruct (lookup_h s h) as [o|] eqn:E; cbn [fst]; auto.
    apply inv_drop_obj. apply inv_clear_hnd; auto.
Qed.

Lemma inv0_init : inv0 [] init.
Proof.
  constructor; unf; cbn; intros; try discriminate; try tauto; try reflexivity; try (constructor; fail).
  destruct H as [H|[[a H]|H]]; tauto.
Qed.

Lemma run_app a b s : run (a ++ b) s = run b (run a s).
Proof. revert s. induction a as [|o a IH]; intros s; cbn; auto. Qed.

Lemma run_inv0 ops : inv0 [] (run ops init).
Proof.
  induction ops as [|o ops IH] using rev_ind; [apply inv0_init|].
  rewrite run_app. cbn. now apply step_inv0.
Qed.

(** ** Messages are received in the order they were sent, each with its own files *)

Definition wire_ok (s : st) : Prop := sent_msgs s = recv_msgs s ++ map fst (wire s).
Definition wkey (s : st) := (sent_l (log s), recv_l (log s), wire s).

Lemma wkey_lib_new_fd ev o s : creation_event ev o -> wkey (lib_new_fd ev o s) = wkey s.
Proof. intros [[src H]|H]; unfold wkey; cbn; rewrite H; reflexivity. Qed.
Lemma wkey_drop_obj o s : wkey (drop_obj o s) = wkey s.
Proof.
  unfold drop_obj. destruct (strong (objs s o)) as [|[|n]]; try reflexivity.
  destruct (cell (objs s o)); reflexivity.
Qed.
Lemma wkey_drop_objs l s : wkey (drop_objs l s) = wkey s.
Proof. revert s. induction l as [|o l IH]; intros s; cbn; auto. now rewrite IH, wkey_drop_obj. Qed.
Lemma wkey_marshal_fd b src s s1 : marshal_fd b src s = Some s1 -> wkey s1 = wkey s.
Proof.
  unfold marshal_fd. destruct (tab s src) as [o|]; [|discriminate]. unfold body_push.
  destruct (lookup_b _ b); [|discriminate]. intros [= <-].
  transitivity (wkey (lib_new_fd (fun f => EvDup src f o) o s)); [reflexivity|].
  apply wkey_lib_new_fd. left. eauto.
Qed.
Lemma wkey_marshal_items b its s : wkey (fst (marshal_items b its s)) = wkey s.
Proof.
  revert s. induction its as [|it r IH]; intros s; cbn; auto.
  unfold marshal_item. destruct (item_src s it) as [f|]; [|reflexivity].
  destruct (marshal_fd b f s) as [s1|] eqn:E; [|reflexivity].
  rewrite IH. eapply wkey_marshal_fd; eauto.
Qed.
Lemma wkey_recv_fds ofds s : wkey (recv_fds ofds s) = wkey s.
Proof.
  revert s. induction ofds as [|o r IH]; intros s; cbn [recv_fds fold_left]; auto.
  change (fold_left _ r ?x) with (recv_fds r x). rewrite IH. apply wkey_lib_new_fd. right. auto.
Qed.
Lemma wkey_push_multi b its s : wkey (fst (push_multi b its s)) = wkey s.
Proof.
  unfold push_multi. destruct (lookup_b s b); [|reflexivity].
  destruct (forallb _ its); [|reflexivity].
  pose proof (wkey_marshal_items b its s) as E. destruct (marshal_items b its s) as [s1 ok]. cbn [fst] in E.
  destruct (lookup_b s1 b); [|exact E]. destruct ok; [exact E|]. cbn [fst].
  rewrite wkey_drop_objs. exact E.
Qed.
Lemma wkey_unmarshal_at bd idx s : wkey (fst (unmarshal_at bd idx s)) = wkey s.
Proof. unfold unmarshal_at. destruct (read_unixfd _ _); reflexivity. Qed.

Lemma wkey_clone_all os : forall s, wkey (clone_all os s) = wkey s.
Proof.
  induction os as [|o r IH]; intros s; cbn [clone_all fold_left]; auto.
  change (fold_left _ r ?x) with (clone_all r x). now rewrite IH.
Qed.
Lemma wkey_decode_at bd idxs s : wkey (fst (decode_at bd idxs s)) = wkey s.
Proof. unfold decode_at. destruct (read_all _ _); cbn [fst]; auto. apply wkey_clone_all. Qed.

Lemma wire_ok_wkey s s' : wkey s' = wkey s -> wire_ok s -> wire_ok s'.
Proof. unfold wire_ok, wkey, sent_msgs, recv_msgs. intros [= -> -> ->]. auto. Qed.

Lemma step_wire_ok s o : wire_ok s -> wire_ok (fst (step s o)).
Proof.
  intros W. destruct o; cbn [step].
  - apply (wire_ok_wkey s); [reflexivity|exact W].
  - destruct (lookup_c s c); cbn [fst]; auto.
  - destruct (lookup_c s c); cbn [fst]; auto.
  - apply (wire_ok_wkey s); [reflexivity|exact W].
  - apply (wire_ok_wkey s); [|exact W]. apply wkey_push_multi.
  - destruct (lookup_b s b); cbn [fst]; auto. apply (wire_ok_wkey s); [|exact W]. now rewrite wkey_drop_objs.
  - destruct (lookup_b s b); cbn [fst]; auto. apply (wire_ok_wkey s); [|exact W]. now rewrite wkey_drop_objs.
  - destruct (lookup_b s b) as [bd|]; cbn [fst]; auto.
    destruct (negb _); cbn [fst]; auto.
    destruct (SCM_MAX_FD <? _); cbn [fst]; auto.
    unfold wire_ok, sent_msgs, recv_msgs in *. cbn. rewrite W, map_app, app_assoc. reflexivity.
  - destruct (forallb _ cs); cbn [fst]; auto.
    destruct (SCM_MAX_FD <? _); cbn [fst]; auto.
    unfold wire_ok, sent_msgs, recv_msgs in *. cbn. rewrite W, map_app, app_assoc. reflexivity.
  - destruct (wire s) as [|[ofds idxs] w] eqn:E; cbn [fst]; auto.
    pose proof (recv_same_files ofds idxs (set_wire w s)
                  (bods (recv_fds ofds (set_wire w s)) ++ [Some (mkBody (seq (nobj s) (length ofds)) idxs)])) as R.
    cbv zeta in R. change (nobj (set_wire w s)) with (nobj s) in R. rewrite R. clear R.
    pose proof (wkey_recv_fds ofds (set_wire w s)) as K. unfold wkey in K. cbn [set_wire log wire] in K.
    injection K as K1 K2 K3.
    unfold wire_ok, sent_msgs, recv_msgs in *. cbn [emit set_bods log wire sent_l recv_l].
    rewrite K1, K2, K3, W, E. cbn. now rewrite <- app_assoc.
  - destruct (lookup_b s b); cbn [fst]; auto. apply (wire_ok_wkey s); [|exact W]. apply wkey_unmarshal_at.
  - destruct (lookup_b s b) as [bd|]; cbn [fst]; auto. destruct (nth_error (bidx bd) j); cbn [fst]; auto.
    apply (wire_ok_wkey s); [|exact W]. apply wkey_unmarshal_at.
  - destruct (lookup_b s b) as [bd|]; cbn [fst]; auto. destruct (k <=? length (bidx bd))%nat; cbn [fst]; auto.
    apply (wire_ok_wkey s); [|exact W]. apply wkey_decode_at.
  - destruct (lookup_b s b) as [bd|]; cbn [fst]; auto. destruct (read_all (bfds bd) (bidx bd)).
    + apply (wire_ok_wkey s); [|exact W]. apply wkey_decode_at.
    + cbn [fst]. apply (wire_ok_wkey s); [|exact W]. now rewrite wkey_drop_objs.
  - destruct (lookup_h s h); cbn [fst]; auto.
  - destruct (lookup_h s h) as [o|]; cbn [fst]; auto. destruct (cell (objs s o)) as [f|]; cbn [fst]; auto.
    destruct (tab s f) as [od|]; cbn [fst]; auto.
  - destruct (lookup_h s h) as [o|]; cbn [fst]; auto. destruct (cell (objs s o)) as [f|]; cbn [fst].
    + apply (wire_ok_wkey s); [|exact W]. now rewrite wkey_drop_obj.
    + apply (wire_ok_wkey s); [|exact W]. now rewrite wkey_drop_obj.
  - destruct (lookup_h s h) as [o|]; cbn [fst]; auto. apply (wire_ok_wkey s); [|exact W]. now rewrite wkey_drop_obj.
Qed.

Lemma run_wire_ok ops : wire_ok (run ops init).
Proof.
  induction ops as [|o ops IH] using rev_ind; [reflexivity|].
  rewrite run_app. cbn. now apply step_wire_ok.
Qed.

(** ** What a push does *)

Lemma frame_refl s : frame s s.
Proof. unfold frame. repeat split; auto; lia. Qed.
Lemma frame_trans s1 s2 s3 : frame s1 s2 -> frame s2 s3 -> frame s1 s3.
Proof.
  intros (A1 & B1 & C1 & D1 & E1 & F1) (A2 & B2 & C2 & D2 & E2 & F2). unfold frame.
  repeat split; try congruence; try lia.
  - intros o L. rewrite E2 by lia. now apply E1.
  - intros f L. rewrite F2 by lia. now apply F1.
Qed.

Lemma lookup_b_lt s b bd : lookup_b s b = Some bd -> (b < length (bods s))%nat.
Proof. intros H. apply lookup_b_nth in H. apply nth_error_Some. congruence. Qed.

Lemma skipn_app_length {A} (a b : list A) : skipn (length a) (a ++ b) = b.
Proof. induction a; cbn; auto. Qed.
Lemma firstn_app_length {A} (a b : list A) : firstn (length a) (a ++ b) = a.
Proof. induction a; cbn; congruence. Qed.

Lemma marshal_fd_spec b src s s1 bd :
  lookup_b s b = Some bd -> marshal_fd b src s = Some s1 ->
  exists od, tab s src = Some od
    /\ lookup_b s1 b = Some (mkBody (bfds bd ++ [nobj s]) (bidx bd ++ [len (bfds bd) mod 2 ^ 32]))
    /\ frame s s1
    /\ objs s1 (nobj s) = mkObj (Some (nfd s)) 1 /\ tab s1 (nfd s) = Some od
    /\ nobj s1 = S (nobj s) /\ nfd s1 = nfd s + 1
    /\ (forall b', b' <> b -> nth_error (bods s1) b' = nth_error (bods s) b')
    /\ length (bods s1) = length (bods s).
Proof.
  intros Hb H. unfold marshal_fd in H. destruct (tab s src) as [od|] eqn:Et; [|discriminate].
  exists od. split; auto. unfold body_push in H.
  assert (Hb1 : lookup_b (lib_new_fd (fun f => EvDup src f od) od s) b = Some bd) by exact Hb.
  rewrite Hb1 in H. injection H as <-.
  pose proof (lookup_b_lt _ _ _ Hb) as L.
  replace (len (bfds bd ++ [nobj s]) - 1) with (len (bfds bd)) by (rewrite len_app, len_cons, len_nil; lia).
  repeat split; cbn; auto; try lia.
  - unfold lookup_b. cbn. now rewrite nth_error_set_nth_eq.
  - intros o Lo. rewrite updn_neq; auto. lia.
  - intros f Lf. rewrite updN_neq; auto. lia.
  - apply updn_eq.
  - apply updN_eq.
  - intros b' Ne. apply nth_error_set_nth_neq. congruence.
  - apply length_set_nth.
Qed.

Lemma item_src_frame s0 s1 it : inv0 [] s0 -> frame s0 s1 -> item_src s1 it = item_src s0 it.
Proof.
  intros I (A & B & C & D & E & F). destruct it as [h|c|]; cbn; auto.
  - unfold lookup_h. rewrite A. destruct (nth_error (hnd s0) h) as [[o|]|] eqn:En; auto.
    rewrite E; auto. eapply ref_lt; eauto. apply (lookup_h_refs s0 h). unfold lookup_h. now rewrite En.
  - unfold lookup_c. now rewrite B.
Qed.
Lemma item_src_lt s it src : inv0 [] s -> item_src s it = Some src -> src < nfd s.
Proof.
  intros I H. destruct it as [h|c|]; cbn in H; try discriminate.
  - destruct (lookup_h s h); [|discriminate]. eapply cell_lt; eauto.
  - eapply cfd_lt; eauto. eapply lookup_c_in; eauto.
Qed.

Lemma marshal_items_spec b its : forall s0 s1 s' ok bd1,
  inv0 [] s0 -> frame s0 s1 -> lookup_b s1 b = Some bd1 -> marshal_items b its s1 = (s', ok) ->
  exists news idxs,
    lookup_b s' b = Some (mkBody (bfds bd1 ++ news) (bidx bd1 ++ idxs))
    /\ frame s1 s'
    /\ (forall b', b' <> b -> nth_error (bods s') b' = nth_error (bods s1) b')
    /\ length (bods s') = length (bods s1)
    /\ (forall o, In o news -> (nobj s1 <= o)%nat)
    /\ (ok = true -> pushed s0 s' (len (bfds bd1)) its news idxs).
Proof.
  induction its as [|it r IH]; intros s0 s1 s' ok bd1 I0 F01 Hb H; cbn [marshal_items] in H.
  - injection H as <- <-. exists [], []. rewrite !app_nil_r. destruct bd1; cbn.
    repeat split; auto using frame_refl; try discriminate; try lia; cbn in *; try tauto.
  - unfold marshal_item in H. rewrite (item_src_frame s0 s1 it I0 F01) in H.
    destruct (item_src s0 it) as [src|] eqn:Es.
    2:{ injection H as <- <-. exists [], []. rewrite !app_nil_r. destruct bd1; cbn.
        repeat split; auto using frame_refl; try discriminate; try lia; cbn in *; try tauto. }
    destruct (marshal_fd b src s1) as [s2|] eqn:Em.
    2:{ injection H as <- <-. exists [], []. rewrite !app_nil_r. destruct bd1; cbn.
        repeat split; auto using frame_refl; try discriminate; try lia; cbn in *; try tauto. }
    destruct (marshal_fd_spec b src s1 s2 bd1 Hb Em) as (od & Et & Hb2 & F12 & Ho & Ht & Hno & Hnf & Hoth & Hlen).
    pose proof (frame_trans _ _ _ F01 F12) as F02.
    destruct (IH s0 s2 s' ok _ I0 F02 Hb2 H) as (news & idxs & Hb' & F2' & Hoth' & Hlen' & Hnews & Hpush).
    cbn [bfds bidx] in *.
    exists (nobj s1 :: news), ((len (bfds bd1) mod 2 ^ 32) :: idxs).
    rewrite <- !app_assoc in Hb'. cbn [app] in Hb'.
    split; [exact Hb'|]. split; [eapply frame_trans; eauto|].
    split; [intros b' Ne; rewrite Hoth', Hoth; auto|].
    split; [congruence|].
    split; [intros o [<-|Ho']; [lia|apply Hnews in Ho'; lia]|].
    intros ->. specialize (Hpush eq_refl). cbn [pushed].
    destruct F2' as (A2 & B2 & C2 & D2 & E2 & G2).
    pose proof (item_src_lt s0 it src I0 Es) as Lsrc.
    destruct F01 as (A1 & B1 & C1 & D1 & E1 & G1).
    assert (Ets : tab s1 src = tab s0 src) by (apply G1; auto).
    split; [|split; [|split]].
    + exists src, (nfd s1). repeat split; auto.
      * rewrite E2 by lia. now rewrite Ho.
      * lia.
      * congruence.
      * rewrite G2 by lia. congruence.
      * destruct F02 as (_ & _ & _ & D02 & _ & G02). rewrite G2 by lia. now apply G02.
    + rewrite E2 by lia. now rewrite Ho.
    + reflexivity.
    + replace (len (bfds bd1) + 1) with (len (bfds bd1 ++ [nobj s1])); [exact Hpush|].
      rewrite len_app, len_cons, len_nil. lia.
Qed.

(** a successful push *)
Lemma push_ok s b its s' idxs :
  inv0 [] s -> step s (Push b its) = (s', RPushed idxs) ->
  exists bd news,
    lookup_b s b = Some bd
    /\ lookup_b s' b = Some (mkBody (bfds bd ++ news) (bidx bd ++ idxs))
    /\ pushed s s' (len (bfds bd)) its news idxs
    /\ frame s s'
    /\ (forall b', b' <> b -> nth_error (bods s') b' = nth_error (bods s) b').
Proof.
  intros I H. cbn [step] in H. unfold push_multi in H.
  destruct (lookup_b s b) as [bd|] eqn:Eb; [|discriminate].
  destruct (forallb (item_valid s) its); [|discriminate].
  destruct (marshal_items b its s) as [s1 ok] eqn:Em.
  destruct (marshal_items_spec b its s s s1 ok bd I (frame_refl s) Eb Em)
    as (news & idxs0 & Hb1 & F & Hoth & Hlen & Hnews & Hpush).
  rewrite Hb1 in H. destruct ok; [|discriminate]. injection H as <- <-.
  cbn [bidx]. rewrite skipn_app_length. exists bd, news. auto.
Qed.

(** the index read back through the parser is the position of the duplicate *)
Lemma pushed_read s s' its : forall pos news idxs pre,
  pushed s s' pos its news idxs -> len pre = pos -> len (pre ++ news) <= 2 ^ 32 ->
  forall j o idx, nth_error news j = Some o -> nth_error idxs j = Some idx ->
    idx = pos + N.of_nat j /\ read_unixfd (pre ++ news) idx = Some o.
Proof.
  induction its as [|it r IH]; intros pos news idxs pre Hp Hl Hb j o idx Hn Hi.
  - destruct news, idxs; cbn in Hp; try tauto. destruct j; discriminate.
  - destruct news as [|o0 news], idxs as [|i0 idxs]; cbn [pushed] in Hp; try tauto.
    destruct Hp as (_ & _ & Hi0 & Hp).
    assert (Hlt : pos < 2 ^ 32).
    { rewrite len_app, len_cons in Hb. lia. }
    destruct j as [|j]; cbn in Hn, Hi.
    + injection Hn as <-. injection Hi as <-. rewrite Hi0, N.mod_small by auto. split; [lia|].
      unfold read_unixfd. rewrite len_app, len_cons.
      destruct (N.leb_spec (len pre + (1 + len news)) pos); [lia|].
      rewrite <- Hl. unfold len. rewrite Nat2N.id. rewrite nth_error_app2, Nat.sub_diag by lia. reflexivity.
    + assert (E : pre ++ o0 :: news = (pre ++ [o0]) ++ news) by now rewrite <- app_assoc.
      rewrite E in *. destruct (IH (pos + 1) news idxs (pre ++ [o0]) Hp) with (j := j) (o := o) (idx := idx) as [A B]; auto.
      * rewrite len_app, len_cons, len_nil. lia.
      * split; [lia|exact B].
Qed.

(** ** A failed push leaves nothing behind *)

Lemma drop_obj_frame o s :
  hnd (drop_obj o s) = hnd s /\ cfds (drop_obj o s) = cfds s /\ bods (drop_obj o s) = bods s
  /\ (forall o', o' <> o -> objs (drop_obj o s) o' = objs s o')
  /\ (forall f, tab (drop_obj o s) f = tab s f \/ (tab (drop_obj o s) f = None /\ cell (objs s o) = Some f))
  /\ (cell (objs (drop_obj o s) o) = None \/ cell (objs (drop_obj o s) o) = cell (objs s o)).
Proof.
  unfold drop_obj. destruct (strong (objs s o)) as [|[|n]] eqn:Es; [| destruct (cell (objs s o)) as [f|] eqn:Ec |];
    cbn; repeat split; auto; try (intros o' Ne; now rewrite updn_neq); try (rewrite updn_eq; cbn; auto).
  intros g. destruct (N.eq_dec g f) as [->|Ne]; [right; now rewrite updN_eq|left; now rewrite updN_neq].
Qed.

Lemma drop_objs_frame l : forall s,
  hnd (drop_objs l s) = hnd s /\ cfds (drop_objs l s) = cfds s /\ bods (drop_objs l s) = bods s
  /\ (forall o', ~ In o' l -> objs (drop_objs l s) o' = objs s o')
  /\ (forall f, tab (drop_objs l s) f = tab s f
                \/ (tab (drop_objs l s) f = None /\ exists o, In o l /\ cell (objs s o) = Some f)).
Proof.
  induction l as [|o l IH]; intros s; cbn [drop_objs].
  - repeat split; auto.
  - destruct (IH (drop_obj o s)) as (A & B & C & D & E).
    destruct (drop_obj_frame o s) as (A1 & B1 & C1 & D1 & E1 & F1).
    repeat split; try congruence.
    + intros o' Hn. rewrite D by (intros X; apply Hn; now right). apply D1. intros ->. apply Hn. now left.
    + intros f. destruct (E f) as [X|[X (o' & Ho' & Hc)]].
      * destruct (E1 f) as [Y|[Y Z]]; [left; congruence|]. right. split; [congruence|]. exists o. split; [now left|auto].
      * right. split; auto. destruct (Nat.eq_dec o' o) as [->|Ne].
        -- exists o. split; [now left|]. destruct F1 as [F1|F1]; congruence.
        -- exists o'. split; [now right|]. rewrite <- D1; auto.
Qed.

Lemma nth_error_ext_local {A} (l : list A) : forall l', (forall n, nth_error l n = nth_error l' n) -> l = l'.
Proof.
  induction l as [|x l IH]; intros [|y l'] H; auto.
  - specialize (H 0%nat). discriminate.
  - specialize (H 0%nat). discriminate.
  - f_equal.
    + specialize (H 0%nat). cbn in H. congruence.
    + apply IH. intros n. apply (H (S n)).
Qed.

Lemma set_nth_restore {A} (l' : list A) : forall (l : list A) b x,
  (forall b', b' <> b -> nth_error l' b' = nth_error l b') -> length l' = length l ->
  nth_error l b = Some x -> set_nth l' b x = l.
Proof.
  induction l' as [|y l' IH]; intros [|z l] b x Ho Hl Hn; cbn in *; try discriminate; auto.
  destruct b as [|b]; cbn in *.
  - injection Hn as ->. f_equal.
    apply nth_error_ext_local. intros n. apply (Ho (S n)). discriminate.
  - f_equal.
    + specialize (Ho 0%nat). cbn in Ho. assert (Some y = Some z) by (apply Ho; discriminate). congruence.
    + apply IH; auto. intros b' Ne. apply (Ho (S b')). congruence.
Qed.

Lemma refs_eq s s' : hnd s' = hnd s -> bods s' = bods s -> refs s' = refs s.
Proof. unfold refs. now intros -> ->. Qed.

(** a failed push: the body, the caller's variables and descriptors, every object and the whole
    descriptor table are as before — every duplicate made on the way was closed again *)
Lemma push_fail s b its s' :
  inv0 [] s -> step s (Push b its) = (s', RErr) ->
  bods s' = bods s /\ hnd s' = hnd s /\ cfds s' = cfds s
  /\ (forall f, tab s' f = tab s f)
  /\ (forall o, (o < nobj s)%nat -> objs s' o = objs s o).
Proof.
  intros I H.
  pose proof (step_inv0 s (Push b its) I) as I'. rewrite H in I'. cbn [fst] in I'.
  cbn [step] in H. unfold push_multi in H.
  destruct (lookup_b s b) as [bd|] eqn:Eb; [|discriminate].
  destruct (forallb (item_valid s) its); [|discriminate].
  pose proof (inv_marshal_items b its s I) as I1.
  destruct (marshal_items b its s) as [s1 ok] eqn:Em. cbn [fst] in I1.
  destruct (marshal_items_spec b its s s s1 ok bd I (frame_refl s) Eb Em)
    as (news & idxs0 & Hb1 & F & Hoth & Hlen & Hnews & _).
  rewrite Hb1 in H. destruct ok; [discriminate|]. injection H as <-.
  cbn [bfds bidx]. rewrite !firstn_app_length, skipn_app_length.
  replace (mkBody (bfds bd) (bidx bd)) with bd by now destruct bd.
  rewrite !firstn_app_length, skipn_app_length in I'.
  replace (mkBody (bfds bd) (bidx bd)) with bd in I' by now destruct bd.
  set (s2 := set_body b (Some bd) s1) in *.
  destruct (drop_objs_frame news s2) as (A & B & C & D & E).
  destruct F as (F1 & F2 & F3 & F4 & F5 & F6).
  assert (Hbods : bods (drop_objs news s2) = bods s).
  { rewrite C. cbn. apply set_nth_restore; auto. now apply lookup_b_nth. }
  assert (Hhnd : hnd (drop_objs news s2) = hnd s) by (rewrite A; exact F1).
  assert (Hcf : cfds (drop_objs news s2) = cfds s) by (rewrite B; exact F2).
  assert (Hobj : forall o, (o < nobj s)%nat -> objs (drop_objs news s2) o = objs s o).
  { intros o L. rewrite D; [cbn; now apply F5|]. intros X. apply Hnews in X. lia. }
  repeat split; auto.
  intros f. destruct (N.lt_ge_cases f (nfd s)) as [L|L].
  - destruct (E f) as [X|[X (o & Ho & Hc)]]; [rewrite X; cbn; now apply F6|].
    rewrite X. destruct (tab s f) as [od|] eqn:Et; auto. exfalso.
    cbn in Hc. assert (Hof : tab s f <> None) by congruence.
    destruct (i_owned _ _ I f Hof) as [Y|[o0 Y]].
    + apply (i_cell _ _ I1) in Hc. destruct Hc as (_ & _ & Hc & _). apply Hc. now rewrite F2.
    + assert (L0 : (o0 < nobj s)%nat) by (eapply strong_lt; eauto; now apply (i_cell _ _ I) in Y).
      rewrite <- F5 in Y by auto. pose proof (i_cell_inj _ _ I1 _ _ _ Y Hc). subst o0. apply Hnews in Ho. lia.
  - rewrite (i_tabfresh _ _ I f L).
    destruct (tab (drop_objs news s2) f) as [od|] eqn:Et; auto. exfalso.
    assert (Hof : tab (drop_objs news s2) f <> None) by congruence.
    destruct (i_owned _ _ I' f Hof) as [Y|[o0 Y]].
    + rewrite Hcf in Y. apply (cfd_lt _ _ _ I) in Y. lia.
    + pose proof (i_cell _ _ I' _ _ Y) as (Hs & _).
      rewrite (i_count _ _ I'), cnt_nil, Nat.add_0_r in Hs.
      rewrite (refs_eq s _ Hhnd Hbods) in Hs. apply cnt_pos_in in Hs.
      pose proof (ref_lt _ _ _ I Hs) as L0. rewrite Hobj in Y by auto. apply (cell_lt _ _ _ _ I) in Y. lia.
Qed.

(** ** Reading a descriptor out of a message *)

Lemma unmarshal_spec s b bd idx s' r :
  inv0 [] s -> lookup_b s b = Some bd -> step s (Unmarshal b idx) = (s', r) ->
  (len (bfds bd) <= idx -> r = RErr /\ s' = s)
  /\ (idx < len (bfds bd) ->
      exists o, nth_error (bfds bd) (N.to_nat idx) = Some o /\ r = RHandle (length (hnd s))
                /\ lookup_h s' (length (hnd s)) = Some o
                /\ cell (objs s' o) = cell (objs s o) /\ strong (objs s' o) = S (strong (objs s o))
                /\ tab s' = tab s /\ bods s' = bods s /\ cfds s' = cfds s).
Proof.
  intros I Hb H. cbn [step] in H. rewrite Hb in H. unfold unmarshal_at, read_unixfd in H. split; intros L.
  - destruct (N.leb_spec (len (bfds bd)) idx); [|lia]. injection H as <- <-. auto.
  - destruct (N.leb_spec (len (bfds bd)) idx); [lia|].
    destruct (nth_error (bfds bd) (N.to_nat idx)) as [o|] eqn:En.
    + injection H as <- <-. exists o. repeat split; auto.
      * unfold lookup_h. cbn. rewrite nth_error_app2, Nat.sub_diag by lia. reflexivity.
      * cbn. now rewrite updn_eq.
      * cbn. now rewrite updn_eq.
    + exfalso. apply nth_error_None in En. unfold len in L. lia.
Qed.

(** ** The dynamic API decodes descriptors exactly like the typed one *)

Lemma read_all_none fds idxs i : In i idxs -> len fds <= i -> read_all fds idxs = None.
Proof.
  induction idxs as [|j r IH]; intros Hi L; [destruct Hi|]. cbn.
  destruct Hi as [->|Hi].
  - unfold read_unixfd. destruct (N.leb_spec (len fds) i); [reflexivity|lia].
  - rewrite IH by auto. now destruct (read_unixfd fds j).
Qed.

Lemma read_all_some fds idxs : (forall i, In i idxs -> i < len fds) ->
  exists os, read_all fds idxs = Some os
             /\ Forall2 (fun i o => nth_error fds (N.to_nat i) = Some o) idxs os.
Proof.
  induction idxs as [|j r IH]; intros H; cbn.
  - exists []. split; auto.
  - destruct IH as (os & E & F); [intros i Hi; apply H; now right|].
    unfold read_unixfd. destruct (N.leb_spec (len fds) j) as [L|L]; [specialize (H j (or_introl eq_refl)); lia|].
    destruct (nth_error fds (N.to_nat j)) as [o|] eqn:En.
    + rewrite E. exists (o :: os). split; auto.
    + exfalso. apply nth_error_None in En. unfold len in L. lia.
Qed.

Lemma clone_all_spec os : forall s,
  hnd (clone_all os s) = hnd s ++ map Some os /\ tab (clone_all os s) = tab s
  /\ bods (clone_all os s) = bods s /\ cfds (clone_all os s) = cfds s /\ log (clone_all os s) = log s
  /\ wire (clone_all os s) = wire s
  /\ forall x, cell (objs (clone_all os s) x) = cell (objs s x)
               /\ strong (objs (clone_all os s) x) = (strong (objs s x) + cnt x os)%nat.
Proof.
  induction os as [|o r IH]; intros s; cbn [clone_all fold_left].
  - rewrite app_nil_r. repeat split; auto; try (rewrite cnt_nil; lia).
  - change (fold_left _ r ?x) with (clone_all r x).
    destruct (IH (add_hnd o (clone_obj o s))) as (A & B & C & D & E & F & G).
    rewrite A, B, C, D, E, F. cbn [add_hnd clone_obj set_hnd set_objs hnd tab bods cfds log wire map].
    rewrite <- app_assoc. repeat split; auto; destruct (G x) as [G1 G2]; cbn [add_hnd clone_obj set_hnd set_objs objs] in G1, G2.
    + rewrite G1. destruct (Nat.eq_dec x o) as [->|Ne]; [now rewrite updn_eq|now rewrite updn_neq].
    + rewrite G2. destruct (Nat.eq_dec x o) as [->|Ne].
      * rewrite updn_eq, cnt_cons_eq. cbn. lia.
      * rewrite updn_neq, cnt_cons_neq by congruence. reflexivity.
Qed.

(** what a successful dynamic decode of the stored indices [idxs] leaves: one new variable per
    index, on the object at that index; no descriptor is created, closed or changed *)
Definition decoded (s s' : st) (bd : body) (idxs : list N) (r : res) : Prop :=
  exists os, r = RHandles (seq (length (hnd s)) (length os))
    /\ Forall2 (fun i o => nth_error (bfds bd) (N.to_nat i) = Some o) idxs os
    /\ hnd s' = hnd s ++ map Some os /\ tab s' = tab s /\ bods s' = bods s /\ cfds s' = cfds s
    /\ closes s' = closes s
    /\ forall x, cell (objs s' x) = cell (objs s x)
                 /\ strong (objs s' x) = (strong (objs s x) + cnt x os)%nat.

Lemma decode_at_spec s bd idxs s' r :
  decode_at bd idxs s = (s', r) ->
  ((exists i, In i idxs /\ len (bfds bd) <= i) -> r = RErr /\ s' = s)
  /\ ((forall i, In i idxs -> i < len (bfds bd)) -> decoded s s' bd idxs r).
Proof.
  unfold decode_at. intros H. split.
  - intros (i & Hi & L). rewrite (read_all_none _ _ i Hi L) in H. injection H as <- <-. auto.
  - intros Hall. destruct (read_all_some _ _ Hall) as (os & E & F). rewrite E in H. injection H as <- <-.
    destruct (clone_all_spec os s) as (A & B & C & D & G & _ & K).
    exists os. unfold closes. rewrite G. repeat split; auto; apply K.
Qed.

Lemma decode_spec s b bd k s' r :
  lookup_b s b = Some bd -> (k <= length (bidx bd))%nat -> step s (Decode b k) = (s', r) ->
  ((exists i, In i (firstn k (bidx bd)) /\ len (bfds bd) <= i) -> r = RErr /\ s' = s)
  /\ ((forall i, In i (firstn k (bidx bd)) -> i < len (bfds bd)) -> decoded s s' bd (firstn k (bidx bd)) r).
Proof.
  intros Hb Hk H. cbn [step] in H. rewrite Hb in H.
  destruct (Nat.leb_spec k (length (bidx bd))); [|lia]. now apply decode_at_spec.
Qed.

Lemma decode_owned_spec s b bd s' r :
  lookup_b s b = Some bd -> step s (DecodeOwned b) = (s', r) ->
  ((exists i, In i (bidx bd) /\ len (bfds bd) <= i) -> r = RErr /\ s' = fst (step s (DropBody b)))
  /\ ((forall i, In i (bidx bd) -> i < len (bfds bd)) -> decoded s s' bd (bidx bd) r).
Proof.
  intros Hb H. cbn [step] in H. rewrite Hb in H. split.
  - intros (i & Hi & L). rewrite (read_all_none _ _ i Hi L) in H. injection H as <- <-.
    cbn [step]. rewrite Hb. auto.
  - intros Hall. destruct (read_all_some _ _ Hall) as (os & E & _). rewrite E in H.
    destruct (decode_at_spec s bd (bidx bd) s' r H) as [_ X]. auto.
Qed.

(** ** Sending and receiving *)

Lemma len_filter_some_all {A} (l : list (option A)) : (forall x, In x l -> x <> None) -> len (filter_some l) = len l.
Proof.
  induction l as [|[x|] l IH]; intros H; cbn [filter_some]; auto.
  - rewrite !len_cons, IH; auto. intros y Hy. apply H. now right.
  - exfalso. apply (H None); cbn; auto.
Qed.

Lemma in_get_raw_fds s bd f : In f (get_raw_fds s bd) -> exists o, In o (bfds bd) /\ cell (objs s o) = Some f.
Proof.
  unfold get_raw_fds. rewrite in_filter_some, in_map_iff. intros (o & E & Ho). eauto.
Qed.

Lemma len_filter_some_le {A} (l : list (option A)) : len (filter_some l) <= len l.
Proof.
  induction l as [|[x|] l IH]; cbn [filter_some]; rewrite ?len_cons; try lia. rewrite len_nil. lia.
Qed.
Lemma filter_some_full {A} (l : list (option A)) : len (filter_some l) = len l -> l = map Some (filter_some l).
Proof.
  induction l as [|[x|] l IH]; cbn [filter_some map]; intros H; auto.
  - rewrite !len_cons in H. f_equal. apply IH. lia.
  - pose proof (len_filter_some_le l). rewrite len_cons in H. lia.
Qed.
Lemma filter_some_short {A} (l : list (option A)) : In None l -> len (filter_some l) <> len l.
Proof.
  induction l as [|[x|] l IH]; cbn [filter_some]; intros H; [destruct H| |].
  - destruct H as [H|H]; [discriminate|]. rewrite !len_cons. specialize (IH H). lia.
  - pose proof (len_filter_some_le l). rewrite len_cons. lia.
Qed.

(** Sending: a body one of whose handles was taken is refused and nothing changes; a message that
    is sent carries ALL the body's descriptors, in order, and UNIX_FDS is their number *)
Lemma send_spec s b bd s' r :
  inv0 [] s -> lookup_b s b = Some bd -> step s (Send b) = (s', r) ->
  ((exists o, In o (bfds bd) /\ cell (objs s o) = None) -> r = RErr /\ s' = s)
  /\ (forall hdr n, r = RSent hdr n ->
        map (fun o => cell (objs s o)) (bfds bd) = map Some (get_raw_fds s bd)
        /\ hdr = len (bfds bd) /\ n = hdr /\ n <= SCM_MAX_FD
        /\ wire s' = wire s ++ [(ofds_of s (get_raw_fds s bd), bidx bd)]
        /\ map Some (ofds_of s (get_raw_fds s bd)) = map (tab s) (get_raw_fds s bd)
        /\ len (ofds_of s (get_raw_fds s bd)) = n
        /\ tab s' = tab s /\ objs s' = objs s /\ hnd s' = hnd s /\ cfds s' = cfds s /\ bods s' = bods s
        /\ closes s' = closes s)
  /\ (r = RErr \/ exists hdr n, r = RSent hdr n).
Proof.
  intros I Hb H. cbn [step] in H. rewrite Hb in H. unfold get_raw_fds in *.
  set (cells := map (fun o => cell (objs s o)) (bfds bd)) in *.
  assert (Hlc : len cells = len (bfds bd)) by (unfold cells; apply len_map).
  destruct (N.eqb_spec (len (filter_some cells)) (len (bfds bd))) as [E|E]; cbn [negb] in H.
  2:{ injection H as <- <-. repeat split; auto; discriminate. }
  destruct (N.ltb_spec SCM_MAX_FD (len (filter_some cells))) as [L|L].
  { injection H as <- <-. split; [|split; [discriminate|auto]].
    intros (o & Ho & Hc). exfalso. apply (filter_some_short cells); [|congruence].
    unfold cells. apply in_map_iff. exists o. auto. }
  injection H as <- <-. split; [|split; [|right; eauto]].
  - intros (o & Ho & Hc). exfalso. apply (filter_some_short cells); [|congruence].
    unfold cells. apply in_map_iff. exists o. auto.
  - intros hdr n [= <- <-].
    assert (Hfull : cells = map Some (filter_some cells)) by (apply filter_some_full; congruence).
    assert (Hopen : forall f, In f (filter_some cells) -> tab s f <> None).
    { intros f Hf. apply in_filter_some in Hf. unfold cells in Hf. apply in_map_iff in Hf.
      destruct Hf as (o & Hc & _). now apply (i_cell _ _ I) in Hc. }
    assert (Hof : map (tab s) (filter_some cells) = map Some (ofds_of s (filter_some cells))).
    { unfold ofds_of. apply filter_some_full. rewrite len_filter_some_all, len_map; auto.
      intros x Hx. apply in_map_iff in Hx. destruct Hx as (f & <- & Hf). auto. }
    repeat split; auto; try congruence.
    apply (f_equal len) in Hof. rewrite !len_map in Hof. congruence.
Qed.

Lemma recv_fds_objs ofds s :
  map (objs (recv_fds ofds s)) (seq (nobj s) (length ofds))
  = map (fun i => mkObj (Some (nfd s + N.of_nat i)) 1) (seq 0 (length ofds)).
Proof.
  revert s. induction ofds as [|o r IH]; intros s; cbn [recv_fds fold_left length seq map]; auto.
  change (fold_left _ r ?x) with (recv_fds r x).
  set (s1 := lib_new_fd (fun f => EvRecvFd f o) o s).
  destruct (recv_fds_frame r s1) as (_ & _ & C & D).
  pose proof (IH s1) as E1. cbn [s1 lib_new_fd nobj nfd] in E1.
  f_equal.
  - rewrite C by (cbn; lia). cbn. rewrite updn_eq. f_equal. f_equal. lia.
  - fold s1. rewrite E1. rewrite <- seq_shift, map_map. apply map_ext. intros i. f_equal. f_equal. lia.
Qed.

Lemma map_seq_eq {A} (f g : nat -> A) n : forall a b,
  map f (seq a n) = map g (seq b n) -> forall i, (i < n)%nat -> f (a + i)%nat = g (b + i)%nat.
Proof.
  induction n as [|n IH]; intros a b H i L; [lia|]. cbn in H. injection H as H0 H.
  destruct i as [|i]; [now rewrite !Nat.add_0_r|].
  replace (a + S i)%nat with (S a + i)%nat by lia. replace (b + S i)%nat with (S b + i)%nat by lia.
  apply IH; auto. lia.
Qed.

Lemma recv_fds_obj_at ofds s o :
  (nobj s <= o < nobj s + length ofds)%nat ->
  objs (recv_fds ofds s) o = mkObj (Some (nfd s + N.of_nat (o - nobj s))) 1.
Proof.
  intros L. pose proof (map_seq_eq _ _ _ _ _ (recv_fds_objs ofds s) (o - nobj s)%nat) as E.
  cbn beta in E. replace (nobj s + (o - nobj s))%nat with o in E by lia. apply E. lia.
Qed.

Lemma recv_fds_same l : forall s0,
  hnd (recv_fds l s0) = hnd s0 /\ cfds (recv_fds l s0) = cfds s0 /\ wire (recv_fds l s0) = wire s0
  /\ bods (recv_fds l s0) = bods s0.
Proof.
  induction l as [|a l IH]; intros s0; cbn [recv_fds fold_left]; auto.
  change (fold_left _ l ?x) with (recv_fds l x).
  destruct (IH (lib_new_fd (fun f => EvRecvFd f a) a s0)) as (A & B & C & D). rewrite A, B, C, D. auto.
Qed.

Lemma recv_spec s s' b ofds idxs w :
  inv0 [] s -> wire s = (ofds, idxs) :: w -> step s Recv = (s', RBody b) ->
  lookup_b s b = None
  /\ exists bd, lookup_b s' b = Some bd /\ bidx bd = idxs /\ wire s' = w
       /\ ofds_of s' (get_raw_fds s' bd) = ofds
       /\ length (bfds bd) = length ofds
       /\ NoDup (bfds bd)
       /\ (forall o, In o (bfds bd) ->
             live_handles s' o = 1%nat /\ (nobj s <= o)%nat
             /\ exists f, cell (objs s' o) = Some f /\ nfd s <= f /\ tab s f = None)
       /\ (forall o, (o < nobj s)%nat -> objs s' o = objs s o)
       /\ (forall f, f < nfd s -> tab s' f = tab s f)
       /\ hnd s' = hnd s /\ cfds s' = cfds s
       /\ (forall b', (b' < length (bods s))%nat -> nth_error (bods s') b' = nth_error (bods s) b').
Proof.
  intros I Hw H.
  pose proof (step_inv0 s Recv I) as I'. rewrite H in I'. cbn [fst] in I'.
  cbn [step] in H. rewrite Hw in H. injection H as <- <-.
  split.
  { unfold lookup_b. replace (nth_error (bods s) (length (bods s))) with (@None (option body)); auto.
    symmetry. apply nth_error_None. lia. }
  set (s1 := recv_fds ofds (set_wire w s)) in *.
  set (bd := mkBody (seq (nobj s) (length ofds)) idxs) in *.
  destruct (recv_fds_same ofds (set_wire w s)) as (Ehnd & Ecf & Ewire & Ebods). fold s1 in Ehnd, Ecf, Ewire, Ebods.
  cbn [set_wire hnd cfds wire bods] in Ehnd, Ecf, Ewire, Ebods.
  destruct (recv_fds_frame ofds (set_wire w s)) as (_ & _ & Fo & Ft). fold s1 in Fo, Ft. cbn [set_wire nobj nfd objs tab] in Fo, Ft.
  exists bd. repeat split; auto.
  - unfold lookup_b. cbn. rewrite Ebods, nth_error_app2, Nat.sub_diag by lia. reflexivity.
  - apply (recv_same_files ofds idxs (set_wire w s)).
  - cbn. now rewrite seq_length.
  - cbn. apply seq_NoDup.
  - (* exactly one handle, the one in this message *)
    cbn [bd bfds] in H. apply in_seq in H. destruct H as [L1 L2].
    pose proof (recv_fds_obj_at ofds (set_wire w s) o) as Ho. fold s1 in Ho. cbn [set_wire nobj nfd] in Ho.
    specialize (Ho ltac:(lia)).
    unfold live_handles. pose proof (i_count _ _ I' o) as Hc.
    match type of Hc with strong ?X = _ => change X with (objs s1 o) in Hc end.
    rewrite Ho, cnt_nil in Hc. cbn [strong] in Hc. lia.
  - cbn [bd bfds] in H. apply in_seq in H. lia.
  - cbn [bd bfds] in H. apply in_seq in H. destruct H as [L1 L2].
    pose proof (recv_fds_obj_at ofds (set_wire w s) o) as En. fold s1 in En. cbn [set_wire nobj nfd] in En.
    specialize (En ltac:(lia)).
    exists (nfd s + N.of_nat (o - nobj s)). cbn. rewrite En. cbn. repeat split; auto; [lia|].
    apply (i_tabfresh _ _ I). lia.
  - intros b' L. cbn. rewrite Ebods. now rewrite nth_error_app1.
Qed.

(** ** The clauses of C11 that hold in every state of every history *)

Lemma held_iff p s f : inv0 p s -> p = [] -> (held s f <-> exists o, cell (objs s o) = Some f).
Proof.
  intros I ->. unfold held, live_handles. split; intros [o H]; exists o; [tauto|].
  split; auto. pose proof (i_cell _ _ I _ _ H) as (Hs & _).
  rewrite (i_count _ _ I), cnt_nil in Hs. lia.
Qed.

Lemma nth_error_prefix {A} (a b : list A) k x : nth_error a k = Some x -> nth_error (a ++ b) k = Some x.
Proof. intros H. rewrite nth_error_app1; auto. apply nth_error_Some. congruence. Qed.

Lemma c11_state ops :
  let s := run ops init in
  (* the caller's descriptors: open, the file they were opened for, never closed by the library *)
  (forall f, In f (caller_fds s) -> tab s f <> None /\ ~ In f (closes s) /\ ~ held s f)
  /\ (forall f o, In (EvOpen f o) (log s) -> In f (caller_fds s) -> tab s f = Some o)
  (* a descriptor with a live handle is open and has not been closed *)
  /\ (forall f, held s f -> tab s f <> None /\ ~ In f (closes s) /\ In f (lib_owned s))
  (* never a double close, never a close of something the library does not own *)
  /\ NoDup (closes s)
  /\ (forall f, In f (closes s) -> In f (lib_owned s) /\ tab s f = None)
  (* no leak *)
  /\ (forall f, In f (lib_owned s) -> In f (taken s) \/ held s f \/ In f (closes s))
  /\ (forall f, tab s f <> None -> In f (caller_fds s) \/ held s f)
  /\ (forall o, strong (objs s o) = live_handles s o)
  /\ (forall o, live_handles s o = 0%nat -> cell (objs s o) = None)
  /\ (forall o o' f, cell (objs s o) = Some f -> cell (objs s o') = Some f -> o = o')
  (* at the end of a history that dropped every handle *)
  /\ (all_dropped s -> forall f, In f (lib_owned s) -> ~ In f (taken s) ->
        count_occ N.eq_dec (closes s) f = 1%nat /\ tab s f = None)
  (* messages arrive in order, each with the files that were attached to it *)
  /\ (forall k l, nth_error (recv_msgs s) k = Some l -> nth_error (sent_msgs s) k = Some l)
  /\ (length (sent_msgs s) = length (recv_msgs s) + length (wire s))%nat.
Proof.
  cbn zeta. pose proof (run_inv0 ops) as I. pose proof (run_wire_ok ops) as W.
  set (s := run ops init) in *.
  pose proof (fun f => held_iff [] s f I eq_refl) as Hh.
  repeat split.
  - apply (i_callerhist _ _ I) in H. now apply (i_cfds _ _ I) in H.
  - apply (i_callerhist _ _ I) in H. now apply (i_cfds _ _ I) in H.
  - rewrite Hh. intros [o Ho]. apply (i_callerhist _ _ I) in H. apply (i_cell _ _ I) in Ho. tauto.
  - intros f o Ho Hc. apply (i_callerhist _ _ I) in Hc. apply (i_cfds _ _ I) in Hc.
    destruct (i_born _ _ I f o (or_introl Ho)) as [_ [X|X]]; tauto.
  - apply Hh in H. destruct H as [o Ho]. now apply (i_cell _ _ I) in Ho.
  - apply Hh in H. destruct H as [o Ho]. now apply (i_cell _ _ I) in Ho.
  - apply Hh in H. destruct H as [o Ho]. now apply (i_cell _ _ I) in Ho.
  - apply (i_closes_nodup _ _ I).
  - now apply (i_closes _ _ I) in H.
  - now apply (i_closes _ _ I) in H.
  - intros f Hf. rewrite Hh. destruct (i_leak _ _ I f Hf) as [X|[X|X]]; auto.
  - intros f Hf. rewrite Hh. destruct (i_owned _ _ I f Hf) as [X|X]; auto. left. now apply (i_callerhist _ _ I).
  - intros o. rewrite (i_count _ _ I), cnt_nil. unfold live_handles. lia.
  - intros o Hz. destruct (cell (objs s o)) as [f|] eqn:Ec; auto.
    pose proof (i_cell _ _ I _ _ Ec) as (Hs & _). rewrite (i_count _ _ I), cnt_nil in Hs. unfold live_handles in Hz. lia.
  - apply (i_cell_inj _ _ I).
  - destruct (i_leak _ _ I f H0) as [X|[X|[o X]]]; try tauto.
    + apply NoDup_count_occ'; auto. apply (i_closes_nodup _ _ I).
    + exfalso. pose proof (i_cell _ _ I _ _ X) as (Hs & _). rewrite (i_count _ _ I), cnt_nil in Hs.
      unfold all_dropped in H. rewrite H, cnt_nil in Hs. lia.
  - destruct (i_leak _ _ I f H0) as [X|[X|[o X]]]; try tauto.
    + now apply (i_closes _ _ I) in X.
    + exfalso. pose proof (i_cell _ _ I _ _ X) as (Hs & _). rewrite (i_count _ _ I), cnt_nil in Hs.
      unfold all_dropped in H. rewrite H, cnt_nil in Hs. lia.
  - intros k l Hk. unfold wire_ok in W. rewrite W. now apply nth_error_prefix.
  - unfold wire_ok in W. rewrite W, app_length, map_length. reflexivity.
Qed.
