(** C12 — small-step interleaving model of rustbus/src/wire/wrapper_types/unixfd.rs
    (UnixFd, UnixFdInner, take_raw_fd, get_raw_fd, dup, Clone, Drop).

    One [step] = one atomic action of the real code: an atomic load, a compare_exchange, an
    [Arc] strong-count increment or decrement, a [dup] system call, a [close] system call.
    These are exactly the places where unixfd.rs has a [verif_hooks::point] (feature
    [verif_hooks]); the harness (harness/src/bin/c12.rs) releases one thread from one point to
    the next per schedule entry, so a schedule entry of the harness is a [step] of this model.

    What is modelled, not verified (DESIGN.md section 4): [std::sync::Arc] (clone = atomic
    increment, drop = atomic decrement, the destructor of the shared value runs exactly once, in
    the thread whose decrement brought the count to 0) and SeqCst atomics as interleaving
    semantics (no weak-memory effects: the code uses SeqCst only). *)
From RB Require Import Base.Prelude.

Local Close Scope N_scope.
Local Open Scope nat_scope.

(** [UnixFdInner::FD_INVALID] (unixfd.rs, [const FD_INVALID: RawFd = -1]) *)
Definition FD_INVALID : Z := (-1)%Z.

(** ** Programs *)

(** One call of the public API on a handle (a [UnixFd] value, i.e. one clone of the [Arc]).
    Handles are named by thread-local numbers: every thread starts owning handle 0; [Clone h]
    creates the next unused number. *)
Inductive op :=
| Take (h : nat)     (* h.take_raw_fd()   — consumes h *)
| Get (h : nat)      (* h.get_raw_fd() *)
| Dup (h : nat)      (* h.dup() *)
| Clone (h : nat)    (* let h' = h.clone() *)
| Drop (h : nat).    (* drop(h) *)

(** What a call returned to its caller. *)
Inductive res :=
| RTake (r : option Z)     (* take_raw_fd: Some fd / None *)
| RGet (r : option Z)      (* get_raw_fd: Some fd / None *)
| RDup (r : option Z)      (* dup: Ok(handle over the new descriptor) / Err(AlreadyTaken) *)
| RClone
| RDrop
| RInvalid.                (* the operation named a handle the thread does not own (excluded by
                              [ownership_respected]; Rust's borrow checker rejects such programs);
                              it is skipped *)

(** Where a thread stands inside a call: the atomic action it performs when scheduled next. *)
Inductive pcs :=
| Idle                            (* at the first action of the next operation of its program *)
| TakeCas (h : nat) (v : Z)       (* UnixFdInner::take: loaded v <> -1, next: compare_exchange(v, -1) *)
| TakeDec (h : nat) (r : option Z)(* take_raw_fd: result r computed, next: `self` goes out of scope = Arc decrement *)
| DupSys (v : Z)                  (* UnixFdInner::dup: get() returned Some v, next: nix::unistd::dup(v) *)
| DtorLoad (k : res)              (* Drop for UnixFdInner -> self.take(): next: load; k = what the interrupted call returns *)
| DtorCas (v : Z) (k : res)       (* Drop for UnixFdInner -> self.take(): next: compare_exchange(v, -1) *)
| DtorClose (v : Z) (k : res).    (* Drop for UnixFdInner: take() returned Some v, next: nix::unistd::close(v) *)

(** Ghost trace (newest event first in [log]). [EvDupSys] and [EvClose] are the system calls the
    harness observes; [EvRet] are the return values it observes; the others mark atomic steps
    the theorems talk about. *)
Inductive event :=
| EvStart (t i : nat)              (* thread t performed the first atomic action of its i-th operation *)
| EvTakeCas (t : nat) (v : Z)      (* successful compare_exchange inside take_raw_fd: THE take *)
| EvDtorCas (t : nat) (v : Z)      (* successful compare_exchange inside Drop for UnixFdInner *)
| EvDecZero (t : nat)              (* an Arc decrement that brought the strong count to 0 *)
| EvDupSys (t : nat) (src new : Z) (* dup(src) = new *)
| EvClose (t : nat) (fd : Z)       (* close(fd) *)
| EvRet (t i : nat) (r : res).     (* the i-th operation of thread t returned r *)

Record thread := mkThread {
  prog : list op;        (* operations not yet finished; the head is the one in progress when pc <> Idle *)
  done : nat;            (* number of finished operations = index of the current one *)
  pc : pcs;
  live : list nat;       (* handles this thread owns *)
  nexth : nat            (* next unused handle number *)
}.

Record shared := mkShared {
  cell : Z;              (* UnixFdInner.inner : AtomicI32 — the descriptor or -1 *)
  strong : nat;          (* the Arc's strong count *)
  next_fd : Z;           (* simulated descriptor table: the number the next dup returns *)
  log : list event       (* ghost trace, newest first *)
}.

Record cfg := mkCfg { sh : shared; threads : list thread }.

(** ** Helpers *)

Definition has (h : nat) (l : list nat) : bool := existsb (Nat.eqb h) l.

Fixpoint rm1 (h : nat) (l : list nat) : list nat :=
  match l with
  | [] => []
  | x :: r => if Nat.eqb h x then r else x :: rm1 h r
  end.

Fixpoint upd {A} (n : nat) (x : A) (l : list A) : list A :=
  match l, n with
  | [], _ => []
  | _ :: r, O => x :: r
  | y :: r, S n' => y :: upd n' x r
  end.

Definition set_pc (th : thread) (p : pcs) : thread :=
  mkThread (prog th) (done th) p (live th) (nexth th).
Definition set_live (th : thread) (l : list nat) : thread :=
  mkThread (prog th) (done th) (pc th) l (nexth th).
Definition emit (e : event) (s : shared) : shared :=
  mkShared (cell s) (strong s) (next_fd s) (e :: log s).
Definition set_cell (s : shared) (v : Z) : shared :=
  mkShared v (strong s) (next_fd s) (log s).
Definition set_strong (s : shared) (n : nat) : shared :=
  mkShared (cell s) n (next_fd s) (log s).
Definition set_next (s : shared) (v : Z) : shared :=
  mkShared (cell s) (strong s) v (log s).

(** the current operation returns [r] to the caller; the thread moves to its next operation *)
Definition retire (t : nat) (th : thread) (r : res) (s : shared) : thread * shared :=
  (mkThread (tl (prog th)) (S (done th)) Idle (live th) (nexth th),
   emit (EvRet t (done th) r) s).

(** A [UnixFd] value goes away: [Arc::drop] = one atomic decrement (the point "handle.drop" in
    the cfg-only [impl Drop for UnixFd]); if the count was 1 the destructor of [UnixFdInner]
    runs in this thread (its steps follow), otherwise the call returns [k]. *)
Definition dec_strong (t : nat) (th : thread) (h : nat) (k : res) (s : shared) : thread * shared :=
  let th1 := set_live th (rm1 h (live th)) in
  let s1 := set_strong s (pred (strong s)) in
  if Nat.eqb (strong s) 1
  then (set_pc th1 (DtorLoad k), emit (EvDecZero t) s1)
  else retire t th1 k s1.

(** [UnixFdInner::get] / the first half of [UnixFdInner::take]:
    [let loaded = self.inner.load(SeqCst); if loaded == FD_INVALID { None } else { Some(loaded) }] *)
Definition load_opt (s : shared) : option Z :=
  if Z.eqb (cell s) FD_INVALID then None else Some (cell s).

(** ** One atomic action of thread [t] *)
Definition step_thread (t : nat) (th : thread) (s : shared) : thread * shared :=
  match pc th with
  | Idle =>
    match prog th with
    | [] => (th, s)                                   (* finished *)
    | o :: _ =>
      let s0 := emit (EvStart t (done th)) s in
      match o with
      | Get h =>
        (* UnixFd::get_raw_fd -> UnixFdInner::get: point "get.load"; self.inner.load(SeqCst) *)
        if has h (live th) then retire t th (RGet (load_opt s)) s0
        else retire t th RInvalid s0
      | Take h =>
        (* UnixFd::take_raw_fd -> UnixFdInner::take: point "take.load"; self.inner.load(SeqCst);
           if loaded_fd == FD_INVALID { None } else { ...compare_exchange... } *)
        if has h (live th) then
          match load_opt s with
          | None => (set_pc th (TakeDec h None), s0)
          | Some v => (set_pc th (TakeCas h v), s0)
          end
        else retire t th RInvalid s0
      | Dup h =>
        (* UnixFd::dup -> UnixFdInner::dup: match self.get() { Some(fd) => fd, None => return Err(AlreadyTaken) }
           (point "get.load"; load) *)
        if has h (live th) then
          match load_opt s with
          | None => retire t th (RDup None) s0
          | Some v => (set_pc th (DupSys v), s0)
          end
        else retire t th RInvalid s0
      | Clone h =>
        (* #[derive(Clone)] on UnixFd(Arc<UnixFdInner>): Arc::clone = one atomic increment
           (the harness puts its own point in front of the call) *)
        if has h (live th) then
          retire t (mkThread (prog th) (done th) (pc th) (nexth th :: live th) (S (nexth th))) RClone
                 (set_strong s0 (S (strong s0)))
        else retire t th RInvalid s0
      | Drop h =>
        (* drop(handle): point "handle.drop"; Arc decrement *)
        if has h (live th) then dec_strong t th h RDrop s0
        else retire t th RInvalid s0
      end
    end
  | TakeCas h v =>
    (* UnixFdInner::take: point "take.cas"; self.inner.compare_exchange(loaded_fd, FD_INVALID, SeqCst, SeqCst);
       Ok(taken_fd) => Some(taken_fd), Err(_) => None *)
    if Z.eqb (cell s) v
    then (set_pc th (TakeDec h (Some v)), emit (EvTakeCas t v) (set_cell s FD_INVALID))
    else (set_pc th (TakeDec h None), s)
  | TakeDec h r =>
    (* end of UnixFd::take_raw_fd(self): `self` is dropped: point "handle.drop"; Arc decrement *)
    dec_strong t th h (RTake r) s
  | DupSys v =>
    (* UnixFdInner::dup: point "dup.syscall"; nix::unistd::dup(fd); Ok(new_fd) => Ok(Self{inner: AtomicI32::new(new_fd)})
       (the simulated table never fails and hands out fresh numbers) *)
    retire t th (RDup (Some (next_fd s)))
           (emit (EvDupSys t v (next_fd s)) (set_next s (next_fd s + 1)%Z))
  | DtorLoad k =>
    (* Drop for UnixFdInner: if let Some(fd) = self.take() {...}: point "take.load"; load *)
    match load_opt s with
    | None => retire t th k s
    | Some v => (set_pc th (DtorCas v k), s)
    end
  | DtorCas v k =>
    (* Drop for UnixFdInner -> self.take(): point "take.cas"; compare_exchange *)
    if Z.eqb (cell s) v
    then (set_pc th (DtorClose v k), emit (EvDtorCas t v) (set_cell s FD_INVALID))
    else retire t th k s
  | DtorClose v k =>
    (* Drop for UnixFdInner: point "drop.close"; nix::unistd::close(fd).ok() *)
    retire t th k (emit (EvClose t v) s)
  end.

(** Schedule entry [t]: thread [t] performs its next atomic action. An entry naming no thread,
    or a finished thread, changes nothing. *)
Definition step (t : nat) (c : cfg) : cfg :=
  match nth_error (threads c) t with
  | None => c
  | Some th => let '(th', s') := step_thread t th (sh c) in mkCfg s' (upd t th' (threads c))
  end.

Fixpoint exec (sched : list nat) (c : cfg) : cfg :=
  match sched with
  | [] => c
  | t :: r => exec r (step t c)
  end.

(** Initial configuration: [UnixFd::new(fd0)] cloned once per thread (strong count = number of
    threads), every thread owns its clone as handle 0; descriptors handed out by the simulated
    [dup] start at fd0 + 1. *)
Definition init_thread (p : list op) : thread := mkThread p 0 Idle [0] 1.
Definition init (fd0 : Z) (progs : list (list op)) : cfg :=
  mkCfg (mkShared fd0 (length progs) (fd0 + 1)%Z []) (map init_thread progs).

(** ** Ownership: what Rust's borrow checker guarantees about a thread's program *)
Fixpoint own_ok (p : list op) (lv : list nat) (nx : nat) : bool :=
  match p with
  | [] => true
  | Take h :: r | Drop h :: r => has h lv && own_ok r (rm1 h lv) nx
  | Get h :: r | Dup h :: r => has h lv && own_ok r lv nx
  | Clone h :: r => has h lv && own_ok r (nx :: lv) (S nx)
  end.
Definition ownership_respected (progs : list (list op)) : bool :=
  forallb (fun p => own_ok p [0] 1) progs.

(** ** Run-to-completion phase (after the schedule is exhausted the harness lets thread 0 run
    until it is finished, then thread 1, ...). An operation takes at most 6 atomic actions
    (take: load, cas, decrement, destructor load, destructor cas, close). *)
Definition steps_bound (th : thread) : nat := 6 * S (length (prog th)).
Fixpoint completion_from (t : nat) (ths : list thread) : list nat :=
  match ths with
  | [] => []
  | th :: r => repeat t (steps_bound th) ++ completion_from (S t) r
  end.
Definition completion (c : cfg) : list nat := completion_from 0 (threads c).
(** the harness's semantics of one input line *)
Definition run (sched : list nat) (c : cfg) : cfg :=
  let c1 := exec sched c in exec (completion c1) c1.

(** ** Observables *)
Definition trace (c : cfg) : list event := rev (log (sh c)).   (* oldest first *)

Definition is_syscall (e : event) : bool :=
  match e with EvDupSys _ _ _ | EvClose _ _ => true | _ => false end.
(** the global ordered sequence of dup/close calls *)
Definition syscalls (c : cfg) : list event := filter is_syscall (trace c).
(** return values of thread t, in program order *)
Definition results_of (t : nat) (c : cfg) : list res :=
  flat_map (fun e => match e with EvRet t' _ r => if Nat.eqb t t' then [r] else [] | _ => [] end) (trace c).
Definition finished (th : thread) : bool :=
  match pc th, prog th with Idle, [] => true | _, _ => false end.
Definition all_finished (c : cfg) : bool := forallb finished (threads c).

(** descriptors open in the simulated table: fd0, plus dup results, minus closed ones *)
Fixpoint remove_z (x : Z) (l : list Z) : list Z :=
  match l with [] => [] | y :: r => if Z.eqb x y then r else y :: remove_z x r end.
Definition open_fds (fd0 : Z) (c : cfg) : list Z :=
  fold_left (fun acc e => match e with
                          | EvDupSys _ _ n => acc ++ [n]
                          | EvClose _ fd => remove_z fd acc
                          | _ => acc
                          end) (trace c) [fd0].

(** The scheduling point a thread is blocked at = the [verif_hooks::point] name in unixfd.rs in
    front of the atomic action it performs next ("clone.inc" is supplied by the harness: a
    derived Clone cannot carry a point). *)
Inductive point := PGetLoad | PTakeLoad | PTakeCas | PHandleDrop | PDupSys | PCloneInc | PDropClose.
Definition next_point (th : thread) : option point :=
  match pc th with
  | Idle => match prog th with
            | [] => None
            | Get _ :: _ | Dup _ :: _ => Some PGetLoad      (* UnixFdInner::get: "get.load" *)
            | Take _ :: _ => Some PTakeLoad                 (* UnixFdInner::take: "take.load" *)
            | Clone _ :: _ => Some PCloneInc
            | Drop _ :: _ => Some PHandleDrop               (* Drop for UnixFd (cfg only): "handle.drop" *)
            end
  | TakeCas _ _ => Some PTakeCas                            (* "take.cas" *)
  | TakeDec _ _ => Some PHandleDrop
  | DupSys _ => Some PDupSys                                (* "dup.syscall" *)
  | DtorLoad _ => Some PTakeLoad
  | DtorCas _ _ => Some PTakeCas
  | DtorClose _ _ => Some PDropClose                        (* "drop.close" *)
  end.
(** (thread, operation index, point) of every effective schedule entry, in order *)
Fixpoint exec_points (sched : list nat) (c : cfg) : list (nat * nat * point) :=
  match sched with
  | [] => []
  | t :: r =>
    match nth_error (threads c) t with
    | Some th => match next_point th with Some p => [(t, done th, p)] | None => [] end
    | None => []
    end ++ exec_points r (step t c)
  end.

(** what the harness prints for one input line: per-thread return values, the ordered dup/close
    calls, the open descriptors at the end, the points passed *)
Definition observe (fd0 : Z) (progs : list (list op)) (sched : list nat)
  : list (list res) * list event * list Z * list (nat * nat * point) :=
  let c0 := init fd0 progs in
  let c := run sched c0 in
  (map (fun t => results_of t c) (seq 0 (length progs)), syscalls c, open_fds fd0 c,
   exec_points (sched ++ completion (exec sched c0)) c0).

(** the same as a flat list of numbers (used to compare the extracted OCaml model with
    [vm_compute] inside Coq) *)
Definition enc_opt (o : option Z) : Z := match o with Some v => v | None => (-1)%Z end.
Definition enc_res (r : res) : list Z :=
  match r with
  | RTake o => [1; enc_opt o] | RGet o => [2; enc_opt o] | RDup o => [3; enc_opt o]
  | RClone => [4; 0] | RDrop => [5; 0] | RInvalid => [6; 0]
  end%Z.
Definition enc_ev (e : event) : list Z :=
  match e with
  | EvDupSys t s n => [7%Z; Z.of_nat t; s; n]
  | EvClose t fd => [8%Z; Z.of_nat t; fd]
  | _ => []
  end.
Definition enc_point (p : point) : Z :=
  match p with
  | PGetLoad => 1 | PTakeLoad => 2 | PTakeCas => 3 | PHandleDrop => 4 | PDupSys => 5 | PCloneInc => 6 | PDropClose => 7
  end%Z.
Definition encode (o : list (list res) * list event * list Z * list (nat * nat * point)) : list Z :=
  let '(rs, sys, opn, pts) := o in
  flat_map (fun l => flat_map enc_res l ++ [(-9)%Z]) rs ++ [(-8)%Z] ++ flat_map enc_ev sys ++ [(-7)%Z] ++ opn
  ++ [(-6)%Z] ++ flat_map (fun x => let '(t, i, p) := x in [Z.of_nat t; Z.of_nat i; enc_point p]) pts.

(** ** Examples: the model computes *)
Example ex3_progs : list (list op) :=
  [ [Take 0]; [Get 0; Take 0]; [Clone 0; Dup 1; Drop 0; Drop 1] ].
Example ex3_own : ownership_respected ex3_progs = true.
Proof. vm_compute. reflexivity. Qed.

(* thread 1's get; thread 0 loads; thread 1 loads for its take; thread 0 wins the
   compare_exchange; thread 1's compare_exchange fails; thread 2 clones, then its dup loads -1;
   thread 0's handle goes away; the rest runs to completion *)
Example ex3_run :
  let c := run [1; 0; 1; 0; 1; 2; 2; 0] (init 100 ex3_progs) in
  results_of 0 c = [RTake (Some 100%Z)]
  /\ results_of 1 c = [RGet (Some 100%Z); RTake None]
  /\ results_of 2 c = [RClone; RDup None; RDrop; RDrop]
  /\ syscalls c = []
  /\ all_finished c = true
  /\ strong (sh c) = 0.
Proof. vm_compute. repeat split; reflexivity. Qed.

(* nobody takes: the last drop (thread 1 here) closes, after a dup by thread 0 *)
Example ex2_run :
  let c := run [0; 0; 1] (init 7 [ [Dup 0; Drop 0]; [Get 0; Drop 0] ]) in
  results_of 0 c = [RDup (Some 8%Z); RDrop]
  /\ results_of 1 c = [RGet (Some 7%Z); RDrop]
  /\ syscalls c = [EvDupSys 0 7 8; EvClose 1 7]
  /\ all_finished c = true.
Proof. vm_compute. repeat split; reflexivity. Qed.

Example ex2_observe :
  observe 7 [ [Dup 0; Drop 0]; [Get 0; Drop 0] ] [0; 0; 1]
  = ([ [RDup (Some 8%Z); RDrop]; [RGet (Some 7%Z); RDrop] ], [EvDupSys 0 7 8; EvClose 1 7], [8%Z],
     [ (0, 0, PGetLoad); (0, 0, PDupSys); (1, 0, PGetLoad); (0, 1, PHandleDrop); (1, 1, PHandleDrop);
       (1, 1, PTakeLoad); (1, 1, PTakeCas); (1, 1, PDropClose) ]).
Proof. vm_compute. reflexivity. Qed.
