(** C12 — small-step interleaving model of rustbus/src/wire/wrapper_types/unixfd.rs
    (UnixFd, UnixFdInner, take_raw_fd, get_raw_fd, dup, Clone, Drop).

    One [step] = one atomic action of the real code: an atomic load, a compare_exchange, an
    [Arc] strong-count increment or decrement, a [dup] system call, a [close] system call.
    Under the feature [verif_hooks] the atomic cell of unixfd.rs is [verif_hooks::atomic_shim::AtomicI32],
    whose every load / store / compare_exchange / swap / fetch_* is itself a scheduling point named
    after the operation; dup and close, the Arc decrement and the Arc increment have a point in
    front of them. The harness (harness/src/bin/c12.rs) releases one thread from one such point to
    the next per schedule entry, so a schedule entry of the harness is one shared-memory access or
    system call = one [step] of this model, and the compared observable ([exec_obs]) is the sequence
    of atomic operations and system calls: code that replaces one atomic operation by several
    (a load followed by a store instead of the compare_exchange) no longer matches the model and
    its extra interleavings are explored.

    Every [UnixFd] value is a handle on an *object* ([Arc<UnixFdInner>]: an atomic cell and a
    strong count). Object 0 is the one created by [UnixFd::new(fd0)] and shared by all threads;
    every successful [dup] creates a new object over the new descriptor and hands the caller a
    handle on it, on which the same operations are possible (it is "just another UnixFd").

    What is modelled, not verified (DESIGN.md section 4): [std::sync::Arc] (clone = atomic
    increment, drop = atomic decrement, the destructor of the shared value runs exactly once, in
    the thread whose decrement brought the count to 0) and SeqCst atomics as interleaving
    semantics (no weak-memory effects: the code uses SeqCst only). *)
From RB Require Import Base.Prelude.

Local Close Scope N_scope.
Local Open Scope nat_scope.

(** [UnixFdInner::FD_INVALID] (unixfd.rs, [const FD_INVALID: RawFd = -1]) *)
Definition FD_INVALID : Z := (-1)%Z.

(** ** Programs *)

(** One call of the public API on a handle (a [UnixFd] value, i.e. one clone of an [Arc]).
    Handles are named by thread-local numbers: every thread starts owning handle 0 (a clone of
    the shared object); every [Clone] and every [Dup] in the program is given the next unused
    number for the handle it creates, whether or not it succeeds at run time. *)
Inductive op :=
| Take (h : nat)     (* h.take_raw_fd()   — consumes h *)
| Get (h : nat)      (* h.get_raw_fd() *)
| Dup (h : nat)      (* let h' = h.dup()  — the dup(2) call succeeds *)
| DupFail (h : nat)  (* h.dup()           — the dup(2) call, if reached, fails (EMFILE, ...) *)
| Clone (h : nat)    (* let h' = h.clone() *)
| Drop (h : nat).    (* drop(h) *)

(** What a call returned to its caller. *)
Inductive res :=
| RTake (r : option Z)     (* take_raw_fd: Some fd / None *)
| RGet (r : option Z)      (* get_raw_fd: Some fd / None *)
| RDup (r : option Z)      (* dup: Ok(handle over the new descriptor) / Err(AlreadyTaken) *)
| RDupErr                  (* dup: Err(DupError::Io(_)) *)
| RClone
| RDrop
| RSkipped                 (* the operation names a handle that was never created because the dup (or
                              the clone of such a handle) that would have created it did not
                              succeed: `if let Ok(d) = h.dup() { ... d ... }`; it is skipped *)
| RInvalid.                (* the operation names a handle the thread does not own (excluded by
                              [ownership_respected]; Rust's borrow checker rejects such programs);
                              it is skipped *)

(** Where a thread stands inside a call: the atomic action it performs when scheduled next.
    [o] is the object the call works on. *)
Inductive pcs :=
| Idle                                     (* at the first action of the next operation of its program *)
| TakeCas (h o : nat) (v : Z)              (* UnixFdInner::take: loaded v <> -1, next: compare_exchange(v, -1) *)
| TakeDec (h o : nat) (r : option Z)       (* take_raw_fd: result r computed, next: `self` goes out of scope = Arc decrement *)
| DupSys (o : nat) (v : Z) (fails : bool)  (* UnixFdInner::dup: get() returned Some v, next: nix::unistd::dup(v) *)
| DtorLoad (o : nat) (k : res)             (* Drop for UnixFdInner -> self.take(): next: load; k = what the interrupted call returns *)
| DtorCas (o : nat) (v : Z) (k : res)      (* Drop for UnixFdInner -> self.take(): next: compare_exchange(v, -1) *)
| DtorClose (o : nat) (v : Z) (k : res).   (* Drop for UnixFdInner: take() returned Some v, next: nix::unistd::close(v) *)

(** Ghost trace (newest event first in [log]). [EvDupSys], [EvDupFail] and [EvClose] are the
    system calls the harness observes; [EvRet] are the return values it observes; the others
    mark atomic steps the theorems talk about. [o] = the object concerned. *)
Inductive event :=
| EvStart (t i o : nat)              (* thread t performed the first atomic action of its i-th operation (on object o) *)
| EvTakeCas (t o : nat) (v : Z)      (* successful compare_exchange inside take_raw_fd: THE take of object o *)
| EvDtorCas (t o : nat) (v : Z)      (* successful compare_exchange inside Drop for UnixFdInner *)
| EvDecZero (t o : nat)              (* an Arc decrement that brought the strong count of o to 0 *)
| EvDupSys (t o : nat) (src new : Z) (* dup(src) = new, src read from object o *)
| EvDupFail (t o : nat) (src : Z)    (* dup(src) failed *)
| EvClose (t o : nat) (fd : Z)       (* close(fd), from the destructor of object o *)
| EvRet (t i o : nat) (r : res).     (* the i-th operation of thread t (on object o) returned r *)

Record thread := mkThread {
  prog : list op;            (* operations not yet finished; the head is the one in progress when pc <> Idle *)
  done : nat;                (* number of finished operations = index of the current one *)
  pc : pcs;
  live : list (nat * nat);   (* handles this thread owns: (handle number, object) *)
  dead : list nat;           (* handle numbers that were never created (unsuccessful dup, skipped clone/dup) *)
  nexth : nat                (* next unused handle number *)
}.

(** [Arc<UnixFdInner>] *)
Record obj := mkObj {
  cell : Z;              (* UnixFdInner.inner : AtomicI32 — the descriptor or -1 *)
  strong : nat           (* the Arc's strong count *)
}.

Record shared := mkShared {
  objs : list obj;
  next_fd : Z;           (* simulated descriptor table: the number the next successful dup returns *)
  log : list event       (* ghost trace, newest first *)
}.

Record cfg := mkCfg { sh : shared; threads : list thread }.

(** ** Helpers *)

Definition has (h : nat) (l : list nat) : bool := existsb (Nat.eqb h) l.

Fixpoint lookup (h : nat) (l : list (nat * nat)) : option nat :=
  match l with
  | [] => None
  | (h', o) :: r => if Nat.eqb h h' then Some o else lookup h r
  end.

Fixpoint rm1 (h : nat) (l : list (nat * nat)) : list (nat * nat) :=
  match l with
  | [] => []
  | (h', o) :: r => if Nat.eqb h h' then r else (h', o) :: rm1 h r
  end.

Fixpoint upd {A} (n : nat) (x : A) (l : list A) : list A :=
  match l, n with
  | [], _ => []
  | _ :: r, O => x :: r
  | y :: r, S n' => y :: upd n' x r
  end.

Definition dflt_obj : obj := mkObj FD_INVALID 0.
Definition get_obj (s : shared) (o : nat) : obj := nth o (objs s) dflt_obj.
Definition set_obj (s : shared) (o : nat) (ob : obj) : shared :=
  mkShared (upd o ob (objs s)) (next_fd s) (log s).

Definition set_pc (th : thread) (p : pcs) : thread :=
  mkThread (prog th) (done th) p (live th) (dead th) (nexth th).
Definition set_live (th : thread) (l : list (nat * nat)) : thread :=
  mkThread (prog th) (done th) (pc th) l (dead th) (nexth th).
(** the handle number of a clone/dup that does not create a handle is used up *)
Definition alloc_dead (th : thread) : thread :=
  mkThread (prog th) (done th) (pc th) (live th) (nexth th :: dead th) (S (nexth th)).
(** a clone/dup created a handle on object o *)
Definition alloc_live (th : thread) (o : nat) : thread :=
  mkThread (prog th) (done th) (pc th) ((nexth th, o) :: live th) (dead th) (S (nexth th)).
Definition emit (e : event) (s : shared) : shared :=
  mkShared (objs s) (next_fd s) (e :: log s).

(** the current operation returns [r] to the caller; the thread moves to its next operation *)
Definition retire (t : nat) (th : thread) (o : nat) (r : res) (s : shared) : thread * shared :=
  (mkThread (tl (prog th)) (S (done th)) Idle (live th) (dead th) (nexth th),
   emit (EvRet t (done th) o r) s).

(** A [UnixFd] value goes away: [Arc::drop] = one atomic decrement (the point "handle.drop" in
    the cfg-only [impl Drop for UnixFd]); if the count was 1 the destructor of [UnixFdInner]
    runs in this thread (its steps follow), otherwise the call returns [k]. *)
Definition dec_strong (t : nat) (th : thread) (h o : nat) (k : res) (s : shared) : thread * shared :=
  let th1 := set_live th (rm1 h (live th)) in
  let ob := get_obj s o in
  let s1 := set_obj s o (mkObj (cell ob) (pred (strong ob))) in
  if Nat.eqb (strong ob) 1
  then (set_pc th1 (DtorLoad o k), emit (EvDecZero t o) s1)
  else retire t th1 o k s1.

(** [UnixFdInner::get] / the first half of [UnixFdInner::take]:
    [let loaded = self.inner.load(SeqCst); if loaded == FD_INVALID { None } else { Some(loaded) }] *)
Definition load_opt (s : shared) (o : nat) : option Z :=
  if Z.eqb (cell (get_obj s o)) FD_INVALID then None else Some (cell (get_obj s o)).

(** does the operation consume a handle number for the handle it would create? *)
Definition allocates (o : op) : bool :=
  match o with Dup _ | Clone _ => true | _ => false end.
Definition op_handle (o : op) : nat :=
  match o with Take h | Get h | Dup h | DupFail h | Clone h | Drop h => h end.

(** an operation on a handle that does not exist is skipped (one scheduling step) *)
Definition skip_op (t : nat) (th : thread) (o : op) (s0 : shared) : thread * shared :=
  let th1 := if allocates o then alloc_dead th else th in
  retire t th1 0 (if has (op_handle o) (dead th) then RSkipped else RInvalid) s0.

(** ** One atomic action of thread [t] *)
Definition step_thread (t : nat) (th : thread) (s : shared) : thread * shared :=
  match pc th with
  | Idle =>
    match prog th with
    | [] => (th, s)                                   (* finished *)
    | op :: _ =>
      match lookup (op_handle op) (live th) with
      | None => skip_op t th op (emit (EvStart t (done th) 0) s)
      | Some o =>
        let s0 := emit (EvStart t (done th) o) s in
        match op with
        | Get h =>
          (* UnixFd::get_raw_fd -> UnixFdInner::get: point "get.load"; self.inner.load(SeqCst) *)
          retire t th o (RGet (load_opt s o)) s0
        | Take h =>
          (* UnixFd::take_raw_fd -> UnixFdInner::take: point "take.load"; self.inner.load(SeqCst);
             if loaded_fd == FD_INVALID { None } else { ...compare_exchange... } *)
          match load_opt s o with
          | None => (set_pc th (TakeDec h o None), s0)
          | Some v => (set_pc th (TakeCas h o v), s0)
          end
        | Dup h =>
          (* UnixFd::dup -> UnixFdInner::dup: match self.get() { Some(fd) => fd, None => return Err(AlreadyTaken) }
             (point "get.load"; load) *)
          match load_opt s o with
          | None => retire t (alloc_dead th) o (RDup None) s0
          | Some v => (set_pc th (DupSys o v false), s0)
          end
        | DupFail h =>
          match load_opt s o with
          | None => retire t th o (RDup None) s0
          | Some v => (set_pc th (DupSys o v true), s0)
          end
        | Clone h =>
          (* #[derive(Clone)] on UnixFd(Arc<UnixFdInner>): Arc::clone = one atomic increment
             (the harness puts its own point in front of the call) *)
          let ob := get_obj s o in
          retire t (alloc_live th o) o RClone (set_obj s0 o (mkObj (cell ob) (S (strong ob))))
        | Drop h =>
          (* drop(handle): point "handle.drop"; Arc decrement *)
          dec_strong t th h o RDrop s0
        end
      end
    end
  | TakeCas h o v =>
    (* UnixFdInner::take: point "take.cas"; self.inner.compare_exchange(loaded_fd, FD_INVALID, SeqCst, SeqCst);
       Ok(taken_fd) => Some(taken_fd), Err(_) => None *)
    let ob := get_obj s o in
    if Z.eqb (cell ob) v
    then (set_pc th (TakeDec h o (Some v)), emit (EvTakeCas t o v) (set_obj s o (mkObj FD_INVALID (strong ob))))
    else (set_pc th (TakeDec h o None), s)
  | TakeDec h o r =>
    (* end of UnixFd::take_raw_fd(self): `self` is dropped: point "handle.drop"; Arc decrement *)
    dec_strong t th h o (RTake r) s
  | DupSys o v false =>
    (* UnixFdInner::dup: point "dup.syscall"; nix::unistd::dup(fd);
       Ok(new_fd) => Ok(Self{inner: AtomicI32::new(new_fd)}), then UnixFd::dup wraps it in Arc::new:
       a new object (cell = new_fd, strong = 1) whose only handle the caller gets.
       The simulated table hands out fresh numbers. *)
    let n := length (objs s) in
    retire t (alloc_live th n) o (RDup (Some (next_fd s)))
           (emit (EvDupSys t o v (next_fd s))
                 (mkShared (objs s ++ [mkObj (next_fd s) 1]) (next_fd s + 1)%Z (log s)))
  | DupSys o v true =>
    (* UnixFdInner::dup: point "dup.syscall"; nix::unistd::dup(fd) = Err(e) => Err(DupError::Io(..)):
       nothing else happens *)
    retire t th o RDupErr (emit (EvDupFail t o v) s)
  | DtorLoad o k =>
    (* Drop for UnixFdInner: if let Some(fd) = self.take() {...}: point "take.load"; load *)
    match load_opt s o with
    | None => retire t th o k s
    | Some v => (set_pc th (DtorCas o v k), s)
    end
  | DtorCas o v k =>
    (* Drop for UnixFdInner -> self.take(): point "take.cas"; compare_exchange *)
    let ob := get_obj s o in
    if Z.eqb (cell ob) v
    then (set_pc th (DtorClose o v k), emit (EvDtorCas t o v) (set_obj s o (mkObj FD_INVALID (strong ob))))
    else retire t th o k s
  | DtorClose o v k =>
    (* Drop for UnixFdInner: point "drop.close"; nix::unistd::close(fd).ok() *)
    retire t th o k (emit (EvClose t o v) s)
  end.

(** Schedule entry [t]: thread [t] performs its next atomic action. An entry naming no thread,
    or a finished thread, changes nothing. *)
Definition step (t : nat) (c : cfg) : cfg :=
  match nth_error (threads c) t with
  | None => c
  | Some th => let '(th', s') := step_thread t th (sh c) in mkCfg s' (upd t th' (threads c))
  end.

Fixpoint exec (sched : list nat) (c : cfg) : cfg :=
  match sched with
  | [] => c
  | t :: r => exec r (step t c)
  end.

(** Initial configuration: [UnixFd::new(fd0)] cloned once per thread (strong count = number of
    threads), every thread owns its clone as handle 0; descriptors handed out by the simulated
    [dup] start at fd0 + 1. *)
Definition init_thread (p : list op) : thread := mkThread p 0 Idle [(0, 0)] [] 1.
Definition init (fd0 : Z) (progs : list (list op)) : cfg :=
  mkCfg (mkShared [mkObj fd0 (length progs)] (fd0 + 1)%Z []) (map init_thread progs).

(** the descriptor object o was created over: the simulated table numbers dup results consecutively *)
Definition obj_fd (fd0 : Z) (o : nat) : Z := (fd0 + Z.of_nat o)%Z.

(** ** Ownership: what Rust's borrow checker guarantees about a thread's program
    ([lv] = handle numbers the thread may use: created and not yet consumed) *)
Fixpoint rmh (h : nat) (l : list nat) : list nat :=
  match l with [] => [] | x :: r => if Nat.eqb h x then r else x :: rmh h r end.
Fixpoint own_ok (p : list op) (lv : list nat) (nx : nat) : bool :=
  match p with
  | [] => true
  | Take h :: r | Drop h :: r => has h lv && own_ok r (rmh h lv) nx
  | Get h :: r | DupFail h :: r => has h lv && own_ok r lv nx
  | Clone h :: r | Dup h :: r => has h lv && own_ok r (nx :: lv) (S nx)
  end.
Definition ownership_respected (progs : list (list op)) : bool :=
  forallb (fun p => own_ok p [0] 1) progs.

(** ** Run-to-completion phase (after the schedule is exhausted the harness lets thread 0 run
    until it is finished, then thread 1, ...). An operation takes at most 6 atomic actions
    (take: load, cas, decrement, destructor load, destructor cas, close). *)
Definition steps_bound (th : thread) : nat := 6 * S (length (prog th)).
Fixpoint completion_from (t : nat) (ths : list thread) : list nat :=
  match ths with
  | [] => []
  | th :: r => repeat t (steps_bound th) ++ completion_from (S t) r
  end.
Definition completion (c : cfg) : list nat := completion_from 0 (threads c).
(** the harness's semantics of one input line *)
Definition run (sched : list nat) (c : cfg) : cfg :=
  let c1 := exec sched c in exec (completion c1) c1.

(** ** Observables *)
Definition trace (c : cfg) : list event := rev (log (sh c)).   (* oldest first *)

Definition is_syscall (e : event) : bool :=
  match e with EvDupSys _ _ _ _ | EvDupFail _ _ _ | EvClose _ _ _ => true | _ => false end.
(** the global ordered sequence of dup/close calls *)
Definition syscalls (c : cfg) : list event := filter is_syscall (trace c).
(** return values of thread t, in program order *)
Definition results_of (t : nat) (c : cfg) : list res :=
  flat_map (fun e => match e with EvRet t' _ _ r => if Nat.eqb t t' then [r] else [] | _ => [] end) (trace c).
Definition finished (th : thread) : bool :=
  match pc th, prog th with Idle, [] => true | _, _ => false end.
Definition all_finished (c : cfg) : bool := forallb finished (threads c).

(** descriptors open in the simulated table: fd0, plus dup results, minus closed ones *)
Fixpoint remove_z (x : Z) (l : list Z) : list Z :=
  match l with [] => [] | y :: r => if Z.eqb x y then r else y :: remove_z x r end.
Definition open_fds (fd0 : Z) (c : cfg) : list Z :=
  fold_left (fun acc e => match e with
                          | EvDupSys _ _ _ n => acc ++ [n]
                          | EvClose _ _ fd => remove_z fd acc
                          | _ => acc
                          end) (trace c) [fd0].

(** The scheduling point a thread is blocked at. On the cell it is the atomic operation itself
    ([PGetLoad], [PTakeLoad]: "atomic.load"; [PTakeCas]: "atomic.compare_exchange", reported by the
    atomic shim; the labels "get.load" / "take.load" / "take.cas" in unixfd.rs only say where in the
    code it is); "clone.inc" and "skip" are supplied by the harness (a derived Clone cannot carry a
    point, a skipped operation calls nothing). *)
Inductive point := PGetLoad | PTakeLoad | PTakeCas | PHandleDrop | PDupSys | PCloneInc | PDropClose | PSkip.
Definition next_point (th : thread) : option point :=
  match pc th with
  | Idle => match prog th with
            | [] => None
            | op :: _ =>
              match lookup (op_handle op) (live th) with
              | None => Some PSkip
              | Some _ =>
                match op with
                | Get _ | Dup _ | DupFail _ => Some PGetLoad   (* UnixFdInner::get: "get.load" *)
                | Take _ => Some PTakeLoad                     (* UnixFdInner::take: "take.load" *)
                | Clone _ => Some PCloneInc
                | Drop _ => Some PHandleDrop                   (* Drop for UnixFd (cfg only): "handle.drop" *)
                end
              end
            end
  | TakeCas _ _ _ => Some PTakeCas                          (* "take.cas" *)
  | TakeDec _ _ _ => Some PHandleDrop
  | DupSys _ _ _ => Some PDupSys                            (* "dup.syscall" *)
  | DtorLoad _ _ => Some PTakeLoad
  | DtorCas _ _ _ => Some PTakeCas
  | DtorClose _ _ _ => Some PDropClose                      (* "drop.close" *)
  end.

(** one entry of the merged observation sequence: a point passed, or a system call made *)
Inductive obs :=
| OPoint (t i : nat) (p : point)
| OSys (e : event).

(** the system call thread t makes in its next step, if that step is one *)
Definition step_syscall (t : nat) (th : thread) (s : shared) : option event :=
  match pc th with
  | DupSys o v false => Some (EvDupSys t o v (next_fd s))
  | DupSys o v true => Some (EvDupFail t o v)
  | DtorClose o v _ => Some (EvClose t o v)
  | _ => None
  end.

(** what happened at every effective schedule entry, in order: the point the thread was released
    from, followed by the system call it made in that step, if any *)
Fixpoint exec_obs (sched : list nat) (c : cfg) : list obs :=
  match sched with
  | [] => []
  | t :: r =>
    match nth_error (threads c) t with
    | Some th =>
      match next_point th with
      | Some p => OPoint t (done th) p ::
                  match step_syscall t th (sh c) with Some e => [OSys e] | None => [] end
      | None => []
      end
    | None => []
    end ++ exec_obs r (step t c)
  end.

(** what the harness prints for one input line: per-thread return values, the ordered dup/close
    calls, the open descriptors at the end, the merged sequence of points and system calls *)
Definition observe (fd0 : Z) (progs : list (list op)) (sched : list nat)
  : list (list res) * list event * list Z * list obs :=
  let c0 := init fd0 progs in
  let c := run sched c0 in
  (map (fun t => results_of t c) (seq 0 (length progs)), syscalls c, open_fds fd0 c,
   exec_obs (sched ++ completion (exec sched c0)) c0).

(** the same as a flat list of numbers (used to compare the extracted OCaml model with
    [vm_compute] inside Coq) *)
Definition enc_opt (o : option Z) : Z := match o with Some v => v | None => (-1)%Z end.
Definition enc_res (r : res) : list Z :=
  match r with
  | RTake o => [1; enc_opt o] | RGet o => [2; enc_opt o] | RDup o => [3; enc_opt o]
  | RClone => [4; 0] | RDrop => [5; 0] | RInvalid => [6; 0] | RDupErr => [7; 0] | RSkipped => [8; 0]
  end%Z.
Definition enc_ev (e : event) : list Z :=
  match e with
  | EvDupSys t _ s n => [7%Z; Z.of_nat t; s; n]
  | EvClose t _ fd => [8%Z; Z.of_nat t; fd]
  | EvDupFail t _ s => [9%Z; Z.of_nat t; s]
  | _ => []
  end.
Definition enc_point (p : point) : Z :=
  match p with
  | PGetLoad => 1 | PTakeLoad => 2 | PTakeCas => 3 | PHandleDrop => 4 | PDupSys => 5 | PCloneInc => 6
  | PDropClose => 7 | PSkip => 8
  end%Z.
Definition enc_obs (x : obs) : list Z :=
  match x with
  | OPoint t i p => [Z.of_nat t; Z.of_nat i; enc_point p]
  | OSys e => (-5)%Z :: enc_ev e
  end.
Definition encode (o : list (list res) * list event * list Z * list obs) : list Z :=
  let '(rs, sys, opn, pts) := o in
  flat_map (fun l => flat_map enc_res l ++ [(-9)%Z]) rs ++ [(-8)%Z] ++ flat_map enc_ev sys ++ [(-7)%Z] ++ opn
  ++ [(-6)%Z] ++ flat_map enc_obs pts.

(** ** Examples: the model computes *)
Example ex3_progs : list (list op) :=
  [ [Take 0]; [Get 0; Take 0]; [Clone 0; Dup 1; Drop 0; Drop 1] ].
Example ex3_own : ownership_respected ex3_progs = true.
Proof. vm_compute. reflexivity. Qed.

(* thread 1's get; thread 0 loads; thread 1 loads for its take; thread 0 wins the
   compare_exchange; thread 1's compare_exchange fails; thread 2 clones, then its dup loads -1;
   thread 0's handle goes away; the rest runs to completion *)
Example ex3_run :
  let c := run [1; 0; 1; 0; 1; 2; 2; 0] (init 100 ex3_progs) in
  results_of 0 c = [RTake (Some 100%Z)]
  /\ results_of 1 c = [RGet (Some 100%Z); RTake None]
  /\ results_of 2 c = [RClone; RDup None; RDrop; RDrop]
  /\ syscalls c = []
  /\ all_finished c = true
  /\ map strong (objs (sh c)) = [0].
Proof. vm_compute. repeat split; reflexivity. Qed.

(* nobody takes: the last drop (thread 1 here) closes, after a dup by thread 0; the handle the
   dup returned (handle 1 of thread 0, object 1 over descriptor 8) is dropped by the program: the
   library closes 8 then, and only then *)
Example ex2_run :
  let c := run [0; 0; 1] (init 7 [ [Dup 0; Drop 0; Get 1; Drop 1]; [Get 0; Drop 0] ]) in
  results_of 0 c = [RDup (Some 8%Z); RDrop; RGet (Some 8%Z); RDrop]
  /\ results_of 1 c = [RGet (Some 7%Z); RDrop]
  /\ syscalls c = [EvDupSys 0 0 7 8; EvClose 0 1 8; EvClose 1 0 7]
  /\ all_finished c = true.
Proof. vm_compute. repeat split; reflexivity. Qed.

(* a failing dup changes nothing: the descriptor is closed by the last drop only; the
   operation on the handle a failed/gone dup would have created is skipped *)
Example ex_dupfail_run :
  let c := run [1; 1; 0; 0; 0] (init 7 [ [Take 0; Dup 0]; [DupFail 0; Dup 0; Get 1; Drop 0] ]) in
  results_of 0 c = [RTake (Some 7%Z); RInvalid]
  /\ results_of 1 c = [RDupErr; RDup None; RSkipped; RDrop]
  /\ syscalls c = [EvDupFail 1 0 7]
  /\ ownership_respected [ [DupFail 0; Dup 0; Get 1; Drop 0] ] = true.
Proof. vm_compute. repeat split; reflexivity. Qed.

Example ex2_observe :
  observe 7 [ [Dup 0; Drop 0]; [Get 0; Drop 0] ] [0; 0; 1]
  = ([ [RDup (Some 8%Z); RDrop]; [RGet (Some 7%Z); RDrop] ], [EvDupSys 0 0 7 8; EvClose 1 0 7], [8%Z],
     [ OPoint 0 0 PGetLoad; OPoint 0 0 PDupSys; OSys (EvDupSys 0 0 7 8); OPoint 1 0 PGetLoad;
       OPoint 0 1 PHandleDrop; OPoint 1 1 PHandleDrop;
       OPoint 1 1 PTakeLoad; OPoint 1 1 PTakeCas; OPoint 1 1 PDropClose; OSys (EvClose 1 0 7) ]).
Proof. vm_compute. reflexivity. Qed.
