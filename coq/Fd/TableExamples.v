(** C11 — examples: the model computes, and the hypotheses of the theorems in Properties/C11.v are
    satisfiable (a push that succeeds, one that fails half way, a send/receive pair, reads with a
    good and a bad index, a history that drops everything). *)
From RB Require Import Base.Prelude Fd.Table Fd.History Fd.TableProofs.

(* caller opens a file (fd 0), wraps it (handle 0), makes a body (0) and pushes the handle *)
Definition h1 : list op := [Open; Wrap 0%nat; NewBody; Push 0%nat [PH 0%nat]].

Example push_succeeds :
  snd (step (run h1 init) (Push 0%nat [PH 0%nat; PH 0%nat])) = RPushed [1; 2].
Proof. vm_compute. reflexivity. Qed.

(* after h1: descriptor 0 (wrapped original) and 1 (the duplicate) refer to the same file 0;
   the body holds the duplicate and the bytes carry index 0 *)
Example push_state :
  snapshot (run h1 init)
  = mkSnap [(0, 0); (1, 0)] [None] [Some (Some 0)] [Some ([Some 1], [0])] [].
Proof. vm_compute. reflexivity. Qed.

(* a push of (fd, fd, <element that fails>) duplicates twice, fails, and closes both duplicates *)
Example push_fails :
  let s := run h1 init in
  let (s', r) := step s (Push 0%nat [PH 0%nat; PH 0%nat; PBad]) in
  r = RErr /\ snapshot s' = snapshot s /\ closes s' = [3; 2] /\ nfd s' = 4.
Proof. vm_compute. auto. Qed.

(* a taken handle at an inner position makes the push fail *)
Definition h2 : list op := h1 ++ [Clone 0%nat; Take 1%nat].
Example push_fails_taken :
  snd (step (run h2 init) (Push 0%nat [PR 1%nat; PH 0%nat])) = RErr
  /\ sn_cfds (snapshot (run h2 init)) = [None; Some 0].
Proof. vm_compute. auto. Qed.

(* send + receive: the received body (1) owns a fresh descriptor (2) for the same file *)
Definition h3 : list op := h1 ++ [Send 0%nat; Recv].
Example send_recv :
  snapshot (run h3 init)
  = mkSnap [(0, 0); (1, 0); (2, 0)] [None] [Some (Some 0)]
           [Some ([Some 1], [0]); Some ([Some 2], [0])] []
  /\ sent_msgs (run h3 init) = [[0]] /\ recv_msgs (run h3 init) = [[0]].
Proof. vm_compute. auto. Qed.

Example send_result : snd (step (run h1 init) (Send 0%nat)) = RSent 1 1.
Proof. vm_compute. reflexivity. Qed.

(* reading: index 0 gives a handle, index 1 is beyond the list *)
Example unmarshal_good : snd (step (run h3 init) (Unmarshal 1%nat 0)) = RHandle 1%nat.
Proof. vm_compute. reflexivity. Qed.
Example unmarshal_bad : snd (step (run h3 init) (Unmarshal 1%nat 1)) = RErr.
Proof. vm_compute. reflexivity. Qed.
Example parse_good : snd (step (run h3 init) (Parse 1%nat 0%nat)) = RHandle 1%nat.
Proof. vm_compute. reflexivity. Qed.

(* an injected message whose body names index 5 but carries one descriptor *)
Definition h4 : list op := [Open; Inject [0%nat] [5]; Recv].
Example parse_bad_index : snd (step (run h4 init) (Parse 0%nat 0%nat)) = RErr.
Proof. vm_compute. reflexivity. Qed.

(* dropping everything: each library-owned descriptor is closed exactly once, the caller's stays *)
Definition h5 : list op := [Open] ++ h3 ++ [DropBody 0%nat; DropBody 1%nat; DropHandle 0%nat].
Example all_dropped_closed :
  let s := run h5 init in
  all_dropped s /\ closes s = [0; 3; 2] /\ lib_owned s = [3; 2; 0] /\ caller_fds s = [1]
  /\ table_list s = [(1, 1)].
Proof. vm_compute. auto. Qed.

(* take: the descriptor goes back to the caller and is not closed when the handles go away *)
Definition h6 : list op := [Open; Wrap 0%nat; Clone 0%nat; Take 0%nat; DropHandle 1%nat].
Example taken_not_closed :
  let s := run h6 init in
  closes s = [] /\ taken s = [0] /\ caller_fds s = [0] /\ table_list s = [(0, 0)] /\ all_dropped s.
Proof. vm_compute. auto. Qed.

(* a body one of whose descriptors was taken is refused: nothing is sent (commit 955c136; the old
   behaviour, UNIX_FDS 1 with no descriptor attached, is History/SendTakenOld.v) *)
Definition h7 : list op := h1 ++ [Unmarshal 0%nat 0; Take 1%nat].
Example send_refuses_taken : step (run h7 init) (Send 0%nat) = (run h7 init, RErr).
Proof.
  set (s := run h7 init).
  assert (Hb : lookup_b s 0%nat = Some (mkBody [1%nat] [0])) by (vm_compute; reflexivity).
  assert (Hc : negb (len (get_raw_fds s (mkBody [1%nat] [0])) =? len (bfds (mkBody [1%nat] [0]))) = true)
    by (vm_compute; reflexivity).
  cbn [step]. rewrite Hb. cbv zeta. rewrite Hc. reflexivity.
Qed.

(* the hypotheses of C11_index_is_position are satisfiable *)
Example pushed_example :
  let s := run h1 init in
  let s' := fst (step s (Push 0%nat [PH 0%nat; PR 9%nat; PH 0%nat])) in
  snd (step s (Push 0%nat [PH 0%nat; PR 9%nat; PH 0%nat])) = RInvalid /\ snapshot s' = snapshot s.
Proof. vm_compute. auto. Qed.
Example pushed_example2 :
  let s := run h1 init in
  let s' := fst (step s (Push 0%nat [PH 0%nat; PH 0%nat])) in
  pushed s s' 1 [PH 0%nat; PH 0%nat] [2%nat; 3%nat] [1; 2].
Proof.
  cbn zeta. cbn [pushed]. repeat split; try (vm_compute; reflexivity).
  - exists 0, 2. vm_compute. repeat split; auto; discriminate.
  - exists 0, 3. vm_compute. repeat split; auto; discriminate.
Qed.

(* the dynamic API: two stored descriptors decoded at once; a bad stored index fails the whole call;
   unmarshall_all on a message with a bad index drops the message and closes what only it held *)
Definition h8 : list op := h1 ++ [Push 0%nat [PH 0%nat]; Send 0%nat; Recv].
Example decode_good :
  let (s', r) := step (run h8 init) (Decode 1%nat 2%nat) in
  r = RHandles [1%nat; 2%nat] /\ sn_hnd (snapshot s') = [Some (Some 0); Some (Some 3); Some (Some 4)]
  /\ table_list s' = table_list (run h8 init).
Proof. vm_compute. auto. Qed.
Example decode_bad : step (run h4 init) (Decode 0%nat 1%nat) = (run h4 init, RErr).
Proof. reflexivity. Qed.
Example decode_owned_bad :
  let (s', r) := step (run h4 init) (DecodeOwned 0%nat) in
  r = RErr /\ closes s' = [1] /\ sn_bods (snapshot s') = [None].
Proof. vm_compute. auto. Qed.
Example held_example : held (run h1 init) 1.
Proof. exists 1%nat. vm_compute. split; [reflexivity|lia]. Qed.

(* the invariant holds on a concrete history (instance of run_inv0) *)
Example inv_example : inv0 [] (run h5 init).
Proof. apply run_inv0. Qed.

(* the flat encoding used to cross-check the extracted model *)
Example encode_example : encode (observe [Open; Wrap 0%nat])
  = [3; 0; 1; 0; 0; 0; 1; 0; 0; 1; 1; 0; 0; 0; 0;
     4; 0; 1; 2; 0; 1; 0; 0; 1; 0; 1; 1; 1; 0; 0; 0].
Proof. vm_compute. reflexivity. Qed.
