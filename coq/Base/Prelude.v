(** Shared prelude: imports, arithmetic opacity, lengths in N, outcomes.
    Bytes and characters are numbers in [N] (a byte is [< 256]); byte strings are [list N]. *)
From Coq Require Export List Arith NArith ZArith Lia Bool.
Export ListNotations.

Global Arguments N.add : simpl never.
Global Arguments N.sub : simpl never.
Global Arguments N.mul : simpl never.
Global Arguments N.div : simpl never.
Global Arguments N.modulo : simpl never.
Global Arguments N.pow : simpl never.
Global Arguments N.ltb : simpl never.
Global Arguments N.leb : simpl never.
Global Arguments N.eqb : simpl never.

(** What a Rust call can do (DESIGN.md section 3). *)
Inductive outcome (A : Type) :=
| Ok (a : A)          (* returned Ok(a) *)
| Err                 (* returned an error *)
| Panic               (* unwrap/expect/index/slice/overflow-in-debug/unreachable *)
| UB                  (* an unsafe precondition would be violated *)
| OutOfFuel.          (* model artefact; excluded by the theorems *)
Arguments Ok {A} a.
Arguments Err {A}.
Arguments Panic {A}.
Arguments UB {A}.
Arguments OutOfFuel {A}.

Definition bind {A B} (o : outcome A) (f : A -> outcome B) : outcome B :=
  match o with
  | Ok a => f a
  | Err => Err
  | Panic => Panic
  | UB => UB
  | OutOfFuel => OutOfFuel
  end.
Notation "'do' x <- o ; k" := (bind o (fun x => k)) (at level 200, x pattern, o at level 100, k at level 200, right associativity).

Definition is_ok {A} (o : outcome A) : bool := match o with Ok _ => true | _ => false end.
Definition is_err {A} (o : outcome A) : bool := match o with Err => true | _ => false end.

Open Scope N_scope.

Definition len {A} (l : list A) : N := N.of_nat (length l).
Lemma len_nil {A} : len (@nil A) = 0. Proof. reflexivity. Qed.
Lemma len_cons {A} (x : A) l : len (x :: l) = 1 + len l.
Proof. unfold len; cbn [length]; lia. Qed.
Lemma len_app {A} (a b : list A) : len (a ++ b) = len a + len b.
Proof. unfold len; rewrite app_length; lia. Qed.
Lemma len_rev {A} (a : list A) : len (rev a) = len a.
Proof. unfold len; now rewrite rev_length. Qed.
Lemma len_map {A B} (f : A -> B) l : len (map f l) = len l.
Proof. unfold len; now rewrite map_length. Qed.
Lemma len_0_nil {A} (l : list A) : len l = 0 -> l = [].
Proof. destruct l; [reflexivity|]. rewrite len_cons; lia. Qed.

Definition zeros (n : N) : list N := repeat 0 (N.to_nat n).
Lemma len_zeros n : len (zeros n) = n.
Proof. unfold len, zeros; rewrite repeat_length; lia. Qed.
Lemma zeros_0 : zeros 0 = []. Proof. reflexivity. Qed.

Definition firstnN {A} (n : N) (l : list A) := firstn (N.to_nat n) l.
Definition skipnN {A} (n : N) (l : list A) := skipn (N.to_nat n) l.
Lemma len_firstnN {A} n (l : list A) : len (firstnN n l) = N.min n (len l).
Proof. unfold len, firstnN; rewrite firstn_length; lia. Qed.
Lemma len_skipnN {A} n (l : list A) : len (skipnN n l) = len l - n.
Proof. unfold len, skipnN; rewrite skipn_length; lia. Qed.
Lemma firstnN_skipnN {A} n (l : list A) : firstnN n l ++ skipnN n l = l.
Proof. apply firstn_skipn. Qed.
Lemma skipnN_app_len {A} (a b : list A) : skipnN (len a) (a ++ b) = b.
Proof. unfold skipnN, len. rewrite Nat2N.id. rewrite skipn_app, Nat.sub_diag, skipn_all. reflexivity. Qed.
Lemma firstnN_app_len {A} (a b : list A) : firstnN (len a) (a ++ b) = a.
Proof. unfold firstnN, len. rewrite Nat2N.id. rewrite firstn_app, Nat.sub_diag, firstn_all. cbn. apply app_nil_r. Qed.

Definition nthN {A} (l : list A) (n : N) : option A := nth_error l (N.to_nat n).

Definition byte_ok (b : N) : Prop := b < 256.
Definition bytes_ok (l : list N) : Prop := Forall byte_ok l.
