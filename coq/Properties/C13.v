(** C13 - Serials are fresh, non-zero and increasing; replies are correlated to their call.
    Model: Conn/Serial.v (SendConn::alloc_serial, send_message, wire::marshal::marshal header layout,
    DynamicHeader::make_response / make_error_response, standard_messages::unknown_method / invalid_args).
    Specification: Conn/SerialProofs.v (serials_spec, wire_serial, reply_spec).
    [hdr_fields] is the (arbitrary) marshaller of the header field array. *)
From RB Require Import Base.Prelude Conn.Serial Conn.SerialProofs.
From Coq Require Import Sorting.Sorted.

(* every history of alloc_serial / send_message calls on a fresh connection that does not run out of
   serials: the serials the connection hands out are strictly increasing, non-zero and < 2^32; a
   preset serial is used as it is; the serial reported to the caller is the one in bytes 8..12 of
   the transmitted header *)
Theorem C13_serials : forall hdr_fields ops c' evs, Forall op_wf ops ->
  run_ops hdr_fields ops conn_init = Ok (c', evs) ->
  StronglySorted N.lt (issued evs)
  /\ Forall (fun s => 0 < s < 2^32) (issued evs)
  /\ Forall sent_ok evs.
Proof. exact serials_fresh_increasing. Qed.
Print Assumptions C13_serials.

(* The history alphabet (Conn/Serial.v op): alloc_serial; a send written to the end; a send suspended,
   k allocations, resumed; a send that is NOT completed - context dropped at zero bytes (socket full),
   force_finish / force_finish_on_error after a partial write, write / write_all /
   send_message_write_all failing with an I/O error (EBADF, EPIPE). C13_serials, C13_step,
   C13_later_exceeds_earlier and C13_history_outcome quantify over all sequences of these: an abandoned
   send keeps its serial consumed (EvAbandoned is part of [issued]), nothing hands a serial back. *)

(* one operation, in particular a send that is suspended after a partial write (into_progress), sees k
   calls of alloc_serial and is resumed (resume): the serial of the resumed context - the one write()
   returns - is the preset one or the one chosen by send_message and is the one in the header that
   is transmitted; the serials handed out meanwhile are larger and increasing *)
Theorem C13_step : forall hdr_fields c o c' e, conn_ok c -> op_wf o -> step hdr_fields c o = Ok (c', e) ->
  conn_ok c' /\ serial_counter c' = serial_counter c + serials_taken o
  /\ StronglySorted N.lt (issued_of e)
  /\ Forall (fun s => serial_counter c <= s < serial_counter c') (issued_of e)
  /\ sent_ok e.
Proof. exact step_spec. Qed.
Print Assumptions C13_step.

(* ... and whatever is handed out later exceeds everything handed out before *)
Theorem C13_later_exceeds_earlier : forall hdr_fields ops1 ops2 c1 evs1 c2 evs2,
  Forall op_wf ops1 -> Forall op_wf ops2 ->
  run_ops hdr_fields ops1 conn_init = Ok (c1, evs1) -> run_ops hdr_fields ops2 c1 = Ok (c2, evs2) ->
  forall a b, In a (issued evs1) -> In b (issued evs2) -> a < b.
Proof. exact serials_exceed_earlier. Qed.
Print Assumptions C13_later_exceeds_earlier.

(* a history ends normally iff it takes fewer than 2^32-1 serials from the counter; otherwise it
   panics ("run out of serials") - no other outcome exists *)
Theorem C13_history_outcome : forall hdr_fields ops, Forall op_wf ops ->
  (nallocs ops < 2^32 - 1 -> exists c' evs, run_ops hdr_fields ops conn_init = Ok (c', evs))
  /\ (2^32 - 1 <= nallocs ops -> run_ops hdr_fields ops conn_init = Panic).
Proof. exact history_outcome. Qed.
Print Assumptions C13_history_outcome.

(* the header produced by marshal carries the chosen serial at offset 8 in the message's byte order,
   and util::parse_u32 inverts util::write_u32 *)
Theorem C13_header_serial : forall hdr_fields m s hb, s < 2^32 ->
  marshal hdr_fields m s [] = Ok hb -> wire_serial hb = Some s /\ 16 <= len hb.
Proof. intros f m s hb Hs H. split; [eapply marshal_wire_serial|eapply marshal_len_ge_16]; eauto. Qed.
Print Assumptions C13_header_serial.

(* many allocations at once (harness op x<n>, used to reach the end of the serial space) are k calls of
   alloc_serial: same connection afterwards, the last serial returned, the same panic *)
Theorem C13_alloc_many : forall k c, conn_ok c -> 1 <= k ->
  match alloc_n (N.to_nat k) c with
  | Ok (c', ss) => alloc_many k c = Ok (c', last ss 0)
  | Panic => alloc_many k c = Panic
  | _ => False
  end.
Proof. exact alloc_many_spec. Qed.
Print Assumptions C13_alloc_many.

(* send_hello accepts exactly the replies whose reply serial is the serial of its Hello, and the reply
   make_response builds from the received Hello is one *)
Theorem C13_hello_correlation : forall serial resp call,
  (hello_matches serial resp = true <-> dh_response_serial resp = Some serial)
  /\ (dh_serial call = Some serial -> hello_matches serial (msg_dyn (make_response call)) = true).
Proof. intros serial resp call. split; [apply hello_correlation|apply hello_reply_accepted]. Qed.
Print Assumptions C13_hello_correlation.

Theorem C13_u32_roundtrip : forall bo v, v < 2^32 -> parse_u32 (u32_bytes bo v) bo = Ok v.
Proof. exact parse_write_u32. Qed.
Print Assumptions C13_u32_roundtrip.

(* replies built from a received header carry its serial as reply serial, its sender as destination,
   are of type Reply or Error and have no serial of their own yet *)
Theorem C13_make_response : forall call, reply_spec call (make_response call).
Proof. exact make_response_spec. Qed.
Print Assumptions C13_make_response.

Theorem C13_make_error_response : forall call name text r,
  make_error_response call name text = Ok r -> reply_spec call r /\ dh_error_name (msg_dyn r) = Some name.
Proof. exact make_error_response_spec. Qed.
Print Assumptions C13_make_error_response.

Theorem C13_unknown_method : forall call r, unknown_method call = Ok r -> reply_spec call r.
Proof. exact unknown_method_spec. Qed.
Print Assumptions C13_unknown_method.

Theorem C13_invalid_args : forall call sig r, invalid_args call sig = Ok r -> reply_spec call r.
Proof. exact invalid_args_spec. Qed.
Print Assumptions C13_invalid_args.

(* for headers whose names hold no NUL byte (every decoded header) the standard replies exist *)
Theorem C13_replies_total : forall call sig,
  opt_no_nul (dh_interface call) -> opt_no_nul (dh_member call) -> opt_no_nul (dh_object call) -> opt_no_nul sig ->
  (exists r, unknown_method call = Ok r) /\ (exists r, invalid_args call sig = Ok r).
Proof. intros call sig Hi Hm Ho Hs. split; [apply unknown_method_total|apply invalid_args_total]; auto. Qed.
Print Assumptions C13_replies_total.
