(** C09 - Incoming bytes are reassembled into exactly the sent messages under any chunking.
    Model: Conn/Recv.v (IncomingBuffer, RecvConn::{refill_buffer, bytes_needed_for_current_message,
    buffer_contains_whole_message, read_whole_message, read_once, get_next_message}, the framing part
    of wire/unmarshal.rs, and the kernel side of the socket).  Proofs: Conn/RecvProofs.v.
    [D]/[decode_fields] is the decoder of the header-field array (C06's subject), left abstract.
    Assumption on the sender, part of [chunking]: the descriptors of a message travel with the first
    byte of its frame (as rustbus's own SendConn and libdbus send them). *)
From RB Require Import Base.Prelude Conn.Recv Conn.RecvLists Conn.RecvProofs.

(* For every list of messages, every way the peer cuts their byte stream into writes (also while a
   call is in progress), every interleaving of get_next_message / read_once calls and every kernel
   choice for every recvmsg: the messages handed out are exactly the first n sent, in order; every
   other call result is done / timed out / still blocked; and the state left behind holds exactly
   the not yet delivered rest of the stream - nothing lost, duplicated or attached to the wrong
   message - with the buffer never larger than the current frame. *)
Theorem C09_reassembly : forall (D : Type) (decode_fields : header -> list N -> option D)
    (sent : list smsg) (sched : list ev) (tail : list abyte) st q os,
  Forall (frame_ok D decode_fields) sent -> chunking sent sched tail -> run D decode_fields sched = (st, q, os) ->
  exists n, (n <= length sent)%nat
    /\ Forall2 (is_message_of D decode_fields) (delivered D os) (firstn n sent)
    /\ Forall (benign D) os
    /\ annot (peek st) (fds_in st) ++ flat q ++ tail = astream (skipn n sent)
    /\ peek st ++ kbytes q ++ bytes_of tail = concat (map fst (skipn n sent))
    /\ filled st <= len (buf st) /\ len (buf st) <= headlen (skipn n sent)
    /\ match skipn n sent with
       | [] => filled st = 0 /\ fds_in st = []
       | m :: _ => peek st = firstnN (filled st) (fst m) /\ fds_in st = (if filled st =? 0 then [] else snd m)
       end.
Proof. exact reassembly_full. Qed.
Print Assumptions C09_reassembly.

(* a handed-out message carries exactly the descriptors sent with its frame, the header of the frame,
   and as body the last body_len bytes of the frame *)
Theorem C09_message_content : forall (D : Type) (decode_fields : header -> list N -> option D) (m : smsg) d,
  is_message_of D decode_fields d m ->
  m_fds d = snd m /\ unmarshal_header (fst m) = ROk (m_hdr d) /\ len (m_body d) = h_body_len (m_hdr d)
  /\ exists pre, fst m = pre ++ m_body d.
Proof. intros D dec m d H. exact (finish_shape D dec (fst m) (snd m) d H). Qed.
Print Assumptions C09_message_content.

(* once the peer has written everything, as many get_next_message calls as there are messages (each
   given enough reads) hand out all of them - whatever happened before, time-outs included *)
Theorem C09_complete : forall (D : Type) (decode_fields : header -> list N -> option D)
    (sent : list smsg) (sched : list ev) K F g st q os,
  Forall (frame_ok D decode_fields) sent -> chunking sent sched [] ->
  Forall (fun m => len (fst m) <= N.of_nat F) sent -> (length sent <= g)%nat ->
  run D decode_fields (sched ++ repeat (drain_ev K F) g) = (st, q, os) ->
  Forall2 (is_message_of D decode_fields) (delivered D os) sent /\ Forall (benign D) os.
Proof. exact completeness. Qed.
Print Assumptions C09_complete.

(* the frames of the D-Bus specification (written out independently of the model) with at most 253
   descriptors satisfy the hypothesis of the theorems above *)
Theorem C09_frames : forall (D : Type) (decode_fields : header -> list N -> option D) f fds,
  Frame D decode_fields f -> len fds <= cmsg_cap -> frame_ok D decode_fields (f, fds).
Proof. exact Frame_frame_ok. Qed.
Print Assumptions C09_frames.

(* what Linux does (everything queued up to the request, stopping after a segment whose rights were
   handed out) is one of the kernel choices the theorems quantify over: refill_buffer's clamp leaves it as it is *)
Theorem C09_linux_choice : forall q req, segs_ok q -> q <> [] -> 1 <= req ->
  1 <= N.min req (klimit q) /\ N.min req (klimit q) <= N.min req (kavail q)
  /\ N.max 1 (N.min (N.min req (klimit q)) (N.min req (kavail q))) = N.min req (klimit q).
Proof.
  intros q req H Hq Hr. pose proof (klimit_le_kavail q). pose proof (klimit_pos q H Hq).
  split; [lia|]. split; [lia|]. now apply linux_choice_exact.
Qed.
Print Assumptions C09_linux_choice.
