(** C17 - Connection setup: address resolution and auth follow the protocol and terminate.
    Model: Conn/Addr.v (parse_dbus_addr_str, get_session_bus_path), Conn/Auth.v (auth.rs and the
    sequencing of DuplexConn::connect_to_bus against a scripted server). Specifications:
    Conn/AddrProofs.v (addr_grammar, unix_address, pair_ok), Conn/AuthProofs.v (first_line, reply,
    conforming, conversation, decimal_of). Examples: Conn/AuthExamples.v. *)
From RB Require Import Base.Prelude Conn.AddrBase Conn.Addr Conn.AddrProofs Conn.Auth Conn.AuthProofs.

(* ------------------------------------------------------------------ addresses *)
(* An address of the supported kind ([addr_grammar], Conn/AddrProofs.v): "unix:" followed by comma-separated
   key=value pairs (keys without ',' '=' ';', values without ',' ';'), exactly one of which has the key "path"
   or "abstract", with a non-empty value. Percent-escapes are not decoded: the value is taken literally (a path
   written with %xx names a file that does not exist, so such an address yields an error). *)

(* it resolves to exactly that socket (a path must exist; both must fit the 108-byte sun_path) *)
Theorem C17_addr_resolves : forall exists_ addr (is_path : bool) v,
  addr_grammar addr is_path v ->
  parse_dbus_addr_str exists_ addr
  = if is_path then (if exists_ v && (len v <? SUN_PATH) then Ok (Path v) else Err)
    else (if len v <? SUN_PATH then Ok (Abstract v) else Err).
Proof. exact addr_grammar_resolves. Qed.
Print Assumptions C17_addr_resolves.

(* exactly the strings of the grammar resolve, and to the socket they name *)
Theorem C17_addr_only : forall exists_ addr r,
  parse_dbus_addr_str exists_ addr = Ok r <->
  exists (is_path : bool) v, addr_grammar addr is_path v /\ len v < SUN_PATH
    /\ (is_path = true -> exists_ v = true) /\ r = (if is_path then Path v else Abstract v).
Proof. exact addr_resolves_iff. Qed.
Print Assumptions C17_addr_only.

(* any other string yields an error *)
Theorem C17_addr_other : forall exists_ addr,
  (forall is_path v, ~ addr_grammar addr is_path v) -> parse_dbus_addr_str exists_ addr = Err.
Proof. exact addr_other_is_error. Qed.
Print Assumptions C17_addr_other.

(* further keys in any order: before and after the socket pair *)
Theorem C17_addr_path : forall exists_ before p after,
  Forall pair_ok (before ++ (PATH, p) :: after) ->
  Forall (fun kv => ~ sock_key (fst kv)) before -> Forall (fun kv => ~ sock_key (fst kv)) after -> p <> [] ->
  parse_dbus_addr_str exists_ (unix_address (before ++ (PATH, p) :: after))
  = if exists_ p && (len p <? SUN_PATH) then Ok (Path p) else Err.
Proof. exact addr_path_resolves. Qed.
Print Assumptions C17_addr_path.

Theorem C17_addr_abstract : forall exists_ before k after,
  Forall pair_ok (before ++ (ABSTRACT, k) :: after) ->
  Forall (fun kv => ~ sock_key (fst kv)) before -> Forall (fun kv => ~ sock_key (fst kv)) after -> k <> [] ->
  parse_dbus_addr_str exists_ (unix_address (before ++ (ABSTRACT, k) :: after))
  = if len k <? SUN_PATH then Ok (Abstract k) else Err.
Proof. exact addr_abstract_resolves. Qed.
Print Assumptions C17_addr_abstract.

(* the error classes by name: a ';' anywhere (address lists), no transport separator, another transport,
   a piece without '=' anywhere in the list, and well-formed pairs of which none or more than one name a
   socket or whose socket value is empty *)
Theorem C17_addr_errors : forall exists_,
  (forall addr, In SEMICOLON addr -> parse_dbus_addr_str exists_ addr = Err)
  /\ (forall addr, ~ In COLON addr -> parse_dbus_addr_str exists_ addr = Err)
  /\ (forall sys rest, ~ In COLON sys -> sys <> UNIX -> parse_dbus_addr_str exists_ (sys ++ COLON :: rest) = Err)
  /\ (forall pieces bad, Forall (fun p => ~ In COMMA p) pieces -> In bad pieces -> ~ In EQUALS bad ->
        parse_dbus_addr_str exists_ (UNIX ++ COLON :: join COMMA pieces) = Err)
  /\ (forall pairs, Forall pair_ok pairs -> pairs <> [] ->
        (forall kv, filter sockb pairs <> [kv]) \/ (exists k, filter sockb pairs = [(k, [])]) ->
        parse_dbus_addr_str exists_ (unix_address pairs) = Err).
Proof.
  intros e. split; [exact (addr_semicolon e)|]. split; [exact (addr_no_colon e)|]. split; [exact (addr_other_transport e)|].
  split; [exact (addr_pair_without_equals e)|exact (addr_socket_count e)].
Qed.
Print Assumptions C17_addr_errors.

(* never a panic *)
Theorem C17_addr_total : forall exists_ addr env,
  ok_or_err (parse_dbus_addr_str exists_ addr) /\ ok_or_err (get_session_bus_path exists_ env).
Proof. intros. split; [apply addr_total|apply session_total]. Qed.
Print Assumptions C17_addr_total.

(* get_system_bus_path: the fixed path, when it exists *)
Theorem C17_system_bus_path : forall exists_,
  get_system_bus_path exists_
  = (if exists_ SYSTEM_BUS then Ok (Path SYSTEM_BUS) else Err)
  /\ SYSTEM_BUS = [47;114;117;110;47;100;98;117;115;47;115;121;115;116;101;109;95;98;117;115;95;115;111;99;107;101;116].
Proof. intros e. split; reflexivity. Qed.
Print Assumptions C17_system_bus_path.

(* ------------------------------------------------------------------ auth *)
(* the AUTH argument: ASCII-hex of the decimal digits of the uid, for every 32-bit uid (0 gives "30") *)
Theorem C17_uid_hex : forall uid, uid < 2 ^ 32 ->
  exists ds, get_uid_as_hex uid = Ok (hex_of_digits ds) /\ decimal_of uid ds.
Proof. exact get_uid_as_hex_spec. Qed.
Print Assumptions C17_uid_hex.

(* has_line_ending / find_line_ending find exactly the first CR LF *)
Theorem C17_line_ending : forall buf,
  (has_line_ending buf = true <-> has_crlf buf)
  /\ (forall i, find_line_ending buf = Some i -> first_line buf (firstnN i buf) (skipnN (i + 2) buf))
  /\ (forall line rest, first_line buf line rest -> find_line_ending buf = Some (len line)).
Proof.
  intros buf. split; [apply has_line_ending_spec|]. split; [apply find_line_ending_first_line|apply first_line_find].
Qed.
Print Assumptions C17_line_ending.

(* which reply accepts: its first space-separated word is exactly the expected command ("OK" after AUTH,
   "AGREE_UNIX_FD" after NEGOTIATE_UNIX_FD) - the line is the word alone or the word, a space and arguments; OKAY,
   OKfoo, AGREE_UNIX_FDX, "OK<tab>guid" do not. The code's is_command is that test. *)
Theorem C17_reply_test : forall line,
  (is_command line OK_ = accepts OK_ line /\ is_command line AGREE_UNIX_FD = accepts AGREE_UNIX_FD line)
  /\ (accepts OK_ line = true <-> line = OK_ \/ exists args, line = OK_ ++ SPACE :: args)
  /\ (accepts AGREE_UNIX_FD line = true <-> line = AGREE_UNIX_FD \/ exists args, line = AGREE_UNIX_FD ++ SPACE :: args).
Proof.
  intros line. split; [split; [apply is_command_spec, OK_no_space|apply is_command_spec, AGREE_no_space]|].
  split; [apply accepts_iff, OK_no_space|apply accepts_iff, AGREE_no_space].
Qed.
Print Assumptions C17_reply_test.

(* every run against every scripted server is a conforming run of the protocol (Conn/AuthProofs.v
   [conforming]: NUL, AUTH EXTERNAL <hex>, [NEGOTIATE_UNIX_FD], BEGIN, each written only after the
   complete accepting reply ([accepted]: first CR LF terminated line, UTF-8, [accepts] the expected command) to the previous line; AuthFailed / UnixFdNegotiationFailed / error / waiting
   otherwise) *)
Theorem C17_auth_conforms : forall uid with_fd scr, uid < 2 ^ 32 ->
  exists ds, decimal_of uid ds
    /\ match connect_to_bus uid with_fd scr with
       | (res, s) => conforming (hex_of_digits ds) with_fd (log s) res
       end.
Proof. exact auth_conforms. Qed.
Print Assumptions C17_auth_conforms.

(* termination: no panic, no fuel exhaustion, at most (read pieces of the script + 4) system calls;
   the only way not to get a result is a peer that neither completes a line nor closes *)
Theorem C17_auth_terminates : forall uid with_fd scr, uid < 2 ^ 32 ->
  match connect_to_bus uid with_fd scr with
  | (res, s) => res <> CPanic /\ res <> CFuel
                /\ (length (log s) <= total_pieces scr + 4)%nat
                /\ (res = CBlocked -> stalls with_fd (replies scr))
  end.
Proof. exact auth_terminates. Qed.
Print Assumptions C17_auth_terminates.

(* ... and bounds that do not depend on the server's script at all (however long it is and whether or not it ever
   ends a line): every system call of the handshake is in the log, so the first bound is on reads + writes; the
   second is on the bytes taken from the peer. MAX_AUTH_LINE_LEN = 16384. *)
Theorem C17_auth_bounded : forall uid with_fd scr, uid < 2 ^ 32 ->
  match connect_to_bus uid with_fd scr with
  | (res, s) => len (log s) <= 2 * (MAX_AUTH_LINE_LEN + 1) + 4
                /\ len (received (log s)) <= 2 * (MAX_AUTH_LINE_LEN + 512)
  end.
Proof. exact auth_bounded. Qed.
Print Assumptions C17_auth_bounded.

(* one read_message call (fresh buffer, any socket state whose queued reads have 1..512 bytes): at most
   MAX_AUTH_LINE_LEN + 1 read calls, at most MAX_AUTH_LINE_LEN + 512 bytes buffered *)
Theorem C17_read_bounded : forall fuel s, wf s ->
  match read_message fuel s [] with
  | (r, s') => len (log s') <= len (log s) + MAX_AUTH_LINE_LEN + 1
               /\ exists d, received (log s') = received (log s) ++ d /\ len d <= MAX_AUTH_LINE_LEN + 512
  end.
Proof. exact read_message_bounded. Qed.
Print Assumptions C17_read_bounded.

(* an error while waiting for a reply line means: more than MAX_AUTH_LINE_LEN bytes without CR LF, or end of file
   before CR LF, or a complete line that is not UTF-8 *)
Theorem C17_reply_error : forall word evs,
  reply word evs AErr ->
  (exists ps, evs = map R ps /\ ~ has_crlf (concat ps) /\ MAX_AUTH_LINE_LEN < len (concat ps))
  \/ (exists ps, evs = map R ps ++ [E] /\ ~ has_crlf (concat ps))
  \/ (exists ps line dropped, evs = map R ps /\ first_line (concat ps) line dropped /\ utf8_valid line = false).
Proof. exact reply_too_long. Qed.
Print Assumptions C17_reply_error.

Theorem C17_auth_result : forall uid with_fd scr, uid < 2 ^ 32 -> responsive with_fd scr ->
  fst (connect_to_bus uid with_fd scr) <> CBlocked.
Proof. exact auth_not_blocked. Qed.
Print Assumptions C17_auth_result.

(* consequences of conformance, in the words of the property *)
(* order: the conversation is a prefix of NUL / AUTH -> r1 / NEGOTIATE -> r2 / BEGIN; the next line is
   written only after a complete, UTF-8, accepting reply; success iff the whole conversation took place *)
Theorem C17_auth_order : forall hex with_fd evs res,
  conforming hex with_fd evs res ->
  exists n r1 r2,
    segments evs = firstn n (conversation hex with_fd r1 r2)
    /\ n <> 1%nat
    /\ ((2 < n)%nat -> accepted OK_ r1)
    /\ (with_fd = true -> (3 < n)%nat -> accepted AGREE_UNIX_FD r2)
    /\ (res = COk <-> n = length (conversation hex with_fd r1 r2))
    /\ (n <= length (conversation hex with_fd r1 r2))%nat.
Proof. exact conforming_order. Qed.
Print Assumptions C17_auth_order.

(* bytes: whole lines of the expected conversation, a prefix of it, all of it exactly on success *)
Theorem C17_auth_sent : forall hex with_fd evs res,
  conforming hex with_fd evs res ->
  exists n, sent evs = concat (firstn n (client_lines hex with_fd)) /\ n <> 1%nat
            /\ (res = COk <-> sent evs = expected_bytes hex with_fd)
            /\ exists rest, sent evs ++ rest = expected_bytes hex with_fd.
Proof. exact conforming_sent. Qed.
Print Assumptions C17_auth_sent.

(* result classes *)
Theorem C17_auth_class : forall hex with_fd evs res,
  conforming hex with_fd evs res ->
  match res with
  | CAuthFailed => exists r1 line dropped, segments evs = [(NUL, []); (AUTH_LINE hex, r1)]
                     /\ first_line r1 line dropped /\ utf8_valid line = true /\ accepts OK_ line = false
  | CFdFailed => with_fd = true /\ exists r1 r2 line dropped,
                     segments evs = [(NUL, []); (AUTH_LINE hex, r1); (NEG_LINE, r2)] /\ accepted OK_ r1
                     /\ first_line r2 line dropped /\ utf8_valid line = true /\ accepts AGREE_UNIX_FD line = false
  | CBlocked => exists before w r, segments evs = before ++ [(w, r)] /\ ~ has_crlf r
  | COk | CErr => True
  | CPanic | CFuel => False
  end.
Proof. exact conforming_class. Qed.
Print Assumptions C17_auth_class.

(* never BEGIN after a rejection (or any other unacceptable complete reply line) *)
Theorem C17_auth_refusal : forall hex with_fd evs res,
  conforming hex with_fd evs res ->
  forall i w r line dropped,
    nth_error (segments evs) i = Some (w, r) -> first_line r line dropped ->
    (i = 1%nat /\ (utf8_valid line && accepts OK_ line) = false)
    \/ (i = 2%nat /\ with_fd = true /\ (utf8_valid line && accepts AGREE_UNIX_FD line) = false) ->
    ~ In BEGIN_LINE (map fst (segments evs)) /\ res <> COk.
Proof. exact conforming_refusal. Qed.
Print Assumptions C17_auth_refusal.

(* bytes of the peer: read + still queued + not yet sent = the script, in order *)
Theorem C17_auth_bytes : forall uid with_fd scr, uid < 2 ^ 32 ->
  match connect_to_bus uid with_fd scr with
  | (res, s) => received (log s) ++ unread s ++ concat (map step_bytes (future s))
                = step_bytes (greeting scr) ++ concat (map step_bytes (replies scr))
  end.
Proof. exact auth_bytes. Qed.
Print Assumptions C17_auth_bytes.

(* an accepted reply is read piece by piece up to the read that completes its first line; what that
   read carried beyond CR LF (fewer bytes than the read returned) is dropped - the only bytes the
   handshake can take from a pipelining peer *)
Theorem C17_auth_drops : forall word evs,
  reply word evs AOk ->
  exists ps line dropped, evs = map R ps /\ first_line (concat ps) line dropped
    /\ exists ps0 p, ps = ps0 ++ [p] /\ ~ has_crlf (concat ps0) /\ len dropped < len p.
Proof. exact accepted_reply_drops. Qed.
Print Assumptions C17_auth_drops.
