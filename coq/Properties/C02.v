(** C02 - Marshalled bytes are exactly the D-Bus encoding; unencodable values are refused.
    Model: Wire/Marshal.v (typed API marshal_t, dynamic API marshal_p; push_variant is
    marshal_t on a VVariant). Specification: Wire/SpecEnc.v (spec_enc). *)
From RB Require Import Base.Prelude Sig.Types Sig.Validator Wire.Bytes Wire.Align Wire.Text Wire.Value Wire.SpecEnc
  Wire.Marshal Wire.Relabel Wire.MarshalProofs Wire.Limits Wire.MarshalEncodable Wire.MarshalAccept
  Wire.HasSig Wire.Body Wire.MarshalAny.

(* typed API: whenever marshalling succeeds, the bytes appended are THE encoding of the value at the
   position given by what was written before (any buffer, both byte orders), with each descriptor
   written as its index in the message's descriptor list *)
Theorem C02_typed_bytes : forall be v, typed v -> strings_small v = true ->
  forall c c', marshal_t be v c = (c', true) -> snd (relabel v (mfds c)) <= 2 ^ 32 ->
    mbuf c' = mbuf c ++ spec_enc be (len (mbuf c)) (fst (relabel v (mfds c)))
    /\ mfds c' = snd (relabel v (mfds c)).
Proof. intros be v Ht Hs. exact (marshal_t_spec be v Ht Hs). Qed.
Print Assumptions C02_typed_bytes.

(* dynamic Param API, at any nesting depth counter *)
Theorem C02_param_bytes : forall be v d, typed v -> strings_small v = true ->
  forall c c', marshal_p be d v c = (c', true) -> snd (relabel v (mfds c)) <= 2 ^ 32 ->
    mbuf c' = mbuf c ++ spec_enc be (len (mbuf c)) (fst (relabel v (mfds c)))
    /\ mfds c' = snd (relabel v (mfds c)).
Proof. intros be v d Ht Hs. exact (marshal_p_spec be v Ht Hs d). Qed.
Print Assumptions C02_param_bytes.

(* both APIs therefore produce identical bytes for the same value *)
Theorem C02_apis_agree : forall be v d, typed v -> strings_small v = true ->
  forall c c1 c2, marshal_t be v c = (c1, true) -> marshal_p be d v c = (c2, true) ->
    snd (relabel v (mfds c)) <= 2 ^ 32 -> mbuf c1 = mbuf c2 /\ mfds c1 = mfds c2.
Proof.
  intros be v d Ht Hs c c1 c2 H1 H2 Hb.
  destruct (marshal_t_spec be v Ht Hs c c1 H1 Hb) as [-> ->].
  destruct (marshal_p_spec be v Ht Hs d c c2 H2 Hb) as [-> ->]. auto.
Qed.
Print Assumptions C02_apis_agree.

(* refusal: a string containing NUL, an invalid object path or signature, a taken descriptor, or a variant whose
   printed signature does not validate (longer than 255 bytes, nested beyond 32+32, an empty struct; the typed API checks
   this since fix ef1b771) - at any position inside the value - makes the call fail *)
Theorem C02_typed_refuses : forall be v, typed v -> (leaves_ok v = false \/ variant_sigs_ok v = false) ->
  forall c, snd (marshal_t be v c) = false.
Proof. intros be v Ht H c. exact (marshal_t_refuses_any be v c Ht H). Qed.
Print Assumptions C02_typed_refuses.

Theorem C02_param_refuses : forall be v d, typed v -> (leaves_ok v = false \/ variant_sigs_ok v = false) ->
  forall c, snd (marshal_p be d v c) = false.
Proof. intros be v d Ht H c. exact (marshal_p_refuses_any be d v c Ht H). Qed.
Print Assumptions C02_param_refuses.

(* acceptance - the converse: a well-typed value whose leaves are acceptable and whose array / dict bodies
   (laid out from the position where the value is written; measured from the first element after the padding
   that follows the length field) are all within 64 MiB IS marshalled. Neither string lengths nor the number
   of descriptors are conditions: the code truncates them with 'as u32' (C02_*_bytes need them for the bytes) *)
Theorem C02_typed_accepts : forall be v c, typed v -> leaves_ok v = true -> variant_sigs_ok v = true ->
  arrays_within be (len (mbuf c)) v = true -> snd (marshal_t be v c) = true.
Proof. exact marshal_t_accepts. Qed.
Print Assumptions C02_typed_accepts.

(* the Param API additionally counts nesting *)
Theorem C02_param_accepts : forall be depth v c, typed v -> leaves_ok v = true -> variant_sigs_ok v = true ->
  nest_ok depth v = true -> arrays_within be (len (mbuf c)) v = true -> snd (marshal_p be depth v c) = true.
Proof. exact marshal_p_accepts. Qed.
Print Assumptions C02_param_accepts.

(* exactly when *)
Theorem C02_typed_exactly : forall be v c, typed v ->
  (snd (marshal_t be v c) = true
   <-> leaves_ok v = true /\ variant_sigs_ok v = true /\ arrays_within be (len (mbuf c)) v = true).
Proof. exact marshal_t_exactly. Qed.
Print Assumptions C02_typed_exactly.

Theorem C02_param_exactly : forall be depth v c, typed v ->
  (snd (marshal_p be depth v c) = true
   <-> leaves_ok v = true /\ variant_sigs_ok v = true /\ nest_ok depth v = true
       /\ arrays_within be (len (mbuf c)) v = true).
Proof. exact marshal_p_exactly. Qed.
Print Assumptions C02_param_exactly.

(** ** every Param tree: no typing hypothesis. A Param tree is a [val]; [payloads_ok] is what Rust's Base enum
    guarantees about leaves by construction (a fixed-width leaf holds a number of its width, a boolean 0/1, a text
    leaf holds text). Ill-typed trees ARE expressible through the dynamic API (free element lists, public fields of
    params::Variant); the marshaller itself enforces typing: validate_array / validate_dict, and since fix 35497e7
    the variant's declared signature against its value's. *)
Theorem C02_param_typed : forall be v d c c', payloads_ok v = true -> marshal_p be d v c = (c', true) -> typed v.
Proof. exact marshal_p_typed'. Qed.
Print Assumptions C02_param_typed.

Theorem C02_param_bytes_any : forall be v d c c', payloads_ok v = true -> strings_small v = true ->
  marshal_p be d v c = (c', true) -> snd (relabel v (mfds c)) <= 2 ^ 32 ->
  mbuf c' = mbuf c ++ spec_enc be (len (mbuf c)) (fst (relabel v (mfds c)))
  /\ mfds c' = snd (relabel v (mfds c)).
Proof. exact marshal_p_bytes_any. Qed.
Print Assumptions C02_param_bytes_any.

Theorem C02_param_exactly_any : forall be depth v c, payloads_ok v = true ->
  (snd (marshal_p be depth v c) = true
   <-> typed v /\ leaves_ok v = true /\ variant_sigs_ok v = true /\ nest_ok depth v = true
       /\ arrays_within be (len (mbuf c)) v = true).
Proof. exact marshal_p_exactly_any. Qed.
Print Assumptions C02_param_exactly_any.

(* the public entry points marshal_param / marshal_container_param (push_old_param goes through them): the shape
   check of fix 5849d4e first; success additionally needs that no struct is empty *)
Theorem C02_param_top_exactly : forall be v c, payloads_ok v = true ->
  (snd (marshal_param_top be v c) = true
   <-> typed v /\ no_empty_struct v = true /\ leaves_ok v = true /\ variant_sigs_ok v = true
       /\ nest_ok 0 v = true /\ arrays_within be (len (mbuf c)) v = true).
Proof. exact marshal_param_top_exactly. Qed.
Print Assumptions C02_param_top_exactly.

(* a failed entry check (empty struct, or a container at nesting level 64) has written nothing *)
Theorem C02_param_top_check_unchanged : forall be v c, shape_ok 0 v = false -> marshal_param_top be v c = (c, false).
Proof. exact marshal_param_top_unchanged. Qed.
Print Assumptions C02_param_top_check_unchanged.

Theorem C02_param_top_bytes_any : forall be v c c', payloads_ok v = true -> strings_small v = true ->
  marshal_param_top be v c = (c', true) -> snd (relabel v (mfds c)) <= 2 ^ 32 ->
  mbuf c' = mbuf c ++ spec_enc be (len (mbuf c)) (fst (relabel v (mfds c)))
  /\ mfds c' = snd (relabel v (mfds c)).
Proof. exact marshal_param_top_bytes_any. Qed.
Print Assumptions C02_param_top_bytes_any.

(* a struct without fields anywhere in the tree (array elements, struct fields, dict values, variant values): refused,
   nothing written - where Param::sig() used to panic *)
Theorem C02_param_empty_struct_refused : forall be v c, no_empty_struct v = false -> marshal_param_top be v c = (c, false).
Proof. exact param_empty_struct_refused. Qed.
Print Assumptions C02_param_empty_struct_refused.

(* bytes AND signature: a successful push appends to the body signature exactly the printed type of the value whose
   encoding it appended (typed API: the Rust type's signature, which is the value's type; dynamic API: Param::sig()) *)
Theorem C02_signature : forall b b',
  (forall t v, wt v t = true -> push_param b (t, v) = (b', true) ->
     bsig b' = bsig b ++ to_str (ty_of v) /\ wt v (ty_of v) = true)
  /\ (forall v, payloads_ok v = true -> push_old_param b v = (b', true) ->
     bsig b' = bsig b ++ to_str (ty_of v) /\ wt v (ty_of v) = true).
Proof. exact push_sig_is_type. Qed.
Print Assumptions C02_signature.
