(** C14 - RpcConn delivers every accepted message exactly once to the right consumer.
    Model: Conn/Rpc.v (rpc_conn.rs: try_get_response, wait_response, try_get_signal, wait_signal,
    try_get_call, wait_call, insert_message_or_send_error, try_refill_once, refill_once, refill_all;
    standard_messages::unknown_method).  Specification: Conn/RpcSpec.v (two FIFO containers, one set of
    pending replies, the socket; every operation in one step).  Proofs: Conn/RpcProofs.v (refinement),
    Conn/RpcConsequences.v (what the specification implies).
    The receive and send sides below RpcConn are black boxes here (C09, C10). *)
From RB Require Import Base.Prelude Conn.Rpc Conn.RpcSpec Conn.RpcProofs Conn.RpcConsequences.
From Coq Require Import Permutation.

(* For every filter and every sequence of operations and arrivals (arrivals: message types the wire
   can carry, replies/errors with a reply serial, no two with the same one; waits may time out after
   any number of refills): the model of RpcConn does not panic and every operation returns - and
   writes to the wire - exactly what the specification says; the final states correspond. *)
Theorem C14_refines : forall (filter : rmsg -> bool) (ops : list op),
  Forall valid_msg (arrivals ops) -> distinct_reply_serials (arrivals ops) ->
  exists st', run filter ops = Ok (fst (srun filter ops), st') /\ R st' (snd (srun filter ops)).
Proof. exact refinement. Qed.
Print Assumptions C14_refines.

(* What that means for every such run: signals and calls are handed out in arrival order; replies and
   errors once, and only to the operation that names their reply serial; everything accepted that was
   read is either handed out exactly once or still waiting in exactly one container - so a rejected
   message is never handed out; and the unknown-method errors written to the wire or returned by
   refill_all are exactly one per rejected call, in order. *)
Theorem C14_exactly_once : forall (filter : rmsg -> bool) (ops : list op),
  Forall valid_msg (arrivals ops) -> distinct_reply_serials (arrivals ops) ->
  exists outs st' C,
    run filter ops = Ok (outs, st')
    /\ C ++ avail st' = arrivals ops
    /\ sigs_out ops outs ++ signals st' = List.filter (accepted_signal filter) C
    /\ calls_out ops outs ++ calls st' = List.filter (accepted_call filter) C
    /\ Permutation (resps_out ops outs ++ map snd (responses st')) (List.filter (accepted_response filter) C)
    /\ routes_ok filter ops outs
    /\ Permutation (sigs_out ops outs ++ calls_out ops outs ++ resps_out ops outs
                    ++ signals st' ++ calls st' ++ map snd (responses st'))
                   (List.filter filter C)
    /\ errors_out outs = map unknown_method (List.filter (rejected_call filter) C).
Proof. exact rpc_exactly_once. Qed.
Print Assumptions C14_exactly_once.

(* each of those errors answers its call: reply serial = the call's serial, destination = the call's
   sender, error name org.freedesktop.DBus.Error.UnknownMethod *)
Theorem C14_error_addressed : forall call : rmsg,
  e_reply (unknown_method call) = r_serial call /\ e_dest (unknown_method call) = r_sender call
  /\ e_name (unknown_method call) = str_unknown_method.
Proof. exact unknown_method_addressed. Qed.
Print Assumptions C14_error_addressed.

(* the same consequences hold for the specification itself, whatever the arrivals *)
Theorem C14_spec_meaning : forall (filter : rmsg -> bool) (ops : list op),
  let outs := fst (srun filter ops) in let ss := snd (srun filter ops) in
  exists C, C ++ sock ss = arrivals ops
    /\ sigs_out ops outs ++ q_signals ss = List.filter (accepted_signal filter) C
    /\ calls_out ops outs ++ q_calls ss = List.filter (accepted_call filter) C
    /\ Permutation (resps_out ops outs ++ pending ss) (List.filter (accepted_response filter) C)
    /\ routes_ok filter ops outs
    /\ errors_out outs = map unknown_method (List.filter (rejected_call filter) C).
Proof. exact spec_consequences. Qed.
Print Assumptions C14_spec_meaning.
