(** C19 - Dispatch routes each call to the matching handler and replies exactly once.
    Model: Conn/Dispatch.v (ObjectPathPattern::{new,matches}, PathMatcher::{insert,get_match},
    DispatchConn::{add_handler,run}), Conn/DispatchMsg.v (DynamicHeader::make_response).
    Specification: Conn/DispatchSpec.v (PartOf, Matches, CapsOf, Chosen, RoutesAfter, RunSpec). *)
From RB Require Import Base.Prelude Conn.DispatchMsg Conn.Dispatch Conn.DispatchSpec Conn.DispatchProofs.
From Coq Require Import Permutation.

(* a pattern string is split at '/' and every segment becomes the part the text describes *)
Theorem C19_pattern : forall p, Forall2 PartOf (split_on slash p) (pattern_new p) /\ pattern_new p <> [].
Proof. intros p. split; [apply pattern_new_spec|apply pattern_new_nonempty]. Qed.
Print Assumptions C19_pattern.

(* the matcher accepts exactly the queries that match segment by segment, and returns exactly the
   last capture of every name; it never panics *)
Theorem C19_matcher : forall p q,
  (forall c, matches (pattern_new p) q = Ok c -> MatchesCaps (pattern_new p) q c)
  /\ (forall raw, Matches (pattern_new p) (split_on slash q) raw ->
        exists c, matches (pattern_new p) q = Ok c /\ CapsOf raw c)
  /\ (matches (pattern_new p) q = Err <-> NoMatch (pattern_new p) q)
  /\ ((exists c, matches (pattern_new p) q = Ok c) \/ matches (pattern_new p) q = Err).
Proof.
  intros p q. pose proof (pattern_new_nonempty p) as Hne. split; [|split; [|split]].
  - intros c. now apply matches_sound.
  - intros raw. now apply matches_complete.
  - now apply matches_none.
  - now apply matches_total.
Qed.
Print Assumptions C19_matcher.

(* the captures of a match are determined by pattern and query *)
Theorem C19_matcher_functional : forall pat q r1 r2, Matches pat q r1 -> Matches pat q r2 -> r1 = r2.
Proof. exact Matches_fun. Qed.
Print Assumptions C19_matcher_functional.

(* run(): for every handler behaviour and every iteration order of the two hash maps, the run is
   total and behaves as RunSpec says: each message goes to exactly one handler, a matching one if
   there is one and the default otherwise; a successful handler leads to exactly one written
   message (its own, or the empty reply with the call's serial to its sender) and its routes apply
   from the next message on; a failing handler ends the run, nothing is written for it and its
   routes are dropped *)
Theorem C19_run : forall oracle perm perm_new,
  (forall i l, Permutation (perm i l) l) -> (forall i l, Permutation (perm_new i l) l) ->
  forall msgs i R, WF R ->
  exists log wr Rf e, run_loop oracle perm perm_new i msgs R = Ok (log, wr, Rf, e)
                      /\ RunSpec oracle i R msgs log wr Rf e /\ WF Rf.
Proof. exact run_loop_spec. Qed.
Print Assumptions C19_run.

(* routing tables built by add_handler are well formed *)
Theorem C19_add_handler : forall s h R, WF R -> WF (add_handler s h R).
Proof. exact add_handler_WF. Qed.
Print Assumptions C19_add_handler.

(* when exactly one pattern matches, that handler is the one called *)
Theorem C19_singleton : forall R m who c obj p0 h0,
  NoDup (map fst R) -> dh_object (m_dh m) = Some obj -> Chosen R m who c ->
  In (p0, h0) R -> ~ NoMatch p0 obj -> (forall p h, In (p, h) R -> ~ NoMatch p obj -> p = p0) ->
  who = HRoute h0 /\ MatchesCaps p0 obj c.
Proof. exact chosen_singleton. Qed.
Print Assumptions C19_singleton.

(* one invocation per processed message, in arrival order; one written message per success; the
   run ends only when the connection closes (everything processed) or at the first failing handler *)
Theorem C19_counts : forall oracle i R msgs log wr Rf e, RunSpec oracle i R msgs log wr Rf e ->
  map ev_msg log = firstn (length log) msgs
  /\ match e with
     | EndRecv => length log = length msgs /\ length wr = length msgs
     | EndHandlerErr => length log = S (length wr) /\ (length log <= length msgs)%nat
     end.
Proof. exact runspec_counts. Qed.
Print Assumptions C19_counts.

(* the k-th written message answers the k-th invocation: the handler's own message or the empty reply *)
Theorem C19_replies : forall oracle i R msgs log wr Rf e, RunSpec oracle i R msgs log wr Rf e ->
  Forall2 (fun ev r => exists j res ins, oracle j (ev_handler ev) (ev_caps ev) (ev_msg ev) = (res, ins)
                        /\ match res with HSome hr => r = hr | HNone => EmptyReplyTo (ev_msg ev) r | HErr => False end)
          (firstn (length wr) log) wr.
Proof. exact runspec_replies. Qed.
Print Assumptions C19_replies.
