(** C12 — a shared UnixFd is taken at most once, closed exactly once, in any interleaving.
    Model: Fd/Concurrent.v (one [step] = one atomic action of unixfd.rs; every UnixFd object,
    the shared one and those returned by dup, has its own cell and strong count).
    Proofs: Fd/ConcurrentProofs.v. [object_safe] is defined there (clauses (a), (c), (d), (e) for one object). *)
From RB Require Import Base.Prelude Fd.Concurrent Fd.ConcurrentProofs.

Local Close Scope N_scope.
Local Open Scope nat_scope.

(** For any number of threads, any programs (including dup calls that fail) and any schedule, at
    every point of the execution, for the shared object (o = 0) and every object a dup created. *)
Theorem C12_any_interleaving : forall (fd0 : Z) (progs : list (list op)) (sched : list nat),
  (0 <= fd0)%Z ->
  let c := exec sched (init fd0 progs) in
  1 <= length (objs (sh c)) /\ obj_fd fd0 0 = fd0
  /\ (forall t i o v, In (EvRet t i o (RTake (Some v))) (trace c) -> v = obj_fd fd0 o)
  /\ (forall t i o v, In (EvRet t i o (RGet (Some v))) (trace c) -> v = obj_fd fd0 o)
  /\ (forall pre tk o v mid t i mid2 r post,
        trace c = pre ++ EvTakeCas tk o v :: mid ++ EvStart t i o :: mid2 ++ EvRet t i o r :: post -> gone r)
  /\ (forall pre t i o r post, trace c = pre ++ EvRet t i o r :: post -> In (EvStart t i o) pre)
  /\ (forall t o fd, In (EvClose t o fd) (trace c) -> o < length (objs (sh c)) /\ fd = obj_fd fd0 o)
  /\ (forall pre t o fd post, trace c = pre ++ EvClose t o fd :: post -> In (EvDecZero t o) pre)
  /\ (forall fd, length (closes_of_fd fd c) <= 1)
  /\ (forall t o src new, In (EvDupSys t o src new) (trace c) ->
        src = obj_fd fd0 o /\ exists o', o' < length (objs (sh c)) /\ 0 < o' /\ new = obj_fd fd0 o')
  /\ (forall t o src, In (EvDupFail t o src) (trace c) -> src = obj_fd fd0 o)
  /\ (forall o, o < length (objs (sh c)) ->
        length (successful_takes o c) <= 1
        /\ length (take_swaps o c) <= 1
        /\ length (successful_takes o c) <= length (take_swaps o c)
        /\ length (closes o c) <= 1
        /\ length (last_drops o c) <= 1
        /\ (strong (get_obj (sh c) o) = 0 <-> all_handles_dropped o c)
        /\ (~ all_handles_dropped o c -> closes o c = [])
        /\ (take_swaps o c <> [] -> closes o c = [])
        /\ (successful_takes o c <> [] -> closes o c = [])).
Proof. exact c12_safety. Qed.
Print Assumptions C12_any_interleaving.

(** After the schedule and the run-to-completion phase, for programs that respect ownership. *)
Theorem C12_completed_run : forall (fd0 : Z) (progs : list (list op)) (sched : list nat),
  (0 <= fd0)%Z -> progs <> [] -> ownership_respected progs = true ->
  let c := run sched (init fd0 progs) in
  all_finished c = true
  /\ (forall t i o, ~ In (EvRet t i o RInvalid) (trace c))
  /\ (forall o, o < length (objs (sh c)) ->
        (take_swaps o c = [] -> all_handles_dropped o c -> exists t, closes o c = [EvClose t o (obj_fd fd0 o)])
        /\ (~ all_handles_dropped o c -> closes o c = [])
        /\ (take_swaps o c <> [] -> length (successful_takes o c) = 1 /\ closes o c = [])).
Proof. exact c12_complete. Qed.
Print Assumptions C12_completed_run.

(** [run] is [exec] on a longer schedule, so C12_any_interleaving covers completed runs too. *)
Theorem C12_run_is_exec : forall (sched : list nat) (c : cfg),
  run sched c = exec (sched ++ completion (exec sched c)) c.
Proof. exact run_is_exec. Qed.
Print Assumptions C12_run_is_exec.

(** A dup(2) call that fails changes no object, no descriptor table entry and no handle. *)
Theorem C12_failed_dup_changes_nothing : forall (t : nat) (th : thread) (s : shared) (o : nat) (v : Z),
  pc th = DupSys o v true ->
  objs (snd (step_thread t th s)) = objs s /\ next_fd (snd (step_thread t th s)) = next_fd s
  /\ live (fst (step_thread t th s)) = live th.
Proof. exact dup_fail_no_effect. Qed.
Print Assumptions C12_failed_dup_changes_nothing.
