(** C12 — a shared UnixFd is taken at most once, closed exactly once, in any interleaving.
    Model: Fd/Concurrent.v (one [step] = one atomic action of unixfd.rs). Proofs: Fd/ConcurrentProofs.v. *)
From RB Require Import Base.Prelude Fd.Concurrent Fd.ConcurrentProofs.

Local Close Scope N_scope.
Local Open Scope nat_scope.

(** For any number of threads, any programs and any schedule, at every point of the execution. *)
Theorem C12_any_interleaving : forall (fd0 : Z) (progs : list (list op)) (sched : list nat),
  fd0 <> FD_INVALID ->
  let c := exec sched (init fd0 progs) in
  length (successful_takes c) <= 1
  /\ length (take_swaps c) <= 1
  /\ length (successful_takes c) <= length (take_swaps c)
  /\ (forall t i v, In (EvRet t i (RTake (Some v))) (trace c) -> v = fd0)
  /\ (forall t i v, In (EvRet t i (RGet (Some v))) (trace c) -> v = fd0)
  /\ (forall pre tk v mid t i mid2 r post,
        trace c = pre ++ EvTakeCas tk v :: mid ++ EvStart t i :: mid2 ++ EvRet t i r :: post -> gone r)
  /\ (forall pre t i r post, trace c = pre ++ EvRet t i r :: post -> In (EvStart t i) pre)
  /\ length (closes c) <= 1
  /\ (forall t fd, In (EvClose t fd) (trace c) -> fd = fd0)
  /\ (forall t s n, In (EvDupSys t s n) (trace c) ->
        s = fd0 /\ n <> fd0 /\ forall t' fd, In (EvClose t' fd) (trace c) -> fd <> n)
  /\ (forall pre t fd post, trace c = pre ++ EvClose t fd :: post -> In (EvDecZero t) pre)
  /\ length (last_drops c) <= 1
  /\ (strong (sh c) = 0 <-> all_handles_dropped c)
  /\ (~ all_handles_dropped c -> closes c = [])
  /\ (take_swaps c <> [] -> closes c = [])
  /\ (successful_takes c <> [] -> closes c = []).
Proof. exact c12_safety. Qed.
Print Assumptions C12_any_interleaving.

(** After the schedule and the run-to-completion phase, for programs that respect ownership. *)
Theorem C12_completed_run : forall (fd0 : Z) (progs : list (list op)) (sched : list nat),
  fd0 <> FD_INVALID -> progs <> [] -> ownership_respected progs = true ->
  let c := run sched (init fd0 progs) in
  all_finished c = true
  /\ (forall t i, ~ In (EvRet t i RInvalid) (trace c))
  /\ (take_swaps c = [] -> all_handles_dropped c -> exists t, closes c = [EvClose t fd0])
  /\ (~ all_handles_dropped c -> closes c = [])
  /\ (take_swaps c <> [] -> length (successful_takes c) = 1 /\ closes c = []).
Proof. exact c12_complete. Qed.
Print Assumptions C12_completed_run.

(** [run] is [exec] on a longer schedule, so C12_any_interleaving covers completed runs too. *)
Theorem C12_run_is_exec : forall (sched : list nat) (c : cfg),
  run sched c = exec (sched ++ completion (exec sched c)) c.
Proof. exact run_is_exec. Qed.
Print Assumptions C12_run_is_exec.
