(** C11 — descriptors stay with their own message and are never leaked or double-closed.
    Model: Fd/Table.v (process: descriptor table, UnixFdInner objects, handles and their owners),
    Fd/History.v (operations; the specification vocabulary [closes], [lib_owned], [taken],
    [caller_fds], [held], [live_handles], [sent_msgs]/[recv_msgs], [pushed], [frame]).
    Proofs: Fd/TableProofs.v. Every statement is about [run ops init] for an ARBITRARY list of
    operations (operations naming something that does not exist are skipped by the model, so no
    well-formedness hypothesis is needed). One thread; the concurrent case is C12. *)
From RB Require Import Base.Prelude Fd.Table Fd.History Fd.TableProofs History.SendTakenOld.

(** In every state of every history. *)
Theorem C11_history : forall ops,
  let s := run ops init in
  (* the caller's descriptors (opened by it or taken back, not closed by it, not given to
     UnixFd::new) are open, are not closed by the library, are not held by a library object *)
  (forall f, In f (caller_fds s) -> tab s f <> None /\ ~ In f (closes s) /\ ~ held s f)
  (* and still refer to the file they were opened for *)
  /\ (forall f o, In (EvOpen f o) (log s) -> In f (caller_fds s) -> tab s f = Some o)
  (* a descriptor held by an object that still has a live handle is open, has not been closed and is
     library-owned: the close happens when the last handle is dropped, NOT BEFORE *)
  /\ (forall f, held s f -> tab s f <> None /\ ~ In f (closes s) /\ In f (lib_owned s))
  (* the library never closes a descriptor twice, and only descriptors it owns; they are closed then *)
  /\ NoDup (closes s)
  /\ (forall f, In f (closes s) -> In f (lib_owned s) /\ tab s f = None)
  (* no leak: a descriptor the library owns is taken, or held by an object with a live handle, or closed;
     every open descriptor belongs to the caller or is so held *)
  /\ (forall f, In f (lib_owned s) -> In f (taken s) \/ held s f \/ In f (closes s))
  /\ (forall f, tab s f <> None -> In f (caller_fds s) \/ held s f)
  (* the strong count is the number of live handles; an object without handles holds nothing;
     a descriptor is held by at most one object *)
  /\ (forall o, strong (objs s o) = live_handles s o)
  /\ (forall o, live_handles s o = 0%nat -> cell (objs s o) = None)
  /\ (forall o o' f, cell (objs s o) = Some f -> cell (objs s o') = Some f -> o = o')
  (* when every handle has been dropped, every library-owned descriptor that was not taken
     has been closed exactly once *)
  /\ (all_dropped s -> forall f, In f (lib_owned s) -> ~ In f (taken s) ->
        count_occ N.eq_dec (closes s) f = 1%nat /\ tab s f = None)
  (* the k-th received message carries exactly the files attached to the k-th sent message *)
  /\ (forall k l, nth_error (recv_msgs s) k = Some l -> nth_error (sent_msgs s) k = Some l)
  /\ (length (sent_msgs s) = length (recv_msgs s) + length (wire s))%nat.
Proof. exact c11_state. Qed.
Print Assumptions C11_history.

(** A successful push duplicates: see [pushed] (new number, same open file, source untouched,
    duplicate at position = index written); nothing that existed before changes. *)
Theorem C11_push_ok : forall ops b its s' idxs,
  let s := run ops init in
  step s (Push b its) = (s', RPushed idxs) ->
  exists bd news,
    lookup_b s b = Some bd
    /\ lookup_b s' b = Some (mkBody (bfds bd ++ news) (bidx bd ++ idxs))
    /\ pushed s s' (len (bfds bd)) its news idxs
    /\ frame s s'
    /\ (forall b', b' <> b -> nth_error (bods s') b' = nth_error (bods s) b').
Proof. intros ops b its s' idxs s. apply push_ok. apply run_inv0. Qed.
Print Assumptions C11_push_ok.

(** The index written is the position, and reading it back yields the duplicate's handle
    (as long as positions fit the u32 the index is stored in). *)
Theorem C11_index_is_position : forall s s' its pos news idxs pre,
  pushed s s' pos its news idxs -> len pre = pos -> len (pre ++ news) <= 2 ^ 32 ->
  forall j o idx, nth_error news j = Some o -> nth_error idxs j = Some idx ->
    idx = pos + N.of_nat j /\ read_unixfd (pre ++ news) idx = Some o.
Proof. intros s s' its. exact (pushed_read s s' its). Qed.
Print Assumptions C11_index_is_position.

(** A failed push (an element that cannot be marshalled at any position) leaves nothing behind:
    body, caller's variables and descriptors, all objects and the whole descriptor table are as
    before, i.e. every duplicate made on the way has been closed. *)
Theorem C11_push_fail : forall ops b its s',
  let s := run ops init in
  step s (Push b its) = (s', RErr) ->
  bods s' = bods s /\ hnd s' = hnd s /\ cfds s' = cfds s
  /\ (forall f, tab s' f = tab s f)
  /\ (forall o, (o < nobj s)%nat -> objs s' o = objs s o).
Proof. intros ops b its s' s. apply push_fail. apply run_inv0. Qed.
Print Assumptions C11_push_fail.

(** Sending: a body one of whose handles was taken is refused (Err, nothing on the wire, nothing
    changed). A message that is sent carries ALL the descriptors of the body's list, in order (the
    first sendmsg gets exactly the list's descriptors, the kernel one open file per descriptor),
    UNIX_FDS is their number (at most 253), and the sender's state is untouched. *)
Theorem C11_send : forall ops b bd s' r,
  let s := run ops init in
  lookup_b s b = Some bd -> step s (Send b) = (s', r) ->
  ((exists o, In o (bfds bd) /\ cell (objs s o) = None) -> r = RErr /\ s' = s)
  /\ (forall hdr n, r = RSent hdr n ->
        map (fun o => cell (objs s o)) (bfds bd) = map Some (get_raw_fds s bd)
        /\ hdr = len (bfds bd) /\ n = hdr /\ n <= SCM_MAX_FD
        /\ wire s' = wire s ++ [(ofds_of s (get_raw_fds s bd), bidx bd)]
        /\ map Some (ofds_of s (get_raw_fds s bd)) = map (tab s) (get_raw_fds s bd)
        /\ len (ofds_of s (get_raw_fds s bd)) = n
        /\ tab s' = tab s /\ objs s' = objs s /\ hnd s' = hnd s /\ cfds s' = cfds s /\ bods s' = bods s
        /\ closes s' = closes s)
  /\ (r = RErr \/ exists hdr n, r = RSent hdr n).
Proof. intros ops b bd s' r s. apply send_spec. apply run_inv0. Qed.
Print Assumptions C11_send.

(** Before commit 955c136 the message of such a body was sent, announcing more descriptors than it
    carried (History/SendTakenOld.v). *)
Theorem C11_old_send_refuted :
  exists ops b hdr n, snd (send_old (run ops init) b) = RSent hdr n /\ n <> hdr
    /\ wire (fst (send_old (run ops init) b)) = [([], [0])].
Proof. exact SendTakenOld.C11_old_send_refuted. Qed.
Print Assumptions C11_old_send_refuted.

(** Receiving: the new message owns fresh descriptors for exactly the files attached to the
    oldest message in flight, in order, each with exactly one handle (the one in this message);
    nothing else changes. *)
Theorem C11_recv : forall ops s' b ofds idxs w,
  let s := run ops init in
  wire s = (ofds, idxs) :: w -> step s Recv = (s', RBody b) ->
  lookup_b s b = None
  /\ exists bd, lookup_b s' b = Some bd /\ bidx bd = idxs /\ wire s' = w
       /\ ofds_of s' (get_raw_fds s' bd) = ofds
       /\ length (bfds bd) = length ofds
       /\ NoDup (bfds bd)
       /\ (forall o, In o (bfds bd) ->
             live_handles s' o = 1%nat /\ (nobj s <= o)%nat
             /\ exists f, cell (objs s' o) = Some f /\ nfd s <= f /\ tab s f = None)
       /\ (forall o, (o < nobj s)%nat -> objs s' o = objs s o)
       /\ (forall f, f < nfd s -> tab s' f = tab s f)
       /\ hnd s' = hnd s /\ cfds s' = cfds s
       /\ (forall b', (b' < length (bods s))%nat -> nth_error (bods s') b' = nth_error (bods s) b').
Proof. intros ops s' b ofds idxs w s. apply recv_spec. apply run_inv0. Qed.
Print Assumptions C11_recv.

(** Reading a descriptor: an index beyond the message's list is an error (and changes nothing);
    otherwise the result is one more handle to the object at that index — no new descriptor. *)
Theorem C11_unmarshal : forall ops b bd idx s' r,
  let s := run ops init in
  lookup_b s b = Some bd -> step s (Unmarshal b idx) = (s', r) ->
  (len (bfds bd) <= idx -> r = RErr /\ s' = s)
  /\ (idx < len (bfds bd) ->
      exists o, nth_error (bfds bd) (N.to_nat idx) = Some o /\ r = RHandle (length (hnd s))
                /\ lookup_h s' (length (hnd s)) = Some o
                /\ cell (objs s' o) = cell (objs s o) /\ strong (objs s' o) = S (strong (objs s o))
                /\ tab s' = tab s /\ bods s' = bods s /\ cfds s' = cfds s).
Proof. intros ops b bd idx s' r s. apply unmarshal_spec. apply run_inv0. Qed.
Print Assumptions C11_unmarshal.

(** The dynamic Param API ([parser().get_param()], also inside arrays, structs, dict entries and
    variants, and [MarshalledMessage::unmarshall_all]) decodes a descriptor with the same
    [read_unixfd] call as the typed API (wire/unmarshal/param/base.rs). [decoded]: one new variable
    per stored index, each one more handle on the object AT that index of the message's own list
    (strong + number of occurrences), no descriptor created, closed or changed; a stored index beyond
    the list makes the whole call fail and nothing changes. *)
Theorem C11_decode : forall ops b bd k s' r,
  let s := run ops init in
  lookup_b s b = Some bd -> (k <= length (bidx bd))%nat -> step s (Decode b k) = (s', r) ->
  ((exists i, In i (firstn k (bidx bd)) /\ len (bfds bd) <= i) -> r = RErr /\ s' = s)
  /\ ((forall i, In i (firstn k (bidx bd)) -> i < len (bfds bd)) -> decoded s s' bd (firstn k (bidx bd)) r).
Proof. intros ops b bd k s' r s. apply decode_spec. Qed.
Print Assumptions C11_decode.

(** [unmarshall_all] consumes the message: on success the list lives on (in [Message.raw_fds]) next
    to the decoded values; on failure the message is dropped like any other (no leak: C11_history). *)
Theorem C11_decode_owned : forall ops b bd s' r,
  let s := run ops init in
  lookup_b s b = Some bd -> step s (DecodeOwned b) = (s', r) ->
  ((exists i, In i (bidx bd) /\ len (bfds bd) <= i) -> r = RErr /\ s' = fst (step s (DropBody b)))
  /\ ((forall i, In i (bidx bd) -> i < len (bfds bd)) -> decoded s s' bd (bidx bd) r).
Proof. intros ops b bd s' r s. apply decode_owned_spec. Qed.
Print Assumptions C11_decode_owned.
