(** C04 - No input bytes can crash, hang or exhaust a decoder.
    Models: Wire/Decode.v (raw validation), Wire/Unmarshal.v (Param decoder, typed decoder over the type algebra [ety]),
    Wire/HasSig.v, Wire/Body.v (has_sig of the typed impls and derived structs, MessageBodyParser), Sig/Parser.v,
    Sig/Validator.v, Sig/Iter.v, Wire/Derive.v, Wire/Enums.v (derived structs; derive / dbus_variant_sig! / dbus_variant_var! enums).
    In the models every Rust index / slice / unwrap that input could reach is an
    explicit [Panic] and every loop runs on fuel ([OutOfFuel]); [ok_or_err] says the outcome is a value or an error.
    Unsafe code: after fix b23f55c the slice fast path copies the elements (Vec<E>) or tests the address before it
    borrows (Cow<[E]>: same value, not modelled separately), so the model has no [UB] outcome left to exclude; the
    memory-address dimension (all 8 phases, debug-assertion and optimised build) is covered by the check. Totality of the three decoders: Wire/DecodeTotal.v (prover-c03); of the signature
    functions: C07; the body parser: Wire/ParserTotal.v; resource bounds: Wire/LimitsProofs.v, C18.
    Scope: [ety] is a finite tree, i.e. exactly the Rust types that do not contain themselves; for self-referential
    user types the typed decoders' recursion depth is chosen by the message (known finding D21, not covered).
    Header entry points: C06. Stack bytes per level and time per step are measured by the check, not proved. *)
From RB Require Import Base.Prelude Sig.Types Sig.Parser Sig.ParserProofs Sig.Validator Sig.ValidatorProofs Sig.Iter
  Wire.Value Wire.SpecEnc Wire.Marshal Wire.Decode Wire.Unmarshal Wire.Relabel Wire.Ops Wire.DecodeSoundLemmas Wire.DecodeTotal
  Wire.HasSig Wire.HasSigProofs Wire.Body Wire.ParserTotal Wire.Bytes Wire.Align Wire.Derive Wire.Enums Wire.EnumsTotal
  Wire.Limits Wire.LimitsProofs Wire.LimitsBounds Wire.Steps Wire.StepsProofs Wire.StepsParam Wire.StepsParamProofs Wire.StepsTyped Wire.StepsTypedProofs.

(* raw validation: any bytes, any offset inside the buffer, any (well-formed) type, both byte orders *)
Theorem C04_total_validate : forall be off buf t, wf t = true -> off <= len buf ->
  ok_or_err (validate_marshalled be off buf t).
Proof. exact validate_marshalled_total. Qed.
Print Assumptions C04_total_validate.

(* the Param decoder (unmarshal_with_sig), at the fuel the operations use *)
Theorem C04_total_param : forall be t c, wf t = true -> uoff c <= len (ubuf c) -> ok_or_err (unmarshal_p 66 be t c).
Proof. exact unmarshal_p_total_66. Qed.
Print Assumptions C04_total_param.

(* the typed decoder, for every Rust type of the algebra (at most 65 Variant<..> nested in the type itself) *)
Theorem C04_total_typed : forall be e c, ewf e = true -> uoff c <= len (ubuf c) -> (evars e <= 65)%nat ->
  ok_or_err (unmarshal_t 66 be e c).
Proof. exact unmarshal_t_total_66. Qed.
Print Assumptions C04_total_typed.

(* every successful decode consumes at least one byte and stays inside the buffer: the element loops make progress,
   so they end after at most as many rounds as the region has bytes *)
Theorem C04_progress : forall be,
  (forall t off buf n, wf t = true -> off <= len buf -> validate_marshalled be off buf t = Ok n -> 1 <= n /\ off + n <= len buf)
  /\ (forall t c v c', wf t = true -> uoff c <= len (ubuf c) -> unmarshal_p 66 be t c = Ok (v, c') ->
        uoff c < uoff c' <= len (ubuf c))
  /\ (forall e c v c', ewf e = true -> uoff c <= len (ubuf c) -> (evars e <= 65)%nat -> unmarshal_t 66 be e c = Ok (v, c') ->
        uoff c < uoff c' <= len (ubuf c)).
Proof. exact decoders_progress. Qed.
Print Assumptions C04_progress.

(* body parser on a body whose signature passed validation (from_parts + parser()), ANY requested type, ANY bytes:
   get::<T>(), get2..get5, get_param, get_next_sig, sigs_left return, and leave a parser of the same kind *)
Theorem C04_total_body_new : forall be sig buf nfds, ValidSig sig ->
  parser_ok (new_parser {| bbe := be; bsig := sig; bbuf := buf; bfds := nfds |}).
Proof. exact parser_ok_new. Qed.
Print Assumptions C04_total_body_new.

Theorem C04_total_body_get : forall p e, parser_ok p -> ewf e = true -> (evars e <= 65)%nat ->
  exists p' r, get p e = Ok (p', r) /\ parser_ok p'.
Proof. exact get_total. Qed.
Print Assumptions C04_total_body_get.

Theorem C04_total_body_get_n : forall p es, parser_ok p -> Forall (fun e => ewf e = true /\ (evars e <= 65)%nat) es ->
  exists p' r, get_n p es = Ok (p', r) /\ parser_ok p'.
Proof. exact get_n_total. Qed.
Print Assumptions C04_total_body_get_n.

Theorem C04_total_body_get_param : forall p, parser_ok p -> exists p' r, get_param p = Ok (p', r) /\ parser_ok p'.
Proof. exact get_param_total. Qed.
Print Assumptions C04_total_body_get_param.

Theorem C04_total_body_sigs : forall p, parser_ok p ->
  (exists o, get_next_sig p = Ok o) /\ (exists n, sigs_left p = Ok n).
Proof. intros p H. split; [now apply get_next_sig_total|now apply sigs_left_total]. Qed.
Print Assumptions C04_total_body_sigs.

(* MarshalledMessageBody::validate and MarshalledMessage::unmarshall_all: every type of the parsed signature in turn *)
Theorem C04_total_validate_all : forall be buf tys used, forallb wf tys = true -> used <= len buf ->
  ok_or_err (validate_seq be buf tys used).
Proof. intros be buf. exact (validate_seq_total be buf). Qed.
Print Assumptions C04_total_validate_all.

Theorem C04_total_unmarshall_all : forall be tys c acc, forallb wf tys = true -> uoff c <= len (ubuf c) -> udepth c = 0 ->
  ok_or_err (unmarshal_p_seq be tys c acc).
Proof. exact unmarshal_p_seq_total. Qed.
Print Assumptions C04_total_unmarshall_all.

(* signatures: parser and validator on any bytes; the splitter on a signature that passed validation *)
Theorem C04_total_signatures : forall l,
  ok_or_err (parse_description l) /\ ok_or_err (validate_signature l)
  /\ (ValidSig l -> ok_or_err (iter_all (S (length l)) l)).
Proof. exact signatures_total. Qed.
Print Assumptions C04_total_signatures.

(* resources: the nesting of every value the Param decoder returns is at most 64 (so is its recursion), and a length
   field above 2^26 ends every decoder before anything behind it is read: C18_decode_depth_value, C18_decode_length.
   The allocation of the typed slice fast path (Vec<E>, Cow<[E]>: Vec::with_capacity(bytes_in_array / alignment) in
   copy_slice_bytes) is determined by the length field n that was read at the aligned position and bounded by the bytes that
   are really there: n <= 2^26, n is a whole number of elements, the n bytes lie inside the buffer behind the padding, and the
   decoded array has exactly n / alignment elements - the capacity requested. (The model has no separate output for the
   with_capacity argument: it is the element count of the value returned.) *)
Theorem C04_slice_alloc : forall be vf x c v c', valid_slice be (erase x) = true -> uoff c <= len (ubuf c) ->
  unmarshal_t (S vf) be (EArray x) c = Ok (v, c') ->
  let n := dec be (slice (ubuf c) (len_pos (uoff c)) 4) in
  let start := len_pos (uoff c) + 4 + padlen (ealign x) (len_pos (uoff c) + 4) in
  n <= MAX_ARRAY /\ n mod ealign x = 0 /\ uoff c' = start + n /\ start + n <= len (ubuf c)
  /\ exists vs, v = VArray (erase x) vs /\ len vs = n / ealign x.
Proof. exact slice_alloc_bound. Qed.
Print Assumptions C04_slice_alloc.

(* derived and macro-generated enums: the decoders that #[derive(Unmarshal)] on an enum, dbus_variant_sig! and dbus_variant_var!
   generate (models: Wire/Enums.v), for any list of cases whose payload types are types of the algebra [rty] (Vec, HashMap,
   tuples, derived structs, Variant<T> over the base types; [rty_ok]: no empty tuple struct, at most 65 Variant<..> nested in
   the type), on ANY bytes: a value or an error, and so does Catchall(variant).get::<T>() *)
Theorem C04_total_enums : forall be c, uoff c <= len (ubuf c) ->
  (forall cs, Forall (fun k => rty_ok (case_rty k)) cs -> ok_or_err (derive_enum_unmarshal 66 be cs c))
  /\ (forall cs, Forall rty_ok cs -> ok_or_err (sig_macro_unmarshal 66 be cs c))
  /\ (forall cs, Forall rty_ok cs -> ok_or_err (var_macro_unmarshal 66 be cs c))
  /\ (forall t r, rty_ok r -> ok_or_err (catch_var_get 66 be t c r)).
Proof. exact enums_total. Qed.
Print Assumptions C04_total_enums.

(* resources, linear bounds. WANTED (DESIGN.md): steps <= 4 * |input| + K1, depth <= 64 + K2, alloc <= 2 * |input| + K3 for
   every entry point and for failing runs too, on an instrumented model. PROVED (partial): whenever the Param decoder
   returns a value, the value has at most as many nodes (base values, arrays, dicts, variants; a struct is its fields) as
   bytes were consumed for it, and is nested at most 64 deep - so the Param tree built (one enum value per node, at most
   64 struct nodes above each) and the recursive calls made for it are linear in the bytes consumed. Failing runs do
   no more work than a successful run on the prefix they got through (not stated formally). *)
Theorem C04_bounds_partial : forall be vf t c v c', uoff c <= len (ubuf c) -> unmarshal_p vf be t c = Ok (v, c') ->
  vcount v <= uoff c' - uoff c /\ uoff c' <= len (ubuf c) /\ (vdepth v = 0 \/ udepth c + vdepth v <= MAX_DEPTH).
Proof. exact param_decoder_bounds. Qed.
Print Assumptions C04_bounds_partial.

(* steps of the raw validator, EVERY outcome (round 4). [validate_marshalled_s] (Wire/Steps.v) is [validate_marshalled] clause by
   clause with a counter: 1 per call of validate_marshalled_at_depth, 1 per round of an element loop or of the field loop of a
   struct, 1 per dict key call; the non-recursive helpers are part of the step that calls them. Its first component is the
   uninstrumented model (the one the correspondence check runs against the code): *)
Theorem C04_steps_validate_proj : forall be off buf t,
  fst (validate_marshalled_s be off buf t) = validate_marshalled be off buf t.
Proof. exact validate_marshalled_s_proj. Qed.
Print Assumptions C04_steps_validate_proj.

(* ... and whatever the bytes are and however the run ends it makes at most 129 steps per byte between the start offset and the
   end of the buffer, plus 129; an accepting run at most 129 steps per byte it consumed. No term for the size of the type:
   a run fails at the first field that does not fit, and below the nesting limit of 64 every level costs 2 steps
   (129 = 2 * 64 + 1). Both constants are reached (Wire/StepsExamples.v: sx_tight_ok, sx_tight_err). *)
Theorem C04_steps_validate_bound : forall be off buf t, wf t = true -> off <= len buf ->
  snd (validate_marshalled_s be off buf t) <= 129 * (len buf - off) + 129
  /\ (forall n, fst (validate_marshalled_s be off buf t) = Ok n ->
        snd (validate_marshalled_s be off buf t) <= 129 * n /\ n <= len buf - off).
Proof. exact validate_marshalled_s_bound. Qed.
Print Assumptions C04_steps_validate_bound.

(* the same at any nesting depth d (validate_marshalled_at_depth, called by the typed Variant decoder): the weight of a byte is
   step_weight d = 2 * (64 - d) + 1 *)
Theorem C04_steps_validate_depth : forall be vf t d off buf,
  wf t = true -> off <= len buf -> (1 <= vf)%nat -> 65 <= N.of_nat vf + d ->
  fst (validate_s vf be d off buf t) = validate vf be d off buf t
  /\ snd (validate_s vf be d off buf t) <= step_weight d * (len buf - off) + step_weight d
  /\ (forall n, fst (validate_s vf be d off buf t) = Ok n -> snd (validate_s vf be d off buf t) <= step_weight d * n /\ n <= len buf - off).
Proof. intros be vf t d off buf Hw Ho H1 H2. split; [apply validate_s_proj|exact (validate_s_bound be vf t d off buf Hw Ho H1 H2)]. Qed.
Print Assumptions C04_steps_validate_depth.

(* steps of the Param decoder, EVERY outcome. [unmarshal_ps] (Wire/StepsParam.v) is [unmarshal_p] clause by clause with the same
   counter (1 per call of unmarshal_with_sig, 1 per loop round, 1 per dict key call); its first component is the uninstrumented
   model at every fuel, in particular at the fuel of C04_total_param: *)
Theorem C04_steps_param_proj : forall be vf t c, fst (unmarshal_ps vf be t c) = unmarshal_p vf be t c.
Proof. exact unmarshal_ps_proj. Qed.
Print Assumptions C04_steps_param_proj.

(* at most 129 steps per byte left in the buffer, plus 129, however the run ends; a run that returns a value made at most 129
   steps per byte it consumed. (This decoder has no fast path: an array of n bytes costs 2 n + 1 steps.) *)
Theorem C04_steps_param_bound : forall be t c, wf t = true -> uoff c <= len (ubuf c) ->
  snd (unmarshal_ps 66 be t c) <= 129 * (len (ubuf c) - uoff c) + 129
  /\ (forall v c', fst (unmarshal_ps 66 be t c) = Ok (v, c') ->
        snd (unmarshal_ps 66 be t c) <= 129 * (uoff c' - uoff c) /\ uoff c < uoff c' <= len (ubuf c)).
Proof. exact unmarshal_ps_66_bound. Qed.
Print Assumptions C04_steps_param_bound.

(* the same inside udepth c containers: the weight of a byte is step_weight (udepth c) = 2 * (64 - udepth c) + 1 *)
Theorem C04_steps_param_depth : forall be vf t c,
  wf t = true -> uoff c <= len (ubuf c) -> (1 <= vf)%nat -> 65 <= N.of_nat vf + udepth c ->
  snd (unmarshal_ps vf be t c) <= step_weight (udepth c) * (len (ubuf c) - uoff c) + step_weight (udepth c)
  /\ (forall v c', fst (unmarshal_ps vf be t c) = Ok (v, c') ->
        snd (unmarshal_ps vf be t c) <= step_weight (udepth c) * (uoff c' - uoff c) /\ uoff c < uoff c' <= len (ubuf c)).
Proof. exact unmarshal_ps_bound. Qed.
Print Assumptions C04_steps_param_depth.

(* steps of the typed decoder, EVERY outcome. [unmarshal_ts] (Wire/StepsTyped.v) is [unmarshal_t] clause by clause with the same
   counter (1 per call of T::unmarshal, 1 per loop / field round, 1 per dict key call) plus every step of the raw validator that
   the Variant arm runs before it decodes the same bytes; its first component is the uninstrumented model at every fuel: *)
Theorem C04_steps_typed_proj : forall be vf e c, fst (unmarshal_ts vf be e c) = unmarshal_t vf be e c.
Proof. exact unmarshal_ts_proj. Qed.
Print Assumptions C04_steps_typed_proj.

(* hypotheses of C04_total_typed. This decoder has no nesting limit of its own outside variants, so the weight of a byte is a
   function of the Rust type: tweight e = 1 for a base type, + 2 for every array / dict / struct level around it, + 129 for
   every Variant<..> level (max over struct fields); at most 2 * edepth e + 127 * evars e + 1. At most tweight e steps per byte
   left in the buffer plus tweight e however the run ends; at most tweight e steps per byte consumed when a value is returned.
   Reached exactly for variant-free types (Wire/StepsExamples.v: sx_t_tight). *)
Theorem C04_steps_typed_bound : forall be e c, ewf e = true -> uoff c <= len (ubuf c) -> (evars e <= 65)%nat ->
  snd (unmarshal_ts 66 be e c) <= tweight e * (len (ubuf c) - uoff c) + tweight e
  /\ (forall v c', fst (unmarshal_ts 66 be e c) = Ok (v, c') ->
        snd (unmarshal_ts 66 be e c) <= tweight e * (uoff c' - uoff c) /\ uoff c < uoff c' <= len (ubuf c))
  /\ tweight e <= 2 * edepth e + 127 * N.of_nat (evars e) + 1 <= 2 * edepth e + 8256.
Proof. exact unmarshal_ts_66_bound. Qed.
Print Assumptions C04_steps_typed_bound.
