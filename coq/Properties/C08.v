(** C08 - Name and object-path validators accept exactly the spec's languages.
    Model: Names/Model.v (validate_object_path, validate_interface, validate_errorname,
    validate_busname, validate_membername, ObjectPath::new), Names/Wire.v (marshal_header_* for the
    name fields), Names/Str.v (the str/char library functions used). Specification: Names/Spec.v. *)
From RB Require Import Base.Prelude Names.Str Names.Spec Names.StrProofs Names.Model Names.Proofs Names.Wire.

(* each validator accepts a string iff it is in the specification's language, for every string *)
Theorem C08_path : forall s, validate_object_path s = Ok tt <-> ValidPath s.
Proof. exact validate_object_path_spec. Qed.
Print Assumptions C08_path.

Theorem C08_interface : forall s, validate_interface s = Ok tt <-> ValidInterface s.
Proof. exact validate_interface_spec. Qed.
Print Assumptions C08_interface.

Theorem C08_errorname : forall s, validate_errorname s = Ok tt <-> ValidErrorName s.
Proof. exact validate_errorname_spec. Qed.
Print Assumptions C08_errorname.

Theorem C08_busname : forall s, validate_busname s = Ok tt <-> ValidBusName s.
Proof. exact validate_busname_spec. Qed.
Print Assumptions C08_busname.

Theorem C08_member : forall s, validate_membername s = Ok tt <-> ValidMember s.
Proof. exact validate_membername_spec. Qed.
Print Assumptions C08_member.

(* ObjectPath::new succeeds exactly on valid paths and wraps the string unchanged *)
Theorem C08_objectpath_new : forall s p, objectpath_new s = Ok p <-> (ValidPath s /\ p = s).
Proof.
  intros s p. split.
  - intros H. split; [apply objectpath_new_spec; eauto|exact (objectpath_new_value s p H)].
  - intros [Hv ->]. apply objectpath_new_spec in Hv. destruct Hv as [p Hp].
    now rewrite (objectpath_new_value s p Hp) in Hp.
Qed.
Print Assumptions C08_objectpath_new.

(* every way of obtaining the wrapper (ObjectPath::new, TryFrom<&str>, TryFrom<String>, and decoding it from a
   message body with impl Unmarshal for ObjectPath) accepts exactly the valid paths and keeps the string *)
Theorem C08_objectpath_ctors : forall f s p, objectpath_ctor f -> (f s = Ok p <-> (ValidPath s /\ p = s)).
Proof. exact objectpath_ctor_spec. Qed.
Print Assumptions C08_objectpath_ctors.

(* hence the typed Marshal impl for ObjectPath, which does not validate again, only ever writes valid paths:
   a wrapper obtained from any constructor (and its to_owned copy) marshals, and what is written is the valid path *)
Theorem C08_typed_path_wire : forall f s p, objectpath_ctor f -> f s = Ok p ->
  marshal_objectpath_typed p = Ok s /\ marshal_objectpath_typed (objectpath_to_owned p) = Ok s /\ ValidPath s.
Proof. exact typed_path_wire. Qed.
Print Assumptions C08_typed_path_wire.

(* none of them can panic or diverge in the model: the result is Ok or Err, whatever the string *)
Theorem C08_total : forall s,
  ok_or_err (validate_object_path s) /\ ok_or_err (validate_interface s) /\ ok_or_err (validate_errorname s) /\
  ok_or_err (validate_busname s) /\ ok_or_err (validate_membername s) /\ ok_or_err (objectpath_new s).
Proof.
  intros s. repeat split; [apply validate_object_path_total|apply validate_interface_total|apply validate_errorname_total
                          |apply validate_busname_total|apply validate_membername_total|apply objectpath_new_total].
Qed.
Print Assumptions C08_total.

(* the header marshaller: when it succeeds it has written exactly the names of the message, in header
   order, and every one of them is in the language its header field requires ... *)
Theorem C08_wire : forall h w, marshal_header_names h [] = Ok w -> w = names_of h /\ Forall FieldValid w.
Proof. intros h w H. apply marshal_header_names_spec in H. destruct H as [-> Hv]. auto. Qed.
Print Assumptions C08_wire.

(* ... it succeeds whenever all names of the message are valid, and reports an error otherwise *)
Theorem C08_wire_accept : forall h,
  (Forall FieldValid (names_of h) -> marshal_header_names h [] = Ok (names_of h)) /\
  (~ Forall FieldValid (names_of h) -> marshal_header_names h [] = Err).
Proof.
  intros h. split.
  - intros H. apply marshal_header_names_spec. auto.
  - intros H. pose proof (marshal_header_names_total h []) as T.
    destruct (marshal_header_names h []) as [w| | | |] eqn:E; try contradiction; [|reflexivity].
    apply marshal_header_names_spec in E. tauto.
Qed.
Print Assumptions C08_wire_accept.

(* the message-level entry: the required-field check of marshal_header comes first and does not weaken this *)
Theorem C08_wire_msg : forall typ rs h w, marshal_header_msg typ rs h = Ok w <->
  (typ <> MInvalid /\ has_required_fields typ rs h = true /\ w = names_of h /\ Forall FieldValid (names_of h)).
Proof. exact marshal_header_msg_spec. Qed.
Print Assumptions C08_wire_msg.

(* receive side ("never refuses a name a conforming peer may send", and never accepts another): the header decoder
   yields the name in field `code` iff the string decoder delivered it and it is in the field's language *)
Theorem C08_receive : forall code f r s, name_field_decoder code = Some f ->
  (f r = Ok s <-> (r = Ok s /\ FieldValid (code, s))).
Proof. exact name_field_decoder_spec. Qed.
Print Assumptions C08_receive.

(* the three decoders of an object path in a body (typed wrapper, params::Base::ObjectPath, validate_raw) accept
   iff the string decoder delivered a valid path *)
Theorem C08_receive_path : forall r s,
  (objectpath_unmarshal r = Ok s <-> (r = Ok s /\ ValidPath s)) /\
  (unmarshal_param_objectpath r = Ok s <-> (r = Ok s /\ ValidPath s)) /\
  (validate_raw_objectpath r = Ok tt <-> exists x, r = Ok x /\ ValidPath x).
Proof. exact path_decoders_spec. Qed.
Print Assumptions C08_receive_path.

(* an object path in a message body (params::Base::ObjectPath and ObjectPathRef, alone or inside an array,
   struct, variant or as a dict key: all go through marshal_base_param -> marshal_objectpath) is written iff it is valid, unchanged *)
Theorem C08_body_path : forall s w, marshal_objectpath s = Ok w <-> (ValidPath s /\ w = s).
Proof. exact marshal_objectpath_spec. Qed.
Print Assumptions C08_body_path.

(* names in the specification's languages are ASCII without NUL: on the wire they take one byte per
   character and cannot be cut short by an embedded terminator *)
Theorem C08_ascii : forall s,
  (ValidPath s \/ ValidInterface s \/ ValidErrorName s \/ ValidBusName s \/ ValidMember s) ->
  Forall (fun c => 0 < c < 128) s /\ byte_length s = len s.
Proof.
  intros s H.
  assert (A : ascii_nonnul s).
  { destruct H as [H|[H|[H|[H|H]]]];
      [apply valid_path_ascii|apply valid_interface_ascii|apply valid_interface_ascii|apply valid_busname_ascii|apply valid_member_ascii]; exact H. }
  split; [exact A|]. rewrite byte_length_str_len. apply str_len_ascii.
  eapply Forall_impl; [|exact A]. cbn. intros c Hc. lia.
Qed.
Print Assumptions C08_ascii.
