(** C15 - Body builder and parser are transactional across push/fail/reset/get histories.
    Model: Wire/Body.v (MarshalledMessageBody: push_param, push_param2..5, push_params, push_variant,
    push_old_param(s), reset; MessageBodyParser: get, get2..5, get_param), Wire/HasSig.v (has_sig). *)
From RB Require Import Base.Prelude Sig.Types Wire.Value Wire.SpecEnc Wire.Marshal Wire.Relabel Wire.MarshalProofs
  Wire.Unmarshal Wire.HasSig Wire.HasSigProofs Wire.Body Wire.BodyProofs.
From RB Require Import Sig.Parser Wire.Decode Wire.DecodeComplete Wire.DecodeSoundLemmas Wire.BodyAdvance.
From RB Require Import Wire.BodyRollback.

(* after ANY history of pushes (succeeding or failing at any inner element) and resets, signature,
   bytes and descriptor count are exactly the specification's rendering of the items committed since
   the last reset, in order; [oks] are the results the operations returned *)
Theorem C15_builder : forall be ops b oks,
  Forall op_ok ops -> total_fds ops <= 2 ^ 32 ->
  run_body (new_body be) ops = (b, oks) ->
  (bsig b, bbuf b, bfds b) = render be (committed ops oks []) /\ length oks = length ops.
Proof.
  intros be ops b oks Hall Hb H. split; [exact (body_from_new be ops b oks Hall Hb H)|].
  assert (R0 : represents be (new_body be) []) by (split; reflexivity).
  assert (B0 : fds_of [] + total_fds ops <= 2 ^ 32) by (cbn; lia).
  exact (proj2 (body_history be ops (new_body be) [] b oks R0 Hall B0 H)).
Qed.
Print Assumptions C15_builder.

(* a push that returns an error leaves no trace, whatever was in the body before *)
Theorem C15_failed_push_no_trace : forall b o b', step_body b o = (b', false) -> b' = b.
Proof. exact step_fail_unchanged. Qed.
Print Assumptions C15_failed_push_no_trace.

(* a reset leaves nothing attached *)
Theorem C15_reset_empty : forall b, let b' := fst (step_body b Reset) in bsig b' = [] /\ bbuf b' = [] /\ bfds b' = 0.
Proof. intros b. cbn. auto. Qed.
Print Assumptions C15_reset_empty.

(* the parser only advances on success *)
Theorem C15_parser_failed_get : forall p e p' r, get p e = Ok (p', r) -> (forall v, r <> GVal v) -> p' = p.
Proof. exact get_fail_unchanged. Qed.
Print Assumptions C15_parser_failed_get.
Theorem C15_parser_failed_get_n : forall p es p', get_n p es = Ok (p', None) -> p' = p.
Proof. exact get_n_fail_unchanged. Qed.
Print Assumptions C15_parser_failed_get_n.
Theorem C15_parser_failed_get_param : forall p p' r, get_param p = Ok (p', r) -> (forall v, r <> GVal v) -> p' = p.
Proof. exact get_param_fail_unchanged. Qed.
Print Assumptions C15_parser_failed_get_param.

(* requesting a type that does not match the next signature is an error rather than a misread:
   has_sig is exact on every type *)
Theorem C15_has_sig_exact : forall e t, has_sig e (to_str t) = Ok (ty_eqb (erase e) t).
Proof. exact has_sig_exact. Qed.
Print Assumptions C15_has_sig_exact.
Theorem C15_mismatch_is_error : forall p e before t after, parser_at p before t after -> erase e <> t ->
  get p e = Ok (p, GWrongSig).
Proof. exact get_mismatch. Qed.
Print Assumptions C15_mismatch_is_error.

(* a successful get consumes exactly the signature characters of the type read (the bytes consumed
   are those of the value: decoder theorems of C01/C03) *)
Theorem C15_success_advances : forall p e before t after p' v, parser_at p before t after ->
  get p e = Ok (p', GVal v) ->
  erase e = t /\ psig_idx p' = psig_idx p + len (to_str t) /\ pbody p' = pbody p.
Proof. exact get_success_sig. Qed.
Print Assumptions C15_success_advances.

(** ** the byte cursor, multi-gets and get_param (Wire/BodyAdvance.v; examples in Wire/BodyAdvanceExamples.v) *)

(* a successful get moves BOTH cursors by exactly the value returned: the signature index by the characters of its type,
   the byte index by the length of the specification's encoding of the value at that position (alignment padding
   included), and the bytes stepped over are that encoding.  [bytes_pos]: the buffer holds bytes and the byte index is
   inside it; [ety_ok e]: the Rust type asked for has no unit struct, element types that can stand in a signature, and
   nests at most 64 containers *)
Theorem C15_get_advances : forall p e before t after p' v,
  parser_at p before t after -> bytes_pos p -> ety_ok e ->
  get p e = Ok (p', GVal v) ->
  erase e = t /\ wt v t = true /\ ety_matches e v = true
  /\ pbody p' = pbody p
  /\ psig_idx p' = psig_idx p + len (to_str t)
  /\ pbuf_idx p' = pbuf_idx p + len (spec_enc (bbe (pbody p)) (pbuf_idx p) v)
  /\ slice (bbuf (pbody p)) (pbuf_idx p) (len (spec_enc (bbe (pbody p)) (pbuf_idx p) v)) = spec_enc (bbe (pbody p)) (pbuf_idx p) v
  /\ parser_pos p' (before ++ [t]) after /\ bytes_pos p'.
Proof. exact get_success_advances. Qed.
Print Assumptions C15_get_advances.

(* get2..get5 (any number of requested types): a success returns one value per requested type, the remaining signature
   started with exactly those types, and both cursors moved by exactly those k values ([enc_seq]: the specification's
   encodings one after the other) *)
Theorem C15_get_n_advances : forall p es before rest p' vs,
  parser_pos p before rest -> bytes_pos p -> Forall ety_ok es ->
  get_n p es = Ok (p', Some vs) ->
  exists after, rest = map erase es ++ after
    /\ Forall2 (fun v e => wt v (erase e) = true /\ ety_matches e v = true) vs es
    /\ pbody p' = pbody p
    /\ psig_idx p' = psig_idx p + len (to_str_list (map erase es))
    /\ pbuf_idx p' = pbuf_idx p + len (enc_seq (bbe (pbody p)) (pbuf_idx p) vs)
    /\ slice (bbuf (pbody p)) (pbuf_idx p) (len (enc_seq (bbe (pbody p)) (pbuf_idx p) vs)) = enc_seq (bbe (pbody p)) (pbuf_idx p) vs
    /\ parser_pos p' (before ++ map erase es) after /\ bytes_pos p'.
Proof. exact get_n_success_advances. Qed.
Print Assumptions C15_get_n_advances.

(* get_param: the same for the dynamic API, for a next type that can stand in a signature *)
Theorem C15_get_param_advances : forall p before t after p' v,
  parser_at p before t after -> bytes_pos p -> type_ok t = true ->
  get_param p = Ok (p', GVal v) ->
  wt v t = true
  /\ pbody p' = pbody p
  /\ psig_idx p' = psig_idx p + len (to_str t)
  /\ pbuf_idx p' = pbuf_idx p + len (spec_enc (bbe (pbody p)) (pbuf_idx p) v)
  /\ slice (bbuf (pbody p)) (pbuf_idx p) (len (spec_enc (bbe (pbody p)) (pbuf_idx p) v)) = spec_enc (bbe (pbody p)) (pbuf_idx p) v
  /\ parser_pos p' (before ++ [t]) after /\ bytes_pos p'.
Proof. exact get_param_success_advances. Qed.
Print Assumptions C15_get_param_advances.

(* a mismatch in ANY slot i of a multi-get (the i-th requested type is not the i-th remaining type of the signature):
   whatever the call returns, it returns no values and the parser - both cursors - is where it was.  (That the call
   does return, i.e. Ok, is C04_total_body_get_n.)  Corollary of C15_parser_failed_get_n and the success theorem. *)
Theorem C15_get_n_mismatch : forall p es before rest i e t p' r,
  parser_pos p before rest -> nth_error es i = Some e -> nth_error rest i = Some t -> erase e <> t ->
  get_n p es = Ok (p', r) -> r = None /\ p' = p.
Proof. exact get_n_mismatch_unchanged. Qed.
Print Assumptions C15_get_n_mismatch.

(* C15_builder renders typed pushes with the DECLARED signature of the Rust type ([Push (t, v)] appends [to_str t]),
   which is what the code does (P::sig_str).  Rust ties the two: push_param::<T>(v : T).  With that tie as the hypothesis
   [op_wt] (wt v t for every typed item), the body is the rendering of the committed VALUES with their own types *)
Theorem C15_builder_by_value : forall be ops b oks,
  Forall op_ok ops -> Forall op_wt ops -> total_fds ops <= 2 ^ 32 ->
  run_body (new_body be) ops = (b, oks) ->
  (bsig b, bbuf b, bfds b) = render be (committed_by_value ops oks []).
Proof. exact body_history_by_value. Qed.
Print Assumptions C15_builder_by_value.

(** ** the rollback mechanism (Wire/BodyRollback.v; examples in Wire/BodyRollbackExamples.v)
    Wire/Body.v models push_mult_helper by value (a failed push returns the body it was given), which makes the
    no-trace theorems above hold by construction. The Rust code records three lengths, runs the pushes on the body in
    place and truncates on error; [step_body_mech] / [run_body_mech] model exactly that. *)

(* every marshaller only appends, whether it succeeds or fails: the buffer it leaves starts with the buffer it was
   given (length back-patching happens inside the appended part) and the descriptor count does not go down *)
Theorem C15_marshallers_only_append : forall be v,
  (forall c, extends c (fst (marshal_t be v c)))
  /\ (forall d c, extends c (fst (marshal_p be d v c)))
  /\ (forall c, extends c (fst (marshal_param_top be v c))).
Proof.
  intros be v. split; [exact (marshal_t_appends be v)|]. split; [intros d; exact (marshal_p_appends be v d)|].
  exact (marshal_param_top_appends be v).
Qed.
Print Assumptions C15_marshallers_only_append.

(* hence truncating to the recorded lengths restores the old body: the mechanism computes exactly what the model
   computes, for every operation and every history *)
Theorem C15_rollback_mechanism : forall b o, step_body_mech b o = step_body b o.
Proof. exact step_body_mech_eq. Qed.
Print Assumptions C15_rollback_mechanism.
Theorem C15_rollback_mechanism_run : forall ops b, run_body_mech b ops = run_body b ops.
Proof. exact run_body_mech_eq. Qed.
Print Assumptions C15_rollback_mechanism_run.

(* so the theorems above are theorems about the mechanism *)
Theorem C15_failed_push_no_trace_mech : forall b o b', step_body_mech b o = (b', false) -> b' = b.
Proof. intros b o b'. rewrite step_body_mech_eq. apply C15_failed_push_no_trace. Qed.
Print Assumptions C15_failed_push_no_trace_mech.
Theorem C15_builder_mech : forall be ops b oks,
  Forall op_ok ops -> total_fds ops <= 2 ^ 32 ->
  run_body_mech (new_body be) ops = (b, oks) ->
  (bsig b, bbuf b, bfds b) = render be (committed ops oks []) /\ length oks = length ops.
Proof. intros be ops b oks. rewrite run_body_mech_eq. apply C15_builder. Qed.
Print Assumptions C15_builder_mech.
