(** C15 - Body builder and parser are transactional across push/fail/reset/get histories.
    Model: Wire/Body.v (MarshalledMessageBody: push_param, push_param2..5, push_params, push_variant,
    push_old_param(s), reset; MessageBodyParser: get, get2..5, get_param), Wire/HasSig.v (has_sig). *)
From RB Require Import Base.Prelude Sig.Types Wire.Value Wire.SpecEnc Wire.Marshal Wire.Relabel Wire.MarshalProofs
  Wire.Unmarshal Wire.HasSig Wire.HasSigProofs Wire.Body Wire.BodyProofs.

(* after ANY history of pushes (succeeding or failing at any inner element) and resets, signature,
   bytes and descriptor count are exactly the specification's rendering of the items committed since
   the last reset, in order; [oks] are the results the operations returned *)
Theorem C15_builder : forall be ops b oks,
  Forall op_ok ops -> total_fds ops <= 2 ^ 32 ->
  run_body (new_body be) ops = (b, oks) ->
  (bsig b, bbuf b, bfds b) = render be (committed ops oks []) /\ length oks = length ops.
Proof.
  intros be ops b oks Hall Hb H. split; [exact (body_from_new be ops b oks Hall Hb H)|].
  assert (R0 : represents be (new_body be) []) by (split; reflexivity).
  assert (B0 : fds_of [] + total_fds ops <= 2 ^ 32) by (cbn; lia).
  exact (proj2 (body_history be ops (new_body be) [] b oks R0 Hall B0 H)).
Qed.
Print Assumptions C15_builder.

(* a push that returns an error leaves no trace, whatever was in the body before *)
Theorem C15_failed_push_no_trace : forall b o b', step_body b o = (b', false) -> b' = b.
Proof. exact step_fail_unchanged. Qed.
Print Assumptions C15_failed_push_no_trace.

(* a reset leaves nothing attached *)
Theorem C15_reset_empty : forall b, let b' := fst (step_body b Reset) in bsig b' = [] /\ bbuf b' = [] /\ bfds b' = 0.
Proof. intros b. cbn. auto. Qed.
Print Assumptions C15_reset_empty.

(* the parser only advances on success *)
Theorem C15_parser_failed_get : forall p e p' r, get p e = Ok (p', r) -> (forall v, r <> GVal v) -> p' = p.
Proof. exact get_fail_unchanged. Qed.
Print Assumptions C15_parser_failed_get.
Theorem C15_parser_failed_get_n : forall p es p', get_n p es = Ok (p', None) -> p' = p.
Proof. exact get_n_fail_unchanged. Qed.
Print Assumptions C15_parser_failed_get_n.
Theorem C15_parser_failed_get_param : forall p p' r, get_param p = Ok (p', r) -> (forall v, r <> GVal v) -> p' = p.
Proof. exact get_param_fail_unchanged. Qed.
Print Assumptions C15_parser_failed_get_param.

(* requesting a type that does not match the next signature is an error rather than a misread:
   has_sig is exact on every type *)
Theorem C15_has_sig_exact : forall e t, has_sig e (to_str t) = Ok (ty_eqb (erase e) t).
Proof. exact has_sig_exact. Qed.
Print Assumptions C15_has_sig_exact.
Theorem C15_mismatch_is_error : forall p e before t after, parser_at p before t after -> erase e <> t ->
  get p e = Ok (p, GWrongSig).
Proof. exact get_mismatch. Qed.
Print Assumptions C15_mismatch_is_error.

(* a successful get consumes exactly the signature characters of the type read (the bytes consumed
   are those of the value: decoder theorems of C01/C03) *)
Theorem C15_success_advances : forall p e before t after p' v, parser_at p before t after ->
  get p e = Ok (p', GVal v) ->
  erase e = t /\ psig_idx p' = psig_idx p + len (to_str t) /\ pbody p' = pbody p.
Proof. exact get_success_sig. Qed.
Print Assumptions C15_success_advances.
