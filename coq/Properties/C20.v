(** C20 - Peer interface replies correctly; the machine id is a stable 32-hex-digit id.
    Model: Conn/Peer.v (filter_peer, create_and_store_machine_uuid, get_machine_id,
    handle_peer_message, `{:016X}{:08X}{:08X}` as minimum-width upper-case hex), Conn/DispatchMsg.v
    (DynamicHeader::make_response).  Specification: MachineId, IsPeerCall, ReplyTo/EmptyReplyTo. *)
From RB Require Import Base.Prelude Conn.DispatchMsg Conn.Peer Conn.PeerProofs.

(* the formatted id is 32 hexadecimal digits for every value of the two random words and the clock *)
Theorem C20_uuid : forall r1 r2 secs, r1 < 2 ^ 64 -> r2 < 2 ^ 32 -> secs < 2 ^ 32 ->
  len (format_uuid r1 r2 secs) = 32 /\ Forall is_hex_digit (format_uuid r1 r2 secs).
Proof. exact format_uuid_machine_id. Qed.
Print Assumptions C20_uuid.

(* the printed digits denote the number (nothing is cut or lost by the formatting model) *)
Theorem C20_hex_value : forall x, hex_val (hex_digits x) = x.
Proof. exact hex_digits_val. Qed.
Print Assumptions C20_hex_value.

(* the words assembled from any 12 random bytes are in range, hence every draw and every clock
   value give a 32-hex-digit id *)
Theorem C20_draw : forall e, bytes_ok (e_rand e) ->
  rand1_of (e_rand e) < 2 ^ 64 /\ rand2_of (e_rand e) < 2 ^ 32 /\ MachineId (new_id e).
Proof. intros e H. split; [now apply rand1_lt|]. split; [now apply rand2_lt|now apply new_id_machine_id]. Qed.
Print Assumptions C20_draw.

(* no stored id: it is created from the draw, stored and returned *)
Theorem C20_fresh : forall utf8_valid, (forall s, Forall (fun c => c < 128) s -> utf8_valid s = true) ->
  forall e f, DrawOK e -> e_write_ok e = true -> f machine_id_path = None ->
  exists id, get_machine_id utf8_valid e f = Ok (id, fs_write machine_id_path id f)
             /\ id = new_id e /\ MachineId id.
Proof. exact get_machine_id_fresh. Qed.
Print Assumptions C20_fresh.

(* a stored id is returned unchanged and nothing is written, whatever is drawn *)
Theorem C20_stored : forall utf8_valid e f id, f machine_id_path = Some id -> utf8_valid id = true ->
  get_machine_id utf8_valid e f = Ok (id, f).
Proof. exact get_machine_id_stored. Qed.
Print Assumptions C20_stored.

(* the id returned once is returned by every later call, for every later draw and clock value *)
Theorem C20_stable : forall utf8_valid, (forall s, Forall (fun c => c < 128) s -> utf8_valid s = true) ->
  forall e f id f1, DrawOK e ->
  (forall c, f machine_id_path = Some c -> utf8_valid c = true) ->
  get_machine_id utf8_valid e f = Ok (id, f1) ->
  f1 machine_id_path = Some id /\ forall e2, get_machine_id utf8_valid e2 f1 = Ok (id, f1).
Proof. exact get_machine_id_stable. Qed.
Print Assumptions C20_stable.

(* the composed statement about the id: from any state the environment assumption allows (no id file
   yet, or the file holds what create_and_store wrote for some earlier draw and clock - i.e. nobody
   else writes /tmp/dbus_machine_uuid), the id returned is a 32-digit hexadecimal string and every
   later call returns the same string, whatever is drawn, read from the clock or writable later *)
Theorem C20_id_always_32hex : forall utf8_valid, (forall s, Forall (fun c => c < 128) s -> utf8_valid s = true) ->
  forall e f, DrawOK e ->
  match f machine_id_path with
  | None => e_write_ok e = true
  | Some c => exists e0, bytes_ok (e_rand e0) /\ c = new_id e0
  end ->
  exists id f1, get_machine_id utf8_valid e f = Ok (id, f1) /\ MachineId id
                /\ forall e2, get_machine_id utf8_valid e2 f1 = Ok (id, f1).
Proof. exact id_always_32hex. Qed.
Print Assumptions C20_id_always_32hex.

(* EVERY other message - any type other than method call, any other interface or member, absent
   fields - is not handled, nothing is written, nothing is stored *)
Theorem C20_peer_other : forall utf8_valid e f m, ~ IsPeerCall m ->
  handle_peer_message utf8_valid e f m = Ok (false, [], f).
Proof. intros u e f m H. now apply handle_peer_other. Qed.
Print Assumptions C20_peer_other.

(* filter_peer (which sees the header only) accepts exactly the headers naming Peer.Ping or
   Peer.GetMachineId; on method calls it agrees with handle_peer_message *)
Theorem C20_filter_peer : forall h, filter_peer h = true <-> PeerHeader h.
Proof. exact filter_peer_spec. Qed.
Print Assumptions C20_filter_peer.

Theorem C20_peer_call_iff : forall m, IsPeerCall m <-> m_typ m = MCall /\ PeerHeader (m_dh m).
Proof. exact is_peer_call_iff. Qed.
Print Assumptions C20_peer_call_iff.

(* method call Peer.Ping: handled, exactly one message written, the empty method return with the
   call's serial addressed to its sender *)
Theorem C20_peer_ping : forall utf8_valid e f m, IsPing m ->
  exists r, handle_peer_message utf8_valid e f m = Ok (true, [r], f) /\ EmptyReplyTo m r.
Proof.
  intros u e f m H. exists (make_response (m_dh m)). split; [now apply handle_peer_ping|].
  apply make_response_empty_reply.
Qed.
Print Assumptions C20_peer_ping.

(* method call Peer.GetMachineId: handled, exactly one message written, a method return with the
   call's serial addressed to its sender whose body is the id: the stored one, or a fresh
   32-hex-digit one that is stored *)
Theorem C20_peer_get_id : forall utf8_valid, (forall s, Forall (fun c => c < 128) s -> utf8_valid s = true) ->
  forall e f m, IsGetMachineId m -> DrawOK e ->
  match f machine_id_path with
  | Some c => utf8_valid c = true /\ existsb (N.eqb 0) c = false
  | None => e_write_ok e = true
  end ->
  exists id f1 r, handle_peer_message utf8_valid e f m = Ok (true, [r], f1)
    /\ ReplyTo m r /\ m_body r = [id] /\ f1 machine_id_path = Some id
    /\ match f machine_id_path with
       | Some c => id = c /\ f1 = f
       | None => id = new_id e /\ MachineId id /\ f1 = fs_write machine_id_path id f
       end.
Proof.
  intros u Hu e f m Hm Hd Hpre.
  destruct (handle_peer_get_id u Hu e f m Hm Hd Hpre) as (id & f1 & H1 & H2 & H3).
  exists id, f1, (push_str id (make_response (m_dh m))). split; [exact H1|].
  split; [apply push_str_reply, make_response_empty_reply|]. split; [reflexivity|]. split; [exact H2|exact H3].
Qed.
Print Assumptions C20_peer_get_id.
