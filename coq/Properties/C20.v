(** C20 - Peer interface replies correctly; the machine id is a stable 32-hex-digit id.
    Model: Conn/Peer.v (filter_peer, create_and_store_machine_uuid, get_machine_id,
    handle_peer_message, `{:016X}{:08X}{:08X}` as minimum-width upper-case hex), Conn/DispatchMsg.v
    (DynamicHeader::make_response).  Specification: MachineId, IsPeerCall, ReplyTo/EmptyReplyTo. *)
From RB Require Import Base.Prelude Conn.DispatchMsg Conn.Peer Conn.PeerProofs.

(* the formatted id is 32 hexadecimal digits for every value of the two random words and the clock *)
Theorem C20_uuid : forall r1 r2 secs, r1 < 2 ^ 64 -> r2 < 2 ^ 32 -> secs < 2 ^ 32 ->
  len (format_uuid r1 r2 secs) = 32 /\ Forall is_hex_digit (format_uuid r1 r2 secs).
Proof. exact format_uuid_machine_id. Qed.
Print Assumptions C20_uuid.

(* the printed digits denote the number (nothing is cut or lost by the formatting model) *)
Theorem C20_hex_value : forall x, hex_val (hex_digits x) = x.
Proof. exact hex_digits_val. Qed.
Print Assumptions C20_hex_value.

(* the words assembled from any 12 random bytes are in range, hence every draw and every clock
   value give a 32-hex-digit id *)
Theorem C20_draw : forall e, bytes_ok (e_rand e) ->
  rand1_of (e_rand e) < 2 ^ 64 /\ rand2_of (e_rand e) < 2 ^ 32 /\ MachineId (new_id e).
Proof. intros e H. split; [now apply rand1_lt|]. split; [now apply rand2_lt|now apply new_id_machine_id]. Qed.
Print Assumptions C20_draw.

(* no stored id: either the id of this draw and clock is created, stored and returned, or storing failed
   (write or link error), the io error is returned and there is NO id file afterwards - never an empty
   or partial one *)
Theorem C20_fresh : forall utf8_valid, (forall s, Forall (fun c => c < 128) s -> utf8_valid s = true) ->
  forall e f, DrawOK e -> f machine_id_path = None ->
  exists f1, snd (get_machine_id utf8_valid e f) = f1 /\
    match e_write e, e_link e with
    | WriteDone, LinkDone =>
        fst (get_machine_id utf8_valid e f) = Ok (new_id e) /\ f1 machine_id_path = Some (new_id e) /\ MachineId (new_id e)
    | _, _ => fst (get_machine_id utf8_valid e f) = Err /\ f1 machine_id_path = None
    end.
Proof. exact get_machine_id_fresh. Qed.
Print Assumptions C20_fresh.

(* a stored id is returned unchanged and nothing is touched, whatever is drawn *)
Theorem C20_stored : forall utf8_valid e f id, f machine_id_path = Some id -> utf8_valid id = true ->
  get_machine_id utf8_valid e f = (Ok id, f).
Proof. exact get_machine_id_stored. Qed.
Print Assumptions C20_stored.

(* the composed statement about the id. The ONLY hypothesis on the file system is IdFileOK: nobody but
   this code writes /tmp/dbus_machine_uuid (it is absent, or holds the complete id made for some earlier
   draw and clock). For every draw, clock value and outcome of write/link/remove: no panic; a returned id
   is 32 hexadecimal digits, is the stored id, and every later call returns exactly that string and
   leaves the file system alone; an error means storing failed and there is still no id file; the
   invariant holds afterwards *)
Theorem C20_id_always_32hex : forall utf8_valid, (forall s, Forall (fun c => c < 128) s -> utf8_valid s = true) ->
  forall e f, DrawOK e -> IdFileOK f ->
  let (r, f1) := get_machine_id utf8_valid e f in
  IdFileOK f1 /\
  match r with
  | Ok id => MachineId id /\ f1 machine_id_path = Some id
             /\ forall e2, get_machine_id utf8_valid e2 f1 = (Ok id, f1)
  | Err => f machine_id_path = None /\ f1 machine_id_path = None
           /\ (e_write e <> WriteDone \/ e_link e = LinkFailed)
  | _ => False
  end.
Proof. exact id_always_32hex. Qed.
Print Assumptions C20_id_always_32hex.

(* in EVERY state reachable by any sequence of handle_peer_message calls (any messages, draws, clock
   values, failed writes, failed links, panicking handlers) the id file is absent or holds a complete
   32-hex-digit id, and an id once stored is never replaced *)
Theorem C20_stable : forall utf8_valid, (forall s, Forall (fun c => c < 128) s -> utf8_valid s = true) ->
  forall f0 f, Reach utf8_valid f0 f ->
  (IdFileOK f0 -> IdFileOK f) /\ (forall c, f0 machine_id_path = Some c -> f machine_id_path = Some c).
Proof.
  intros u Hu f0 f HR. split; [intros H0; eapply reach_invariant; eauto|intros c Hc; eapply reach_keeps; eauto].
Qed.
Print Assumptions C20_stable.

(* IdFileOK says what it should: the stored string is a machine id *)
Theorem C20_id_file_ok : forall f, IdFileOK f ->
  f machine_id_path = None \/ exists id, f machine_id_path = Some id /\ MachineId id.
Proof.
  intros f [H|(e0 & Hb & H)]; [left; exact H|right]. exists (new_id e0). split; [exact H|now apply new_id_machine_id].
Qed.
Print Assumptions C20_id_file_ok.

(* EVERY other message - any type other than method call, any other interface or member, absent
   fields - is not handled, nothing is written, nothing is stored *)
Theorem C20_peer_other : forall utf8_valid e f m, ~ IsPeerCall m ->
  handle_peer_message utf8_valid e f m = (Ok (false, []), f).
Proof. intros u e f m H. now apply handle_peer_other. Qed.
Print Assumptions C20_peer_other.

(* filter_peer (which sees the header only) accepts exactly the headers naming Peer.Ping or
   Peer.GetMachineId; on method calls it agrees with handle_peer_message *)
Theorem C20_filter_peer : forall h, filter_peer h = true <-> PeerHeader h.
Proof. exact filter_peer_spec. Qed.
Print Assumptions C20_filter_peer.

Theorem C20_peer_call_iff : forall m, IsPeerCall m <-> m_typ m = MCall /\ PeerHeader (m_dh m).
Proof. exact is_peer_call_iff. Qed.
Print Assumptions C20_peer_call_iff.

(* method call Peer.Ping: handled, exactly one message written, the empty method return with the
   call's serial addressed to its sender *)
Theorem C20_peer_ping : forall utf8_valid e f m, IsPing m ->
  exists r, handle_peer_message utf8_valid e f m = (Ok (true, [r]), f) /\ EmptyReplyTo m r.
Proof.
  intros u e f m H. exists (make_response (m_dh m)). split; [now apply handle_peer_ping|].
  apply make_response_empty_reply.
Qed.
Print Assumptions C20_peer_ping.

(* method call Peer.GetMachineId, nobody else writing the id file: unless storing a fresh id fails (an
   environment failure), handled, exactly one message written, a method return with the call's serial
   addressed to its sender whose body is a 32-hex-digit id: the stored one, or the fresh one, now stored *)
Theorem C20_peer_get_id : forall utf8_valid, (forall s, Forall (fun c => c < 128) s -> utf8_valid s = true) ->
  forall e f m, IsGetMachineId m -> DrawOK e -> IdFileOK f ->
  (f machine_id_path = None -> e_write e = WriteDone /\ e_link e = LinkDone) ->
  exists id f1 r, handle_peer_message utf8_valid e f m = (Ok (true, [r]), f1)
    /\ ReplyTo m r /\ m_body r = [id] /\ MachineId id /\ f1 machine_id_path = Some id
    /\ match f machine_id_path with
       | Some c => id = c /\ f1 = f
       | None => id = new_id e
       end.
Proof.
  intros u Hu e f m Hm Hd Hinv Hpre.
  destruct (handle_peer_get_id u Hu e f m Hm Hd Hinv Hpre) as (id & f1 & H1 & H2 & H3 & H4).
  exists id, f1, (push_str id (make_response (m_dh m))). split; [exact H1|].
  split; [apply push_str_reply, make_response_empty_reply|]. split; [reflexivity|]. auto.
Qed.
Print Assumptions C20_peer_get_id.
