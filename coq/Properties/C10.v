(** C10 - A message reaches the wire exactly once and intact under any short-write pattern.
    Model: Conn/Send.v (SendMessageContext::write_once / write / write_all / into_progress / resume /
    Drop, send_message_write_all) on top of Conn/Serial.v (send_message, marshal). The kernel's
    decision for every sendmsg call is an explicit argument. Specification: Conn/SendProofs.v
    (send_spec, accepted_sum). [hdr_fields] is the (arbitrary) marshaller of the header field array. *)
From RB Require Import Base.Prelude Conn.Serial Conn.SerialProofs Conn.Send Conn.SendProofs.

(* send one message with write_once under ANY schedule of partial accepts, EAGAIN/time-outs,
   suspensions and resumptions, on a socket whose peer already holds w0: no panic; the peer holds a
   prefix of header ++ body after w0, of length bytes_sent; completion <-> whole message; descriptors
   exactly once and with the first byte; reported serial = serial in the header *)
Theorem C10_exactly_once : forall hdr_fields c m c' x w0 sched,
  conn_ok c -> op_wf (OpSend m) -> send_message hdr_fields c m = Ok (c', Some x) ->
  send_spec (header_buf c') (msg_body m) (msg_raw_fds m) (ctx_serial x) w0 (run_send x w0 sched).
Proof. exact send_exactly_once. Qed.
Print Assumptions C10_exactly_once.

(* closed form: what is on the wire is the first (sum of what the kernel took while the send was not
   suspended) bytes of header ++ body; so a resumed send continues exactly where it stopped *)
Theorem C10_closed_form : forall hdr_fields c m c' x w0 sched,
  conn_ok c -> op_wf (OpSend m) -> send_message hdr_fields c m = Ok (c', Some x) ->
  let r := run_send x w0 sched in
  let total := accepted_sum true sched in
  wire (r_world r) = wire w0 ++ firstnN total (header_buf c' ++ msg_body m)
  /\ bytes_sent (r_state r) = N.min (len (header_buf c' ++ msg_body m)) total
  /\ r_completed r = (len (header_buf c' ++ msg_body m) <=? total).
Proof. exact send_closed_form. Qed.
Print Assumptions C10_closed_form.

(* one successful write_once puts exactly the next min(k, remaining) bytes on the wire *)
Theorem C10_write_once : forall hb body fds serial w0 x w k, Inv hb body fds serial w0 x w ->
  let bs := bytes_sent (cx_state x) in
  let n := N.min k (len (hb ++ body) - bs) in
  exists x' w', write_once x w (KAccept k) = (x', w', Ok n)
    /\ bytes_sent (cx_state x') = bs + n
    /\ wire w' = wire w ++ firstnN n (skipnN bs (hb ++ body))
    /\ Inv hb body fds serial w0 x' w'.
Proof. exact write_once_accept_inv. Qed.
Print Assumptions C10_write_once.

Theorem C10_write_once_again : forall hb body fds serial w0 x w, Inv hb body fds serial w0 x w ->
  write_once x w KAgain = (x, w, Err).
Proof. exact write_once_again_inv. Qed.
Print Assumptions C10_write_once_again.

(* the iov of write_once is the unsent rest *)
Theorem C10_slices : forall (s : N) (hb body : list N),
  skipnN (N.min s (len hb)) hb ++ skipnN (s - N.min s (len hb)) body = skipnN s (hb ++ body).
Proof. exact slice_lemma. Qed.
Print Assumptions C10_slices.

(* write(timeout): Ok only when every byte is written, with the message's serial; never a panic;
   on Err/time-out the returned context satisfies the invariant, so sending can go on *)
Theorem C10_write : forall hb body fds serial w0 ds x w, Inv hb body fds serial w0 x w ->
  exists x' w' r, write x w ds = (x', w', r) /\ Inv hb body fds serial w0 x' w'
    /\ bytes_sent (cx_state x) <= bytes_sent (cx_state x')
    /\ match r with
       | Ok s => s = serial /\ bytes_sent (cx_state x') = len (hb ++ body)
       | Err | OutOfFuel => True
       | Panic | UB => False
       end.
Proof. exact write_spec. Qed.
Print Assumptions C10_write.

Theorem C10_complete : forall hb body fds serial w0 x w, Inv hb body fds serial w0 x w ->
  0 < len (hb ++ body) -> bytes_sent (cx_state x) = len (hb ++ body) ->
  wire w = wire w0 ++ hb ++ body /\ fds_delivered w = fds_delivered w0 ++ fds.
Proof. exact Inv_complete. Qed.
Print Assumptions C10_complete.

(* write_all on a blocking socket terminates with Ok within (bytes left) iterations *)
Theorem C10_write_all_terminates : forall hb body fds serial w0 ds x w, Inv hb body fds serial w0 x w ->
  Forall (fun d => exists k, d = WKernel (KAccept k) /\ 1 <= k) ds ->
  bytes_sent (cx_state x) < len (hb ++ body) -> len (hb ++ body) - bytes_sent (cx_state x) <= len ds ->
  exists x' w', write x w ds = (x', w', Ok serial) /\ Inv hb body fds serial w0 x' w'
                /\ bytes_sent (cx_state x') = len (hb ++ body).
Proof. exact write_all_terminates. Qed.
Print Assumptions C10_write_all_terminates.

Theorem C10_send_message_write_all : forall hdr_fields c m w0 ds c' w' r,
  conn_ok c -> op_wf (OpSend m) ->
  send_message_write_all hdr_fields c m w0 ds = (c', w', r) ->
  match r with
  | Ok s => wire w' = wire w0 ++ header_buf c' ++ msg_body m
            /\ fds_delivered w' = fds_delivered w0 ++ msg_raw_fds m
            /\ wire_serial (header_buf c') = Some s
            /\ s = match dh_serial (msg_dyn m) with Some p => p | None => serial_counter c end
  | Err | OutOfFuel => exists p, wire w' = wire w0 ++ p /\ is_prefix p (header_buf c' ++ msg_body m)
                                 /\ fds_delivered w' = fds_delivered w0 ++ match p with [] => [] | _ => msg_raw_fds m end
  | Panic => dh_serial (msg_dyn m) = None /\ serial_counter c + 1 = 2^32
  | UB => False
  end.
Proof. exact send_message_write_all_spec. Qed.
Print Assumptions C10_send_message_write_all.

(* Giving a message up (dropping the context at zero bytes, force_finish at any point, the by-design
   panic of Drop after a partial write, keeping only the progress) or having one refused by
   send_message does not disturb the NEXT message: send_message does not look at what is left in
   header_buf, and the next message satisfies the whole specification relative to what the peer
   holds by then, under any schedule *)
Theorem C10_header_buf_forgotten : forall hdr_fields c m,
  send_message hdr_fields c m = send_message hdr_fields {| header_buf := []; serial_counter := serial_counter c |} m.
Proof. exact send_message_forgets_header. Qed.
Print Assumptions C10_header_buf_forgotten.

Theorem C10_next_message_unaffected : forall hdr_fields c m c' x w sched m2 c2 x2 sched2,
  conn_ok c -> op_wf (OpSend m) -> send_message hdr_fields c m = Ok (c', Some x) ->
  let r := run_send x w sched in
  op_wf (OpSend m2) -> send_message hdr_fields (r_conn r) m2 = Ok (c2, Some x2) ->
  send_spec (header_buf c2) (msg_body m2) (msg_raw_fds m2) (ctx_serial x2) (r_world r) (run_send x2 (r_world r) sched2).
Proof. exact next_message_unaffected. Qed.
Print Assumptions C10_next_message_unaffected.

Theorem C10_next_after_refused : forall hdr_fields c m c' m2 c2 x2 w sched2,
  conn_ok c -> op_wf (OpSend m) -> send_message hdr_fields c m = Ok (c', None) ->
  op_wf (OpSend m2) -> send_message hdr_fields c' m2 = Ok (c2, Some x2) ->
  send_spec (header_buf c2) (msg_body m2) (msg_raw_fds m2) (ctx_serial x2) w (run_send x2 w sched2).
Proof. exact next_after_refused. Qed.
Print Assumptions C10_next_after_refused.

(* into_progress + resume restore the context; Drop panics exactly on a partially sent message *)
Theorem C10_resume : forall x w,
  resume (cx_conn x) (cx_msg x) (into_progress x) = x
  /\ run_step (run_step {| r_caller := Active x; r_world := w; r_panicked := false |} Suspend) Resume
     = {| r_caller := Active x; r_world := w; r_panicked := false |}.
Proof. intros x w. split; [apply resume_into_progress|apply suspend_resume_identity]. Qed.
Print Assumptions C10_resume.

Theorem C10_drop : forall hb body fds serial w0 x w, Inv hb body fds serial w0 x w ->
  (drop_ctx x = Panic <-> 0 < bytes_sent (cx_state x) < len (hb ++ body))
  /\ (drop_ctx x = Panic \/ drop_ctx x = Ok tt).
Proof. exact drop_ctx_spec. Qed.
Print Assumptions C10_drop.
