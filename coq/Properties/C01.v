(** C01 - Typed values survive marshal -> unmarshal unchanged, for every type and position.
    Models: Wire/Marshal.v (marshal_t typed API, marshal_p dynamic API), Wire/Unmarshal.v
    (unmarshal_t typed decoder incl. the memcpy fast path, sub-contexts and Variant + get::<T>();
    unmarshal_p dynamic decoder), Wire/Decode.v (validate = validate_raw.rs).
    Specification: Wire/SpecEnc.v (spec_enc, encodable). Values are compared with Coq equality:
    fixed-width leaves are raw bit patterns (floats bit-for-bit); dict entries come back in wire
    order as a list, so equality of the lists gives equality as unordered maps a fortiori;
    descriptor leaves come back as indices into the message's descriptor list ([relabel]). *)
From RB Require Import Base.Prelude Sig.Types Wire.Bytes Wire.Align Wire.Text Wire.Value Wire.SpecEnc
  Wire.Marshal Wire.Relabel Wire.MarshalProofs Wire.Decode Wire.Unmarshal
  Wire.DecodeLemmas Wire.DecodeComplete Wire.MarshalEncodable Wire.RoundTrip.

(* typed API: whatever the buffer held before ([mbuf c]: every alignment phase), whatever follows
   ([suf]), both byte orders: reading with the matching Rust type [e] returns the value written and
   leaves the cursor exactly at the end of what was written *)
Theorem C01_roundtrip_typed : forall be v e c c' suf,
  typed v -> ety_matches e v = true ->
  strings_small v = true -> text_utf8 v = true -> types_ok v = true -> nesting v <= MAX_DEPTH ->
  snd (relabel v (mfds c)) <= 2 ^ 32 ->
  marshal_t be v c = (c', true) ->
  unmarshal_t 66 be e {| ubuf := mbuf c' ++ suf; uoff := len (mbuf c); unfds := mfds c'; udepth := 0 |}
  = Ok (fst (relabel v (mfds c)), {| ubuf := mbuf c' ++ suf; uoff := len (mbuf c'); unfds := mfds c'; udepth := 0 |}).
Proof. intros be v e c c' suf Hty Hm H1 H2 H3 H4 Hb H. apply roundtrip_typed; unfold sendable; auto. Qed.
Print Assumptions C01_roundtrip_typed.

(* dynamic (Param) API *)
Theorem C01_roundtrip_param : forall be v t c c' suf,
  wt v t = true ->
  strings_small v = true -> text_utf8 v = true -> types_ok v = true -> nesting v <= MAX_DEPTH ->
  snd (relabel v (mfds c)) <= 2 ^ 32 ->
  marshal_p be 0 v c = (c', true) ->
  unmarshal_p 66 be t {| ubuf := mbuf c' ++ suf; uoff := len (mbuf c); unfds := mfds c'; udepth := 0 |}
  = Ok (fst (relabel v (mfds c)), {| ubuf := mbuf c' ++ suf; uoff := len (mbuf c'); unfds := mfds c'; udepth := 0 |}).
Proof. intros be v t c c' suf Hw H1 H2 H3 H4 Hb H. apply roundtrip_param; unfold sendable; auto. Qed.
Print Assumptions C01_roundtrip_param.

(* raw validation accepts the bytes either API wrote, with exactly the produced length *)
Theorem C01_validate_typed : forall be v t c c' suf,
  wt v t = true ->
  strings_small v = true -> text_utf8 v = true -> types_ok v = true -> nesting v <= MAX_DEPTH ->
  snd (relabel v (mfds c)) <= 2 ^ 32 ->
  marshal_t be v c = (c', true) ->
  exists n, validate_marshalled be (len (mbuf c)) (mbuf c' ++ suf) t = Ok n /\ len (mbuf c) + n = len (mbuf c').
Proof.
  intros be v t c c' suf Hw H1 H2 H3 H4 Hb H.
  apply (marshalled_validates (marshal_t be) be v t c c' suf); unfold sendable; auto.
Qed.
Print Assumptions C01_validate_typed.

Theorem C01_validate_param : forall be v t c c' suf,
  wt v t = true ->
  strings_small v = true -> text_utf8 v = true -> types_ok v = true -> nesting v <= MAX_DEPTH ->
  snd (relabel v (mfds c)) <= 2 ^ 32 ->
  marshal_p be 0 v c = (c', true) ->
  exists n, validate_marshalled be (len (mbuf c)) (mbuf c' ++ suf) t = Ok n /\ len (mbuf c) + n = len (mbuf c').
Proof.
  intros be v t c c' suf Hw H1 H2 H3 H4 Hb H.
  apply (marshalled_validates (marshal_p be 0) be v t c c' suf); unfold sendable; auto.
Qed.
Print Assumptions C01_validate_param.

(* values pushed one after another are read back one after another: reading one value does not
   disturb the ones that follow *)
Theorem C01_sequence_typed : forall be vs es c c' suf,
  Forall2 (fun v e => wt v (erase e) = true /\ ety_matches e v = true
                      /\ strings_small v = true /\ text_utf8 v = true /\ types_ok v = true /\ nesting v <= MAX_DEPTH) vs es ->
  marshal_seq (marshal_t be) vs c = (c', true) -> snd (relabel_list relabel vs (mfds c)) <= 2 ^ 32 ->
  dec_all ety (unmarshal_t 66 be) es {| ubuf := mbuf c' ++ suf; uoff := len (mbuf c); unfds := mfds c'; udepth := 0 |}
  = Ok (fst (relabel_list relabel vs (mfds c)),
        {| ubuf := mbuf c' ++ suf; uoff := len (mbuf c'); unfds := mfds c'; udepth := 0 |}).
Proof. intros be vs es c c' suf Hall. exact (sequence_typed be vs es c c' suf Hall). Qed.
Print Assumptions C01_sequence_typed.

Theorem C01_sequence_param : forall be vs ts c c' suf,
  Forall2 (fun v t => wt v t = true
                      /\ strings_small v = true /\ text_utf8 v = true /\ types_ok v = true /\ nesting v <= MAX_DEPTH) vs ts ->
  marshal_seq (marshal_p be 0) vs c = (c', true) -> snd (relabel_list relabel vs (mfds c)) <= 2 ^ 32 ->
  dec_all ty (unmarshal_p 66 be) ts {| ubuf := mbuf c' ++ suf; uoff := len (mbuf c); unfds := mfds c'; udepth := 0 |}
  = Ok (fst (relabel_list relabel vs (mfds c)),
        {| ubuf := mbuf c' ++ suf; uoff := len (mbuf c'); unfds := mfds c'; udepth := 0 |}).
Proof. intros be vs ts c c' suf Hall. exact (sequence_param be vs ts c c' suf Hall). Qed.
Print Assumptions C01_sequence_param.

(* the two halves the round trip is composed of: a successful marshal wrote an encodable value ... *)
Theorem C01_marshal_encodable_typed : forall be v depth c c',
  typed v -> strings_small v = true -> text_utf8 v = true -> types_ok v = true -> nest_ok depth v = true ->
  marshal_t be v c = (c', true) -> snd (relabel v (mfds c)) <= 2 ^ 32 ->
  handles_live v = true /\ encodable be (len (mbuf c)) depth (fst (relabel v (mfds c))) = true.
Proof. intros be v depth c c' H0 H1 H2 H3 H4. apply marshal_t_encodable'. unfold good. auto. Qed.
Print Assumptions C01_marshal_encodable_typed.

Theorem C01_marshal_encodable_param : forall be v depth c c',
  typed v -> strings_small v = true -> text_utf8 v = true -> types_ok v = true -> nest_ok depth v = true ->
  marshal_p be depth v c = (c', true) -> snd (relabel v (mfds c)) <= 2 ^ 32 ->
  handles_live v = true /\ encodable be (len (mbuf c)) depth (fst (relabel v (mfds c))) = true.
Proof. intros be v depth c c' H0 H1 H2 H3 H4. apply marshal_p_encodable'. unfold good. auto. Qed.
Print Assumptions C01_marshal_encodable_param.

(* ... and every decoder is complete on the specification encoding of an encodable value, at any
   position, nesting depth and with anything after it *)
Theorem C01_validate_complete : forall be v t depth pre suf,
  wt v t = true -> encodable be (len pre) depth v = true ->
  validate 66 be depth (len pre) (pre ++ spec_enc be (len pre) v ++ suf) t = Ok (len (spec_enc be (len pre) v)).
Proof. exact validate_complete. Qed.
Print Assumptions C01_validate_complete.

Theorem C01_unmarshal_p_complete : forall be v t depth nf pre suf,
  wt v t = true -> encodable be (len pre) depth v = true -> fds_below nf v = true ->
  unmarshal_p 66 be t {| ubuf := pre ++ spec_enc be (len pre) v ++ suf; uoff := len pre; unfds := nf; udepth := depth |}
  = Ok (v, {| ubuf := pre ++ spec_enc be (len pre) v ++ suf; uoff := len pre + len (spec_enc be (len pre) v);
              unfds := nf; udepth := depth |}).
Proof. exact unmarshal_p_complete. Qed.
Print Assumptions C01_unmarshal_p_complete.

Theorem C01_unmarshal_t_complete : forall be v e depth nf pre suf,
  wt v (erase e) = true -> ety_matches e v = true ->
  encodable be (len pre) depth v = true -> fds_below nf v = true ->
  unmarshal_t 66 be e {| ubuf := pre ++ spec_enc be (len pre) v ++ suf; uoff := len pre; unfds := nf; udepth := depth |}
  = Ok (v, {| ubuf := pre ++ spec_enc be (len pre) v ++ suf; uoff := len pre + len (spec_enc be (len pre) v);
              unfds := nf; udepth := depth |}).
Proof. exact unmarshal_t_complete. Qed.
Print Assumptions C01_unmarshal_t_complete.
