(** C07 - Signature parsers accept exactly the D-Bus signature grammar and agree.
    Model: Sig/Parser.v (Type::parse_description), Sig/Validator.v (validate_signature),
    Sig/Iter.v (SignatureIter), Sig/Types.v (Type::to_str). Specification: Sig/Grammar.v. *)
From RB Require Import Base.Prelude Sig.Types Sig.Parser Sig.ParserProofs Sig.Validator Sig.ValidatorProofs Sig.Iter Sig.Grammar.

(* the fast validator accepts exactly the grammar, for every byte string *)
Theorem C07_validator : forall l, validate_signature l = Ok tt <-> GrammarSig l.
Proof. intros l. rewrite grammar_iff_ast. exact (validate_signature_spec l). Qed.
Print Assumptions C07_validator.

(* the structural parser accepts exactly the strings of the grammar, the empty one included ... *)
Theorem C07_parser : forall l, (exists tys, parse_description l = Ok tys) <-> GrammarSig l.
Proof.
  intros l. rewrite grammar_iff_ast. split.
  - intros [tys H]. exists tys. now apply parse_description_spec.
  - intros [tys H]. exists tys. now apply parse_description_spec.
Qed.
Print Assumptions C07_parser.

(* ... and returns the types whose printed forms concatenate to the input (so printing reproduces it) *)
Theorem C07_parser_types : forall l tys, parse_description l = Ok tys <-> sig_of_types l tys.
Proof. exact parse_description_spec. Qed.
Print Assumptions C07_parser_types.

Theorem C07_print : forall l tys, parse_description l = Ok tys -> to_str_list tys = l.
Proof. intros l tys H. apply parse_description_spec in H. destruct H as (_ & _ & _ & ->). reflexivity. Qed.
Print Assumptions C07_print.

(* both give the same verdict on every string *)
Theorem C07_agree : forall l, is_ok (parse_description l) = is_ok (validate_signature l).
Proof. exact parser_validator_agree. Qed.
Print Assumptions C07_agree.

(* the empty string is the signature of no types: in the grammar, accepted by both, parsed to no types *)
Theorem C07_empty : GrammarSig [] /\ parse_description [] = Ok [] /\ validate_signature [] = Ok tt.
Proof. split; [apply grammar_iff_ast; exact valid_sig_nil|]. split; reflexivity. Qed.
Print Assumptions C07_empty.

(* the splitter yields exactly the top-level complete types of a valid signature *)
Theorem C07_split : forall l, GrammarSig l ->
  exists tys, sig_of_types l tys /\ Forall (SCT 0 0) (map to_str tys)
              /\ iter_all (S (length l)) l = Ok (map to_str tys) /\ concat (map to_str tys) = l.
Proof.
  intros l H. apply grammar_iff_ast in H. destruct H as [tys H]. exists tys. split; [exact H|].
  destruct H as (_ & Hw & Hd & ->). split; [|split].
  - apply Forall_forall. intros x Hx. apply in_map_iff in Hx. destruct Hx as (t & <- & Hin).
    rewrite forallb_forall in Hw, Hd. apply ast_to_grammar; auto.
  - apply iter_all_types. pose proof (length_flat_ge tys). lia.
  - unfold to_str_list. now rewrite flat_map_concat_map.
Qed.
Print Assumptions C07_split.

(* neither function can panic or diverge in the model, whatever the bytes *)
Theorem C07_total : forall l, ok_or_err (parse_description l) /\ ok_or_err (validate_signature l).
Proof. intros l. split; [apply parse_description_total|apply validate_signature_total]. Qed.
Print Assumptions C07_total.
