(** C05 - Whole messages round-trip through header marshalling and are spec-conformant.
    Model: Msg/Header.v (marshal, marshal_header, marshal_header_field and the nine field writers,
    the builders and standard messages), Msg/Flags.v (HeaderFlags), Msg/HeaderDecode.v (the decoders
    used for the round trip).  Specification: Wire/SpecEnc.v (spec_enc, encodable), Msg/HeaderSpec.v,
    Msg/MsgSpec.v, Names/Spec.v. *)
From RB Require Import Base.Prelude Msg.Flags.

(* the flag helpers agree with the bits of the flags byte, for every flags byte and each of the three flags *)
Theorem C05_flags : forall f x, x < 256 ->
  is_set f x = N.testbit x (bit f)
  /\ set f x = N.setbit x (bit f)
  /\ unset f x = N.clearbit x (bit f)
  /\ toggle f x = N.lxor x (2 ^ bit f)
  /\ set f x < 256 /\ unset f x < 256 /\ toggle f x < 256
  /\ into_raw f = 2 ^ bit f.
Proof. exact flags_spec. Qed.
Print Assumptions C05_flags.
