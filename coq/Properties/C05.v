(** C05 - Whole messages round-trip through header marshalling and are spec-conformant.
    Model: Msg/Header.v (marshal, marshal_header, marshal_header_field and the nine field writers,
    the builders and standard messages), Msg/Flags.v (HeaderFlags), Msg/HeaderDecode.v (the decoders
    used for the round trip).  Specification: Wire/SpecEnc.v (spec_enc, encodable), Msg/HeaderSpec.v,
    Msg/MsgSpec.v, Names/Spec.v.  Examples: Msg/Examples.v. *)
From RB Require Import Base.Prelude Sig.Types Sig.Validator Sig.ParserProofs Wire.Bytes Wire.Align Wire.Text Wire.Value
  Wire.SpecEnc Wire.Decode Names.Spec Msg.Flags Msg.Header Msg.HeaderSpec Msg.MsgSpec Msg.HeaderDecode Msg.HeaderProofs Msg.Round Msg.Accept Msg.StdMsgs.

(* whenever a message marshals, the header bytes are exactly the specification's header: the 12 fixed bytes
   (with the body length and the serial), the a(yv) value of the message's fields encoded at offset 12 by the
   wire-format specification, zero padding to 8; that value is well typed and encodable (so the array is within the
   64 MiB limit), SIGNATURE / UNIX_FDS are present exactly when the body is non-empty / descriptors are attached,
   all names are in the specification's languages, the body's signature is valid, the type is not Invalid, the fields
   the type requires are present, no descriptor of the body has been taken, and the whole message is within 128 MiB *)
Theorem C05_conformant : forall m serial hb, rust_typed m -> nonzero_u32 serial -> marshal_msg m serial = Ok hb ->
  hb = fixed_part (m_be m) (type_no (m_typ m)) (m_flags m) (len (m_body m)) serial
       ++ spec_enc (m_be m) 12 (header_value m)
       ++ zeros (padlen 8 (12 + len (spec_enc (m_be m) 12 (header_value m))))
  /\ dec (m_be m) (slice hb 4 4) = len (m_body m) /\ dec (m_be m) (slice hb 8 4) = serial
  /\ wt (header_value m) T_FIELDS = true /\ encodable (m_be m) 12 0 (header_value m) = true
  /\ (m_body m <> [] -> In (sig_field (m_sig m)) (fields_of_msg m))
  /\ (m_body m = [] -> ~ has SIGNATURE (fields_of_msg m))
  /\ (m_nfds m <> 0 -> In (u32_field UNIX_FDS (m_nfds m)) (fields_of_msg m))
  /\ (m_nfds m = 0 -> ~ has UNIX_FDS (fields_of_msg m))
  /\ names_valid m /\ (m_body m <> [] -> validate_signature (m_sig m) = Ok tt)
  /\ m_typ m <> MInvalid /\ required_present m /\ (m_nfds m <> 0 -> m_live m = m_nfds m)
  /\ len hb + len (m_body m) <= 2 ^ 27.
Proof. exact conformant. Qed.
Print Assumptions C05_conformant.

(* a message with an invalid name, of type Invalid, lacking a header field its type requires, or whose body holds a
   descriptor handle whose descriptor has been taken, is refused *)
Theorem C05_refuse : forall m serial, rust_typed m ->
  (~ names_valid m \/ m_typ m = MInvalid \/ ~ required_present m \/ (m_nfds m <> 0 /\ m_live m <> m_nfds m)) ->
  marshal_msg m serial = Err.
Proof. exact marshal_msg_refuse. Qed.
Print Assumptions C05_refuse.

(* conversely, a message of a valid type that carries the fields its type requires, whose names and body signature are valid and whose header fits the
   protocol's limits (field array <= 64 MiB, message <= 128 MiB) IS marshalled, to the specification's header *)
Theorem C05_accept : forall m serial, rust_typed m -> fields_valid m -> m_typ m <> MInvalid -> required_present m ->
  len (spec_enc_list (m_be m) 16 (map field_val (fields_of_msg m))) <= MAX_ARRAY ->
  len (spec_header m serial) + len (m_body m) <= 2 ^ 27 ->
  opt_all (fun s => len s < 2 ^ 32) (m_object m) ->
  marshal_msg m serial = Ok (spec_header m serial).
Proof. exact marshal_accept. Qed.
Print Assumptions C05_accept.

(* marshalling returns Ok or Err: no panic, whatever the message *)
Theorem C05_total : forall m serial, ok_or_err (marshal_msg m serial).
Proof. exact marshal_msg_total. Qed.
Print Assumptions C05_total.

(* the library's own decoders turn header ++ body back into the same type, flags, serial, header fields,
   signature, body bytes and descriptor count - for EVERY message that marshals *)
Theorem C05_roundtrip : forall m serial hb nfds, rust_typed m -> nonzero_u32 serial ->
  marshal_msg m serial = Ok hb ->
  decode_message (hb ++ m_body m) nfds =
  Ok {| dm_hdr := hdr_of_msg m serial; dm_body := m_body m;
        dm_sig := if is_nil (m_body m) then [] else m_sig m; dm_nfds := nfds |}.
Proof. exact roundtrip. Qed.
Print Assumptions C05_roundtrip.

(* the flag helpers agree with the bits of the flags byte, for every flags byte and each of the three flags *)
Theorem C05_flags : forall f x, x < 256 ->
  is_set f x = N.testbit x (bit f)
  /\ set f x = N.setbit x (bit f)
  /\ unset f x = N.clearbit x (bit f)
  /\ toggle f x = N.lxor x (2 ^ bit f)
  /\ set f x < 256 /\ unset f x < 256 /\ toggle f x < 256
  /\ into_raw f = 2 ^ bit f.
Proof. exact flags_spec. Qed.
Print Assumptions C05_flags.

(* the standard_messages constructors and DynamicHeader::make_error_response, modelled WITH the bodies they push
   (Msg/StdMsgs.v: every push_param(x).unwrap() is a marshal into the body followed by an unwrap).
   [std_ok m]: valid names, the fields the type requires, a valid type, a valid signature of what was pushed - so by
   C05_accept / C05_conformant / C05_roundtrip m marshals (within the size limits) to a conformant header and round-trips.
   Known finding D24 (class KnownClass_D24: a pushed string argument contains NUL): there the constructor panics. *)
Theorem C05_standard_nopush : std_hello = Ok (make_standard_msg s_Hello) /\ std_ok (make_standard_msg s_Hello)
  /\ std_list_names = Ok (make_standard_msg s_ListNames) /\ std_ok (make_standard_msg s_ListNames).
Proof. exact std_nopush_ok. Qed.
Print Assumptions C05_standard_nopush.

Theorem C05_standard_request_name : forall name flags,
  (KnownClass_D24 [name] = true -> std_request_name name flags = Panic) /\
  (KnownClass_D24 [name] = false -> exists m, std_request_name name flags = Ok m /\ std_ok m /\ m_sig m = [115; 117]).
Proof. exact std_request_name_spec. Qed.
Print Assumptions C05_standard_request_name.

(* release_name, add_match, remove_match (member = ReleaseName / AddMatch / RemoveMatch) *)
Theorem C05_standard_one_string : forall member arg, ValidMember member ->
  (KnownClass_D24 [arg] = true -> std_one_string member arg = Panic) /\
  (KnownClass_D24 [arg] = false -> exists m, std_one_string member arg = Ok m /\ std_ok m /\ m_sig m = [115]).
Proof. exact std_one_string_spec. Qed.
Print Assumptions C05_standard_one_string.

(* ping / ping_bus push nothing: the destination only goes into the header, an invalid one is refused by marshal *)
Theorem C05_standard_ping : forall dest, opt_all ValidBusName dest ->
  names_valid (std_ping dest) /\ required_present (std_ping dest) /\ m_typ (std_ping dest) <> MInvalid.
Proof. exact std_ping_valid. Qed.
Print Assumptions C05_standard_ping.

Theorem C05_standard_error_response : forall c name text,
  (KnownClass_D24 [or_empty text] = true -> std_make_error_response c name text = Panic) /\
  (KnownClass_D24 [or_empty text] = false -> opt_all ValidBusName (c_sender c) -> c_serial c <> None -> ValidErrorName name ->
   exists m, std_make_error_response c name text = Ok m /\ std_ok m).
Proof. exact std_make_error_response_spec. Qed.
Print Assumptions C05_standard_error_response.

Theorem C05_standard_unknown_method : forall c,
  (KnownClass_D24 (pushed_call c) = true -> std_unknown_method_msg c = Panic) /\
  (KnownClass_D24 (pushed_call c) = false -> opt_all ValidBusName (c_sender c) -> c_serial c <> None ->
   exists m, std_unknown_method_msg c = Ok m /\ std_ok m).
Proof. exact std_unknown_method_spec. Qed.
Print Assumptions C05_standard_unknown_method.

Theorem C05_standard_invalid_args : forall c sg,
  (KnownClass_D24 (pushed_call c ++ [or_empty sg]) = true -> std_invalid_args_msg c sg = Panic) /\
  (KnownClass_D24 (pushed_call c ++ [or_empty sg]) = false -> opt_all ValidBusName (c_sender c) -> c_serial c <> None ->
   exists m, std_invalid_args_msg c sg = Ok m /\ std_ok m).
Proof. exact std_invalid_args_spec. Qed.
Print Assumptions C05_standard_invalid_args.

(* the witnesses of known finding D24: the property fails on this class *)
Theorem C05_standard_nul_refuted : KnownClass_D24 [[97; 0; 98]] = true /\ std_request_name [97; 0; 98] 0 = Panic
  /\ std_add_match [97; 0] = Panic
  /\ std_unknown_method_msg {| c_interface := Some [97; 0; 98]; c_member := None; c_object := None; c_sender := None; c_serial := Some 1 |} = Panic.
Proof. exact std_nul_refuted. Qed.
Print Assumptions C05_standard_nul_refuted.
