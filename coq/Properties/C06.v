(** C06 - Header decoding accepts exactly valid headers and skips unknown fields.
    Model: Msg/HeaderDecode.v.  Specification: Msg/HeaderSpec.v (ValidHeader), Wire/SpecEnc.v, Names/Spec.v. *)
From RB Require Import Base.Prelude Msg.HeaderDecode.

(* with fewer than 16 bytes buffered the receive loop asks for the 16 bytes that hold all length fields *)
Theorem C06_frame_short : forall bs, len bs < 16 -> bytes_needed bs = Ok 16.
Proof. intros bs H. unfold bytes_needed. destruct (N.ltb_spec (len bs) 16); [reflexivity|lia]. Qed.
Print Assumptions C06_frame_short.
