(** C06 - Header decoding accepts exactly valid headers and skips unknown fields.
    Model: Msg/HeaderDecode.v (unmarshal_header, unmarshal_dynamic_header, unmarshal_header_fields,
    unmarshal_header_field, validate_header_fields, collect_header_fields, unmarshal_next_message,
    bytes_needed_for_current_message), Wire/Decode.v (the raw validator used for unknown fields),
    Names/Model.v.  Specification: Msg/HeaderSpec.v (ValidHeader), Wire/SpecEnc.v, Names/Spec.v.
    Examples: Msg/Examples.v. *)
From RB Require Import Base.Prelude Sig.Types Sig.ParserProofs Wire.Bytes Wire.Align Wire.Value Wire.SpecEnc Wire.Decode
  Msg.HeaderSpec Msg.HeaderDecode Msg.DecodeSound Msg.DecodeComplete Msg.DecodeTotalH Msg.Round.

(* the decoder returns Ok (h, used) exactly when the first [used] bytes are a spec-valid header that says [h] *)
Theorem C06_exact : forall bs h used, bytes_ok bs ->
  (decode_header bs = Ok (h, used) <-> used <= len bs /\ ValidHeader (firstnN used bs) h).
Proof.
  intros bs h used Hb. split.
  - now apply decode_header_sound.
  - intros [Hu Hv]. now apply decode_header_complete.
Qed.
Print Assumptions C06_exact.

(* inserting a field with an unknown code (not 0..9) that carries a valid variant (the array stays well typed
   and encodable) at any position of a valid header changes neither acceptance nor the decoded header *)
Theorem C06_unknown_skipped : forall h fs1 fs2 u rest1 rest2,
  header_fields_ok h (fs1 ++ fs2) -> known (hf_code u) = false -> hf_code u <> 0 ->
  wt (fields_val (fs1 ++ u :: fs2)) T_FIELDS = true -> encodable (h_be h) 12 0 (fields_val (fs1 ++ u :: fs2)) = true ->
  decode_header (hdr_bytes h (fs1 ++ fs2) ++ rest1) = Ok (h, len (hdr_bytes h (fs1 ++ fs2)))
  /\ decode_header (hdr_bytes h (fs1 ++ u :: fs2) ++ rest2) = Ok (h, len (hdr_bytes h (fs1 ++ u :: fs2))).
Proof. exact unknown_field_skipped. Qed.
Print Assumptions C06_unknown_skipped.

(* the length announced to the receive loop is header + padding to 8 + body length, within the protocol's limits *)
Theorem C06_frame : forall be typ flags blen serial hfl rest,
  1 <= typ <= 4 -> flags < 256 -> blen < 2 ^ 32 -> 0 < serial < 2 ^ 32 -> hfl < 2 ^ 32 ->
  bytes_needed (fixed_part be typ flags blen serial ++ enc be 4 hfl ++ rest) =
  if (hfl <=? 2 ^ 26) && (announced_len (16 + hfl) blen <=? 2 ^ 27) then Ok (announced_len (16 + hfl) blen) else Err.
Proof. exact bytes_needed_spec. Qed.
Print Assumptions C06_frame.

(* with fewer than 16 bytes buffered the receive loop asks for the 16 bytes that hold all length fields *)
Theorem C06_frame_short : forall bs, len bs < 16 -> bytes_needed bs = Ok 16.
Proof. intros bs H. unfold bytes_needed. destruct (N.ltb_spec (len bs) 16); [reflexivity|lia]. Qed.
Print Assumptions C06_frame_short.

(* a decoded message: the header is followed by zero padding to 8 and by exactly body_len bytes of body *)
Theorem C06_message : forall bs nfds m, bytes_ok bs -> decode_message bs nfds = Ok m ->
  exists used, decode_header bs = Ok (dm_hdr m, used) /\ used + padlen 8 used <= len bs
    /\ slice bs used (padlen 8 used) = zeros (padlen 8 used)
    /\ dm_nfds m = nfds
    /\ dm_sig m = match h_signature (dm_hdr m) with Some s => s | None => [] end
    /\ (h_body_len (dm_hdr m) = 0 -> dm_body m = [])
    /\ (h_body_len (dm_hdr m) <> 0 ->
        dm_body m = skipnN (used + padlen 8 used) bs /\ len bs = used + padlen 8 used + h_body_len (dm_hdr m)).
Proof. exact decode_message_sound. Qed.
Print Assumptions C06_message.

(* on every byte string the decoders and bytes_needed return Ok or Err: no panic, no undefined behaviour, no
   exhausted fuel; a header never claims more bytes than there are *)
Theorem C06_total : forall bs nfds,
  match decode_header bs with Ok r => snd r <= len bs | Err => True | _ => False end
  /\ ok_or_err (decode_message bs nfds) /\ ok_or_err (bytes_needed bs).
Proof. intros bs nfds. split; [apply decode_header_total|]. split; [apply decode_message_total|apply bytes_needed_total]. Qed.
Print Assumptions C06_total.
