(** C03 - Decoders accept exactly the valid encodings and return the encoded value.
    Models: Wire/Decode.v (validate = wire/validate_raw.rs), Wire/Unmarshal.v (unmarshal_p = dynamic Param decoder,
    unmarshal_t = typed decoder, [ety] = the Rust type asked for). Specification: Wire/SpecEnc.v (spec_enc, encodable).
    Proofs: Wire/DecodeSound{Lemmas,V,P,T}.v, Wire/DecodeTotal.v, Wire/DecodeSound.v; the completeness direction of the
    equivalences is Wire/DecodeComplete.v (C01). Examples: Wire/DecodeExamples.v.
    Hypotheses shared by the theorems: [bytes_ok buf] (the list holds bytes), the offset lies inside the buffer, the
    expected type has no empty struct ([wf]) and its element types may appear in a signature ([tys_ok], implied by
    [type_ok], i.e. whatever parse_description returns); [fuel_ok vf depth] holds for the fuel 66 of the entry points. *)
From RB Require Import Base.Prelude Sig.Types Sig.Parser Sig.ParserProofs Sig.Validator Wire.Bytes Wire.Align Wire.Text
  Wire.Value Wire.SpecEnc Wire.Marshal Wire.Decode Wire.Unmarshal.
From RB Require Import Wire.DecodeLemmas.
From RB Require Import Wire.DecodeComplete.
From RB Require Import Wire.DecodeSoundLemmas.
From RB Require Import Wire.DecodeTotal.
From RB Require Import Wire.DecodeSoundT.
From RB Require Import Wire.DecodeSound.
From RB Require Import Wire.Ops Wire.BodyDecode.

(* raw validation succeeds exactly when the bytes at the offset are THE encoding of some well-typed, encodable value
   of the signature, and reports exactly the number of bytes that encoding occupies *)
Theorem C03_validate_exact : forall be vf depth off buf t n,
  wf t = true -> tys_ok t = true -> bytes_ok buf -> off <= len buf -> fuel_ok vf depth ->
  (validate vf be depth off buf t = Ok n <->
   exists v, wt v t = true /\ encodable be off depth v = true /\ slice buf off n = spec_enc be off v /\ off + n <= len buf).
Proof. exact validate_exact. Qed.
Print Assumptions C03_validate_exact.

(* the soundness half needs no assumption on the fuel *)
Theorem C03_validate_sound : forall be vf depth off buf t n,
  wf t = true -> tys_ok t = true -> bytes_ok buf -> off <= len buf ->
  validate vf be depth off buf t = Ok n ->
  exists v, wt v t = true /\ encodable be off depth v = true /\ slice buf off n = spec_enc be off v /\ off + n <= len buf.
Proof. exact validate_sound_spec. Qed.
Print Assumptions C03_validate_sound.

(* the condition on the type is free for types that come out of a signature *)
Theorem C03_signature_types_ok : forall s t, parse_description s = Ok [t] -> wf t = true /\ tys_ok t = true.
Proof. intros s t H. destruct (parse_single s t H) as [_ Hok]. split; [exact (type_ok_wf t Hok)|exact (type_ok_tys_ok t Hok)]. Qed.
Print Assumptions C03_signature_types_ok.

(* dynamic decoder: the value returned is the one the consumed bytes denote; only the offset of the context moves;
   descriptor indices are below the number of attached descriptors *)
Theorem C03_param_sound : forall be vf t c v c',
  wf t = true -> tys_ok t = true -> bytes_ok (ubuf c) -> uoff c <= len (ubuf c) ->
  unmarshal_p vf be t c = Ok (v, c') ->
  wt v t = true /\ encodable be (uoff c) (udepth c) v = true
  /\ slice (ubuf c) (uoff c) (uoff c' - uoff c) = spec_enc be (uoff c) v
  /\ ubuf c' = ubuf c /\ uoff c <= uoff c' <= len (ubuf c) /\ unfds c' = unfds c /\ udepth c' = udepth c
  /\ fds_below (unfds c) v = true.
Proof. exact unmarshal_p_sound_spec. Qed.
Print Assumptions C03_param_sound.

(* typed decoder. It counts variants only: [typed_depth_ok c e] asks that the nesting of the Rust type fits on top
   of the context's depth (udepth c + edepth e <= 64), except for a Variant type, whose content is validated at the
   context's depth + 1: there the Rust type only has to fit in the limit by itself (edepth e <= 64) *)
Theorem C03_typed_depth_ok : forall c e,
  typed_depth_ok c e = match e with EVar _ => edepth e <= MAX_DEPTH | _ => udepth c + edepth e <= MAX_DEPTH end.
Proof. reflexivity. Qed.
Print Assumptions C03_typed_depth_ok.

Theorem C03_typed_sound : forall be vf e c v c',
  wf (erase e) = true -> tys_ok (erase e) = true -> typed_depth_ok c e ->
  bytes_ok (ubuf c) -> uoff c <= len (ubuf c) ->
  unmarshal_t vf be e c = Ok (v, c') ->
  wt v (erase e) = true /\ encodable be (uoff c) (udepth c) v = true
  /\ slice (ubuf c) (uoff c) (uoff c' - uoff c) = spec_enc be (uoff c) v
  /\ ubuf c' = ubuf c /\ uoff c <= uoff c' <= len (ubuf c) /\ unfds c' = unfds c /\ udepth c' = udepth c
  /\ fds_below (unfds c) v = true /\ ety_matches e v = true.
Proof. exact unmarshal_t_sound_spec. Qed.
Print Assumptions C03_typed_sound.

(* both value decoders characterised exactly (soundness + completeness): Ok (v, c') precisely when the bytes at the
   offset are the encoding of the well-typed encodable value v, its descriptor indices are in range, and c' is the
   context advanced by the length of that encoding; for the typed decoder in addition v has the shape of the Rust type *)
Theorem C03_param_exact : forall be vf t buf off nf depth v c',
  wf t = true -> tys_ok t = true -> bytes_ok buf -> off <= len buf -> fuel_ok vf depth ->
  (unmarshal_p vf be t {| ubuf := buf; uoff := off; unfds := nf; udepth := depth |} = Ok (v, c') <->
   wt v t = true /\ encodable be off depth v = true /\ fds_below nf v = true
   /\ slice buf off (len (spec_enc be off v)) = spec_enc be off v /\ off + len (spec_enc be off v) <= len buf
   /\ c' = {| ubuf := buf; uoff := off + len (spec_enc be off v); unfds := nf; udepth := depth |}).
Proof. exact param_exact. Qed.
Print Assumptions C03_param_exact.

Theorem C03_typed_exact : forall be vf e buf off nf depth v c',
  wf (erase e) = true -> tys_ok (erase e) = true ->
  typed_depth_ok {| ubuf := buf; uoff := off; unfds := nf; udepth := depth |} e ->
  bytes_ok buf -> off <= len buf -> fuel_ok vf depth ->
  (unmarshal_t vf be e {| ubuf := buf; uoff := off; unfds := nf; udepth := depth |} = Ok (v, c') <->
   wt v (erase e) = true /\ ety_matches e v = true /\ encodable be off depth v = true /\ fds_below nf v = true
   /\ slice buf off (len (spec_enc be off v)) = spec_enc be off v /\ off + len (spec_enc be off v) <= len buf
   /\ c' = {| ubuf := buf; uoff := off + len (spec_enc be off v); unfds := nf; udepth := depth |}).
Proof. exact typed_exact. Qed.
Print Assumptions C03_typed_exact.

(* agreement 1: validation accepts exactly what the dynamic decoder accepts when enough descriptors are attached,
   and reports the length the decoder consumes *)
Theorem C03_agree_validate_param : forall be vf depth off buf t n,
  wf t = true -> tys_ok t = true -> bytes_ok buf -> off <= len buf -> fuel_ok vf depth ->
  (validate vf be depth off buf t = Ok n <->
   exists v, unmarshal_p vf be t {| ubuf := buf; uoff := off; unfds := 2 ^ 32; udepth := depth |}
             = Ok (v, {| ubuf := buf; uoff := off + n; unfds := 2 ^ 32; udepth := depth |})).
Proof. exact validate_param_agree. Qed.
Print Assumptions C03_agree_validate_param.

(* ... and with nf descriptors the decoder accepts exactly when, in addition, every index in the value is below nf *)
Theorem C03_agree_param_fds : forall be vf t buf off nf depth v c',
  wf t = true -> tys_ok t = true -> bytes_ok buf -> off <= len buf -> fuel_ok vf depth ->
  (unmarshal_p vf be t {| ubuf := buf; uoff := off; unfds := nf; udepth := depth |} = Ok (v, c') <->
   exists n, unmarshal_p vf be t {| ubuf := buf; uoff := off; unfds := 2 ^ 32; udepth := depth |}
             = Ok (v, {| ubuf := buf; uoff := off + n; unfds := 2 ^ 32; udepth := depth |})
             /\ fds_below nf v = true /\ c' = {| ubuf := buf; uoff := off + n; unfds := nf; udepth := depth |}).
Proof. exact param_fds. Qed.
Print Assumptions C03_agree_param_fds.

(* agreement 2: the typed decoder accepts only what the dynamic decoder accepts, with the same value and position ... *)
Theorem C03_agree_typed_param : forall be vf vf' e c v c',
  wf (erase e) = true -> tys_ok (erase e) = true -> typed_depth_ok c e ->
  bytes_ok (ubuf c) -> uoff c <= len (ubuf c) -> fuel_ok vf' (udepth c) ->
  unmarshal_t vf be e c = Ok (v, c') ->
  unmarshal_p vf' be (erase e) c = Ok (v, c') /\ ety_matches e v = true.
Proof. exact typed_accepts_param. Qed.
Print Assumptions C03_agree_typed_param.

(* ... and it accepts all of it whose variants hold the content types the Rust type asks for: its only extra check *)
Theorem C03_agree_param_typed : forall be vf vf' e c v c',
  wf (erase e) = true -> tys_ok (erase e) = true -> bytes_ok (ubuf c) -> uoff c <= len (ubuf c) ->
  fuel_ok vf' (udepth c) ->
  unmarshal_p vf be (erase e) c = Ok (v, c') -> ety_matches e v = true ->
  unmarshal_t vf' be e c = Ok (v, c').
Proof. exact param_accepts_typed. Qed.
Print Assumptions C03_agree_param_typed.

(* for Rust types without Variant-then-get the two value decoders accept exactly the same inputs *)
Theorem C03_agree_no_variant : forall be vf e c v c',
  no_evar e = true -> wf (erase e) = true -> tys_ok (erase e) = true -> udepth c + edepth e <= MAX_DEPTH ->
  bytes_ok (ubuf c) -> uoff c <= len (ubuf c) -> fuel_ok vf (udepth c) ->
  (unmarshal_t vf be e c = Ok (v, c') <-> unmarshal_p vf be (erase e) c = Ok (v, c')).
Proof. exact typed_param_agree_no_variant. Qed.
Print Assumptions C03_agree_no_variant.

(* totality at the entry points: Ok or Err, never Panic, UB or OutOfFuel *)
Theorem C03_total : forall be,
  (forall off buf t, wf t = true -> off <= len buf -> ok_or_err (validate_marshalled be off buf t))
  /\ (forall t c, wf t = true -> uoff c <= len (ubuf c) -> ok_or_err (unmarshal_p 66 be t c))
  /\ (forall e c, ewf e = true -> (evars e <= 65)%nat -> uoff c <= len (ubuf c) -> ok_or_err (unmarshal_t 66 be e c)).
Proof. exact decoders_total. Qed.
Print Assumptions C03_total.

(* the malformed inputs named in the property: what all three decoders accept ([accepted]: validate_accepted,
   param_accepted, typed_accepted) has zero padding, booleans 0/1, valid NUL-terminated UTF-8 without NUL, valid
   paths and signatures, array lengths <= 2^26 that stay inside the buffer and hold whole elements, nesting <= 64 *)
Theorem C03_rejects : forall be d buf off n,
  (forall t, accepted be d buf off n t ->
     slice buf off (padlen (align t) off) = zeros (padlen (align t) off) /\ padlen (align t) off <= n)
  /\ (accepted be d buf off n (TBase BBoolean) -> dec be (slice buf (off + padlen 4 off) 4) < 2)
  /\ (accepted be d buf off n (TBase BString) ->
        exists s, n = padlen 4 off + (len s + 5) /\ slice buf (off + padlen 4 off) (len s + 5) = enc be 4 (len s) ++ s ++ [0]
                  /\ utf8_valid s = true /\ has_nul s = false /\ len s < 2 ^ 32)
  /\ (accepted be d buf off n (TBase BObjectPath) ->
        exists s, n = padlen 4 off + (len s + 5) /\ slice buf (off + padlen 4 off) (len s + 5) = enc be 4 (len s) ++ s ++ [0]
                  /\ utf8_valid s = true /\ valid_path s = true)
  /\ (accepted be d buf off n (TBase BSignature) ->
        exists s, n = len s + 2 /\ slice buf off n = sig_bytes s /\ validate_signature s = Ok tt)
  /\ (forall e, accepted be d buf off n (TArray e) ->
        exists m, slice buf (off + padlen 4 off) 4 = enc be 4 m /\ m <= MAX_ARRAY
                  /\ n = padlen 4 off + 4 + padlen (align e) (off + padlen 4 off + 4) + m
                  /\ off + padlen 4 off + 4 + padlen (align e) (off + padlen 4 off + 4) + m <= len buf
                  /\ d < MAX_DEPTH
                  /\ (forall b, e = TBase b -> is_text b = false -> m mod base_align b = 0))
  /\ (forall t, accepted be d buf off n t -> match t with TBase _ => True | _ => d < MAX_DEPTH end).
Proof.
  intros be d buf off n. split; [intros t; apply accepted_padding|]. split; [apply accepted_bool|].
  split; [apply accepted_string|]. split; [apply accepted_path|]. split; [apply accepted_signature|].
  split; [intros e; apply accepted_array|intros t; apply accepted_depth].
Qed.
Print Assumptions C03_rejects.

(* whole bodies (message_builder.rs: MarshalledMessageBody::validate, MarshalledMessage::unmarshall_all ->
   wire::unmarshal::unmarshal_body; both demand since fix 5de75d3 that all bytes are used): validate() accepts exactly
   the bodies unmarshall_all decodes when enough descriptors are attached ... *)
Theorem C03_body_agree : forall be sigbytes buf, bytes_ok buf ->
  (op_body_validate be sigbytes buf = true <-> exists vs, body_unmarshall_all be (2 ^ 32) sigbytes buf = Ok vs).
Proof. exact body_agree. Qed.
Print Assumptions C03_body_agree.

(* ... with nf descriptors it decodes exactly those whose descriptor indices are below nf, to the same values ... *)
Theorem C03_body_agree_fds : forall be nf sigbytes buf vs, bytes_ok buf ->
  (body_unmarshall_all be nf sigbytes buf = Ok vs <->
   body_unmarshall_all be (2 ^ 32) sigbytes buf = Ok vs /\ forallb (fds_below nf) vs = true).
Proof. exact body_agree_fds. Qed.
Print Assumptions C03_body_agree_fds.

(* ... and the values are those of the dynamic decoder on each type of the signature in turn ([dec_seq]), with no byte
   left; an empty signature goes with an empty body *)
Theorem C03_body_values : forall be nf sigbytes buf vs, body_unmarshall_all be nf sigbytes buf = Ok vs ->
  (sigbytes = [] /\ buf = [] /\ vs = [])
  \/ exists tys c', parse_description sigbytes = Ok tys
                   /\ dec_seq be tys {| ubuf := buf; uoff := 0; unfds := nf; udepth := 0 |} = Ok (vs, c')
                   /\ len (ubuf c') - uoff c' = 0.
Proof. exact body_values. Qed.
Print Assumptions C03_body_values.
