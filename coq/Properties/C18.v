(** C18 - Spec size and depth limits are enforced before resources are committed.
    Models: Wire/Decode.v, Unmarshal.v (the three decoders: check_array_len, depth counters), Wire/Marshal.v
    (marshallers with the MAX_ARRAY checks and the Param depth counter), Wire/Limits.v (message-level send checks),
    Conn/Recv.v (bytes_needed_for_current_message, IncomingBuffer::reserve, the receive loop with an explicit
    kernel). Specification: MAX_ARRAY = 2^26, MAX_DEPTH = 64 (Wire/SpecEnc.v), MAX_MESSAGE = 2^27, [vdepth],
    [announced], [len_pos] (Wire/Limits.v). Proofs: Wire/LimitsProofs.v, Wire/LimitsRecv.v.
    NOT claimed: the typed API counts no nesting (C18_typed_counts_no_nesting states it): on the receive side the nesting
    of a value of a Rust type that contains itself is then chosen by the message (known finding D21), on the send side such a
    value - or one of a type written deeper than 64 - is marshalled although it exceeds the limit (known finding D21s:
    C18_send_limits_typed holds outside KnownClass_D21s, C18_send_typed_nesting_refuted is the witness inside). *)
From RB Require Import Base.Prelude Sig.Types Wire.Bytes Wire.Align Wire.Value Wire.SpecEnc Wire.Marshal Wire.Decode Wire.Unmarshal
  Wire.Relabel Wire.MarshalProofs Wire.DecodeSoundLemmas Wire.Limits Wire.LimitsProofs Wire.LimitsSend Wire.LimitsKnown Wire.LimitsEntry Msg.Header Conn.Recv Conn.RecvLists Wire.LimitsRecv.

(* decoders, length: when the u32 at the (aligned) length position of an array or dict exceeds 2^26, raw validation,
   the Param decoder and the typed decoder (slice fast path and element loop) all return an error - whatever the
   element type, nesting level, fuel, and WHATEVER BYTES FOLLOW the length field: nothing behind it is looked at *)
Theorem C18_decode_length : forall be (pre : list N) off, over_limit be pre off -> forall suffix vf,
  (forall d e, validate (S vf) be d off (pre ++ suffix) (TArray e) = Err)
  /\ (forall d k v, validate (S vf) be d off (pre ++ suffix) (TDict k v) = Err)
  /\ (forall nf d e, unmarshal_p (S vf) be (TArray e) {| ubuf := pre ++ suffix; uoff := off; unfds := nf; udepth := d |} = Err)
  /\ (forall nf d k v, unmarshal_p (S vf) be (TDict k v) {| ubuf := pre ++ suffix; uoff := off; unfds := nf; udepth := d |} = Err)
  /\ (forall nf d x, unmarshal_t (S vf) be (EArray x) {| ubuf := pre ++ suffix; uoff := off; unfds := nf; udepth := d |} = Err)
  /\ (forall nf d k x, unmarshal_t (S vf) be (EDict k x) {| ubuf := pre ++ suffix; uoff := off; unfds := nf; udepth := d |} = Err).
Proof. exact decode_length_all. Qed.
Print Assumptions C18_decode_length.

(* decoders, nesting: a container met when 64 levels are already open is refused before any of its bytes is read
   (any buffer, any offset - even one outside the buffer); the typed decoder counts where the message chooses the
   type, at variants *)
Theorem C18_decode_depth : forall be vf,
  (forall t d off buf, is_container t = true -> MAX_DEPTH <= d -> validate (S vf) be d off buf t = Err)
  /\ (forall t c, is_container t = true -> MAX_DEPTH <= udepth c -> unmarshal_p (S vf) be t c = Err)
  /\ (forall x c, uoff c <= len (ubuf c) -> MAX_DEPTH <= udepth c -> unmarshal_t (S vf) be (EVar x) c = Err).
Proof. exact decode_depth_all. Qed.
Print Assumptions C18_decode_depth.

(* ... consequently every value the Param decoder ever returns is nested at most 64 levels deep (counting the levels
   it was called in), and the depth counter is back where it was *)
Theorem C18_decode_depth_value : forall be vf t c v c',
  unmarshal_p vf be t c = Ok (v, c') -> udepth c' = udepth c /\ (vdepth v = 0 \/ udepth c + vdepth v <= MAX_DEPTH).
Proof. exact decode_depth_value. Qed.
Print Assumptions C18_decode_depth_value.

(* send path, nesting: what the Param marshaller accepts is nested at most 64 levels deep *)
Theorem C18_send_depth : forall be v c c', marshal_p be 0 v c = (c', true) -> vdepth v <= MAX_DEPTH.
Proof. exact marshal_p_depth_top. Qed.
Print Assumptions C18_send_depth.

(* the typed marshaller counts no nesting at all: n structs in each other marshal for every n. In Rust the nesting of
   a typed value is fixed by the program text, so this is a statement about what the library itself checks. *)
Theorem C18_typed_counts_no_nesting : forall be n c,
  snd (marshal_t be (nest_struct n (VBase BByte 7)) c) = true /\ vdepth (nest_struct n (VBase BByte 7)) = N.of_nat n.
Proof. exact typed_counts_no_nesting. Qed.
Print Assumptions C18_typed_counts_no_nesting.

(* send path, arrays (Param API and typed element loop; dicts alike): a successful call wrote, at the length position,
   exactly the number of bytes the elements appended, and that number is at most 2^26 - no `as u32` truncation *)
Theorem C18_send_array_param : forall be d t vs c c', marshal_p be d (VArray t vs) c = (c', true) ->
  let b3 := pad_to (align t) (pad_to 4 (mbuf c) ++ [0; 0; 0; 0]) in
  exists c1, marshal_seq (marshal_p be (d + 1)) vs {| mbuf := b3; mfds := mfds c |} = (c1, true)
    /\ len (mbuf c1) - len b3 <= MAX_ARRAY
    /\ mbuf c' = firstnN (len (pad_to 4 (mbuf c))) (mbuf c1) ++ enc be 4 (len (mbuf c1) - len b3)
                 ++ skipnN (len (pad_to 4 (mbuf c)) + 4) (mbuf c1).
Proof. exact marshal_p_array_limit. Qed.
Print Assumptions C18_send_array_param.

Theorem C18_send_dict_param : forall be d k vt kvs c c', marshal_p be d (VDict k vt kvs) c = (c', true) ->
  let b3 := pad_to 8 (pad_to 4 (mbuf c) ++ [0; 0; 0; 0]) in
  exists c1, marshal_entries (marshal_p be (d + 1)) kvs {| mbuf := b3; mfds := mfds c |} = (c1, true)
    /\ len (mbuf c1) - len b3 <= MAX_ARRAY
    /\ mbuf c' = firstnN (len (pad_to 4 (mbuf c))) (mbuf c1) ++ enc be 4 (len (mbuf c1) - len b3)
                 ++ skipnN (len (pad_to 4 (mbuf c)) + 4) (mbuf c1).
Proof. exact marshal_p_dict_limit. Qed.
Print Assumptions C18_send_dict_param.

Theorem C18_send_array_typed : forall be t vs c c', valid_slice be t = false -> vs <> [] ->
  marshal_t be (VArray t vs) c = (c', true) ->
  let b3 := pad_to (align t) (pad_to 4 (mbuf c) ++ [0; 0; 0; 0]) in
  exists c1, marshal_seq (marshal_t be) vs {| mbuf := b3; mfds := mfds c |} = (c1, true)
    /\ len (mbuf c1) - len b3 <= MAX_ARRAY
    /\ mbuf c' = firstnN (len (pad_to 4 (mbuf c))) (mbuf c1) ++ enc be 4 (len (mbuf c1) - len b3)
                 ++ skipnN (len (pad_to 4 (mbuf c)) + 4) (mbuf c1).
Proof. exact marshal_t_array_limit. Qed.
Print Assumptions C18_send_array_typed.

Theorem C18_send_dict_typed : forall be k vt kvs c c', kvs <> [] ->
  marshal_t be (VDict k vt kvs) c = (c', true) ->
  let b3 := pad_to 8 (pad_to 4 (mbuf c) ++ [0; 0; 0; 0]) in
  exists c1, marshal_entries (marshal_t be) kvs {| mbuf := b3; mfds := mfds c |} = (c1, true)
    /\ len (mbuf c1) - len b3 <= MAX_ARRAY
    /\ mbuf c' = firstnN (len (pad_to 4 (mbuf c))) (mbuf c1) ++ enc be 4 (len (mbuf c1) - len b3)
                 ++ skipnN (len (pad_to 4 (mbuf c)) + 4) (mbuf c1).
Proof. exact marshal_t_dict_limit. Qed.
Print Assumptions C18_send_dict_typed.

(* typed slice fast path (&[u8], &[u64] in native order, ...): the content is the elements' memory *)
Theorem C18_send_slice_typed : forall be t vs c c', valid_slice be t = true ->
  marshal_t be (VArray t vs) c = (c', true) ->
  align t * len vs <= MAX_ARRAY
  /\ exists content, mbuf c' = pad_to (align t) (pad_to 4 (mbuf c) ++ enc be 4 (align t * len vs)) ++ content
  /\ dec be (enc be 4 (align t * len vs)) = align t * len vs.
Proof. exact marshal_t_slice_limit. Qed.
Print Assumptions C18_send_slice_typed.

(* send path, arrays, as one statement about the whole value: when a marshal call succeeds (typed API or Param API, any
   nesting counter, any buffer before it), EVERY array and dict inside the value, at any depth, has at most 2^26 bytes of
   content in the encoding produced ([arrays_within] looks at the specification's encoding of the value as it is on the wire,
   descriptors relabelled to their indices; by C02 these are the bytes that were written). Hypotheses as in C02: a well-typed
   value (what Rust's types guarantee) whose strings are shorter than 4 GiB, at most 2^32 descriptors. *)
Theorem C18_send_arrays : forall be v, typed v -> strings_small v = true ->
  (forall c c', marshal_t be v c = (c', true) -> snd (relabel v (mfds c)) <= 2 ^ 32 ->
     arrays_within be (len (mbuf c)) (fst (relabel v (mfds c))) = true)
  /\ (forall d c c', marshal_p be d v c = (c', true) -> snd (relabel v (mfds c)) <= 2 ^ 32 ->
        arrays_within be (len (mbuf c)) (fst (relabel v (mfds c))) = true).
Proof. exact send_arrays_within. Qed.
Print Assumptions C18_send_arrays.

(* THE SEND CLAUSE ("the library refuses to send values that exceed the limits") and its known exception, finding D21s.
   Param API, complete: whatever the public entry point (marshal_param / push_old_param) accepts is nested at most 64 deep and
   every array and dict inside it has at most 2^26 bytes of content. *)
Theorem C18_send_limits_param : forall be v, typed v -> strings_small v = true -> forall c c',
  marshal_param_top be v c = (c', true) -> snd (relabel v (mfds c)) <= 2 ^ 32 ->
  vdepth v <= MAX_DEPTH /\ arrays_within be (len (mbuf c)) (fst (relabel v (mfds c))) = true.
Proof. exact send_limits_param. Qed.
Print Assumptions C18_send_limits_param.

(* Typed API: the clause for every value outside the class KnownClass_D21s v := 64 < vdepth v. Read it honestly: the hypothesis
   "outside the class" IS vdepth v <= 64, so the nesting half of the conclusion restates the hypothesis - the typed marshaller checks
   no nesting, there is nothing to prove about it; the content of this theorem for the typed API is the arrays_within half. What bounds
   the nesting of a typed value is its Rust TYPE: that is the next theorem, C18_send_typed_class. *)
Theorem C18_send_limits_typed : forall be v, KnownClass_D21s v = false -> typed v -> strings_small v = true -> forall c c',
  marshal_t be v c = (c', true) -> snd (relabel v (mfds c)) <= 2 ^ 32 ->
  vdepth v <= MAX_DEPTH /\ arrays_within be (len (mbuf c)) (fst (relabel v (mfds c))) = true.
Proof. exact send_limits_typed. Qed.
Print Assumptions C18_send_limits_typed.

(* ... a class no value of a Rust type written at most 64 containers deep belongs to ([vfits e v]: v is a value of the Rust
   type e; [edepth e]: the nesting of the type): only self-referential types, or types deeper than 64, reach it *)
Theorem C18_send_typed_class : forall e v, vfits e v = true -> edepth e <= MAX_DEPTH -> KnownClass_D21s v = false.
Proof. exact typed_class_by_type. Qed.
Print Assumptions C18_send_typed_class.

(* ... and inside the class the clause fails (witness: the value of `enum DRec { Leaf(u8), Node(Vec<DRec>) }` nested 65
   containers deep): the typed marshaller accepts it, the Param marshaller refuses the same value *)
Theorem C18_send_typed_nesting_refuted :
  KnownClass_D21s (drec 32) = true /\ vdepth (drec 32) = 65 /\ typed (drec 32) /\ strings_small (drec 32) = true
  /\ snd (marshal_t false (drec 32) {| mbuf := []; mfds := 0 |}) = true
  /\ snd (marshal_param_top false (drec 32) {| mbuf := []; mfds := 0 |}) = false.
Proof. exact send_typed_nesting_refuted. Qed.
Print Assumptions C18_send_typed_nesting_refuted.

(* send path, message level, over the model of the header marshaller (Msg/Header.v: marshal_header writes the fixed header and
   the fields of the message, marshal_msg = wire::marshal::marshal): the call succeeds only if the header AS PRODUCED, padded to 8,
   plus the body has at most 2^27 bytes - the limit is on the whole message, not on the body - and then the body length is written
   untruncated; it fails only because marshal_header failed or because that total exceeds 2^27 *)
Theorem C18_send_message : forall (m : Header.msg) serial,
  match Header.marshal_msg m serial with
  | Ok hb => exists h, Header.marshal_header m serial = Ok h
             /\ hb = insert4 (Header.m_be m) (len (Header.m_body m)) 4 (pad_to 8 h)
             /\ len (pad_to 8 h) + len (Header.m_body m) <= MAX_MESSAGE
             /\ len (Header.m_body m) mod 2 ^ 32 = len (Header.m_body m)
  | Err => Header.marshal_header m serial = Err
           \/ exists h, Header.marshal_header m serial = Ok h /\ MAX_MESSAGE < len (pad_to 8 h) + len (Header.m_body m)
  | _ => False
  end.
Proof. exact send_message_limit. Qed.
Print Assumptions C18_send_message.

(* the length of the header field array goes through check_marshalled_array_len as well (fix 7b30723). On the send path this check
   can not fire: every field value is a name of at most 255 bytes, a u32 or a signature, so the array is a few KiB at most; it is
   stated for completeness, the limit that matters on send is the one above *)
Theorem C18_send_field_array_check : forall fields,
  match marshal_header_fields_len fields with
  | Ok m => fields <= MAX_ARRAY /\ m = fields
  | Err => MAX_ARRAY < fields
  | _ => False
  end.
Proof. exact check_marshalled_array_len_spec. Qed.
Print Assumptions C18_send_field_array_check.

(* the typed push of a params::Variant (impl Marshal for params::Variant = marshal_variant_param: shape check from depth 1,
   marshaller at depth 1) is the public Param entry point applied to the variant ... *)
Theorem C18_send_variant_entry : forall be t x c,
  marshal_variant_param be t x c = marshal_param_top be (VVariant t x) c.
Proof. exact marshal_variant_param_top. Qed.
Print Assumptions C18_send_variant_entry.

(* ... so it respects the limits like every Param tree (C18_send_limits_param) *)
Theorem C18_send_limits_variant_entry : forall be t x, typed (VVariant t x) -> strings_small (VVariant t x) = true -> forall c c',
  marshal_variant_param be t x c = (c', true) -> snd (relabel (VVariant t x) (mfds c)) <= 2 ^ 32 ->
  vdepth (VVariant t x) <= MAX_DEPTH
  /\ arrays_within be (len (mbuf c)) (fst (relabel (VVariant t x) (mfds c))) = true.
Proof. exact send_limits_variant_entry. Qed.
Print Assumptions C18_send_limits_variant_entry.

(* receive path, the check: for every buffered prefix with a decodable fixed header, bytes_needed_for_current_message
   answers the announced size (fixed header + field array + padding + body, as the specification lays a message out)
   when the field array is at most 2^26 and the total at most 2^27 bytes, and an error otherwise *)
Theorem C18_recv_check : forall p h hfl,
  unmarshal_header p = ROk h -> parse_u32 (skipnN HEADER_LEN p) (h_bo h) = ROk hfl ->
  if (MAX_ARRAY <? hfl) || (MAX_MESSAGE <? announced hfl (h_body_len h))
  then exists e, needed_of p = RErr e
  else needed_of p = ROk (announced hfl (h_body_len h)).
Proof. exact needed_of_spec. Qed.
Print Assumptions C18_recv_check.

(* ... after a refusal no memory is reserved and nothing is read: the call returns the error with the state untouched *)
Theorem C18_recv_refused : forall st e, bytes_needed st = RErr e -> forall cs q,
  (exists e' q' cs', read_whole_message cs st q = (RErr e', st, q', cs'))
  /\ (exists e' q' cs', read_once cs st q = (RErr e', st, q', cs')).
Proof. exact recv_refused. Qed.
Print Assumptions C18_recv_refused.

(* ... the only place where the buffer grows reserves exactly max(current, announced), and the announced size was accepted *)
Theorem C18_recv_reserve : forall st q n c r st' q',
  filled st <= len (buf st) -> len (buf st) <= MAX_MESSAGE -> segs_ok q -> bytes_needed st = ROk n ->
  refill_buffer st q n c = (r, st', q') -> len (buf st') = N.max (len (buf st)) n /\ n <= MAX_MESSAGE.
Proof. exact refill_reserves_announced. Qed.
Print Assumptions C18_recv_reserve.

(* (memory is thus bounded by the announced size the check accepted - at most 2^27, which the protocol allows a message to have -
   not by the number of bytes received so far: the buffer is zero-filled to the announced size after the first 16 bytes) *)
(* receive path, memory: whatever bytes the peer writes in whatever pieces, whatever calls the client makes and
   whatever the kernel delivers per recvmsg, the receive buffer never holds more than 2^27 bytes *)
Theorem C18_recv_memory : forall (D : Type) (decode_fields : header -> list N -> option D) sched st q os,
  run D decode_fields sched = (st, q, os) -> filled st <= len (buf st) /\ len (buf st) <= MAX_MESSAGE.
Proof. exact recv_buffer_bounded. Qed.
Print Assumptions C18_recv_memory.
