(** The D-Bus message header as a specification, written from the specification text ("Message
    Format", "Header Fields") and the statements of C05/C06; nothing here refers to the models
    of the code.

    A message starts with the fixed part: endianness flag 'l' / 'B', message type 1..4, flags,
    protocol version 1, body length (u32), serial (u32, non-zero).  At offset 12 follows the
    header-field array: a D-Bus value of type a(yv), encoded like any other value (Wire/SpecEnc.v)
    - each element is an 8-aligned struct of the field code and a variant carrying the field's
    value.  The header ends with zero padding to an 8-byte boundary; the body follows. *)
From RB Require Import Base.Prelude Sig.Types Sig.Parser Sig.Validator Wire.Bytes Wire.Align Wire.Text
  Wire.Value Wire.SpecEnc Names.Spec.

(** ** the header-field array as a value *)
Record hfield := { hf_code : N; hf_ty : ty; hf_val : val }.

Definition T_FIELD : ty := TStruct [TBase BByte; TVariant].                   (* (yv) *)
Definition T_FIELDS : ty := TArray T_FIELD.                                   (* a(yv) *)
Definition field_val (f : hfield) : val := VStruct [VBase BByte (hf_code f); VVariant (hf_ty f) (hf_val f)].
Definition fields_val (fs : list hfield) : val := VArray T_FIELD (map field_val fs).

(** field codes of the specification's table *)
Definition PATH : N := 1.
Definition INTERFACE : N := 2.
Definition MEMBER : N := 3.
Definition ERROR_NAME : N := 4.
Definition REPLY_SERIAL : N := 5.
Definition DESTINATION : N := 6.
Definition SENDER : N := 7.
Definition SIGNATURE : N := 8.
Definition UNIX_FDS : N := 9.

Definition str_field (code : N) (s : list N) : hfield := {| hf_code := code; hf_ty := TBase BString; hf_val := VText BString s |}.
Definition path_field (s : list N) : hfield := {| hf_code := PATH; hf_ty := TBase BObjectPath; hf_val := VText BObjectPath s |}.
Definition sig_field (s : list N) : hfield := {| hf_code := SIGNATURE; hf_ty := TBase BSignature; hf_val := VText BSignature s |}.
Definition u32_field (code : N) (n : N) : hfield := {| hf_code := code; hf_ty := TBase BUint32; hf_val := VBase BUint32 n |}.

(** what the table prescribes for each code: the type of the variant and the constraint on the
    value (that an object path is a valid path and a signature a valid signature is part of the
    wire format of those types, i.e. of [encodable]).  Code 0 is invalid, codes above 9 are
    unknown fields: any variant. *)
Definition field_ok (f : hfield) : Prop :=
  let c := hf_code f in
  if c =? 0 then False
  else if c =? PATH then exists s, f = path_field s
  else if c =? INTERFACE then exists s, f = str_field INTERFACE s /\ ValidInterface s
  else if c =? MEMBER then exists s, f = str_field MEMBER s /\ ValidMember s
  else if c =? ERROR_NAME then exists s, f = str_field ERROR_NAME s /\ ValidErrorName s
  else if c =? REPLY_SERIAL then exists n, f = u32_field REPLY_SERIAL n /\ n <> 0
  else if c =? DESTINATION then exists s, f = str_field DESTINATION s /\ ValidBusName s
  else if c =? SENDER then exists s, f = str_field SENDER s /\ ValidBusName s
  else if c =? SIGNATURE then exists s, f = sig_field s
  else if c =? UNIX_FDS then exists n, f = u32_field UNIX_FDS n
  else True.

Definition known (c : N) : bool := (1 <=? c) && (c <=? 9).
Definition codes (fs : list hfield) : list N := map hf_code fs.
Definition has (c : N) (fs : list hfield) : Prop := In c (codes fs).

(** no known field occurs twice *)
Definition no_duplicates (fs : list hfield) : Prop := NoDup (filter known (codes fs)).

(** fields required for the message type: METHOD_CALL 1, METHOD_RETURN 2, ERROR 3, SIGNAL 4 *)
Definition required (typ : N) (fs : list hfield) : Prop :=
  (typ = 1 -> has PATH fs /\ has MEMBER fs) /\
  (typ = 2 -> has REPLY_SERIAL fs) /\
  (typ = 3 -> has ERROR_NAME fs /\ has REPLY_SERIAL fs) /\
  (typ = 4 -> has PATH fs /\ has INTERFACE fs /\ has MEMBER fs).

(** ** the decoded header *)
Record hdr := {
  h_be : bool;                 (* big endian *)
  h_typ : N;
  h_flags : N;
  h_body_len : N;
  h_serial : N;
  h_reply_serial : option N;
  h_interface : option (list N);
  h_destination : option (list N);
  h_sender : option (list N);
  h_member : option (list N);
  h_object : option (list N);
  h_error_name : option (list N);
  h_signature : option (list N);
  h_unix_fds : option N
}.

Definition find_field (c : N) (fs : list hfield) : option hfield := find (fun f => hf_code f =? c) fs.
Definition text_of (o : option hfield) : option (list N) :=
  match o with Some {| hf_val := VText _ s |} => Some s | _ => None end.
Definition num_of (o : option hfield) : option N :=
  match o with Some {| hf_val := VBase _ n |} => Some n | _ => None end.

(** "the decoded fields equal what the bytes say" *)
Definition decoded (h : hdr) (fs : list hfield) : Prop :=
  h_object h = text_of (find_field PATH fs) /\
  h_interface h = text_of (find_field INTERFACE fs) /\
  h_member h = text_of (find_field MEMBER fs) /\
  h_error_name h = text_of (find_field ERROR_NAME fs) /\
  h_reply_serial h = num_of (find_field REPLY_SERIAL fs) /\
  h_destination h = text_of (find_field DESTINATION fs) /\
  h_sender h = text_of (find_field SENDER fs) /\
  h_signature h = text_of (find_field SIGNATURE fs) /\
  h_unix_fds h = num_of (find_field UNIX_FDS fs).

Definition endian_flag (be : bool) : N := if be then 66 else 108.          (* 'B' / 'l' *)

(** the 12 fixed bytes *)
Definition fixed_part (be : bool) (typ flags body_len serial : N) : list N :=
  [endian_flag be; typ; flags; 1] ++ enc be 4 body_len ++ enc be 4 serial.

(** [ValidHeader p h]: the byte string [p] is a spec-valid header (up to the end of the field
    array) and [h] is what it says *)
Definition ValidHeader (p : list N) (h : hdr) : Prop :=
  exists fs,
    p = fixed_part (h_be h) (h_typ h) (h_flags h) (h_body_len h) (h_serial h)
        ++ spec_enc (h_be h) 12 (fields_val fs)
    /\ 1 <= h_typ h <= 4 /\ h_flags h < 256 /\ h_body_len h < 2 ^ 32 /\ 0 < h_serial h < 2 ^ 32
    /\ wt (fields_val fs) T_FIELDS = true
    /\ encodable (h_be h) 12 0 (fields_val fs) = true
    /\ Forall field_ok fs
    /\ no_duplicates fs
    /\ required (h_typ h) fs
    /\ decoded h fs.

(** the length of the complete message a header announces: header, padding to 8, body *)
Definition announced_len (header_len body_len : N) : N := header_len + padlen 8 header_len + body_len.
