(** C05 round trip, C06 frame length and unknown fields: compositions of the marshalling theorem
    (Msg/HeaderProofs.v) and of soundness / completeness of the decoder (Msg/DecodeSound.v,
    Msg/DecodeComplete.v). *)
From RB Require Import Base.Prelude Sig.Types Sig.Parser Sig.Validator Sig.ParserProofs Sig.ValidatorProofs
  Wire.Bytes Wire.Align Wire.Text Wire.Value Wire.SpecEnc Wire.Marshal Wire.MarshalProofs Wire.Decode Wire.Unmarshal
  Wire.DecodeLemmas Names.Str Names.Spec Names.StrProofs Names.Model Names.Proofs
  Msg.Utf8 Msg.Shift Msg.Header Msg.HeaderSpec Msg.MsgSpec Msg.HeaderDecode Msg.HeaderProofs Msg.DecodeSound Msg.DecodeComplete.

(** ** ValidHeader, with the field list made explicit *)
Definition header_fields_ok (h : hdr) (fs : list hfield) : Prop :=
  1 <= h_typ h <= 4 /\ h_flags h < 256 /\ h_body_len h < 2 ^ 32 /\ 0 < h_serial h < 2 ^ 32
  /\ wt (fields_val fs) T_FIELDS = true /\ encodable (h_be h) 12 0 (fields_val fs) = true
  /\ Forall field_ok fs /\ no_duplicates fs /\ required (h_typ h) fs /\ decoded h fs.

Definition hdr_bytes (h : hdr) (fs : list hfield) : list N :=
  fixed_part (h_be h) (h_typ h) (h_flags h) (h_body_len h) (h_serial h) ++ spec_enc (h_be h) 12 (fields_val fs).

Lemma valid_header_of h fs : header_fields_ok h fs -> ValidHeader (hdr_bytes h fs) h.
Proof. intros H. exists fs. split; [reflexivity|exact H]. Qed.

Lemma decode_hdr_bytes h fs rest : header_fields_ok h fs ->
  decode_header (hdr_bytes h fs ++ rest) = Ok (h, len (hdr_bytes h fs)).
Proof.
  intros H. apply decode_header_complete.
  - rewrite len_app. lia.
  - rewrite firstnN_app_len. now apply valid_header_of.
Qed.

(** ** C06: unknown fields are skipped *)
Lemma find_insert {A} (p : A -> bool) a u b : p u = false -> find p (a ++ u :: b) = find p (a ++ b).
Proof. intros H. induction a as [|x a IH]; cbn [app find]; [now rewrite H|]. destruct (p x); [reflexivity|exact IH]. Qed.

Lemma known_code_neq u c : known (hf_code u) = false -> known c = true -> (hf_code u =? c) = false.
Proof. intros Hu Hc. apply N.eqb_neq. intros E. rewrite E in Hu. congruence. Qed.

Theorem unknown_field_ok h fs1 fs2 u :
  header_fields_ok h (fs1 ++ fs2) -> known (hf_code u) = false -> hf_code u <> 0 ->
  wt (fields_val (fs1 ++ u :: fs2)) T_FIELDS = true -> encodable (h_be h) 12 0 (fields_val (fs1 ++ u :: fs2)) = true ->
  header_fields_ok h (fs1 ++ u :: fs2).
Proof.
  intros (Ht & Hf & Hb & Hs & _ & _ & Hok & Hnd & Hreq & Hdec) Hu H0 Hw He.
  unfold header_fields_ok. repeat (split; [assumption|]). split; [|split; [|split]].
  - apply Forall_app in Hok. destruct Hok as [H1 H2]. apply Forall_app. split; [exact H1|].
    constructor; [now apply known_false_ok|exact H2].
  - unfold no_duplicates, codes in *. rewrite map_app, filter_app in *. cbn [map filter]. now rewrite Hu.
  - assert (Hhas : forall c, has c (fs1 ++ fs2) -> has c (fs1 ++ u :: fs2)).
    { intros c. unfold has, codes. rewrite !map_app, !in_app_iff. cbn [map In]. tauto. }
    destruct Hreq as (R1 & R2 & R3 & R4). unfold required.
    split; [intros E; destruct (R1 E); split; apply Hhas; assumption|].
    split; [intros E; apply Hhas, (R2 E)|].
    split; [intros E; destruct (R3 E); split; apply Hhas; assumption|].
    intros E. destruct (R4 E) as (Q1 & Q2 & Q3). repeat split; apply Hhas; assumption.
  - unfold decoded, find_field in *.
    rewrite !(find_insert _ fs1 u fs2) by (apply known_code_neq; [exact Hu|reflexivity]). exact Hdec.
Qed.

Theorem unknown_field_skipped h fs1 fs2 u rest1 rest2 :
  header_fields_ok h (fs1 ++ fs2) -> known (hf_code u) = false -> hf_code u <> 0 ->
  wt (fields_val (fs1 ++ u :: fs2)) T_FIELDS = true -> encodable (h_be h) 12 0 (fields_val (fs1 ++ u :: fs2)) = true ->
  decode_header (hdr_bytes h (fs1 ++ fs2) ++ rest1) = Ok (h, len (hdr_bytes h (fs1 ++ fs2)))
  /\ decode_header (hdr_bytes h (fs1 ++ u :: fs2) ++ rest2) = Ok (h, len (hdr_bytes h (fs1 ++ u :: fs2))).
Proof.
  intros H Hu H0 Hw He. split; apply decode_hdr_bytes; [exact H|now apply unknown_field_ok].
Qed.

(** ** C06: the frame length announced to the receive loop *)
Theorem bytes_needed_spec be typ flags blen serial hfl rest :
  1 <= typ <= 4 -> flags < 256 -> blen < 2 ^ 32 -> 0 < serial < 2 ^ 32 -> hfl < 2 ^ 32 ->
  bytes_needed (fixed_part be typ flags blen serial ++ enc be 4 hfl ++ rest) =
  if (hfl <=? 2 ^ 26) && (announced_len (16 + hfl) blen <=? 2 ^ 27) then Ok (announced_len (16 + hfl) blen) else Err.
Proof.
  intros Ht Hf Hb Hs Hh. set (B := fixed_part be typ flags blen serial ++ enc be 4 hfl ++ rest).
  assert (Lfix : len (fixed_part be typ flags blen serial) = 12).
  { unfold fixed_part. rewrite !len_app, !len_enc. reflexivity. }
  pose proof (has_at_intro [] (fixed_part be typ flags blen serial ++ enc be 4 hfl) rest) as HA.
  cbn [app] in HA. rewrite <- app_assoc in HA. fold B in HA. change (len (@nil N)) with 0 in HA.
  destruct (has_at_app _ _ _ _ HA) as [A0 A12]. rewrite Lfix in A12. change (0 + 12) with 12 in A12.
  unfold bytes_needed.
  assert (L16 : 16 <= len B).
  { subst B. rewrite !len_app, Lfix, len_enc. change (N.of_nat 4) with 4. lia. }
  destruct (N.ltb_spec (len B) 16) as [|_]; [lia|].
  rewrite (unmarshal_header_complete B be typ flags blen serial A0 Ht Hf Hb Hs). cbn [bind fst snd hd_be hd_body_len].
  rewrite (parse_u32_ok be B 12 hfl Hh A12). cbn [bind].
  unfold check_array_len, MAX_ARRAY, HeaderDecode.MAX_MESSAGE_LEN, announced_len.
  destruct (N.ltb_spec (2 ^ 26) hfl); destruct (N.leb_spec hfl (2 ^ 26)); try lia; cbn [bind andb]; [reflexivity|].
  rewrite pad_amount_padlen by lia. replace (12 + hfl + 4) with (16 + hfl) by lia.
  destruct (N.ltb_spec (2 ^ 27) (16 + hfl + padlen 8 (16 + hfl) + blen));
    destruct (N.leb_spec (16 + hfl + padlen 8 (16 + hfl) + blen) (2 ^ 27)); try lia; reflexivity.
Qed.

(** ** the message after the header *)
Lemma next_message_spec h p body nfds :
  h_body_len h = len body ->
  unmarshal_next_message h (p ++ zeros (padlen 8 (len p)) ++ body) (len p) nfds =
  Ok {| dm_hdr := h; dm_body := body; dm_sig := match h_signature h with Some s => s | None => [] end; dm_nfds := nfds |}.
Proof.
  intros Hb. unfold unmarshal_next_message.
  pose proof (has_at_intro p (zeros (padlen 8 (len p))) body) as HA.
  rewrite (align_offset_ok 8 _ _ ltac:(lia) HA). cbn [bind].
  destruct (N.eqb_spec (h_body_len h) 0) as [E|E].
  - rewrite E in Hb. symmetry in Hb. apply len_0_nil in Hb. now subst body.
  - rewrite !len_app, len_zeros.
    replace (len p + (padlen 8 (len p) + len body) - (len p + padlen 8 (len p))) with (len body) by lia.
    rewrite Hb. destruct (N.ltb_spec (len body) (len body)); [lia|]. rewrite N.eqb_refl. cbn [negb].
    f_equal. f_equal. rewrite app_assoc.
    replace (len p + padlen 8 (len p)) with (len (p ++ zeros (padlen 8 (len p)))) by (rewrite len_app, len_zeros; reflexivity).
    apply skipnN_app_len.
Qed.
