(** C05 round trip, C06 frame length and unknown fields: compositions of the marshalling theorem
    (Msg/HeaderProofs.v) and of soundness / completeness of the decoder (Msg/DecodeSound.v,
    Msg/DecodeComplete.v). *)
From RB Require Import Base.Prelude Sig.Types Sig.Parser Sig.Validator Sig.ParserProofs Sig.ValidatorProofs
  Wire.Bytes Wire.Align Wire.Text Wire.Value Wire.SpecEnc Wire.Marshal Wire.MarshalProofs Wire.Decode Wire.Unmarshal
  Wire.DecodeLemmas Names.Str Names.Spec Names.StrProofs Names.Model Names.Proofs
  Msg.Utf8 Msg.Shift Msg.Header Msg.HeaderSpec Msg.MsgSpec Msg.HeaderDecode Msg.HeaderProofs Msg.DecodeSound Msg.DecodeComplete.

(** ** ValidHeader, with the field list made explicit *)
Definition header_fields_ok (h : hdr) (fs : list hfield) : Prop :=
  1 <= h_typ h <= 4 /\ h_flags h < 256 /\ h_body_len h < 2 ^ 32 /\ 0 < h_serial h < 2 ^ 32
  /\ wt (fields_val fs) T_FIELDS = true /\ encodable (h_be h) 12 0 (fields_val fs) = true
  /\ Forall field_ok fs /\ no_duplicates fs /\ required (h_typ h) fs /\ decoded h fs.

Definition hdr_bytes (h : hdr) (fs : list hfield) : list N :=
  fixed_part (h_be h) (h_typ h) (h_flags h) (h_body_len h) (h_serial h) ++ spec_enc (h_be h) 12 (fields_val fs).

Lemma valid_header_of h fs : header_fields_ok h fs -> ValidHeader (hdr_bytes h fs) h.
Proof. intros H. exists fs. split; [reflexivity|exact H]. Qed.

Lemma decode_hdr_bytes h fs rest : header_fields_ok h fs ->
  decode_header (hdr_bytes h fs ++ rest) = Ok (h, len (hdr_bytes h fs)).
Proof.
  intros H. apply decode_header_complete.
  - rewrite len_app. lia.
  - rewrite firstnN_app_len. now apply valid_header_of.
Qed.

(** ** C06: unknown fields are skipped *)
Lemma find_insert {A} (p : A -> bool) a u b : p u = false -> find p (a ++ u :: b) = find p (a ++ b).
Proof. intros H. induction a as [|x a IH]; cbn [app find]; [now rewrite H|]. destruct (p x); [reflexivity|exact IH]. Qed.

Lemma known_code_neq u c : known (hf_code u) = false -> known c = true -> (hf_code u =? c) = false.
Proof. intros Hu Hc. apply N.eqb_neq. intros E. rewrite E in Hu. congruence. Qed.

Theorem unknown_field_ok h fs1 fs2 u :
  header_fields_ok h (fs1 ++ fs2) -> known (hf_code u) = false -> hf_code u <> 0 ->
  wt (fields_val (fs1 ++ u :: fs2)) T_FIELDS = true -> encodable (h_be h) 12 0 (fields_val (fs1 ++ u :: fs2)) = true ->
  header_fields_ok h (fs1 ++ u :: fs2).
Proof.
  intros (Ht & Hf & Hb & Hs & _ & _ & Hok & Hnd & Hreq & Hdec) Hu H0 Hw He.
  unfold header_fields_ok. repeat (split; [assumption|]). split; [|split; [|split]].
  - apply Forall_app in Hok. destruct Hok as [H1 H2]. apply Forall_app. split; [exact H1|].
    constructor; [now apply known_false_ok|exact H2].
  - unfold no_duplicates, codes in *. rewrite map_app, filter_app in *. cbn [map filter]. now rewrite Hu.
  - assert (Hhas : forall c, has c (fs1 ++ fs2) -> has c (fs1 ++ u :: fs2)).
    { intros c. unfold has, codes. rewrite !map_app, !in_app_iff. cbn [map In]. tauto. }
    destruct Hreq as (R1 & R2 & R3 & R4). unfold required.
    split; [intros E; destruct (R1 E); split; apply Hhas; assumption|].
    split; [intros E; apply Hhas, (R2 E)|].
    split; [intros E; destruct (R3 E); split; apply Hhas; assumption|].
    intros E. destruct (R4 E) as (Q1 & Q2 & Q3). repeat split; apply Hhas; assumption.
  - unfold decoded, find_field in *.
    rewrite !(find_insert _ fs1 u fs2) by (apply known_code_neq; [exact Hu|reflexivity]). exact Hdec.
Qed.

Theorem unknown_field_skipped h fs1 fs2 u rest1 rest2 :
  header_fields_ok h (fs1 ++ fs2) -> known (hf_code u) = false -> hf_code u <> 0 ->
  wt (fields_val (fs1 ++ u :: fs2)) T_FIELDS = true -> encodable (h_be h) 12 0 (fields_val (fs1 ++ u :: fs2)) = true ->
  decode_header (hdr_bytes h (fs1 ++ fs2) ++ rest1) = Ok (h, len (hdr_bytes h (fs1 ++ fs2)))
  /\ decode_header (hdr_bytes h (fs1 ++ u :: fs2) ++ rest2) = Ok (h, len (hdr_bytes h (fs1 ++ u :: fs2))).
Proof.
  intros H Hu H0 Hw He. split; apply decode_hdr_bytes; [exact H|now apply unknown_field_ok].
Qed.

(** ** C06: the frame length announced to the receive loop *)
Theorem bytes_needed_spec be typ flags blen serial hfl rest :
  1 <= typ <= 4 -> flags < 256 -> blen < 2 ^ 32 -> 0 < serial < 2 ^ 32 -> hfl < 2 ^ 32 ->
  bytes_needed (fixed_part be typ flags blen serial ++ enc be 4 hfl ++ rest) =
  if (hfl <=? 2 ^ 26) && (announced_len (16 + hfl) blen <=? 2 ^ 27) then Ok (announced_len (16 + hfl) blen) else Err.
Proof.
  intros Ht Hf Hb Hs Hh. set (B := fixed_part be typ flags blen serial ++ enc be 4 hfl ++ rest).
  assert (Lfix : len (fixed_part be typ flags blen serial) = 12).
  { unfold fixed_part. rewrite !len_app, !len_enc. reflexivity. }
  pose proof (has_at_intro [] (fixed_part be typ flags blen serial ++ enc be 4 hfl) rest) as HA.
  cbn [app] in HA. rewrite <- app_assoc in HA. fold B in HA. change (len (@nil N)) with 0 in HA.
  destruct (has_at_app _ _ _ _ HA) as [A0 A12]. rewrite Lfix in A12. change (0 + 12) with 12 in A12.
  unfold bytes_needed.
  assert (L16 : 16 <= len B).
  { subst B. rewrite !len_app, Lfix, len_enc. change (N.of_nat 4) with 4. lia. }
  destruct (N.ltb_spec (len B) 16) as [|_]; [lia|].
  rewrite (unmarshal_header_complete B be typ flags blen serial A0 Ht Hf Hb Hs). cbn [bind fst snd hd_be hd_body_len].
  rewrite (parse_u32_ok be B 12 hfl Hh A12). cbn [bind].
  unfold check_array_len, MAX_ARRAY, HeaderDecode.MAX_MESSAGE_LEN, announced_len.
  destruct (N.ltb_spec (2 ^ 26) hfl); destruct (N.leb_spec hfl (2 ^ 26)); try lia; cbn [bind andb]; [reflexivity|].
  rewrite pad_amount_padlen by lia. replace (12 + hfl + 4) with (16 + hfl) by lia.
  destruct (N.ltb_spec (2 ^ 27) (16 + hfl + padlen 8 (16 + hfl) + blen));
    destruct (N.leb_spec (16 + hfl + padlen 8 (16 + hfl) + blen) (2 ^ 27)); try lia; reflexivity.
Qed.

(** ** the message after the header *)
Lemma next_message_spec h p body nfds :
  h_body_len h = len body ->
  unmarshal_next_message h (p ++ zeros (padlen 8 (len p)) ++ body) (len p) nfds =
  Ok {| dm_hdr := h; dm_body := body; dm_sig := match h_signature h with Some s => s | None => [] end; dm_nfds := nfds |}.
Proof.
  intros Hb. unfold unmarshal_next_message.
  pose proof (has_at_intro p (zeros (padlen 8 (len p))) body) as HA.
  rewrite (align_offset_ok 8 _ _ ltac:(lia) HA). cbn [bind].
  destruct (N.eqb_spec (h_body_len h) 0) as [E|E].
  - rewrite E in Hb. symmetry in Hb. apply len_0_nil in Hb. now subst body.
  - rewrite !len_app, len_zeros.
    replace (len p + (padlen 8 (len p) + len body) - (len p + padlen 8 (len p))) with (len body) by lia.
    rewrite Hb. destruct (N.ltb_spec (len body) (len body)); [lia|]. rewrite N.eqb_refl. cbn [negb].
    f_equal. f_equal. rewrite app_assoc.
    replace (len p + padlen 8 (len p)) with (len (p ++ zeros (padlen 8 (len p)))) by (rewrite len_app, len_zeros; reflexivity).
    apply skipnN_app_len.
Qed.

(** ** C05: the header a message marshals to is a valid header that says what the message says *)
Fixpoint nodup_bool (l : list N) : bool :=
  match l with [] => true | x :: r => negb (existsb (N.eqb x) r) && nodup_bool r end.
Lemma nodup_bool_sound l : nodup_bool l = true -> NoDup l.
Proof.
  induction l as [|x r IH]; intros H; [constructor|]. cbn [nodup_bool] in H. apply andb_prop in H. destruct H as [Hx Hr].
  constructor; [|now apply IH]. intros Hin. apply existsb_eqb_in in Hin. rewrite Hin in Hx. discriminate.
Qed.

Lemma msg_no_duplicates m : no_duplicates (fields_of_msg m).
Proof.
  unfold no_duplicates, fields_of_msg. apply nodup_bool_sound.
  destruct (m_reply_serial m), (m_interface m), (m_destination m), (m_sender m), (m_member m), (m_object m), (m_error_name m),
    (is_nil (m_body m)), (m_nfds m =? 0); reflexivity.
Qed.

Lemma msg_decoded m serial : decoded (hdr_of_msg m serial) (fields_of_msg m).
Proof.
  unfold decoded, hdr_of_msg, fields_of_msg, find_field.
  cbn [h_object h_interface h_member h_error_name h_reply_serial h_destination h_sender h_signature h_unix_fds].
  destruct (m_reply_serial m), (m_interface m), (m_destination m), (m_sender m), (m_member m), (m_object m), (m_error_name m),
    (is_nil (m_body m)), (m_nfds m =? 0); repeat split; reflexivity.
Qed.

Lemma msg_fields_field_ok m : rust_typed m -> fields_valid m -> Forall field_ok (fields_of_msg m).
Proof.
  intros T [(Vi & Vd & Vs & Vm & Vp & Ve) [Vsig Vlive]]. unfold fields_of_msg. repeat rewrite Forall_app. repeat split.
  - apply Forall_opt_field. intros n E. apply field_ok_reply_serial.
    pose proof (rt_rs m T) as R. rewrite E in R. cbn in R. unfold nonzero_u32 in R. lia.
  - apply Forall_opt_field. intros s E. rewrite E in Vi. now apply field_ok_interface.
  - apply Forall_opt_field. intros s E. rewrite E in Vd. now apply field_ok_destination.
  - apply Forall_opt_field. intros s E. rewrite E in Vs. now apply field_ok_sender.
  - apply Forall_opt_field. intros s E. rewrite E in Vm. now apply field_ok_member.
  - apply Forall_opt_field. intros s E. apply field_ok_path.
  - apply Forall_opt_field. intros s E. rewrite E in Ve. now apply field_ok_errorname.
  - destruct (is_nil (m_body m)); [constructor|]. constructor; [apply field_ok_signature|constructor].
  - destruct (m_nfds m =? 0); [constructor|]. constructor; [apply field_ok_unix_fds|constructor].
Qed.

Lemma has_opt_some {A} c (o : option A) mk x : o = Some x -> hf_code (mk x) = c -> has c (opt_field o mk).
Proof. intros -> <-. cbn. auto. Qed.

Lemma msg_required m : required_present m -> required (type_no (m_typ m)) (fields_of_msg m).
Proof.
  intros H. unfold required, required_present, fields_of_msg in *. rewrite !has_app.
  assert (P : forall {A} (o : option A) mk c, o <> None -> (forall x, hf_code (mk x) = c) -> has c (opt_field o mk)).
  { intros A o mk c Ho Hc. destruct o as [x|]; [|contradiction]. cbn. left. apply Hc. }
  destruct (m_typ m); cbn [type_no].
  - (* signal: 4 *) destruct H as (Ho & Hm & Hi).
    split; [intros E; discriminate E|]. split; [intros E; discriminate E|]. split; [intros E; discriminate E|].
    intros _. split; [|split].
    + do 5 right. left. apply P; [exact Ho|reflexivity].
    + right. left. apply P; [exact Hi|reflexivity].
    + do 4 right. left. apply P; [exact Hm|reflexivity].
  - (* error: 3 *) destruct H as (He & Hr).
    split; [intros E; discriminate E|]. split; [intros E; discriminate E|]. split; [|intros E; discriminate E].
    intros _. split.
    + do 6 right. left. apply P; [exact He|reflexivity].
    + left. apply P; [exact Hr|reflexivity].
  - (* call: 1 *) destruct H as (Ho & Hm).
    split; [|split; [intros E; discriminate E|split; intros E; discriminate E]].
    intros _. split.
    + do 5 right. left. apply P; [exact Ho|reflexivity].
    + do 4 right. left. apply P; [exact Hm|reflexivity].
  - (* reply: 2 *)
    split; [intros E; discriminate E|]. split; [|split; intros E; discriminate E].
    intros _. left. apply P; [exact H|reflexivity].
  - contradiction.
Qed.

Theorem msg_header_valid m serial hb : rust_typed m -> nonzero_u32 serial ->
  marshal_msg m serial = Ok hb ->
  header_fields_ok (hdr_of_msg m serial) (fields_of_msg m)
  /\ hb = hdr_bytes (hdr_of_msg m serial) (fields_of_msg m)
          ++ zeros (padlen 8 (len (hdr_bytes (hdr_of_msg m serial) (fields_of_msg m)))).
Proof.
  intros T Hs H. destruct (marshal_msg_spec m serial hb T H) as (-> & Hv & Hni & Hw & He & Hl & Hreq).
  split; [|reflexivity].
  unfold header_fields_ok. cbn [hdr_of_msg h_typ h_flags h_body_len h_serial h_be].
  split; [destruct (m_typ m); cbn; try lia; now elim Hni|].
  split; [apply (rt_flags m T)|].
  split; [assert (2 ^ 27 < 2 ^ 32) by (apply N.pow_lt_mono_r; lia); lia|].
  split; [exact Hs|]. split; [exact Hw|]. split; [exact He|].
  split; [now apply msg_fields_field_ok|]. split; [apply msg_no_duplicates|]. split; [now apply msg_required|apply msg_decoded].
Qed.

(** the round trip through the library's own decoders *)
Theorem roundtrip m serial hb nfds : rust_typed m -> nonzero_u32 serial ->
  marshal_msg m serial = Ok hb ->
  decode_message (hb ++ m_body m) nfds =
  Ok {| dm_hdr := hdr_of_msg m serial; dm_body := m_body m;
        dm_sig := if is_nil (m_body m) then [] else m_sig m; dm_nfds := nfds |}.
Proof.
  intros T Hs H. destruct (msg_header_valid m serial hb T Hs H) as [Hok ->].
  set (h := hdr_of_msg m serial) in *. set (p := hdr_bytes h (fields_of_msg m)) in *.
  unfold decode_message. rewrite <- !app_assoc. unfold p at 1. rewrite (decode_hdr_bytes h _ _ Hok). cbn [bind fst snd]. fold p.
  rewrite next_message_spec by reflexivity. f_equal. f_equal.
  subst h. cbn [hdr_of_msg h_signature]. destruct (is_nil (m_body m)); reflexivity.
Qed.

(** ** C05: conformance, the statement of the property in one theorem *)
Theorem conformant m serial hb : rust_typed m -> nonzero_u32 serial -> marshal_msg m serial = Ok hb ->
  hb = fixed_part (m_be m) (type_no (m_typ m)) (m_flags m) (len (m_body m)) serial
       ++ spec_enc (m_be m) 12 (header_value m)
       ++ zeros (padlen 8 (12 + len (spec_enc (m_be m) 12 (header_value m))))
  /\ dec (m_be m) (slice hb 4 4) = len (m_body m) /\ dec (m_be m) (slice hb 8 4) = serial
  /\ wt (header_value m) T_FIELDS = true /\ encodable (m_be m) 12 0 (header_value m) = true
  /\ (m_body m <> [] -> In (sig_field (m_sig m)) (fields_of_msg m))
  /\ (m_body m = [] -> ~ has SIGNATURE (fields_of_msg m))
  /\ (m_nfds m <> 0 -> In (u32_field UNIX_FDS (m_nfds m)) (fields_of_msg m))
  /\ (m_nfds m = 0 -> ~ has UNIX_FDS (fields_of_msg m))
  /\ names_valid m /\ (m_body m <> [] -> validate_signature (m_sig m) = Ok tt)
  /\ m_typ m <> MInvalid /\ required_present m /\ (m_nfds m <> 0 -> m_live m = m_nfds m)
  /\ len hb + len (m_body m) <= 2 ^ 27.
Proof.
  intros T Hs H. destruct (marshal_msg_spec m serial hb T H) as (E & [Hn [Hsig Hlive]] & Hni & Hw & He & Hl & Hreq).
  assert (Hb : len (m_body m) < 2 ^ 32) by (assert (2 ^ 27 < 2 ^ 32) by (apply N.pow_lt_mono_r; lia); lia).
  destruct (header_lengths m serial (proj2 Hs) Hb) as [L1 L2]. rewrite <- E in L1, L2.
  destruct (fields_signature m) as [S1 S2]. destruct (fields_unix_fds m) as [F1 F2].
  split; [|split; [exact L1|split; [exact L2|split; [exact Hw|split; [exact He|split; [exact S1|split; [exact S2|
           split; [exact F1|split; [exact F2|split; [exact Hn|split; [exact Hsig|split; [exact Hni|split; [exact Hreq|split; [exact Hlive|exact Hl]]]]]]]]]]]]]].
  rewrite E. unfold spec_header, spec_header_unpadded. cbv zeta. rewrite <- app_assoc. do 2 f_equal.
  rewrite len_app. unfold fixed_part. rewrite !len_app, !len_enc. reflexivity.
Qed.
