(** Model of the header decoder, rustbus/src/wire/unmarshal.rs (as of the fix: commits, HEAD
    1e3a1ed): unmarshal_header, unmarshal_dynamic_header, unmarshal_header_fields,
    unmarshal_header_field, collect_header_fields, unmarshal_next_message; of
    params/validation.rs validate_header_fields; and of connection/ll_conn.rs
    RecvConn::bytes_needed_for_current_message.  The cursor operations (Cursor::align_to, read_u8,
    read_u32, read_str, read_signature) and the raw validator are the models of Wire/Unmarshal.v and
    Wire/Decode.v; a Cursor is a [uctx] whose descriptor count and depth are not used. *)
From RB Require Import Base.Prelude Sig.Types Sig.Parser Sig.Validator Wire.Bytes Wire.Align Wire.Text
  Wire.Value Wire.SpecEnc Wire.Marshal Wire.Decode Wire.Unmarshal Names.Str Names.Model Msg.Utf8 Msg.HeaderSpec.

(* Cursor::new(buf) *)
Definition cursor (buf : list N) : uctx := {| ubuf := buf; uoff := 0; unfds := 0; udepth := 0 |}.
(* Cursor::read_u8 *)
Definition read_u8 (c : uctx) : outcome (N * uctx) := u_read_fixed false 1 c.

(* unmarshal.rs: pub struct Header (version is always 1 in a decoded header) *)
Record header := { hd_be : bool; hd_typ : N; hd_flags : N; hd_body_len : N; hd_serial : N }.

(* pub fn unmarshal_header(cursor) *)
Definition unmarshal_header (c : uctx) : outcome (header * uctx) :=
  if remainder_len c <? 12 then Err else                            (* HEADER_LEN *)
  do r0 <- read_u8 c;
  do be <- (if fst r0 =? 108 then Ok false else if fst r0 =? 66 then Ok true else Err);
  do r1 <- read_u8 (snd r0);
  do typ <- (if (1 <=? fst r1) && (fst r1 <=? 4) then Ok (fst r1) else Err);
  do r2 <- read_u8 (snd r1);
  do r3 <- read_u8 (snd r2);
  if negb (fst r3 =? 1) then Err else                               (* InvalidProtocolVersion *)
  do r4 <- u_read_fixed be 4 (snd r3);
  do r5 <- u_read_fixed be 4 (snd r4);
  if fst r5 =? 0 then Err else                                      (* NonZeroU32::new(..).ok_or(InvalidSerial) *)
  Ok ({| hd_be := be; hd_typ := typ; hd_flags := fst r2; hd_body_len := fst r4; hd_serial := fst r5 |}, snd r5).

(* wire.rs: pub enum HeaderField *)
Inductive header_field :=
| HPath (s : list N) | HInterface (s : list N) | HMember (s : list N) | HErrorName (s : list N)
| HReplySerial (n : N) | HDestination (s : list N) | HSender (s : list N) | HSignature (s : list N)
| HUnixFds (n : N).

(* the arms `code => match sig { Type::Base(Base::String) => { let x = cursor.read_str(bo)?; validate(x)?; Ok(Field(x)) } _ => Err(WrongSignature) }` *)
Definition name_arm (be : bool) (t : ty) (want : base) (v : list N -> outcome unit)
           (mk : list N -> header_field) (c : uctx) : outcome (option header_field * uctx) :=
  if ty_eqb t (TBase want) then
    do x <- u_read_str be c;
    do _ <- check_name v (fst x);
    Ok (Some (mk (fst x)), snd x)
  else Err.

(* fn unmarshal_header_field(header, fields_buf, cursor) -> Option<HeaderField>; fields_buf is the cursor's buffer *)
Definition unmarshal_header_field (be : bool) (c : uctx) : outcome (option header_field * uctx) :=
  do c <- u_align 8 c;
  do r <- read_u8 c;
  let code := fst r in
  do rs <- u_read_sig (snd r);
  do tys <- parse_description (fst rs);
  match tys with
  | [t] =>
      let c := snd rs in
      if code =? 1 then name_arm be t BObjectPath validate_object_path HPath c
      else if code =? 2 then name_arm be t BString validate_interface HInterface c
      else if code =? 3 then name_arm be t BString validate_membername HMember c
      else if code =? 4 then name_arm be t BString validate_errorname HErrorName c
      else if code =? 5 then
        if ty_eqb t (TBase BUint32) then
          do x <- u_read_fixed be 4 c;
          if fst x =? 0 then Err else Ok (Some (HReplySerial (fst x)), snd x)
        else Err
      else if code =? 6 then name_arm be t BString validate_busname HDestination c
      else if code =? 7 then name_arm be t BString validate_busname HSender c
      else if code =? 8 then
        if ty_eqb t (TBase BSignature) then
          do x <- u_read_sig c;
          do _ <- (if is_empty (fst x) then Ok tt else validate_signature (fst x));   (* empty signature is allowed here *)
          Ok (Some (HSignature (fst x)), snd x)
        else Err
      else if code =? 9 then
        if ty_eqb t (TBase BUint32) then
          do x <- u_read_fixed be 4 c;
          Ok (Some (HUnixFds (fst x)), snd x)
        else Err
      else if code =? 0 then Err                                    (* InvalidHeaderField *)
      else
        (* unknown field: validate_marshalled_at_depth(byteorder, cursor.consumed(), fields_buf, &sig, 3); cursor.advance(bytes) *)
        do n <- validate 66 be 3 (uoff c) (ubuf c) t;
        Ok (None, set_off c (uoff c + n))
  | _ => Err                                                        (* sig.len() != 1 *)
  end.

(* `while !cursor.remainder().is_empty() { if let Some(field) = one(cursor)? { fields.push(field); } }`:
   the fields found, in order *)
Fixpoint fields_loop (one : uctx -> outcome (option header_field * uctx)) (fuel : nat) (c : uctx)
  : outcome (list header_field) :=
  if remainder_len c =? 0 then Ok []
  else match fuel with
       | O => OutOfFuel
       | S f =>
           do r <- one c;
           do rest <- fields_loop one f (snd r);
           Ok (match fst r with Some x => x :: rest | None => rest end)
       end.

Definition field_code (f : header_field) : N :=
  match f with
  | HPath _ => 1 | HInterface _ => 2 | HMember _ => 3 | HErrorName _ => 4 | HReplySerial _ => 5
  | HDestination _ => 6 | HSender _ => 7 | HSignature _ => 8 | HUnixFds _ => 9
  end.

(* params/validation.rs: the `for h in header_fields` loop of validate_header_fields; the nine
   have_x flags are the set [seen] of codes met so far *)
Fixpoint dup_loop (seen : list N) (l : list header_field) : outcome (list N) :=
  match l with
  | [] => Ok seen
  | f :: r => if existsb (N.eqb (field_code f)) seen then Err      (* DuplicatedHeaderFields *)
              else dup_loop (field_code f :: seen) r
  end.

(* pub fn validate_header_fields(msg_type, header_fields) *)
Definition validate_header_fields (typ : N) (l : list header_field) : outcome unit :=
  do seen <- dup_loop [] l;
  let have c := existsb (N.eqb c) seen in
  let valid :=
    if typ =? 1 then have 1 && have 3                               (* Call: path, member *)
    else if typ =? 4 then have 1 && have 3 && have 2                (* Signal: path, member, interface *)
    else if typ =? 2 then have 5                                    (* Reply: reply serial *)
    else if typ =? 3 then have 4 && have 5                          (* Error: error name, reply serial *)
    else false in
  if valid then Ok tt else Err.

(* fn unmarshal_header_fields(header, cursor): returns the fields and the cursor after the field array *)
Definition unmarshal_header_fields (h : header) (c : uctx) : outcome (list header_field * uctx) :=
  do r <- u_read_fixed (hd_be h) 4 c;
  do n <- check_array_len (fst r);
  let c1 := snd r in
  if remainder_len c1 <? n then Err else
  let fields_buf := slice (ubuf c1) (uoff c1) n in                  (* cursor.read_raw(n) *)
  let c2 := set_off c1 (uoff c1 + n) in
  do fields <- fields_loop (unmarshal_header_field (hd_be h)) (S (N.to_nat n)) (cursor fields_buf);
  do _ <- validate_header_fields (hd_typ h) fields;
  Ok (fields, c2).

(* fn collect_header_fields(header_fields, hdr): later fields overwrite earlier ones *)
Definition collect_one (h : hdr) (f : header_field) : hdr :=
  let upd rs i d sn m o e g fd :=
    {| h_be := h_be h; h_typ := h_typ h; h_flags := h_flags h; h_body_len := h_body_len h; h_serial := h_serial h;
       h_reply_serial := rs; h_interface := i; h_destination := d; h_sender := sn; h_member := m; h_object := o;
       h_error_name := e; h_signature := g; h_unix_fds := fd |} in
  let rs := h_reply_serial h in let i := h_interface h in let d := h_destination h in let sn := h_sender h in
  let m := h_member h in let o := h_object h in let e := h_error_name h in let g := h_signature h in
  let fd := h_unix_fds h in
  match f with
  | HDestination x => upd rs i (Some x) sn m o e g fd
  | HErrorName x => upd rs i d sn m o (Some x) g fd
  | HInterface x => upd rs (Some x) d sn m o e g fd
  | HMember x => upd rs i d sn (Some x) o e g fd
  | HPath x => upd rs i d sn m (Some x) e g fd
  | HReplySerial x => upd (Some x) i d sn m o e g fd
  | HSender x => upd rs i d (Some x) m o e g fd
  | HSignature x => upd rs i d sn m o e (Some x) fd
  | HUnixFds x => upd rs i d sn m o e g (Some x)
  end.
Definition collect_header_fields (l : list header_field) (h : hdr) : hdr := fold_left collect_one l h.

(* Header + `DynamicHeader { serial: Some(header.serial), ..Default::default() }` *)
Definition hdr_of (h : header) : hdr :=
  {| h_be := hd_be h; h_typ := hd_typ h; h_flags := hd_flags h; h_body_len := hd_body_len h; h_serial := hd_serial h;
     h_reply_serial := None; h_interface := None; h_destination := None; h_sender := None; h_member := None;
     h_object := None; h_error_name := None; h_signature := None; h_unix_fds := None |}.

(* pub fn unmarshal_dynamic_header(header, cursor) *)
Definition unmarshal_dynamic_header (h : header) (c : uctx) : outcome (hdr * uctx) :=
  do r <- unmarshal_header_fields h c;
  Ok (collect_header_fields (fst r) (hdr_of h), snd r).

(* the first half of RecvConn::get_next_message: Cursor::new(bytes), unmarshal_header,
   unmarshal_dynamic_header, cursor.consumed() *)
Definition decode_header (bs : list N) : outcome (hdr * N) :=
  do r <- unmarshal_header (cursor bs);
  do d <- unmarshal_dynamic_header (fst r) (snd r);
  Ok (fst d, uoff (snd d)).

(* what unmarshal_next_message returns: MarshalledMessage { dynheader, typ, flags, body: from_parts(buf, offset,
   raw_fds, sig, byteorder) }: the header, get_buf(), get_sig(), the number of descriptors *)
Record dmsg := { dm_hdr : hdr; dm_body : list N; dm_sig : list N; dm_nfds : N }.

(* pub fn unmarshal_next_message(header, dynheader, buf, offset, raw_fds) *)
Definition unmarshal_next_message (h : hdr) (buf : list N) (offset : N) (nfds : N) : outcome dmsg :=
  let sg := match h_signature h with Some s => s | None => [] end in
  do padding <- align_offset 8 buf offset;
  if h_body_len h =? 0 then Ok {| dm_hdr := h; dm_body := []; dm_sig := sg; dm_nfds := nfds |}
  else
    let offset := offset + padding in
    if len buf - offset <? h_body_len h then Err                    (* NotEnoughBytes *)
    else if negb (len buf - offset =? h_body_len h) then Err        (* NotAllBytesUsed *)
    else Ok {| dm_hdr := h; dm_body := skipnN offset buf; dm_sig := sg; dm_nfds := nfds |}.

(* RecvConn::get_next_message after read_whole_message: decode the buffered bytes *)
Definition decode_message (bs : list N) (nfds : N) : outcome dmsg :=
  do r <- decode_header bs;
  unmarshal_next_message (fst r) bs (snd r) nfds.

(* wire.rs *)
Definition MAX_MESSAGE_LEN : N := 2 ^ 27.

(* RecvConn::bytes_needed_for_current_message; [buf] = the bytes buffered so far (msg_buf_in.peek()) *)
Definition bytes_needed (buf : list N) : outcome N :=
  if len buf <? 16 then Ok 16 else
  do r <- unmarshal_header (cursor buf);
  let h := fst r in
  do hfl <- parse_u32_at (hd_be h) buf 12;                          (* parse_u32(&msg_buf_in[HEADER_LEN..], byteorder) *)
  do hfl <- check_array_len hfl;
  let complete_header_size := 12 + hfl + 4 in
  let padding := pad_amount 8 complete_header_size in
  let needed := complete_header_size + padding + hd_body_len h in
  if MAX_MESSAGE_LEN <? needed then Err else Ok needed.
