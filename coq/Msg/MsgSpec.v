(** What C05 says about a message: the header-field array a message must produce (as a value of
    type a(yv), in the order the property fixes), the validity of its names, the bytes of the
    spec-conformant header, and the header a decoder must read back. *)
From RB Require Import Base.Prelude Sig.Types Sig.Parser Sig.Validator Wire.Bytes Wire.Align Wire.Text
  Wire.Value Wire.SpecEnc Names.Spec Msg.Header Msg.HeaderSpec.

Definition opt_field {A} (o : option A) (mk : A -> hfield) : list hfield :=
  match o with Some x => [mk x] | None => [] end.

(** reply-serial, interface, destination, sender, member, path, error-name, then SIGNATURE iff the
    body is non-empty and UNIX_FDS iff descriptors are attached *)
Definition fields_of_msg (m : msg) : list hfield :=
  opt_field (m_reply_serial m) (u32_field REPLY_SERIAL)
  ++ opt_field (m_interface m) (str_field INTERFACE)
  ++ opt_field (m_destination m) (str_field DESTINATION)
  ++ opt_field (m_sender m) (str_field SENDER)
  ++ opt_field (m_member m) (str_field MEMBER)
  ++ opt_field (m_object m) path_field
  ++ opt_field (m_error_name m) (str_field ERROR_NAME)
  ++ (if is_nil (m_body m) then [] else [sig_field (m_sig m)])
  ++ (if m_nfds m =? 0 then [] else [u32_field UNIX_FDS (m_nfds m)]).

Definition header_value (m : msg) : val := fields_val (fields_of_msg m).

(** message type numbers of the specification *)
Definition type_no (t : mtype) : N :=
  match t with MCall => 1 | MReply => 2 | MError => 3 | MSignal => 4 | MInvalid => 0 end.

Definition names_valid (m : msg) : Prop :=
  opt_all ValidInterface (m_interface m) /\ opt_all ValidBusName (m_destination m)
  /\ opt_all ValidBusName (m_sender m) /\ opt_all ValidMember (m_member m)
  /\ opt_all ValidPath (m_object m) /\ opt_all ValidErrorName (m_error_name m).

(** the header up to the end of the field array, and the complete (padded) header *)
Definition spec_header_unpadded (m : msg) (serial : N) : list N :=
  fixed_part (m_be m) (type_no (m_typ m)) (m_flags m) (len (m_body m)) serial
  ++ spec_enc (m_be m) 12 (header_value m).
Definition spec_header (m : msg) (serial : N) : list N :=
  let p := spec_header_unpadded m serial in p ++ zeros (padlen 8 (len p)).

(** the fields required for the message's type are present *)
Definition required_present (m : msg) : Prop :=
  match m_typ m with
  | MCall => m_object m <> None /\ m_member m <> None
  | MSignal => m_object m <> None /\ m_member m <> None /\ m_interface m <> None
  | MReply => m_reply_serial m <> None
  | MError => m_error_name m <> None /\ m_reply_serial m <> None
  | MInvalid => False
  end.

(** the header a decoder must read back from the marshalled message *)
Definition hdr_of_msg (m : msg) (serial : N) : hdr :=
  {| h_be := m_be m; h_typ := type_no (m_typ m); h_flags := m_flags m; h_body_len := len (m_body m);
     h_serial := serial; h_reply_serial := m_reply_serial m; h_interface := m_interface m;
     h_destination := m_destination m; h_sender := m_sender m; h_member := m_member m;
     h_object := m_object m; h_error_name := m_error_name m;
     h_signature := if is_nil (m_body m) then None else Some (m_sig m);
     h_unix_fds := if m_nfds m =? 0 then None else Some (m_nfds m) |}.
