(** The phase lemma: an encoding depends on its position only through the position modulo 8.
    The header decoder reads the field array through a fresh cursor whose offset 0 is message
    offset 16; this lemma is what makes that correct. *)
From RB Require Import Base.Prelude Sig.Types Sig.Parser Sig.Validator Wire.Bytes Wire.Align Wire.Text
  Wire.Value Wire.SpecEnc Wire.Marshal Wire.MarshalProofs Wire.Decode Wire.Unmarshal Wire.DecodeLemmas.

Lemma padlen_shift a pos k : (a = 1 \/ a = 2 \/ a = 4 \/ a = 8) -> padlen a (pos + 8 * k) = padlen a pos.
Proof.
  intros Ha. unfold padlen. f_equal. f_equal.
  assert (Hz : (8 * k) mod a = 0).
  { destruct Ha as [Ha|[Ha|[Ha|Ha]]]; subst a.
    - apply N.mod_1_r.
    - replace (8 * k) with (4 * k * 2) by lia. apply N.mod_mul. lia.
    - replace (8 * k) with (2 * k * 4) by lia. apply N.mod_mul. lia.
    - replace (8 * k) with (k * 8) by lia. apply N.mod_mul. lia. }
  assert (Hne : a <> 0) by lia.
  rewrite N.add_mod by exact Hne. rewrite Hz, N.add_0_r. apply N.mod_mod. exact Hne.
Qed.

Lemma base_align_cases b : base_align b = 1 \/ base_align b = 2 \/ base_align b = 4 \/ base_align b = 8.
Proof. destruct b; cbn; auto. Qed.
Lemma align_cases t : align t = 1 \/ align t = 2 \/ align t = 4 \/ align t = 8.
Proof. destruct t; cbn; auto. apply base_align_cases. Qed.

Lemma add_shift a b k : a + 8 * k + b = a + b + 8 * k. Proof. lia. Qed.

Section Shift.
  Variable be : bool.
  Variable k : N.

  Lemma spec_enc_list_shift vs : Forall (fun v => forall pos, spec_enc be (pos + 8 * k) v = spec_enc be pos v) vs ->
    forall pos, spec_enc_list be (pos + 8 * k) vs = spec_enc_list be pos vs.
  Proof.
    induction 1 as [|x r Hx Hr IH]; intros pos; cbn [spec_enc_list]; [reflexivity|].
    cbv zeta. rewrite Hx. rewrite ?add_shift. now rewrite IH.
  Qed.

  Lemma spec_enc_entries_shift kvs :
    Forall (fun kv => (forall pos, spec_enc be (pos + 8 * k) (fst kv) = spec_enc be pos (fst kv))
                      /\ (forall pos, spec_enc be (pos + 8 * k) (snd kv) = spec_enc be pos (snd kv))) kvs ->
    forall pos, spec_enc_entries be (pos + 8 * k) kvs = spec_enc_entries be pos kvs.
  Proof.
    induction 1 as [|[a b] r [Ha Hb] Hr IH]; intros pos; cbn [spec_enc_entries]; [reflexivity|].
    cbn [fst snd] in Ha, Hb.
    assert (E : spec_enc_entry be (pos + 8 * k) (a, b) = spec_enc_entry be pos (a, b)).
    { unfold spec_enc_entry. cbn [fst snd]. cbv zeta. rewrite padlen_shift by auto.
      rewrite ?add_shift, Ha. rewrite ?add_shift, Hb. reflexivity. }
    cbv zeta. rewrite E. rewrite ?add_shift. now rewrite IH.
  Qed.

  Theorem spec_enc_shift : forall v pos, spec_enc be (pos + 8 * k) v = spec_enc be pos v.
  Proof.
    induction v as [b n|b s|t vs IH|vs IH|kb vt kvs IH|t x IH] using val_ind'; intros pos.
    - cbn [spec_enc]. rewrite padlen_shift by apply base_align_cases. reflexivity.
    - destruct b; cbn [spec_enc]; try reflexivity; rewrite padlen_shift by auto; reflexivity.
    - rewrite !spec_enc_array'. rewrite (padlen_shift 4) by auto.
      rewrite ?add_shift. rewrite (padlen_shift (align t)) by apply align_cases.
      rewrite ?add_shift. rewrite (spec_enc_list_shift vs IH). reflexivity.
    - rewrite !spec_enc_struct. rewrite (padlen_shift 8) by auto. rewrite ?add_shift.
      rewrite (spec_enc_list_shift vs IH). reflexivity.
    - rewrite !spec_enc_dict'. rewrite (padlen_shift 4) by auto.
      rewrite ?add_shift. rewrite (padlen_shift 8) by auto.
      rewrite ?add_shift. rewrite (spec_enc_entries_shift kvs IH). reflexivity.
    - rewrite !spec_enc_variant. rewrite ?add_shift. rewrite IH. reflexivity.
  Qed.

  Lemma spec_enc_list_shift' vs pos : spec_enc_list be (pos + 8 * k) vs = spec_enc_list be pos vs.
  Proof. apply spec_enc_list_shift. apply Forall_forall. intros v _. apply spec_enc_shift. Qed.
  Lemma spec_enc_entries_shift' kvs pos : spec_enc_entries be (pos + 8 * k) kvs = spec_enc_entries be pos kvs.
  Proof. apply spec_enc_entries_shift. apply Forall_forall. intros v _. split; apply spec_enc_shift. Qed.
  Lemma spec_enc_entry_shift kv pos : spec_enc_entry be (pos + 8 * k) kv = spec_enc_entry be pos kv.
  Proof.
    unfold spec_enc_entry. cbv zeta. rewrite padlen_shift by auto.
    rewrite ?add_shift, spec_enc_shift. rewrite ?add_shift, spec_enc_shift. reflexivity.
  Qed.

  Lemma encodable_list_shift d vs : Forall (fun v => forall pos d, encodable be (pos + 8 * k) d v = encodable be pos d v) vs ->
    forall pos, encodable_list be (pos + 8 * k) d vs = encodable_list be pos d vs.
  Proof.
    induction 1 as [|x r Hx Hr IH]; intros pos; cbn [encodable_list]; [reflexivity|].
    rewrite Hx, spec_enc_shift, ?add_shift. now rewrite IH.
  Qed.

  Lemma encodable_entries_shift d kvs :
    Forall (fun kv => (forall pos d, encodable be (pos + 8 * k) d (fst kv) = encodable be pos d (fst kv))
                      /\ (forall pos d, encodable be (pos + 8 * k) d (snd kv) = encodable be pos d (snd kv))) kvs ->
    forall pos, encodable_entries be (pos + 8 * k) d kvs = encodable_entries be pos d kvs.
  Proof.
    induction 1 as [|[a b] r [Ha Hb] Hr IH]; intros pos; cbn [encodable_entries]; [reflexivity|].
    cbn [fst snd] in Ha, Hb. cbv zeta. rewrite padlen_shift by auto.
    rewrite ?add_shift, Ha, spec_enc_shift. rewrite ?add_shift, Hb.
    rewrite spec_enc_entry_shift, ?add_shift. now rewrite IH.
  Qed.

  Theorem encodable_shift : forall v pos d, encodable be (pos + 8 * k) d v = encodable be pos d v.
  Proof.
    induction v as [b n|b s|t vs IH|vs IH|kb vt kvs IH|t x IH] using val_ind'; intros pos d.
    - reflexivity.
    - reflexivity.
    - rewrite !encodable_array. rewrite (padlen_shift 4) by auto.
      rewrite ?add_shift. rewrite (padlen_shift (align t)) by apply align_cases.
      rewrite ?add_shift. rewrite spec_enc_list_shift'. rewrite (encodable_list_shift (d + 1) vs IH). reflexivity.
    - rewrite !encodable_struct. rewrite (padlen_shift 8) by auto. rewrite ?add_shift.
      rewrite (encodable_list_shift (d + 1) vs IH). reflexivity.
    - rewrite !encodable_dict. rewrite (padlen_shift 4) by auto.
      rewrite ?add_shift. rewrite (padlen_shift 8) by auto.
      rewrite ?add_shift. rewrite spec_enc_entries_shift'. rewrite (encodable_entries_shift (d + 1) kvs IH). reflexivity.
    - cbn [encodable]. rewrite ?add_shift. rewrite IH. reflexivity.
  Qed.
End Shift.

(* the instance used by the header decoder: the field region starts at message offset 16 *)
Lemma spec_enc_shift16 be v pos : spec_enc be (16 + pos) v = spec_enc be pos v.
Proof. replace (16 + pos) with (pos + 8 * 2) by lia. apply spec_enc_shift. Qed.
Lemma encodable_shift16 be v pos d : encodable be (16 + pos) d v = encodable be pos d v.
Proof. replace (16 + pos) with (pos + 8 * 2) by lia. apply encodable_shift. Qed.
Lemma spec_enc_list_shift16 be vs pos : spec_enc_list be (16 + pos) vs = spec_enc_list be pos vs.
Proof. replace (16 + pos) with (pos + 8 * 2) by lia. apply spec_enc_list_shift'. Qed.
