(** C06, soundness: whenever the header decoder returns Ok, the bytes it consumed are a
    spec-valid header and the decoded header is what the bytes say. *)
From RB Require Import Base.Prelude Sig.Types Sig.Parser Sig.Validator Sig.ParserProofs Sig.ValidatorProofs
  Wire.Bytes Wire.Align Wire.Text Wire.Value Wire.SpecEnc Wire.Marshal Wire.MarshalProofs Wire.Decode Wire.Unmarshal
  Wire.DecodeSoundLemmas Wire.DecodeSoundV Names.Str Names.Spec Names.StrProofs Names.Model Names.Proofs
  Msg.Utf8 Msg.Shift Msg.HeaderSpec Msg.HeaderDecode.
From RB Require Wire.DecodeLemmas.

Lemma bind_ok {A B} (o : outcome A) (f : A -> outcome B) b :
  bind o f = Ok b <-> exists a, o = Ok a /\ f a = Ok b.
Proof.
  destruct o; cbn [bind]; split; try discriminate; try (intros (a' & H & _); discriminate).
  - intros H. eauto.
  - intros (a' & H & H2). inversion H. now subst.
Qed.

(** the header field a decoded HeaderField stands for *)
Definition to_hfield (r : header_field) : hfield :=
  match r with
  | HPath s => path_field s
  | HInterface s => str_field INTERFACE s
  | HMember s => str_field MEMBER s
  | HErrorName s => str_field ERROR_NAME s
  | HReplySerial n => u32_field REPLY_SERIAL n
  | HDestination s => str_field DESTINATION s
  | HSender s => str_field SENDER s
  | HSignature s => sig_field s
  | HUnixFds n => u32_field UNIX_FDS n
  end.

Lemma dec1 be l : len l = 1 -> dec be l = dec false l.
Proof.
  destruct l as [|x [|y r]]; intros H; try (rewrite ?len_cons in H; change (len (@nil N)) with 0 in H; lia).
  destruct be; reflexivity.
Qed.

(** ** assembling the struct (code, variant) from what the decoder checked *)
Lemma assemble be buf off code k s t m x :
  let p := padlen 8 off in
  bytes_ok buf -> slice buf off p = zeros p -> off + p + 1 <= len buf ->
  code = dec false (slice buf (off + p) 1) ->
  unmarshal_signature buf (off + p + 1) = Ok (k, s) -> parse_description s = Ok [t] ->
  denotes be 3 buf (off + p + 1 + k) m x t ->
  denotes be 1 buf off (p + (1 + (k + m))) (field_val {| hf_code := code; hf_ty := t; hf_val := x |}) T_FIELD
  /\ code < 256.
Proof.
  intros p Hb Hz Hl Hc Hs Hp Hx.
  assert (Hbyte : denotes be 2 buf (off + p) 1 (VBase BByte code) (TBase BByte)).
  { pose proof (denotes_fixed be 2 buf (off + p) BByte eq_refl Hb) as D. cbv zeta in D.
    cbn [base_align base_size] in D. rewrite padlen_1 in D. change (N.of_nat 1) with 1 in D. rewrite N.add_0_r in D.
    specialize (D eq_refl ltac:(lia) ltac:(discriminate)). change (0 + 1) with 1 in D.
    rewrite (dec1 be) in D by (apply len_slice; lia). now rewrite <- Hc in D. }
  assert (Hvar : denotes be 2 buf (off + p + 1) (k + m) (VVariant t x) TVariant).
  { apply (denotes_variant be 2 buf (off + p + 1) k s t m x); [unfold MAX_DEPTH; lia|exact Hs|exact Hp|exact Hx]. }
  assert (Hlen : off + p + 1 + (k + m) <= len buf) by (destruct Hvar as (_ & _ & _ & H); exact H).
  split.
  - pose proof (denotes_struct be 1 buf off (1 + (k + m)) [(VBase BByte code, TBase BByte); (VVariant t x, TVariant)]) as D.
    cbv zeta in D. fold p in D. apply D; [unfold MAX_DEPTH; lia|discriminate|exact Hz|lia|].
    econstructor; [exact Hbyte|]. econstructor; [exact Hvar|].
    replace (off + p + 1 + (k + m)) with (off + p + (1 + (k + m))) by lia. constructor.
  - destruct Hbyte as (Hw & _). cbn [wt] in Hw. apply andb_prop in Hw. destruct Hw as [Hw _].
    apply andb_prop in Hw. destruct Hw as [_ Hw]. apply N.ltb_lt in Hw. exact Hw.
Qed.

(** ** the values of the known fields *)
Lemma str_value be c x b : bytes_ok (ubuf c) -> u_read_str be c = Ok x ->
  (b = BString \/ (b = BObjectPath /\ valid_path (fst x) = true)) ->
  exists m, denotes be 3 (ubuf c) (uoff c) m (VText b (fst x)) (TBase b) /\ snd x = set_off c (uoff c + m).
Proof.
  intros Hb H Hk. unfold u_read_str in H. apply bind_ok in H. destruct H as (c1 & Ha & H).
  destruct (u_align_ok 4 c c1 ltac:(lia) Ha) as (-> & Hl & Hz). cbn [set_off ubuf uoff] in H.
  apply bind_ok in H. destruct H as ([k s] & Hs & H). injection H as <-. cbn [fst snd] in *.
  exists (padlen 4 (uoff c) + k). split.
  - apply denotes_string; assumption.
  - unfold set_off. cbn [ubuf uoff unfds udepth]. f_equal. lia.
Qed.

Lemma str_utf8 be c x : bytes_ok (ubuf c) -> u_read_str be c = Ok x -> utf8_valid (fst x) = true.
Proof.
  intros Hb H. unfold u_read_str in H. apply bind_ok in H. destruct H as (c1 & Ha & H).
  destruct (u_align_ok 4 c c1 ltac:(lia) Ha) as (-> & Hl & Hz). cbn [set_off ubuf uoff] in H.
  apply bind_ok in H. destruct H as ([k s] & Hs & H). injection H as <-. cbn [fst].
  now destruct (unmarshal_str_ok _ _ _ _ _ Hb Hs) as (_ & _ & _ & Hu & _).
Qed.

Lemma u32_value be c x : bytes_ok (ubuf c) -> u_read_fixed be 4 c = Ok x ->
  exists m, denotes be 3 (ubuf c) (uoff c) m (VBase BUint32 (fst x)) (TBase BUint32) /\ snd x = set_off c (uoff c + m).
Proof.
  intros Hb H. destruct x as [n c']. destruct (u_read_fixed_ok be 4 c n c' ltac:(lia) H) as (-> & Hl & Hz & ->).
  change (N.of_nat 4) with 4 in *. cbn [fst snd].
  exists (padlen 4 (uoff c) + 4). split.
  - apply (denotes_fixed be 3 (ubuf c) (uoff c) BUint32 eq_refl Hb Hz); [exact Hl|discriminate].
  - f_equal. lia.
Qed.

Lemma sig_value be c x : u_read_sig c = Ok x -> is_ok (validate_signature (fst x)) = true ->
  exists m, denotes be 3 (ubuf c) (uoff c) m (VText BSignature (fst x)) (TBase BSignature) /\ snd x = set_off c (uoff c + m).
Proof.
  intros H Hv. unfold u_read_sig in H. apply bind_ok in H. destruct H as ([k s] & Hs & H). injection H as <-.
  cbn [fst snd] in *. exists k. split; [now apply denotes_signature|reflexivity].
Qed.

Lemma known_false_ok f : known (hf_code f) = false -> hf_code f <> 0 -> field_ok f.
Proof.
  intros Hk H0. unfold field_ok, known, PATH, INTERFACE, MEMBER, ERROR_NAME, REPLY_SERIAL, DESTINATION, SENDER, SIGNATURE, UNIX_FDS in *.
  set (c := hf_code f) in *. cbv zeta.
  destruct (N.eqb_spec c 0); [contradiction|].
  repeat match goal with |- context [N.eqb c ?k] => destruct (N.eqb_spec c k) as [->|?]; [discriminate Hk|] end.
  exact I.
Qed.

Lemma is_empty_validate s : (if is_empty s then Ok tt else validate_signature s) = Ok tt -> is_ok (validate_signature s) = true.
Proof. destruct s as [|a r]; cbn [is_empty]; [reflexivity|]. intros ->. reflexivity. Qed.

Ltac field_ok_compute :=
  lazy beta iota zeta delta [field_ok hf_code path_field str_field u32_field sig_field PATH INTERFACE MEMBER ERROR_NAME
                             REPLY_SERIAL DESTINATION SENDER SIGNATURE UNIX_FDS N.eqb Pos.eqb].
Lemma field_ok_path s : field_ok (path_field s).
Proof. field_ok_compute. now exists s. Qed.
Lemma field_ok_interface s : ValidInterface s -> field_ok (str_field INTERFACE s).
Proof. intros H. field_ok_compute. now exists s. Qed.
Lemma field_ok_member s : ValidMember s -> field_ok (str_field MEMBER s).
Proof. intros H. field_ok_compute. now exists s. Qed.
Lemma field_ok_errorname s : ValidErrorName s -> field_ok (str_field ERROR_NAME s).
Proof. intros H. field_ok_compute. now exists s. Qed.
Lemma field_ok_destination s : ValidBusName s -> field_ok (str_field DESTINATION s).
Proof. intros H. field_ok_compute. now exists s. Qed.
Lemma field_ok_sender s : ValidBusName s -> field_ok (str_field SENDER s).
Proof. intros H. field_ok_compute. now exists s. Qed.
Lemma field_ok_reply_serial n : n <> 0 -> field_ok (u32_field REPLY_SERIAL n).
Proof. intros H. field_ok_compute. now exists n. Qed.
Lemma field_ok_signature s : field_ok (sig_field s).
Proof. field_ok_compute. now exists s. Qed.
Lemma field_ok_unix_fds n : field_ok (u32_field UNIX_FDS n).
Proof. field_ok_compute. now exists n. Qed.

(** ** one field *)
Definition result_matches (r : option header_field) (f : hfield) : Prop :=
  match r with Some x => f = to_hfield x | None => known (hf_code f) = false end.

Lemma name_arm_sound be t want v (V : list N -> Prop) mk c r c' :
  bytes_ok (ubuf c) ->
  (forall s, utf8_valid s = true -> (v (utf8_chars s) = Ok tt <-> V s)) ->
  name_arm be t want v mk c = Ok (r, c') ->
  exists s m, t = TBase want /\ r = Some (mk s) /\ V s /\ utf8_valid s = true /\
    c' = set_off c (uoff c + m) /\
    forall b, (b = BString \/ (b = BObjectPath /\ valid_path s = true)) ->
              denotes be 3 (ubuf c) (uoff c) m (VText b s) (TBase b).
Proof.
  intros Hb HV H. unfold name_arm in H. destruct (ty_eqb t (TBase want)) eqn:Et; [|discriminate].
  apply DecodeLemmas.ty_eqb_eq in Et. apply bind_ok in H. destruct H as (x & Hx & H).
  apply bind_ok in H. destruct H as ([] & Hc & H). injection H as <- <-.
  pose proof (str_utf8 be c x Hb Hx) as Hu. unfold check_name in Hc. apply (HV _ Hu) in Hc.
  assert (E : exists m, snd x = set_off c (uoff c + m) /\ forall b, (b = BString \/ (b = BObjectPath /\ valid_path (fst x) = true)) ->
              denotes be 3 (ubuf c) (uoff c) m (VText b (fst x)) (TBase b)).
  { destruct (str_value be c x BString Hb Hx (or_introl eq_refl)) as (m & Hd & Hm). exists m. split; [exact Hm|].
    intros b Hbk. destruct (str_value be c x b Hb Hx Hbk) as (m' & Hd' & Hm'). rewrite Hm in Hm'.
    assert (m' = m).
    { pose proof (f_equal uoff Hm') as E. cbn [set_off uoff] in E. lia. }
    now subst m'. }
  destruct E as (m & Hm & Hd). exists (fst x), m. auto 10.
Qed.

Theorem field_sound be c r c' : bytes_ok (ubuf c) -> uoff c <= len (ubuf c) ->
  unmarshal_header_field be c = Ok (r, c') ->
  exists f k, denotes be 1 (ubuf c) (uoff c) k (field_val f) T_FIELD /\ c' = set_off c (uoff c + k)
              /\ field_ok f /\ result_matches r f /\ 0 < k.
Proof.
  intros Hb Hoff H. unfold unmarshal_header_field in H.
  apply bind_ok in H. destruct H as (c1 & Ha & H).
  destruct (u_align_ok 8 c c1 ltac:(lia) Ha) as (-> & Hl1 & Hz). set (p := padlen 8 (uoff c)) in *.
  apply bind_ok in H. destruct H as ([code c2] & Hr & H).
  unfold read_u8 in Hr. destruct (u_read_fixed_ok false 1 _ code c2 ltac:(lia) Hr) as (-> & Hl2 & _ & Hcode).
  cbn [set_off ubuf uoff] in Hl2, Hcode, H. change (N.of_nat 1) with 1 in *. rewrite padlen_1, N.add_0_r in Hl2, Hcode, H.
  cbn [fst snd] in H.
  apply bind_ok in H. destruct H as ([sg c3] & Hs & H).
  unfold u_read_sig in Hs. apply bind_ok in Hs. destruct Hs as ([k s] & Hs & Hs'). injection Hs' as <- <-.
  cbn [set_off ubuf uoff fst snd] in Hs, H.
  apply bind_ok in H. destruct H as (tys & Hp & H).
  destruct tys as [|t [|t2 tys]]; try discriminate.
  set (c3 := {| ubuf := ubuf c; uoff := uoff c + p + 1 + k; unfds := unfds c; udepth := udepth c |}) in *.
  (* what every arm needs: from a denotation of the value to the field *)
  assert (Fin : forall x m, denotes be 3 (ubuf c) (uoff c + p + 1 + k) m x t ->
            denotes be 1 (ubuf c) (uoff c) (p + (1 + (k + m))) (field_val {| hf_code := code; hf_ty := t; hf_val := x |}) T_FIELD
            /\ code < 256).
  { intros x m Hx. apply (assemble be (ubuf c) (uoff c) code k s t m x); try assumption. }
  assert (Hc3 : forall m, set_off c3 (uoff c3 + m) = set_off c (uoff c + (p + (1 + (k + m))))).
  { intros m. unfold set_off, c3. cbn [ubuf uoff unfds udepth]. f_equal. lia. }
  assert (Hb3 : bytes_ok (ubuf c3)) by exact Hb.
  (* the name arms *)
  assert (Name : forall want v (V : list N -> Prop) mk cd,
            (forall s, utf8_valid s = true -> (v (utf8_chars s) = Ok tt <-> V s)) ->
            code = cd -> name_arm be t want v mk c3 = Ok (r, c') ->
            forall (fld : list N -> hfield),
              (forall s, fld s = {| hf_code := cd; hf_ty := TBase want; hf_val := VText want s |}) ->
              (want = BString \/ (want = BObjectPath /\ forall s, V s -> valid_path s = true)) ->
              (forall s, V s -> field_ok (fld s)) -> (forall s, to_hfield (mk s) = fld s) ->
            exists f k0, denotes be 1 (ubuf c) (uoff c) k0 (field_val f) T_FIELD /\ c' = set_off c (uoff c + k0)
              /\ field_ok f /\ result_matches r f /\ 0 < k0).
  { intros want v V mk cd HV Ecd Harm fld Hfld Hwant Hok Hto.
    destruct (name_arm_sound be t want v V mk c3 r c' Hb3 HV Harm) as (s0 & m & -> & -> & HVs & Hu & -> & Hd).
    assert (Hk : want = BString \/ want = BObjectPath /\ valid_path s0 = true).
    { destruct Hwant as [->|[-> Hvp]]; [now left|right; split; [reflexivity|now apply Hvp]]. }
    destruct (Fin _ _ (Hd want Hk)) as [D Hc256].
    exists (fld s0), (p + (1 + (k + m))). rewrite Hfld, <- Ecd. split; [exact D|]. split; [apply Hc3|].
    split; [rewrite Ecd, <- Hfld; now apply Hok|]. split; [cbn [result_matches]; rewrite Hto, Hfld, Ecd; reflexivity|lia]. }
  destruct (N.eqb_spec code 1) as [E1|E1].
  { apply (Name BObjectPath validate_object_path ValidPath HPath 1 path_bytes E1 H path_field); try reflexivity.
    - right. split; [reflexivity|]. intros s0 Hv. now apply valid_path_spec.
    - intros s0 _. apply field_ok_path. }
  destruct (N.eqb_spec code 2) as [E2|E2].
  { apply (Name BString validate_interface ValidInterface HInterface 2 interface_bytes E2 H (str_field INTERFACE)); try reflexivity.
    - now left.
    - intros s0 Hv. now apply field_ok_interface. }
  destruct (N.eqb_spec code 3) as [E3|E3].
  { apply (Name BString validate_membername ValidMember HMember 3 member_bytes E3 H (str_field MEMBER)); try reflexivity.
    - now left.
    - intros s0 Hv. now apply field_ok_member. }
  destruct (N.eqb_spec code 4) as [E4|E4].
  { apply (Name BString validate_errorname ValidErrorName HErrorName 4 errorname_bytes E4 H (str_field ERROR_NAME)); try reflexivity.
    - now left.
    - intros s0 Hv. now apply field_ok_errorname. }
  destruct (N.eqb_spec code 5) as [E5|E5].
  { destruct (ty_eqb t (TBase BUint32)) eqn:Et; [|discriminate]. apply DecodeLemmas.ty_eqb_eq in Et. subst t.
    apply bind_ok in H. destruct H as (x & Hx & H). destruct (N.eqb_spec (fst x) 0) as [|Hnz]; [discriminate|].
    injection H as <- <-. destruct (u32_value be c3 x Hb3 Hx) as (m & Hd & ->).
    destruct (Fin _ _ Hd) as [D Hc256]. exists (u32_field REPLY_SERIAL (fst x)), (p + (1 + (k + m))).
    unfold u32_field, REPLY_SERIAL. rewrite <- E5. split; [exact D|]. split; [apply Hc3|].
    split; [|split; [cbn [result_matches to_hfield]; unfold u32_field, REPLY_SERIAL; now rewrite E5|lia]].
    rewrite E5. now apply field_ok_reply_serial. }
  destruct (N.eqb_spec code 6) as [E6|E6].
  { apply (Name BString validate_busname ValidBusName HDestination 6 busname_bytes E6 H (str_field DESTINATION)); try reflexivity.
    - now left.
    - intros s0 Hv. now apply field_ok_destination. }
  destruct (N.eqb_spec code 7) as [E7|E7].
  { apply (Name BString validate_busname ValidBusName HSender 7 busname_bytes E7 H (str_field SENDER)); try reflexivity.
    - now left.
    - intros s0 Hv. now apply field_ok_sender. }
  destruct (N.eqb_spec code 8) as [E8|E8].
  { destruct (ty_eqb t (TBase BSignature)) eqn:Et; [|discriminate]. apply DecodeLemmas.ty_eqb_eq in Et. subst t.
    apply bind_ok in H. destruct H as (x & Hx & H). apply bind_ok in H. destruct H as ([] & Hv & H).
    injection H as <- <-. apply is_empty_validate in Hv. destruct (sig_value be c3 x Hx Hv) as (m & Hd & ->).
    destruct (Fin _ _ Hd) as [D Hc256]. exists (sig_field (fst x)), (p + (1 + (k + m))).
    unfold sig_field, SIGNATURE. rewrite <- E8. split; [exact D|]. split; [apply Hc3|].
    split; [|split; [cbn [result_matches to_hfield]; unfold sig_field, SIGNATURE; now rewrite E8|lia]].
    rewrite E8. apply field_ok_signature. }
  destruct (N.eqb_spec code 9) as [E9|E9].
  { destruct (ty_eqb t (TBase BUint32)) eqn:Et; [|discriminate]. apply DecodeLemmas.ty_eqb_eq in Et. subst t.
    apply bind_ok in H. destruct H as (x & Hx & H).
    injection H as <- <-. destruct (u32_value be c3 x Hb3 Hx) as (m & Hd & ->).
    destruct (Fin _ _ Hd) as [D Hc256]. exists (u32_field UNIX_FDS (fst x)), (p + (1 + (k + m))).
    unfold u32_field, UNIX_FDS. rewrite <- E9. split; [exact D|]. split; [apply Hc3|].
    split; [|split; [cbn [result_matches to_hfield]; unfold u32_field, UNIX_FDS; now rewrite E9|lia]].
    rewrite E9. apply field_ok_unix_fds. }
  destruct (N.eqb_spec code 0) as [E0|E0]; [discriminate|].
  (* unknown field *)
  apply bind_ok in H. destruct H as (n & Hv & H). injection H as <- <-.
  destruct (parse_single _ _ Hp) as [_ Htok].
  assert (Hoff3 : uoff c3 <= len (ubuf c3)).
  { unfold c3. cbn [ubuf uoff]. apply unmarshal_signature_ok in Hs. lia. }
  destruct (validate_sound be 66 t 3 (uoff c3) (ubuf c3) n (type_ok_wf _ Htok) (type_ok_tys_ok _ Htok) Hb3 Hoff3 Hv) as (x & Hd).
  destruct (Fin _ _ Hd) as [D Hc256].
  exists {| hf_code := code; hf_ty := t; hf_val := x |}, (p + (1 + (k + n))).
  split; [exact D|]. split; [apply Hc3|].
  assert (Hk : known code = false).
  { unfold known. destruct (N.leb_spec 1 code); destruct (N.leb_spec code 9); cbn [andb]; try reflexivity. lia. }
  split; [apply known_false_ok; [exact Hk|exact E0]|]. split; [exact Hk|lia].
Qed.

(** ** the loop over the field region *)
(* the HeaderField values a list of specification-level fields gives rise to: known codes only *)
Definition of_hfield (f : hfield) : list header_field :=
  let c := hf_code f in
  match hf_val f with
  | VText _ s =>
      if c =? 1 then [HPath s] else if c =? 2 then [HInterface s] else if c =? 3 then [HMember s]
      else if c =? 4 then [HErrorName s] else if c =? 6 then [HDestination s] else if c =? 7 then [HSender s]
      else if c =? 8 then [HSignature s] else []
  | VBase _ n => if c =? 5 then [HReplySerial n] else if c =? 9 then [HUnixFds n] else []
  | _ => []
  end.
Definition known_list (fs : list hfield) : list header_field := flat_map of_hfield fs.

Lemma of_hfield_to x : of_hfield (to_hfield x) = [x].
Proof. destruct x; reflexivity. Qed.
Lemma of_hfield_unknown f : known (hf_code f) = false -> of_hfield f = [].
Proof.
  intros H. unfold of_hfield, known in *. set (c := hf_code f) in *. cbv zeta.
  assert (E : forall k, 1 <= k <= 9 -> (c =? k) = false).
  { clearbody c. intros k Hk. apply N.eqb_neq. intros Ek. subst k.
    destruct (N.leb_spec 1 c); destruct (N.leb_spec c 9); lia. }
  rewrite !E by lia. destruct (hf_val f); reflexivity.
Qed.
Lemma result_matches_of r f : result_matches r f -> of_hfield f = match r with Some x => [x] | None => [] end.
Proof. destruct r as [x|]; cbn [result_matches]; [intros ->; apply of_hfield_to|apply of_hfield_unknown]. Qed.

Definition field_chain (be : bool) (buf : list N) (a b : N) (fs : list hfield) : Prop :=
  chain (fun p k x => denotes be 1 buf p k x T_FIELD) a b (map field_val fs).

Lemma loop_sound be fuel : forall c l, bytes_ok (ubuf c) -> uoff c <= len (ubuf c) ->
  fields_loop (unmarshal_header_field be) fuel c = Ok l ->
  exists fs, field_chain be (ubuf c) (uoff c) (len (ubuf c)) fs /\ Forall field_ok fs /\ l = known_list fs.
Proof.
  induction fuel as [|fuel IH]; intros c l Hb Hoff H; cbn [fields_loop] in H.
  - unfold remainder_len in H. destruct (N.eqb_spec (len (ubuf c) - uoff c) 0) as [E|E]; [|discriminate].
    injection H as <-. exists []. replace (len (ubuf c)) with (uoff c) by lia. split; [constructor|]. split; [constructor|reflexivity].
  - unfold remainder_len in H. destruct (N.eqb_spec (len (ubuf c) - uoff c) 0) as [E|E].
    + injection H as <-. exists []. replace (len (ubuf c)) with (uoff c) by lia. split; [constructor|]. split; [constructor|reflexivity].
    + apply bind_ok in H. destruct H as ([r c'] & Hf & H). apply bind_ok in H. destruct H as (rest & Hr & H).
      injection H as <-. cbn [fst snd] in *.
      destruct (field_sound be c r c' Hb Hoff Hf) as (f & k & Hd & -> & Hok & Hm & Hk).
      assert (Hle : uoff c + k <= len (ubuf c)) by (destruct Hd as (_ & _ & _ & Hle); exact Hle).
      destruct (IH (set_off c (uoff c + k)) rest Hb Hle Hr) as (fs & Hc & Hoks & ->).
      cbn [set_off ubuf uoff] in Hc. exists (f :: fs). split; [|split].
      * unfold field_chain. cbn [map]. econstructor; [exact Hd|exact Hc].
      * constructor; assumption.
      * unfold known_list. cbn [flat_map]. rewrite (result_matches_of _ _ Hm). destruct r; reflexivity.
Qed.

(** ** from the field region to the message *)
Lemma skipn_add {A} (l : list A) a p : skipn p (skipn a l) = skipn (a + p) l.
Proof.
  revert l. induction a as [|a IH]; intros l; [reflexivity|]. destruct l as [|x l]; [now rewrite !skipn_nil|]. cbn [skipn Nat.add]. apply IH.
Qed.
Lemma slice_skipnN buf a p k : slice (skipnN a buf) p k = slice buf (a + p) k.
Proof.
  unfold slice, skipnN. rewrite skipn_add. f_equal. f_equal. lia.
Qed.
Lemma slice_slice buf a n p k : p + k <= n -> slice (slice buf a n) p k = slice buf (a + p) k.
Proof. intros H. unfold slice at 2. rewrite slice_firstnN by exact H. apply slice_skipnN. Qed.

Lemma denotes_region be d bs n p k x t : 16 + n <= len bs ->
  denotes be d (slice bs 16 n) p k x t -> denotes be d bs (16 + p) k x t.
Proof.
  intros Hn (Hw & He & Es & Hb). rewrite len_slice in Hb by exact Hn. unfold denotes.
  rewrite encodable_shift16, spec_enc_shift16. repeat split; try assumption; [|lia].
  rewrite <- Es. symmetry. apply slice_slice. exact Hb.
Qed.

Lemma chain_shift {X} (R R' : N -> N -> X -> Prop) a p q xs :
  (forall p k x, R p k x -> R' (a + p) k x) -> chain R p q xs -> chain R' (a + p) (a + q) xs.
Proof.
  intros H. induction 1 as [p|p k q x xs Hx Hxs IH]; [constructor|].
  econstructor; [apply H; exact Hx|]. now rewrite <- N.add_assoc.
Qed.

(** ** the fixed part *)
Lemma read_u8_ok c v c' : read_u8 c = Ok (v, c') -> bytes_ok (ubuf c) ->
  c' = set_off c (uoff c + 1) /\ uoff c + 1 <= len (ubuf c) /\ slice (ubuf c) (uoff c) 1 = [v] /\ v < 256.
Proof.
  intros H Hb. unfold read_u8 in H. destruct (u_read_fixed_ok false 1 c v c' ltac:(lia) H) as (-> & Hl & _ & Hv).
  change (N.of_nat 1) with 1 in *. rewrite padlen_1, N.add_0_r in *.
  destruct (enc_dec_slice false (ubuf c) (uoff c) 1 Hb ltac:(exact Hl)) as [E B]. change (N.of_nat 1) with 1 in *.
  rewrite <- Hv in E, B. change (256 ^ 1) with 256 in B.
  repeat split; try assumption. rewrite <- E. unfold enc. cbn [le_bytes]. now rewrite N.mod_small by exact B.
Qed.

Lemma u32_ok be c v c' : u_read_fixed be 4 c = Ok (v, c') -> bytes_ok (ubuf c) -> uoff c mod 4 = 0 ->
  c' = set_off c (uoff c + 4) /\ uoff c + 4 <= len (ubuf c) /\ slice (ubuf c) (uoff c) 4 = enc be 4 v /\ v < 2 ^ 32.
Proof.
  intros H Hb Hal. destruct (u_read_fixed_ok be 4 c v c' ltac:(lia) H) as (-> & Hl & _ & Hv).
  change (N.of_nat 4) with 4 in *. rewrite padlen_0 in * by (try lia; exact Hal). rewrite N.add_0_r in *.
  destruct (enc_dec_slice be (ubuf c) (uoff c) 4 Hb ltac:(exact Hl)) as [E B]. change (N.of_nat 4) with 4 in *.
  rewrite <- Hv in E, B. change (256 ^ 4) with (2 ^ 32) in B. auto.
Qed.

Lemma unmarshal_header_sound bs h c : bytes_ok bs -> unmarshal_header (cursor bs) = Ok (h, c) ->
  c = set_off (cursor bs) 12 /\ 12 <= len bs
  /\ slice bs 0 12 = fixed_part (hd_be h) (hd_typ h) (hd_flags h) (hd_body_len h) (hd_serial h)
  /\ 1 <= hd_typ h <= 4 /\ hd_flags h < 256 /\ hd_body_len h < 2 ^ 32 /\ 0 < hd_serial h < 2 ^ 32.
Proof.
  intros Hb H. unfold unmarshal_header in H.
  destruct (remainder_len (cursor bs) <? 12); [discriminate|].
  apply bind_ok in H. destruct H as ([v0 c0] & H0 & H). destruct (read_u8_ok _ _ _ H0 Hb) as (-> & L0 & S0 & B0).
  cbn [fst snd cursor ubuf uoff set_off] in *.
  apply bind_ok in H. destruct H as (be & Hbe & H).
  apply bind_ok in H. destruct H as ([v1 c1] & H1 & H). destruct (read_u8_ok _ _ _ H1 Hb) as (-> & L1 & S1 & B1).
  cbn [fst snd ubuf uoff set_off] in *.
  apply bind_ok in H. destruct H as (typ & Htyp & H).
  apply bind_ok in H. destruct H as ([v2 c2] & H2 & H). destruct (read_u8_ok _ _ _ H2 Hb) as (-> & L2 & S2 & B2).
  cbn [fst snd ubuf uoff set_off] in *.
  apply bind_ok in H. destruct H as ([v3 c3] & H3 & H). destruct (read_u8_ok _ _ _ H3 Hb) as (-> & L3 & S3 & B3).
  cbn [fst snd ubuf uoff set_off] in *.
  destruct (N.eqb_spec v3 1) as [E3|E3]; cbn [negb] in H; [|discriminate].
  apply bind_ok in H. destruct H as ([v4 c4] & H4 & H).
  destruct (u32_ok be _ _ _ H4 Hb ltac:(reflexivity)) as (-> & L4 & S4 & B4).
  cbn [fst snd ubuf uoff set_off] in *.
  apply bind_ok in H. destruct H as ([v5 c5] & H5 & H).
  destruct (u32_ok be _ _ _ H5 Hb ltac:(reflexivity)) as (-> & L5 & S5 & B5).
  cbn [fst snd ubuf uoff set_off] in *.
  destruct (N.eqb_spec v5 0) as [|Hnz]; [discriminate|]. injection H as <- <-. cbn [hd_be hd_typ hd_flags hd_body_len hd_serial].
  assert (Ebe : v0 = endian_flag be).
  { destruct (N.eqb_spec v0 108) as [->|]; [injection Hbe as <-; reflexivity|].
    destruct (N.eqb_spec v0 66) as [->|]; [injection Hbe as <-; reflexivity|discriminate]. }
  assert (Etyp : typ = v1 /\ 1 <= v1 <= 4).
  { destruct (N.leb_spec 1 v1); destruct (N.leb_spec v1 4); cbn [andb] in Htyp; try discriminate. injection Htyp as <-. lia. }
  destruct Etyp as [-> Ht].
  change (ubuf (cursor bs)) with bs in *.
  split; [reflexivity|]. split; [lia|]. split; [|repeat split; try assumption; lia].
  unfold fixed_part.
  change 12 with (1 + (1 + (1 + (1 + (4 + 4))))).
  rewrite !slice_add.
  rewrite S0, S1, S2, S3, S4, S5, Ebe, E3. reflexivity.
Qed.

(** ** validate_header_fields *)
Lemma field_ok_inv f : field_ok f ->
  hf_code f <> 0 /\
  (hf_code f = 1 -> exists s, f = path_field s) /\
  (hf_code f = 2 -> exists s, f = str_field INTERFACE s /\ ValidInterface s) /\
  (hf_code f = 3 -> exists s, f = str_field MEMBER s /\ ValidMember s) /\
  (hf_code f = 4 -> exists s, f = str_field ERROR_NAME s /\ ValidErrorName s) /\
  (hf_code f = 5 -> exists n, f = u32_field REPLY_SERIAL n /\ n <> 0) /\
  (hf_code f = 6 -> exists s, f = str_field DESTINATION s /\ ValidBusName s) /\
  (hf_code f = 7 -> exists s, f = str_field SENDER s /\ ValidBusName s) /\
  (hf_code f = 8 -> exists s, f = sig_field s) /\
  (hf_code f = 9 -> exists n, f = u32_field UNIX_FDS n).
Proof.
  intros H. unfold field_ok in H. cbv zeta in H.
  split; [intros E; rewrite E in H; exact H|].
  repeat split; intros E; rewrite E in H; exact H.
Qed.

(* the HeaderFields a valid field gives rise to carry its code *)
Lemma of_hfield_codes f : field_ok f -> map field_code (of_hfield f) = if known (hf_code f) then [hf_code f] else [].
Proof.
  intros Hok. destruct (known (hf_code f)) eqn:Hk; [|now rewrite of_hfield_unknown].
  destruct (field_ok_inv f Hok) as (H0 & H1 & H2 & H3 & H4 & H5 & H6 & H7 & H8 & H9).
  unfold known in Hk. apply andb_prop in Hk. destruct Hk as [Ha Hb]. apply N.leb_le in Ha, Hb.
  assert (C : hf_code f = 1 \/ hf_code f = 2 \/ hf_code f = 3 \/ hf_code f = 4 \/ hf_code f = 5 \/ hf_code f = 6
              \/ hf_code f = 7 \/ hf_code f = 8 \/ hf_code f = 9) by lia.
  destruct C as [E|[E|[E|[E|[E|[E|[E|[E|E]]]]]]]].
  - destruct (H1 E) as (s & ->). reflexivity.
  - destruct (H2 E) as (s & -> & _). reflexivity.
  - destruct (H3 E) as (s & -> & _). reflexivity.
  - destruct (H4 E) as (s & -> & _). reflexivity.
  - destruct (H5 E) as (s & -> & _). reflexivity.
  - destruct (H6 E) as (s & -> & _). reflexivity.
  - destruct (H7 E) as (s & -> & _). reflexivity.
  - destruct (H8 E) as (s & ->). reflexivity.
  - destruct (H9 E) as (s & ->). reflexivity.
Qed.

Lemma known_list_codes fs : Forall field_ok fs -> map field_code (known_list fs) = filter known (codes fs).
Proof.
  induction 1 as [|f fs Hf Hfs IH]; [reflexivity|]. unfold known_list, codes in *. cbn [flat_map map filter].
  rewrite map_app, IH, (of_hfield_codes f Hf). destruct (known (hf_code f)); reflexivity.
Qed.

Lemma existsb_eqb_in c l : existsb (N.eqb c) l = true <-> In c l.
Proof.
  rewrite existsb_exists. split.
  - intros (x & Hin & E). apply N.eqb_eq in E. now subst x.
  - intros H. exists c. split; [exact H|apply N.eqb_refl].
Qed.

Lemma dup_loop_ok l : forall seen seen', dup_loop seen l = Ok seen' ->
  NoDup (map field_code l) /\ (forall c, In c (map field_code l) -> ~ In c seen)
  /\ (forall c, In c seen' <-> In c (map field_code l) \/ In c seen).
Proof.
  induction l as [|f r IH]; intros seen seen' H; cbn [dup_loop map] in *.
  - injection H as <-. split; [constructor|]. split; [intros c []|]. intros c. cbn. tauto.
  - destruct (existsb (N.eqb (field_code f)) seen) eqn:Ee; [discriminate|].
    destruct (IH _ _ H) as (Hnd & Hns & Hs).
    assert (Hnot : ~ In (field_code f) seen).
    { intros Hin. apply existsb_eqb_in in Hin. congruence. }
    split; [|split].
    + constructor; [|exact Hnd]. intros Hin. apply (Hns _ Hin). now left.
    + intros c [<-|Hin]; [exact Hnot|]. intros Hc. apply (Hns c Hin). now right.
    + intros c. rewrite Hs. cbn [In]. tauto.
Qed.

Lemma in_filter_known c l : known c = true -> (In c (filter known l) <-> In c l).
Proof. intros Hk. rewrite filter_In. tauto. Qed.

Lemma validate_header_fields_sound typ fs : Forall field_ok fs -> 1 <= typ <= 4 ->
  validate_header_fields typ (known_list fs) = Ok tt -> no_duplicates fs /\ required typ fs.
Proof.
  intros Hok Ht H. unfold validate_header_fields in H. apply bind_ok in H. destruct H as (seen & Hd & H).
  destruct (dup_loop_ok _ _ _ Hd) as (Hnd & _ & Hs). rewrite (known_list_codes fs Hok) in Hnd, Hs.
  split; [exact Hnd|].
  assert (Have : forall c, known c = true -> existsb (N.eqb c) seen = true <-> has c fs).
  { intros c Hk. rewrite existsb_eqb_in, Hs. cbn [In]. rewrite (in_filter_known c _ Hk). unfold has. tauto. }
  cbv zeta in H. unfold required, PATH, INTERFACE, MEMBER, ERROR_NAME, REPLY_SERIAL.
  destruct (N.eqb_spec typ 1) as [E1|E1].
  { destruct (existsb (N.eqb 1) seen && existsb (N.eqb 3) seen) eqn:Ev; [|discriminate].
    apply andb_prop in Ev. destruct Ev as [Ea Eb]. apply (Have 1 eq_refl) in Ea. apply (Have 3 eq_refl) in Eb.
    repeat split; intros; try lia; assumption. }
  destruct (N.eqb_spec typ 4) as [E4|E4].
  { destruct (existsb (N.eqb 1) seen && existsb (N.eqb 3) seen && existsb (N.eqb 2) seen) eqn:Ev; [|discriminate].
    apply andb_prop in Ev. destruct Ev as [Ev Ec]. apply andb_prop in Ev. destruct Ev as [Ea Eb].
    apply (Have 1 eq_refl) in Ea. apply (Have 3 eq_refl) in Eb. apply (Have 2 eq_refl) in Ec.
    repeat split; intros; try lia; assumption. }
  destruct (N.eqb_spec typ 2) as [E2|E2].
  { destruct (existsb (N.eqb 5) seen) eqn:Ev; [|discriminate]. apply (Have 5 eq_refl) in Ev.
    repeat split; intros; try lia; assumption. }
  destruct (N.eqb_spec typ 3) as [E3|E3]; [|lia].
  destruct (existsb (N.eqb 4) seen && existsb (N.eqb 5) seen) eqn:Ev; [|discriminate].
  apply andb_prop in Ev. destruct Ev as [Ea Eb]. apply (Have 4 eq_refl) in Ea. apply (Have 5 eq_refl) in Eb.
  repeat split; intros; try lia; assumption.
Qed.

(** ** collect_header_fields *)
Definition last_ex {A} (ex : header_field -> option A) (l : list header_field) (init : option A) : option A :=
  fold_left (fun acc f => match ex f with Some a => Some a | None => acc end) l init.

Lemma collect_proj {A} (proj : hdr -> option A) (ex : header_field -> option A) :
  (forall h f, proj (collect_one h f) = match ex f with Some a => Some a | None => proj h end) ->
  forall l h, proj (collect_header_fields l h) = last_ex ex l (proj h).
Proof.
  intros Hp. unfold collect_header_fields, last_ex. induction l as [|f r IH]; intros h; cbn [fold_left]; [reflexivity|].
  rewrite IH, Hp. reflexivity.
Qed.

Lemma last_ex_none {A} (ex : header_field -> option A) l init : Forall (fun x => ex x = None) l -> last_ex ex l init = init.
Proof.
  unfold last_ex. revert init. induction l as [|x r IH]; intros init H; cbn [fold_left]; [reflexivity|].
  apply Forall_cons_iff in H. destruct H as [Hx Hr]. rewrite Hx. now apply IH.
Qed.

Lemma last_ex_app {A} (ex : header_field -> option A) a b init : last_ex ex (a ++ b) init = last_ex ex b (last_ex ex a init).
Proof. unfold last_ex. apply fold_left_app. Qed.

Lemma find_field_none c fs : ~ In c (codes fs) -> find_field c fs = None.
Proof.
  intros H. unfold find_field. destruct (find (fun f => hf_code f =? c) fs) as [f|] eqn:E; [|reflexivity].
  apply find_some in E. destruct E as [Hin E]. apply N.eqb_eq in E. elim H. unfold codes. rewrite <- E. now apply in_map.
Qed.

Section Collect.
  Variable A : Type.
  Variable c : N.
  Variable ex : header_field -> option A.
  Variable spec : option hfield -> option A.
  Hypothesis Hex : forall x, field_code x <> c -> ex x = None.
  Hypothesis Hspec : forall f, field_ok f -> hf_code f = c -> exists x a, of_hfield f = [x] /\ ex x = Some a /\ spec (Some f) = Some a.
  Hypothesis Hc : known c = true.

  Lemma last_ex_spec fs : Forall field_ok fs -> NoDup (filter known (codes fs)) -> forall init,
    last_ex ex (known_list fs) init = match find_field c fs with Some f => spec (Some f) | None => init end.
  Proof.
    induction 1 as [|f fs Hf Hfs IH]; intros Hnd init; [reflexivity|].
    unfold known_list. cbn [flat_map]. fold (known_list fs). rewrite last_ex_app.
    unfold find_field. cbn [find]. fold (find_field c fs). unfold codes in Hnd. cbn [map filter] in Hnd. fold (codes fs) in Hnd.
    destruct (N.eqb_spec (hf_code f) c) as [E|E].
    - destruct (Hspec f Hf E) as (x & a & Eo & Ex & Es). rewrite Eo, Es. unfold last_ex at 2. cbn [fold_left]. rewrite Ex.
      rewrite E, Hc in Hnd. apply NoDup_cons_iff in Hnd. destruct Hnd as [Hnin Hnd].
      rewrite (IH Hnd). rewrite find_field_none; [reflexivity|]. intros Hin. apply Hnin. now apply in_filter_known.
    - rewrite (last_ex_none ex (of_hfield f)).
      + apply IH. destruct (known (hf_code f)); [now apply NoDup_cons_iff in Hnd|exact Hnd].
      + apply Forall_forall. intros x Hin. apply Hex. intros Ex. apply E. rewrite <- Ex.
        pose proof (of_hfield_codes f Hf) as Hcodes.
        assert (Hi : In (field_code x) (map field_code (of_hfield f))) by now apply in_map.
        rewrite Hcodes in Hi. destruct (known (hf_code f)); [destruct Hi as [Hi|[]]; now symmetry|destruct Hi].
  Qed.
End Collect.

Theorem collect_decoded hd fs : Forall field_ok fs -> no_duplicates fs ->
  decoded (collect_header_fields (known_list fs) (hdr_of hd)) fs.
Proof.
  intros Hok Hnd. unfold decoded, no_duplicates in *.
  assert (G : forall (A : Type) (c : N) (proj : hdr -> option A) (ex : header_field -> option A) (spec : option hfield -> option A),
            (forall h f, proj (collect_one h f) = match ex f with Some a => Some a | None => proj h end) ->
            (forall x, field_code x <> c -> ex x = None) ->
            (forall f, field_ok f -> hf_code f = c -> exists x a, of_hfield f = [x] /\ ex x = Some a /\ spec (Some f) = Some a) ->
            known c = true -> proj (hdr_of hd) = None -> spec None = None ->
            proj (collect_header_fields (known_list fs) (hdr_of hd)) = spec (find_field c fs)).
  { intros A c proj ex spec Hp Hex Hspec Hc Hinit Hnone. rewrite (collect_proj proj ex Hp).
    rewrite (last_ex_spec A c ex spec Hex Hspec Hc fs Hok Hnd). rewrite Hinit.
    destruct (find_field c fs); [reflexivity|now rewrite Hnone]. }
  repeat split.
  - apply (G _ PATH h_object (fun x => match x with HPath s => Some s | _ => None end) text_of); try reflexivity.
    + intros h f. destruct f; reflexivity.
    + intros x Hx. destruct x; try reflexivity. now elim Hx.
    + intros f Hf E. destruct (field_ok_inv f Hf) as (_ & H1 & _). destruct (H1 E) as (s & ->). exists (HPath s), s. auto.
  - apply (G _ INTERFACE h_interface (fun x => match x with HInterface s => Some s | _ => None end) text_of); try reflexivity.
    + intros h f. destruct f; reflexivity.
    + intros x Hx. destruct x; try reflexivity. now elim Hx.
    + intros f Hf E. destruct (field_ok_inv f Hf) as (_ & _ & H2 & _). destruct (H2 E) as (s & -> & _). exists (HInterface s), s. auto.
  - apply (G _ MEMBER h_member (fun x => match x with HMember s => Some s | _ => None end) text_of); try reflexivity.
    + intros h f. destruct f; reflexivity.
    + intros x Hx. destruct x; try reflexivity. now elim Hx.
    + intros f Hf E. destruct (field_ok_inv f Hf) as (_ & _ & _ & H3 & _). destruct (H3 E) as (s & -> & _). exists (HMember s), s. auto.
  - apply (G _ ERROR_NAME h_error_name (fun x => match x with HErrorName s => Some s | _ => None end) text_of); try reflexivity.
    + intros h f. destruct f; reflexivity.
    + intros x Hx. destruct x; try reflexivity. now elim Hx.
    + intros f Hf E. destruct (field_ok_inv f Hf) as (_ & _ & _ & _ & H4 & _). destruct (H4 E) as (s & -> & _). exists (HErrorName s), s. auto.
  - apply (G _ REPLY_SERIAL h_reply_serial (fun x => match x with HReplySerial s => Some s | _ => None end) num_of); try reflexivity.
    + intros h f. destruct f; reflexivity.
    + intros x Hx. destruct x; try reflexivity. now elim Hx.
    + intros f Hf E. destruct (field_ok_inv f Hf) as (_ & _ & _ & _ & _ & H5 & _). destruct (H5 E) as (s & -> & _). exists (HReplySerial s), s. auto.
  - apply (G _ DESTINATION h_destination (fun x => match x with HDestination s => Some s | _ => None end) text_of); try reflexivity.
    + intros h f. destruct f; reflexivity.
    + intros x Hx. destruct x; try reflexivity. now elim Hx.
    + intros f Hf E. destruct (field_ok_inv f Hf) as (_ & _ & _ & _ & _ & _ & H6 & _). destruct (H6 E) as (s & -> & _). exists (HDestination s), s. auto.
  - apply (G _ SENDER h_sender (fun x => match x with HSender s => Some s | _ => None end) text_of); try reflexivity.
    + intros h f. destruct f; reflexivity.
    + intros x Hx. destruct x; try reflexivity. now elim Hx.
    + intros f Hf E. destruct (field_ok_inv f Hf) as (_ & _ & _ & _ & _ & _ & _ & H7 & _). destruct (H7 E) as (s & -> & _). exists (HSender s), s. auto.
  - apply (G _ SIGNATURE h_signature (fun x => match x with HSignature s => Some s | _ => None end) text_of); try reflexivity.
    + intros h f. destruct f; reflexivity.
    + intros x Hx. destruct x; try reflexivity. now elim Hx.
    + intros f Hf E. destruct (field_ok_inv f Hf) as (_ & _ & _ & _ & _ & _ & _ & _ & H8 & _). destruct (H8 E) as (s & ->). exists (HSignature s), s. auto.
  - apply (G _ UNIX_FDS h_unix_fds (fun x => match x with HUnixFds s => Some s | _ => None end) num_of); try reflexivity.
    + intros h f. destruct f; reflexivity.
    + intros x Hx. destruct x; try reflexivity. now elim Hx.
    + intros f Hf E. destruct (field_ok_inv f Hf) as (_ & _ & _ & _ & _ & _ & _ & _ & _ & H9). destruct (H9 E) as (s & ->). exists (HUnixFds s), s. auto.
Qed.

Lemma collect_fixed l : forall h,
  h_be (collect_header_fields l h) = h_be h /\ h_typ (collect_header_fields l h) = h_typ h
  /\ h_flags (collect_header_fields l h) = h_flags h /\ h_body_len (collect_header_fields l h) = h_body_len h
  /\ h_serial (collect_header_fields l h) = h_serial h.
Proof.
  unfold collect_header_fields. induction l as [|f r IH]; intros h; cbn [fold_left]; [auto|].
  destruct (IH (collect_one h f)) as (E1 & E2 & E3 & E4 & E5). rewrite E1, E2, E3, E4, E5. destruct f; cbn; auto.
Qed.

(** ** the theorem *)
Theorem decode_header_sound bs h used : bytes_ok bs -> decode_header bs = Ok (h, used) ->
  used <= len bs /\ ValidHeader (firstnN used bs) h.
Proof.
  intros Hb H. unfold decode_header in H.
  apply bind_ok in H. destruct H as ([hd c] & Hh & H). cbn [fst snd] in H.
  destruct (unmarshal_header_sound bs hd c Hb Hh) as (-> & L12 & Sfix & Htyp & Hfl & Hbl & Hser).
  apply bind_ok in H. destruct H as ([h' c'] & Hd & H). injection H as <- <-. cbn [fst snd].
  unfold unmarshal_dynamic_header in Hd. apply bind_ok in Hd. destruct Hd as ([l c2] & Hf & Hd). injection Hd as <- <-. cbn [fst snd].
  unfold unmarshal_header_fields in Hf. set (be := hd_be hd) in *.
  apply bind_ok in Hf. destruct Hf as ([n0 c1] & Hr & Hf).
  destruct (u32_ok be _ _ _ Hr Hb ltac:(reflexivity)) as (-> & L16 & S12 & Bn).
  cbn [fst snd cursor set_off ubuf uoff] in *.
  apply bind_ok in Hf. destruct Hf as (n & Hn & Hf). destruct (check_array_len_ok _ _ Hn) as [-> Hmax].
  unfold remainder_len in Hf. cbn [ubuf uoff set_off cursor] in Hf.
  destruct (N.ltb_spec (len bs - (12 + 4)) n0) as [|Hfit]; [discriminate|].
  apply bind_ok in Hf. destruct Hf as (l0 & Hloop & Hf). apply bind_ok in Hf. destruct Hf as ([] & Hval & Hf).
  injection Hf as <- <-. cbn [uoff].
  change (12 + 4) with 16 in *.
  assert (H16 : 16 + n0 <= len bs) by lia.
  set (region := slice bs 16 n0) in *.
  assert (Lr : len region = n0) by (apply len_slice; exact H16).
  destruct (loop_sound be _ (cursor region) l0 ltac:(apply bytes_ok_slice; exact Hb) ltac:(cbn; lia) Hloop) as (fs & Hc & Hok & ->).
  cbn [cursor ubuf uoff] in Hc. rewrite Lr in Hc.
  (* the chain in the message *)
  assert (Hc' : chain (fun p k x => denotes be (0 + 1) bs p k x T_FIELD) (12 + padlen 4 12 + 4 + padlen (align T_FIELD) (12 + padlen 4 12 + 4))
                      (12 + padlen 4 12 + 4 + padlen (align T_FIELD) (12 + padlen 4 12 + 4) + n0) (map field_val fs)).
  { change (12 + padlen 4 12 + 4 + padlen (align T_FIELD) (12 + padlen 4 12 + 4)) with (16 + 0).
    apply (chain_shift (fun p k x => denotes be 1 region p k x T_FIELD)); [|exact Hc].
    intros p k x Hx. now apply (denotes_region be 1 bs n0). }
  pose proof (denotes_array be 0 bs 12 T_FIELD n0 (map field_val fs)) as D. cbv zeta in D.
  specialize (D ltac:(unfold MAX_DEPTH; lia) eq_refl Hmax ltac:(reflexivity) S12 ltac:(reflexivity)).
  change (12 + padlen 4 12 + 4 + padlen (align T_FIELD) (12 + padlen 4 12 + 4)) with 16 in D, Hc'.
  specialize (D H16 Hc'). destruct D as (Dw & De & Ds & _).
  change (padlen 4 12 + 4 + padlen (align T_FIELD) (12 + padlen 4 12 + 4) + n0) with (0 + 4 + 0 + n0) in Ds.
  replace (0 + 4 + 0 + n0) with (4 + n0) in Ds by lia.
  destruct (validate_header_fields_sound (hd_typ hd) fs Hok Htyp Hval) as [Hnd Hreq].
  destruct (collect_fixed (known_list fs) (hdr_of hd)) as (E1 & E2 & E3 & E4 & E5). cbn [hdr_of h_be h_typ h_flags h_body_len h_serial] in *.
  cbn [uoff set_off].
  split; [lia|]. exists fs. rewrite E1, E2, E3, E4, E5. fold be.
  split; [|split; [exact Htyp|split; [exact Hfl|split; [exact Hbl|split; [exact Hser|split; [exact Dw|split; [exact De|
           split; [exact Hok|split; [exact Hnd|split; [exact Hreq|apply (collect_decoded hd fs Hok Hnd)]]]]]]]]]].
  replace (firstnN (16 + n0) bs) with (slice bs 0 (12 + (4 + n0))).
  - rewrite slice_add. change (0 + 12) with 12. rewrite Sfix, Ds. reflexivity.
  - unfold slice, skipnN. cbn [N.to_nat skipn]. f_equal. lia.
Qed.

(** ** the whole message: padding to 8 is zero, the body is exactly the announced number of bytes *)
Theorem decode_message_sound bs nfds m : bytes_ok bs -> decode_message bs nfds = Ok m ->
  exists used, decode_header bs = Ok (dm_hdr m, used) /\ used + padlen 8 used <= len bs
    /\ slice bs used (padlen 8 used) = zeros (padlen 8 used)
    /\ dm_nfds m = nfds
    /\ dm_sig m = match h_signature (dm_hdr m) with Some s => s | None => [] end
    /\ (h_body_len (dm_hdr m) = 0 -> dm_body m = [])
    /\ (h_body_len (dm_hdr m) <> 0 ->
        dm_body m = skipnN (used + padlen 8 used) bs /\ len bs = used + padlen 8 used + h_body_len (dm_hdr m)).
Proof.
  intros Hb H. unfold decode_message in H. apply bind_ok in H. destruct H as ([h used] & Hd & H). cbn [fst snd] in H.
  unfold unmarshal_next_message in H. apply bind_ok in H. destruct H as (p & Ha & H).
  destruct (align_offset_ok 8 bs used p ltac:(lia) Ha) as (-> & Hl & Hz).
  exists used. destruct (N.eqb_spec (h_body_len h) 0) as [E|E].
  - injection H as <-. cbn [dm_hdr dm_body dm_sig dm_nfds]. repeat split; auto; contradiction.
  - destruct (N.ltb_spec (len bs - (used + padlen 8 used)) (h_body_len h)) as [|H1]; [discriminate|].
    destruct (N.eqb_spec (len bs - (used + padlen 8 used)) (h_body_len h)) as [H2|]; cbn [negb] in H; [|discriminate].
    injection H as <-. cbn [dm_hdr dm_body dm_sig dm_nfds]. repeat split; auto; try contradiction. lia.
Qed.
