(** C06, totality: on every byte string the header decoder, the message decoder and
    bytes_needed return Ok or Err - never a panic (out-of-bounds index or slice), never
    undefined behaviour, and the model's fuel always suffices. *)
From RB Require Import Base.Prelude Sig.Types Sig.Parser Sig.Validator Sig.ParserProofs Sig.ValidatorProofs
  Wire.Bytes Wire.Align Wire.Text Wire.Value Wire.SpecEnc Wire.Marshal Wire.MarshalProofs Wire.Decode Wire.Unmarshal
  Wire.DecodeSoundLemmas Wire.DecodeTotal Names.Str Names.Spec Names.StrProofs Names.Model Names.Proofs
  Msg.Utf8 Msg.HeaderSpec Msg.HeaderDecode.

Notation total := Sig.ParserProofs.ok_or_err.

(* the result of one step that moves the cursor forward by at least one byte *)
Definition fgood {A} (c : uctx) (o : outcome (A * uctx)) : Prop :=
  match o with
  | Ok r => moved c (snd r) /\ uoff c < uoff (snd r)
  | Err => True
  | _ => False
  end.

Lemma name_arm_good be t want v mk c : (forall x, Names.Str.ok_or_err (v x)) -> uoff c <= len (ubuf c) ->
  fgood c (name_arm be t want v mk c).
Proof.
  intros Hv Hc. unfold name_arm. destruct (ty_eqb t (TBase want)); [|exact I].
  pose proof (u_read_str_moved be c Hc) as G. destruct (u_read_str be c) as [x| | | |]; cbn [bind]; try exact G.
  unfold check_name. specialize (Hv (utf8_chars (fst x))). destruct (v (utf8_chars (fst x))); cbn [bind]; try exact Hv.
  cbn [fgood snd]. destruct G as [G1 G2]. split; [exact G1|lia].
Qed.

Lemma moved_le c c' : moved c c' -> uoff c' <= len (ubuf c') /\ ubuf c' = ubuf c.
Proof. intros [E H]. rewrite E. cbn [set_off ubuf uoff]. split; [lia|reflexivity]. Qed.

Lemma fgood_after {A} c c1 (o : outcome (A * uctx)) : moved c c1 -> fgood c1 o -> fgood c o.
Proof.
  intros M. destruct o as [r| | | |]; cbn [fgood]; auto. intros [M1 L]. split; [eapply moved_trans; eassumption|].
  destruct M as [_ M]. lia.
Qed.

Theorem field_good be c : uoff c <= len (ubuf c) -> fgood c (unmarshal_header_field be c).
Proof.
  intros Hc. unfold unmarshal_header_field.
  pose proof (u_align_moved 8 c Hc) as G0. destruct (u_align 8 c) as [c1| | | |]; cbn [bind]; try exact G0.
  apply (fgood_after c c1 _ G0). destruct (moved_le _ _ G0) as [Hc1 _].
  unfold read_u8. pose proof (u_read_fixed_moved false 1 c1 Hc1) as G1.
  destruct (u_read_fixed false 1 c1) as [r| | | |]; cbn [bind]; try exact G1. destruct G1 as [G1 L1].
  apply (fgood_after c1 (snd r) _ G1). destruct (moved_le _ _ G1) as [Hc2 _].
  pose proof (u_read_sig_moved (snd r) Hc2) as G2.
  destruct (u_read_sig (snd r)) as [rs| | | |]; cbn [bind]; try exact G2. destruct G2 as [G2 L2].
  destruct (moved_le _ _ G2) as [Hc3 _].
  pose proof (parse_description_total (fst rs)) as Tp.
  destruct (parse_description (fst rs)) as [tys| | | |] eqn:Ep; cbn [bind]; try exact Tp.
  destruct tys as [|t [|t2 tys]]; try exact I.
  set (c3 := snd rs) in *.
  (* every arm moves by at least the value; the earlier reads already moved by 3 bytes, so >= suffices *)
  assert (Weak : forall (o : outcome (option header_field * uctx)),
            match o with Ok x => moved c3 (snd x) | Err => True | _ => False end ->
            match o with Ok x => moved c3 (snd x) /\ uoff c3 <= uoff (snd x) | Err => True | _ => False end).
  { intros o. destruct o; auto. intros M. split; [exact M|]. destruct M as [_ M]. lia. }
  assert (Fin : forall (o : outcome (option header_field * uctx)),
            match o with Ok x => moved c3 (snd x) | Err => True | _ => False end ->
            match o with
            | Ok r0 => moved (snd r) (snd r0) /\ uoff (snd r) < uoff (snd r0)
            | Err => True | _ => False end).
  { intros o. destruct o as [x| | | |]; auto. intros M. split; [eapply moved_trans; eassumption|].
    destruct M as [_ M]. lia. }
  assert (Str : forall want v mk, (forall x, Names.Str.ok_or_err (v x)) ->
            match name_arm be t want v mk c3 with Ok x => moved c3 (snd x) | Err => True | _ => False end).
  { intros want v mk Hv. pose proof (name_arm_good be t want v mk c3 Hv Hc3) as G.
    destruct (name_arm be t want v mk c3); cbn [fgood] in G; try exact G. tauto. }
  cbn [fgood]. apply Fin.
  destruct (fst r =? 1); [apply Str, validate_object_path_total|].
  destruct (fst r =? 2); [apply Str, validate_interface_total|].
  destruct (fst r =? 3); [apply Str, validate_membername_total|].
  destruct (fst r =? 4); [apply Str, validate_errorname_total|].
  destruct (fst r =? 5).
  { destruct (ty_eqb t (TBase BUint32)); [|exact I].
    pose proof (u_read_fixed_moved be 4 c3 Hc3) as G.
    destruct (u_read_fixed be 4 c3) as [x| | | |]; cbn [bind]; try exact G. destruct (fst x =? 0); [exact I|]. cbn [snd]. tauto. }
  destruct (fst r =? 6); [apply Str, validate_busname_total|].
  destruct (fst r =? 7); [apply Str, validate_busname_total|].
  destruct (fst r =? 8).
  { destruct (ty_eqb t (TBase BSignature)); [|exact I].
    pose proof (u_read_sig_moved c3 Hc3) as G. destruct (u_read_sig c3) as [x| | | |]; cbn [bind]; try exact G.
    assert (Tv : total (if is_empty (fst x) then Ok tt else validate_signature (fst x))).
    { destruct (is_empty (fst x)); [exact I|apply validate_signature_total]. }
    destruct (if is_empty (fst x) then Ok tt else validate_signature (fst x)); cbn [bind]; try exact Tv. cbn [snd]. tauto. }
  destruct (fst r =? 9).
  { destruct (ty_eqb t (TBase BUint32)); [|exact I].
    pose proof (u_read_fixed_moved be 4 c3 Hc3) as G.
    destruct (u_read_fixed be 4 c3) as [x| | | |]; cbn [bind]; try exact G. cbn [snd]. tauto. }
  destruct (fst r =? 0); [exact I|].
  (* unknown field: the raw validator *)
  destruct (parse_single _ _ Ep) as [_ Htok].
  pose proof (validate_total be 66 t 3 (uoff c3) (ubuf c3) (type_ok_wf _ Htok) Hc3 ltac:(lia) ltac:(lia)) as Tv.
  destruct (validate 66 be 3 (uoff c3) (ubuf c3) t) as [n| | | |] eqn:Ev; cbn [bind]; try exact Tv.
  destruct (validate_frame be 66 t 3 (uoff c3) (ubuf c3) n (type_ok_wf _ Htok) Hc3 Ev) as [Hn1 Hn2].
  cbn [snd]. unfold moved. cbn [set_off ubuf uoff]. split; [reflexivity|lia].
Qed.

Lemma fields_loop_total be : forall fuel c, uoff c <= len (ubuf c) -> (N.to_nat (len (ubuf c) - uoff c) < fuel)%nat ->
  total (fields_loop (unmarshal_header_field be) fuel c).
Proof.
  induction fuel as [|fuel IH]; intros c Hc Hf; [lia|]. cbn [fields_loop]. unfold remainder_len.
  destruct (N.eqb_spec (len (ubuf c) - uoff c) 0); [exact I|].
  pose proof (field_good be c Hc) as G. destruct (unmarshal_header_field be c) as [r| | | |]; cbn [bind]; try exact G.
  destruct G as [M L]. destruct (moved_le _ _ M) as [Hc' Eb].
  assert (T : total (fields_loop (unmarshal_header_field be) fuel (snd r))).
  { apply IH; [exact Hc'|]. rewrite Eb. destruct M as [_ M]. lia. }
  destruct (fields_loop (unmarshal_header_field be) fuel (snd r)); cbn [bind]; exact T.
Qed.

Lemma unmarshal_header_total c : uoff c <= len (ubuf c) ->
  match unmarshal_header c with Ok r => moved c (snd r) | Err => True | _ => False end.
Proof.
  intros Hc. unfold unmarshal_header. destruct (remainder_len c <? 12); [exact I|].
  unfold read_u8.
  pose proof (u_read_fixed_moved false 1 c Hc) as G0. destruct (u_read_fixed false 1 c) as [r0| | | |]; cbn [bind]; try exact G0.
  destruct G0 as [M0 _]. destruct (moved_le _ _ M0) as [H0 _].
  destruct (if fst r0 =? 108 then Ok false else if fst r0 =? 66 then Ok true else Err) as [be| | | |] eqn:Ebe; cbn [bind];
    try exact I; try (destruct (fst r0 =? 108); [discriminate|]; destruct (fst r0 =? 66); discriminate).
  pose proof (u_read_fixed_moved false 1 (snd r0) H0) as G1. destruct (u_read_fixed false 1 (snd r0)) as [r1| | | |]; cbn [bind]; try exact G1.
  destruct G1 as [M1 _]. destruct (moved_le _ _ M1) as [H1 _].
  destruct ((1 <=? fst r1) && (fst r1 <=? 4)); cbn [bind]; [|exact I].
  pose proof (u_read_fixed_moved false 1 (snd r1) H1) as G2. destruct (u_read_fixed false 1 (snd r1)) as [r2| | | |]; cbn [bind]; try exact G2.
  destruct G2 as [M2 _]. destruct (moved_le _ _ M2) as [H2 _].
  pose proof (u_read_fixed_moved false 1 (snd r2) H2) as G3. destruct (u_read_fixed false 1 (snd r2)) as [r3| | | |]; cbn [bind]; try exact G3.
  destruct G3 as [M3 _]. destruct (moved_le _ _ M3) as [H3 _].
  destruct (negb (fst r3 =? 1)); [exact I|].
  pose proof (u_read_fixed_moved be 4 (snd r3) H3) as G4. destruct (u_read_fixed be 4 (snd r3)) as [r4| | | |]; cbn [bind]; try exact G4.
  destruct G4 as [M4 _]. destruct (moved_le _ _ M4) as [H4 _].
  pose proof (u_read_fixed_moved be 4 (snd r4) H4) as G5. destruct (u_read_fixed be 4 (snd r4)) as [r5| | | |]; cbn [bind]; try exact G5.
  destruct G5 as [M5 _]. destruct (fst r5 =? 0); [exact I|]. cbn [snd].
  exact (moved_trans _ _ _ M0 (moved_trans _ _ _ M1 (moved_trans _ _ _ M2 (moved_trans _ _ _ M3 (moved_trans _ _ _ M4 M5))))).
Qed.

Lemma validate_header_fields_total typ l : total (validate_header_fields typ l).
Proof.
  unfold validate_header_fields.
  assert (T : forall seen, total (dup_loop seen l)).
  { induction l as [|f r IH]; intros seen; cbn [dup_loop]; [exact I|]. destruct (existsb _ seen); [exact I|apply IH]. }
  specialize (T []). destruct (dup_loop [] l); cbn [bind]; try exact T. cbv zeta.
  match goal with |- total (if ?b then _ else _) => destruct b; exact I end.
Qed.

Theorem decode_header_total bs : match decode_header bs with Ok r => snd r <= len bs | Err => True | _ => False end.
Proof.
  unfold decode_header.
  pose proof (unmarshal_header_total (cursor bs) ltac:(cbn; lia)) as G. destruct (unmarshal_header (cursor bs)) as [r| | | |]; cbn [bind]; try exact G.
  destruct (moved_le _ _ G) as [Hc Eb]. cbn [cursor ubuf] in Eb.
  unfold unmarshal_dynamic_header, unmarshal_header_fields.
  pose proof (u_read_fixed_moved (hd_be (fst r)) 4 (snd r) Hc) as G1.
  destruct (u_read_fixed (hd_be (fst r)) 4 (snd r)) as [r1| | | |]; cbn [bind]; try exact G1. destruct G1 as [M1 _].
  destruct (moved_le _ _ M1) as [Hc1 Eb1].
  unfold check_array_len. destruct (MAX_ARRAY <? fst r1); cbn [bind]; [exact I|].
  unfold remainder_len. destruct (N.ltb_spec (len (ubuf (snd r1)) - uoff (snd r1)) (fst r1)) as [|Hfit]; [exact I|].
  set (region := slice (ubuf (snd r1)) (uoff (snd r1)) (fst r1)).
  assert (Lr : len region = fst r1) by (apply len_slice; lia).
  pose proof (fields_loop_total (hd_be (fst r)) (S (N.to_nat (fst r1))) (cursor region) ltac:(cbn; lia)
                ltac:(cbn [cursor ubuf uoff]; rewrite Lr; lia)) as T.
  destruct (fields_loop _ _ (cursor region)) as [l| | | |]; cbn [bind]; try exact T.
  pose proof (validate_header_fields_total (hd_typ (fst r)) l) as Tv.
  destruct (validate_header_fields (hd_typ (fst r)) l); cbn [bind]; try exact Tv.
  cbn [fst snd set_off uoff]. rewrite Eb1, Eb in *. lia.
Qed.

Theorem decode_message_total bs nfds : total (decode_message bs nfds).
Proof.
  unfold decode_message. pose proof (decode_header_total bs) as G.
  destruct (decode_header bs) as [r| | | |]; cbn [bind]; try exact G.
  unfold unmarshal_next_message.
  pose proof (align_offset_total 8 bs (snd r) G) as Ta. destruct (align_offset 8 bs (snd r)); cbn [bind]; try exact Ta.
  destruct (h_body_len (fst r) =? 0); [exact I|]. destruct (_ <? _); [exact I|]. destruct (negb _); exact I.
Qed.

Theorem bytes_needed_total bs : total (bytes_needed bs).
Proof.
  unfold bytes_needed. destruct (N.ltb_spec (len bs) 16) as [|H16]; [exact I|].
  pose proof (unmarshal_header_total (cursor bs) ltac:(cbn; lia)) as G. destruct (unmarshal_header (cursor bs)) as [r| | | |]; cbn [bind]; try exact G.
  pose proof (parse_u32_at_total (hd_be (fst r)) bs 12 ltac:(lia)) as Tp.
  destruct (parse_u32_at (hd_be (fst r)) bs 12); cbn [bind]; try exact Tp.
  unfold check_array_len. destruct (MAX_ARRAY <? a); cbn [bind]; [exact I|]. destruct (_ <? _); exact I.
Qed.
