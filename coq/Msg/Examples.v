(** Examples for C05/C06: the models compute, and the hypotheses of the theorems are satisfiable. *)
From RB Require Import Base.Prelude Sig.Types Wire.Bytes Wire.Text Wire.Value Wire.SpecEnc Names.Spec
  Msg.Flags Msg.Utf8 Msg.Header Msg.HeaderSpec Msg.MsgSpec Msg.HeaderDecode Msg.HeaderProofs Msg.DecodeSound Msg.DecodeComplete Msg.Round Msg.Accept Msg.StdMsgs.
From RB Require Import Names.Model Names.Proofs Sig.Validator.

(** a method call "M" on "/p", interface "a.b", body = one u32 (5), little endian, serial 7 *)
Definition ex_call : msg := with_body (build_call false [77] (Some [47; 112]) (Some [97; 46; 98]) None) [5; 0; 0; 0] [117] 0.

Definition ex_call_bytes : list N :=
  [108; 1; 0; 1; 4; 0; 0; 0; 7; 0; 0; 0; 55; 0; 0; 0;
   2; 1; 115; 0; 3; 0; 0; 0; 97; 46; 98; 0; 0; 0; 0; 0;
   3; 1; 115; 0; 1; 0; 0; 0; 77; 0; 0; 0; 0; 0; 0; 0;
   1; 1; 111; 0; 2; 0; 0; 0; 47; 112; 0; 0; 0; 0; 0; 0;
   8; 1; 103; 0; 1; 117; 0; 0].

Example ex_call_typed : rust_typed ex_call.
Proof.
  constructor; cbn; try exact I; try reflexivity; try lia.
  repeat constructor; unfold byte_ok; lia.
Qed.

Example ex_call_marshal : marshal_msg ex_call 7 = Ok ex_call_bytes.
Proof. vm_compute. reflexivity. Qed.
Example ex_call_spec : spec_header ex_call 7 = ex_call_bytes.
Proof. vm_compute. reflexivity. Qed.
Example ex_call_required : required_present ex_call.
Proof. cbn. split; discriminate. Qed.
Example ex_serial : nonzero_u32 7. Proof. unfold nonzero_u32. lia. Qed.

(* the round trip, by computation and as an instance of the theorem *)
Example ex_call_decode : decode_message (ex_call_bytes ++ m_body ex_call) 0 =
  Ok {| dm_hdr := hdr_of_msg ex_call 7; dm_body := [5; 0; 0; 0]; dm_sig := [117]; dm_nfds := 0 |}.
Proof. vm_compute. reflexivity. Qed.
Example ex_call_roundtrip : decode_message (ex_call_bytes ++ m_body ex_call) 0 =
  Ok {| dm_hdr := hdr_of_msg ex_call 7; dm_body := m_body ex_call;
        dm_sig := if is_nil (m_body ex_call) then [] else m_sig ex_call; dm_nfds := 0 |}.
Proof. exact (roundtrip ex_call 7 ex_call_bytes 0 ex_call_typed ex_serial ex_call_marshal). Qed.

(* the header is a valid header in the sense of the specification *)
Example ex_call_valid : ValidHeader (firstnN 71 ex_call_bytes) (hdr_of_msg ex_call 7).
Proof.
  assert (Hb : bytes_ok ex_call_bytes) by (repeat constructor; unfold byte_ok; lia).
  assert (Hd : decode_header ex_call_bytes = Ok (hdr_of_msg ex_call 7, 71)) by (vm_compute; reflexivity).
  exact (proj2 (decode_header_sound ex_call_bytes _ _ Hb Hd)).
Qed.

(* acceptance, as an instance of the theorem: the hypotheses are satisfiable *)
Example ex_call_fields_valid : fields_valid ex_call.
Proof.
  split; [|split; [intros _; vm_compute; reflexivity|intros C; now elim C]]. unfold names_valid. cbn.
  refine (conj _ (conj I (conj I (conj _ (conj _ I))))).
  - apply (validated validate_interface _ _ validate_interface_spec). vm_compute. reflexivity.
  - apply (validated validate_membername _ _ validate_membername_spec). vm_compute. reflexivity.
  - apply (validated validate_object_path _ _ validate_object_path_spec). vm_compute. reflexivity.
Qed.
Example ex_call_accept : marshal_msg ex_call 7 = Ok (spec_header ex_call 7).
Proof.
  apply marshal_accept; [exact ex_call_typed|exact ex_call_fields_valid|discriminate|exact ex_call_required|vm_compute; discriminate|vm_compute; discriminate|cbn; lia].
Qed.

(* refusal: a member name starting with a digit, and the Invalid type *)
Example ex_refuse_name : marshal_msg (build_call false [49; 77] (Some [47; 112]) None None) 7 = Err.
Proof. vm_compute. reflexivity. Qed.
Example ex_refuse_invalid : marshal_msg (new_msg false) 7 = Err.
Proof. vm_compute. reflexivity. Qed.
(* refusal: a method return without REPLY_SERIAL (DynamicHeader::default().make_response()), a call without PATH *)
Example ex_refuse_reply_without_serial : marshal_msg (make_response false None None) 7 = Err /\ ~ required_present (make_response false None None).
Proof. split; [vm_compute; reflexivity|]. cbn. intros H. now apply H. Qed.
Example ex_refuse_call_without_path : marshal_msg (build_call false [77] None None None) 7 = Err.
Proof. vm_compute. reflexivity. Qed.
(* refusal: one of two descriptors of the body has been taken *)
Definition ex_taken : msg :=
  {| m_typ := MReply; m_flags := 0; m_be := false; m_reply_serial := Some 5; m_interface := None; m_destination := None;
     m_sender := None; m_member := None; m_object := None; m_error_name := None; m_body := [0; 0; 0; 0; 1; 0; 0; 0];
     m_sig := [104; 104]; m_nfds := 2; m_live := 1 |}.
Example ex_refuse_taken_descriptor : marshal_msg ex_taken 7 = Err.
Proof. vm_compute. reflexivity. Qed.
Example ex_not_valid_member : ~ ValidMember [49; 77].
Proof. intros (_ & _ & _ & _ & H). apply H. exists 49, [77]. split; [reflexivity|]. unfold digit. lia. Qed.

(* a standard message *)
Example ex_hello : marshal_msg (make_standard_msg s_Hello) 1 <> Err.
Proof. vm_compute. discriminate. Qed.

(** an unknown field (code 42, variant u = 5) between PATH and MEMBER is skipped *)
Definition ex_known : list N :=
  [108; 1; 0; 1; 0; 0; 0; 0; 1; 0; 0; 0; 26; 0; 0; 0;
   1; 1; 111; 0; 2; 0; 0; 0; 47; 112; 0; 0; 0; 0; 0; 0;
   3; 1; 115; 0; 1; 0; 0; 0; 77; 0; 0; 0; 0; 0; 0; 0].
Definition ex_unknown : list N :=
  [108; 1; 0; 1; 0; 0; 0; 0; 1; 0; 0; 0; 34; 0; 0; 0;
   1; 1; 111; 0; 2; 0; 0; 0; 47; 112; 0; 0; 0; 0; 0; 0;
   42; 1; 117; 0; 5; 0; 0; 0;
   3; 1; 115; 0; 1; 0; 0; 0; 77; 0; 0; 0; 0; 0; 0; 0].
Example ex_unknown_same : exists h, decode_header ex_known = Ok (h, 42) /\ decode_header ex_unknown = Ok (h, 50).
Proof. eexists. split; vm_compute; reflexivity. Qed.

(* the same, as an instance of the theorem's hypotheses *)
Definition ex_h : hdr :=
  {| h_be := false; h_typ := 1; h_flags := 0; h_body_len := 0; h_serial := 1; h_reply_serial := None;
     h_interface := None; h_destination := None; h_sender := None; h_member := Some [77]; h_object := Some [47; 112];
     h_error_name := None; h_signature := None; h_unix_fds := None |}.
Definition ex_u : hfield := {| hf_code := 42; hf_ty := TBase BUint32; hf_val := VBase BUint32 5 |}.
Example ex_fields_ok : header_fields_ok ex_h ([path_field [47; 112]] ++ [str_field MEMBER [77]]).
Proof.
  unfold header_fields_ok. cbn [ex_h h_typ h_flags h_body_len h_serial h_be].
  split; [lia|]. split; [lia|]. split; [lia|]. split; [lia|]. split; [reflexivity|]. split; [reflexivity|].
  split; [|split; [|split]].
  - constructor; [apply field_ok_path|]. constructor; [|constructor]. apply field_ok_member.
    split; [discriminate|]. split; [cbv; discriminate|]. split; [repeat constructor; unfold name_char, upper; lia|].
    split; [intros [H|[]]; discriminate H|]. intros (c & r & E & Hd). injection E as <- _. unfold digit in Hd. lia.
  - cbv. repeat constructor; cbn; intuition discriminate.
  - unfold required, has. cbn. repeat split; intros; try discriminate; auto.
  - repeat split; reflexivity.
Qed.
Example ex_unknown_by_theorem :
  decode_header (hdr_bytes ex_h ([path_field [47; 112]] ++ ex_u :: [str_field MEMBER [77]]) ++ [0; 0; 0; 0; 0; 0]) =
  Ok (ex_h, 50).
Proof.
  destruct (unknown_field_skipped ex_h _ _ ex_u [] [0; 0; 0; 0; 0; 0] ex_fields_ok eq_refl ltac:(discriminate) eq_refl eq_refl) as [_ H].
  exact H.
Qed.

(** the frame length *)
Example ex_needed : bytes_needed ex_unknown = Ok 56.
Proof. vm_compute. reflexivity. Qed.
Example ex_needed_short : bytes_needed [108; 1; 0] = Ok 16.
Proof. reflexivity. Qed.
Example ex_needed_by_theorem : bytes_needed (fixed_part false 1 0 0 1 ++ enc false 4 34 ++ skipnN 16 ex_unknown) = Ok 56.
Proof. rewrite bytes_needed_spec by lia. reflexivity. Qed.

(** invalid headers are rejected: protocol version 2, duplicated PATH *)
Example ex_version2 : decode_header (firstnN 3 ex_known ++ [2] ++ skipnN 4 ex_known) = Err.
Proof. vm_compute. reflexivity. Qed.

(** flags *)
Example ex_flags : is_set NoAutoStart 2 = true /\ is_set AllowInteractiveAuthorization 3 = false /\ toggle NoAutoStart 7 = 5 /\ set NoReplyExpected 6 = 7.
Proof. repeat split; reflexivity. Qed.

(** the name bridge: a non-ASCII string is decoded to its scalar values before validation *)
Example ex_utf8 : utf8_chars [97; 195; 169] = [97; 233].
Proof. reflexivity. Qed.

(** the standard messages with the bodies they push; the class of known finding D24 and its complement are inhabited *)
Example ex_request_name : exists m, std_request_name [120; 46; 121] 4 = Ok m /\ m_body m = [3; 0; 0; 0; 120; 46; 121; 0; 4; 0; 0; 0] /\ m_sig m = [115; 117].
Proof. eexists. split; [vm_compute; reflexivity|]. split; reflexivity. Qed.
Example ex_request_name_class : KnownClass_D24 [[120; 46; 121]] = false /\ KnownClass_D24 [[120; 0; 121]] = true.
Proof. split; reflexivity. Qed.
Example ex_request_name_marshals : exists m hb, std_request_name [120; 46; 121] 4 = Ok m /\ marshal_msg m 9 = Ok hb.
Proof. eexists. eexists. split; vm_compute; reflexivity. Qed.
Example ex_unknown_method : exists m,
  std_unknown_method_msg {| c_interface := Some [105; 46; 102]; c_member := Some [77]; c_object := Some [47; 111];
                            c_sender := Some [58; 49; 46; 50]; c_serial := Some 12 |} = Ok m
  /\ m_typ m = MError /\ m_reply_serial m = Some 12 /\ m_destination m = Some [58; 49; 46; 50] /\ m_sig m = [115].
Proof. eexists. split; [vm_compute; reflexivity|]. repeat split; reflexivity. Qed.
Example ex_add_match_panics : std_add_match [97; 0] = Panic.
Proof. vm_compute. reflexivity. Qed.
