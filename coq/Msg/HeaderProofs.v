(** C05, marshalling side: whenever the header marshaller returns Ok, the bytes are exactly the
    specification's header for the message (fixed part ++ spec_enc of the a(yv) value at offset 12
    ++ zero padding to 8, with the body length patched in), all names are in the specification's
    languages and the type is not Invalid; it can only return Ok or Err. *)
From RB Require Import Base.Prelude Sig.Types Sig.Parser Sig.Validator Sig.ParserProofs Sig.ValidatorProofs
  Wire.Bytes Wire.Align Wire.Text Wire.Value Wire.SpecEnc Wire.Marshal Wire.MarshalProofs Wire.Decode Wire.Unmarshal Wire.DecodeLemmas
  Names.Str Names.Spec Names.StrProofs Names.Model Names.Proofs Msg.Utf8 Msg.Header Msg.HeaderSpec Msg.MsgSpec.

(** ** small facts *)
Lemma enc1 be code : code < 256 -> enc be 1 code = [code].
Proof. intros H. unfold enc. destruct be; cbn [le_bytes rev app]; rewrite N.mod_small by exact H; reflexivity. Qed.

(* write_u32 of a value already truncated `as u32`: to_le_bytes keeps the low 32 bits anyway *)
Lemma le_bytes_mod k n : le_bytes k (n mod 256 ^ N.of_nat k) = le_bytes k n.
Proof.
  revert n. induction k as [|k IH]; intros n; cbn [le_bytes]; [reflexivity|].
  rewrite Nat2N.inj_succ, N.pow_succ_r'.
  assert (Hp : 256 ^ N.of_nat k <> 0) by (apply N.pow_nonzero; lia).
  rewrite N.mod_mul_r by (try lia; exact Hp).
  set (a := n mod 256). set (q := (n / 256) mod 256 ^ N.of_nat k).
  assert (Ha : a < 256) by (apply N.mod_lt; lia).
  f_equal.
  - rewrite (N.mul_comm 256 q), N.mod_add by lia. apply N.mod_small. exact Ha.
  - rewrite (N.mul_comm 256 q), N.div_add by lia. rewrite (N.div_small a 256) by exact Ha. rewrite N.add_0_l.
    subst q. apply IH.
Qed.
Lemma enc4_mod be n : enc be 4 (n mod 2 ^ 32) = enc be 4 n.
Proof. unfold enc. change (2 ^ 32) with (256 ^ N.of_nat 4). now rewrite le_bytes_mod. Qed.

Lemma len4 (a b c d : N) : len [a; b; c; d] = 4. Proof. reflexivity. Qed.

Lemma spec_enc_list_app be pos a b :
  spec_enc_list be pos (a ++ b) = spec_enc_list be pos a ++ spec_enc_list be (pos + len (spec_enc_list be pos a)) b.
Proof.
  revert pos. induction a as [|x r IH]; intros pos; cbn [app spec_enc_list].
  - change (len (@nil N)) with 0. now rewrite N.add_0_r.
  - cbv zeta. rewrite IH, len_app, <- app_assoc, N.add_assoc. reflexivity.
Qed.

(* 4 bytes after an 8-aligned position are 4-aligned *)
Lemma padlen4_after8 pos : padlen 4 (pos + padlen 8 pos + 4) = 0.
Proof.
  apply padlen_0; [lia|]. pose proof (padlen_aligned 8 pos ltac:(lia)) as H.
  apply N.mod_divide in H; [|lia]. destruct H as [q Hq]. rewrite Hq.
  replace (q * 8 + 4) with ((2 * q + 1) * 4) by lia. apply N.mod_mul. lia.
Qed.

(** ** one header field, specification side *)
Lemma field_enc be pos code t v : code < 256 ->
  spec_enc be pos (field_val {| hf_code := code; hf_ty := t; hf_val := v |}) =
  zeros (padlen 8 pos) ++ [code] ++ sig_bytes (to_str t)
  ++ spec_enc be (pos + padlen 8 pos + 1 + len (sig_bytes (to_str t))) v.
Proof.
  intros Hc. unfold field_val. cbn [hf_code hf_ty hf_val]. rewrite spec_enc_struct. cbn [spec_enc_list]. cbv zeta.
  cbn [spec_enc base_align base_size]. rewrite padlen_1. change (zeros 0) with (@nil N). cbn [app].
  rewrite enc1 by exact Hc. change (len [code]) with 1. rewrite app_nil_r. reflexivity.
Qed.

(* the four kinds of fields the marshaller writes *)
Lemma str_field_enc be pos code s : code < 256 ->
  spec_enc be pos (field_val (str_field code s)) =
  zeros (padlen 8 pos) ++ [code; 1; 115; 0] ++ zeros (padlen 4 (pos + padlen 8 pos + 4)) ++ enc be 4 (len s) ++ s ++ [0].
Proof.
  intros Hc. unfold str_field. rewrite field_enc by exact Hc. cbn [to_str base_char spec_enc].
  change (sig_bytes [115]) with [1; 115; 0]. change (len [1; 115; 0]) with 3.
  replace (pos + padlen 8 pos + 1 + 3) with (pos + padlen 8 pos + 4) by lia. reflexivity.
Qed.
Lemma path_field_enc be pos s :
  spec_enc be pos (field_val (path_field s)) =
  zeros (padlen 8 pos) ++ [1; 1; 111; 0] ++ zeros (padlen 4 (pos + padlen 8 pos + 4)) ++ enc be 4 (len s) ++ s ++ [0].
Proof.
  unfold path_field, PATH. rewrite field_enc by lia. cbn [to_str base_char spec_enc].
  change (sig_bytes [111]) with [1; 111; 0]. change (len [1; 111; 0]) with 3.
  replace (pos + padlen 8 pos + 1 + 3) with (pos + padlen 8 pos + 4) by lia. reflexivity.
Qed.
Lemma u32_field_enc be pos code n : code < 256 ->
  spec_enc be pos (field_val (u32_field code n)) =
  zeros (padlen 8 pos) ++ [code; 1; 117; 0] ++ zeros (padlen 4 (pos + padlen 8 pos + 4)) ++ enc be 4 n.
Proof.
  intros Hc. unfold u32_field. rewrite field_enc by exact Hc. cbn [to_str base_char spec_enc base_align base_size].
  change (sig_bytes [117]) with [1; 117; 0]. change (len [1; 117; 0]) with 3.
  replace (pos + padlen 8 pos + 1 + 3) with (pos + padlen 8 pos + 4) by lia. reflexivity.
Qed.
Lemma sig_field_enc be pos s :
  spec_enc be pos (field_val (sig_field s)) = zeros (padlen 8 pos) ++ [8; 1; 103; 0] ++ sig_bytes s.
Proof.
  unfold sig_field, SIGNATURE. rewrite field_enc by lia. cbn [to_str base_char spec_enc].
  change (sig_bytes [103]) with [1; 103; 0]. reflexivity.
Qed.

(** ** one header field, code side *)
Lemma mhf_spec code c buf :
  marshal_header_field code [c] buf =
  buf ++ zeros (padlen 8 (len buf)) ++ [code; 1; c; 0] ++ zeros (padlen 4 (len buf + padlen 8 (len buf) + 4)).
Proof.
  unfold marshal_header_field. rewrite (pad_to_spec 8) by lia. rewrite (pad_to_spec 4) by lia.
  change (len [c] mod 256) with 1.
  rewrite !len_app, len_zeros. change (len [code]) with 1. change (len [1]) with 1. change (len [c]) with 1. change (len [0]) with 1.
  replace (len buf + padlen 8 (len buf) + (1 + (1 + (1 + 1)))) with (len buf + padlen 8 (len buf) + 4) by lia.
  rewrite <- !app_assoc. reflexivity.
Qed.

Lemma len_mhf code c buf : len buf <= len (marshal_header_field code [c] buf).
Proof. rewrite mhf_spec, len_app. lia. Qed.

Lemma write_string_field be code c s buf : len s < 2 ^ 32 ->
  write_string be s (marshal_header_field code [c] buf) =
  buf ++ zeros (padlen 8 (len buf)) ++ [code; 1; c; 0] ++ zeros (padlen 4 (len buf + padlen 8 (len buf) + 4))
  ++ enc be 4 (len s) ++ s ++ [0].
Proof.
  intros Hs. unfold write_string. rewrite mhf_spec. rewrite N.mod_small by exact Hs. rewrite <- !app_assoc. reflexivity.
Qed.

Lemma len_write_string be s buf : len (write_string be s buf) = len buf + 4 + len s + 1.
Proof. unfold write_string. rewrite !len_app, len_enc. change (len [0]) with 1. change (N.of_nat 4) with 4. lia. Qed.

(** ** the writers: what an Ok result says.  [len b' < 2^32] is discharged at the end by the
    message length check; without it `val.len() as u32` could truncate. *)
Definition step_ok (be : bool) (b b' : list N) (valid : Prop) (f : hfield) : Prop :=
  len b <= len b' /\ (len b' < 2 ^ 32 -> valid /\ b' = b ++ spec_enc be (len b) (field_val f)).

Lemma name_writer_ok be code v (V : list N -> Prop) s b b' :
  code < 256 -> (utf8_valid s = true -> (v (utf8_chars s) = Ok tt <-> V s)) -> is_string s ->
  (do _ <- check_name v s; Ok (write_string be s (marshal_header_field code [115] b))) = Ok b' ->
  step_ok be b b' (V s) (str_field code s).
Proof.
  intros Hc Hv Hs H. unfold check_name in H. specialize (Hv Hs).
  destruct (v (utf8_chars s)) as [[]| | | |] eqn:E; cbn [bind] in H; try discriminate. injection H as <-.
  split.
  - rewrite len_write_string. pose proof (len_mhf code 115 b). lia.
  - intros Hl. rewrite len_write_string in Hl. split; [now apply Hv|].
    rewrite write_string_field by lia. rewrite str_field_enc by exact Hc. reflexivity.
Qed.

Lemma interface_writer_ok be s b b' : is_string s -> marshal_header_interface be s b = Ok b' ->
  step_ok be b b' (ValidInterface s) (str_field INTERFACE s).
Proof. intros Hs H. apply (name_writer_ok be 2 validate_interface); auto; [unfold INTERFACE; lia|apply interface_bytes]. Qed.
Lemma member_writer_ok be s b b' : is_string s -> marshal_header_member be s b = Ok b' ->
  step_ok be b b' (ValidMember s) (str_field MEMBER s).
Proof. intros Hs H. apply (name_writer_ok be 3 validate_membername); auto; [unfold MEMBER; lia|apply member_bytes]. Qed.
Lemma errorname_writer_ok be s b b' : is_string s -> marshal_header_errorname be s b = Ok b' ->
  step_ok be b b' (ValidErrorName s) (str_field ERROR_NAME s).
Proof. intros Hs H. apply (name_writer_ok be 4 validate_errorname); auto; [unfold ERROR_NAME; lia|apply errorname_bytes]. Qed.
Lemma destination_writer_ok be s b b' : is_string s -> marshal_header_destination be s b = Ok b' ->
  step_ok be b b' (ValidBusName s) (str_field DESTINATION s).
Proof. intros Hs H. apply (name_writer_ok be 6 validate_busname); auto; [unfold DESTINATION; lia|apply busname_bytes]. Qed.
Lemma sender_writer_ok be s b b' : is_string s -> marshal_header_sender be s b = Ok b' ->
  step_ok be b b' (ValidBusName s) (str_field SENDER s).
Proof. intros Hs H. apply (name_writer_ok be 7 validate_busname); auto; [unfold SENDER; lia|apply busname_bytes]. Qed.

Lemma path_writer_ok be s b b' : is_string s -> marshal_header_path be s b = Ok b' ->
  step_ok be b b' (ValidPath s) (path_field s).
Proof.
  intros Hs H. unfold marshal_header_path, check_name in H. pose proof (path_bytes s Hs) as Hv.
  destruct (validate_object_path (utf8_chars s)) as [[]| | | |] eqn:E; cbn [bind] in H; try discriminate. injection H as <-.
  split.
  - rewrite len_write_string. pose proof (len_mhf 1 111 b). lia.
  - intros Hl. rewrite len_write_string in Hl. split; [now apply Hv|].
    rewrite write_string_field by lia. rewrite path_field_enc. reflexivity.
Qed.

Lemma u32_writer_ok be code n b : code < 256 ->
  step_ok be b (write_u32 be n (marshal_header_field code [117] b)) True (u32_field code n).
Proof.
  intros Hc. unfold write_u32. split.
  - rewrite len_app. pose proof (len_mhf code 117 b). lia.
  - intros _. split; [exact I|]. rewrite mhf_spec, u32_field_enc by exact Hc. rewrite <- !app_assoc. reflexivity.
Qed.

Lemma signature_writer_ok be s b b' : marshal_header_signature s b = Ok b' ->
  step_ok be b b' (validate_signature s = Ok tt) (sig_field s).
Proof.
  intros H. unfold marshal_header_signature in H.
  destruct (validate_signature s) as [[]| | | |] eqn:E; cbn [bind] in H; try discriminate. injection H as <-.
  assert (Hl : len s <= 255) by (apply validate_signature_len; now rewrite E).
  unfold write_signature. split.
  - rewrite len_app. pose proof (len_mhf 8 103 b). lia.
  - intros _. split; [reflexivity|]. rewrite mhf_spec, sig_field_enc. rewrite padlen4_after8.
    change (zeros 0) with (@nil N). rewrite N.mod_small by lia. unfold sig_bytes. rewrite <- !app_assoc. reflexivity.
Qed.

(** ** sequences of optional fields *)
Definition emits (be : bool) (b b' : list N) (fs : list hfield) : Prop :=
  b' = b ++ spec_enc_list be (len b) (map field_val fs).

Lemma emits_nil be b : emits be b b [].
Proof. unfold emits. cbn. now rewrite app_nil_r. Qed.
Lemma emits_one be b b' f : b' = b ++ spec_enc be (len b) (field_val f) -> emits be b b' [f].
Proof. intros ->. unfold emits. cbn [map spec_enc_list]. cbv zeta. now rewrite app_nil_r. Qed.
Lemma emits_app be b0 b1 b2 f1 f2 : emits be b0 b1 f1 -> emits be b1 b2 f2 -> emits be b0 b2 (f1 ++ f2).
Proof.
  unfold emits. intros -> ->. rewrite map_app, spec_enc_list_app, len_app, <- app_assoc. reflexivity.
Qed.

(* an optional step: monotone, and under the length bound it emits its fields and its input was valid *)
Definition seg_ok (be : bool) (b b' : list N) (valid : Prop) (fs : list hfield) : Prop :=
  len b <= len b' /\ (len b' < 2 ^ 32 -> valid /\ emits be b b' fs).

Lemma if_some_seg {A} be (o : option A) (w : A -> list N -> outcome (list N)) (pre V : A -> Prop) (mk : A -> hfield) b b' :
  (forall x b b', pre x -> w x b = Ok b' -> step_ok be b b' (V x) (mk x)) ->
  opt_all pre o -> if_some o w b = Ok b' -> seg_ok be b b' (opt_all V o) (opt_field o mk).
Proof.
  intros Hw Hp H. destruct o as [x|]; cbn [if_some opt_all opt_field] in *.
  - destruct (Hw x b b' Hp H) as [Hm Hs]. split; [exact Hm|]. intros Hl. destruct (Hs Hl) as [Hv ->].
    split; [exact Hv|]. now apply emits_one.
  - injection H as <-. split; [lia|]. intros _. split; [exact I|apply emits_nil].
Qed.

Lemma seg_chain be b0 b1 b2 V1 V2 f1 f2 :
  seg_ok be b0 b1 V1 f1 -> seg_ok be b1 b2 V2 f2 -> seg_ok be b0 b2 (V1 /\ V2) (f1 ++ f2).
Proof.
  intros [M1 S1] [M2 S2]. split; [lia|]. intros Hl. destruct (S2 Hl) as [HV2 E2]. destruct (S1 ltac:(lia)) as [HV1 E1].
  split; [tauto|]. eapply emits_app; eassumption.
Qed.

Lemma bind_ok {A B} (o : outcome A) (f : A -> outcome B) b :
  bind o f = Ok b <-> exists a, o = Ok a /\ f a = Ok b.
Proof.
  destruct o; cbn [bind]; split; try discriminate; try (intros (a' & H & _); discriminate).
  - intros H. eauto.
  - intros (a' & H & H2). inversion H. now subst.
Qed.

(** what must hold of a message for the marshaller to accept it (besides the size limits) *)
Definition fields_valid (m : msg) : Prop :=
  names_valid m /\ ((m_body m <> [] -> validate_signature (m_sig m) = Ok tt)
                    /\ (m_nfds m <> 0 -> m_live m = m_nfds m)).       (* no descriptor of the body has been taken *)

Theorem marshal_fields_spec m b b' : rust_typed m -> marshal_fields m b = Ok b' ->
  seg_ok (m_be m) b b' (fields_valid m) (fields_of_msg m).
Proof.
  intros T H. unfold marshal_fields in H.
  apply bind_ok in H. destruct H as (b1 & H1 & H).
  apply bind_ok in H. destruct H as (b2 & H2 & H).
  apply bind_ok in H. destruct H as (b3 & H3 & H).
  apply bind_ok in H. destruct H as (b4 & H4 & H).
  apply bind_ok in H. destruct H as (b5 & H5 & H).
  apply bind_ok in H. destruct H as (b6 & H6 & H).
  apply bind_ok in H. destruct H as (b7 & H7 & H).
  apply bind_ok in H. destruct H as (b8 & H8 & H).
  apply bind_ok in H. destruct H as (b9 & H9 & H).
  injection H as <-.
  set (be := m_be m) in *.
  assert (S1 : seg_ok be b b1 True (opt_field (m_reply_serial m) (u32_field REPLY_SERIAL))).
  { destruct (m_reply_serial m) as [n|]; cbn [if_some opt_field] in *.
    - unfold marshal_header_reply_serial in H1. injection H1 as <-.
      destruct (u32_writer_ok be 5 n b ltac:(lia)) as [M S]. split; [exact M|]. intros Hl. destruct (S Hl) as [_ E].
      split; [exact I|now apply emits_one].
    - injection H1 as <-. split; [lia|]. intros _. split; [exact I|apply emits_nil]. }
  pose proof (if_some_seg be _ _ is_string ValidInterface (str_field INTERFACE) _ _
                (fun x b b' => interface_writer_ok be x b b') (rt_interface m T) H2) as S2.
  pose proof (if_some_seg be _ _ is_string ValidBusName (str_field DESTINATION) _ _
                (fun x b b' => destination_writer_ok be x b b') (rt_destination m T) H3) as S3.
  pose proof (if_some_seg be _ _ is_string ValidBusName (str_field SENDER) _ _
                (fun x b b' => sender_writer_ok be x b b') (rt_sender m T) H4) as S4.
  pose proof (if_some_seg be _ _ is_string ValidMember (str_field MEMBER) _ _
                (fun x b b' => member_writer_ok be x b b') (rt_member m T) H5) as S5.
  pose proof (if_some_seg be _ _ is_string ValidPath path_field _ _
                (fun x b b' => path_writer_ok be x b b') (rt_object m T) H6) as S6.
  pose proof (if_some_seg be _ _ is_string ValidErrorName (str_field ERROR_NAME) _ _
                (fun x b b' => errorname_writer_ok be x b b') (rt_error_name m T) H7) as S7.
  assert (S8 : seg_ok be b7 b8 (m_body m <> [] -> validate_signature (m_sig m) = Ok tt)
                      (if is_nil (m_body m) then [] else [sig_field (m_sig m)])).
  { unfold if_true in H8. destruct (m_body m) as [|x r]; cbn [is_nil negb] in *.
    - injection H8 as <-. split; [lia|]. intros _. split; [intros C; now elim C|apply emits_nil].
    - destruct (signature_writer_ok be _ _ _ H8) as [M S]. split; [exact M|]. intros Hl. destruct (S Hl) as [V E].
      split; [intros _; exact V|now apply emits_one]. }
  assert (S9 : seg_ok be b8 b9 (m_nfds m <> 0 -> m_live m = m_nfds m) (if m_nfds m =? 0 then [] else [u32_field UNIX_FDS (m_nfds m)])).
  { unfold if_true in H9. destruct (N.eqb_spec (m_nfds m) 0) as [E0|E0]; cbn [negb] in H9.
    - injection H9 as <-. split; [lia|]. intros _. split; [intros C; now elim C|apply emits_nil].
    - destruct (N.eqb_spec (m_live m) (m_nfds m)) as [El|El]; cbn [negb] in H9; [|discriminate].
      unfold marshal_header_unix_fds in H9. injection H9 as <-.
      destruct (u32_writer_ok be 9 (m_nfds m mod 2 ^ 32) b8 ltac:(lia)) as [M S]. split; [exact M|].
      intros Hl. destruct (S Hl) as [_ E]. split; [intros _; exact El|]. apply emits_one. rewrite E.
      rewrite !u32_field_enc by (unfold UNIX_FDS; lia).
      now rewrite enc4_mod. }
  pose proof (seg_chain _ _ _ _ _ _ _ _ S1 (seg_chain _ _ _ _ _ _ _ _ S2 (seg_chain _ _ _ _ _ _ _ _ S3
             (seg_chain _ _ _ _ _ _ _ _ S4 (seg_chain _ _ _ _ _ _ _ _ S5 (seg_chain _ _ _ _ _ _ _ _ S6
             (seg_chain _ _ _ _ _ _ _ _ S7 (seg_chain _ _ _ _ _ _ _ _ S8 S9)))))))) as [M S].
  split; [exact M|]. intros Hl. destruct (S Hl) as [V E]. split; [|exact E].
  unfold fields_valid, names_valid. tauto.
Qed.

(** ** typing and encodability of the header value of an accepted message *)
Definition leaf_ok (be : bool) (f : hfield) : Prop :=
  hf_code f < 256 /\ wt (hf_val f) (hf_ty f) = true /\ type_ok (hf_ty f) = true
  /\ forall pos d, encodable be pos d (hf_val f) = true.

Lemma wt_fields_val fs : Forall (fun f => hf_code f < 256 /\ wt (hf_val f) (hf_ty f) = true) fs ->
  wt (fields_val fs) T_FIELDS = true.
Proof.
  intros H. unfold fields_val, T_FIELDS. cbn [wt]. rewrite ty_eqb_refl. cbn [andb].
  apply forallb_forall. intros v Hin. apply in_map_iff in Hin. destruct Hin as (f & <- & Hf).
  rewrite Forall_forall in H. destruct (H f Hf) as [Hc Hw]. unfold field_val, T_FIELD. cbn [wt].
  rewrite Hw. unfold base_eqb. cbn [base_char is_text base_size negb andb N.eqb Pos.eqb].
  apply N.ltb_lt in Hc. change (256 ^ N.of_nat 1) with 256. now rewrite Hc.
Qed.

Lemma encodable_fields be fs : Forall (leaf_ok be) fs -> forall pos, encodable_list be pos 1 (map field_val fs) = true.
Proof.
  induction 1 as [|f r (Hc & Hw & Ht & He) Hr IH]; intros pos; cbn [map encodable_list]; [reflexivity|].
  rewrite IH, andb_true_r. unfold field_val. rewrite encodable_struct. cbn [encodable_list encodable negb andb].
  rewrite Ht, He. reflexivity.
Qed.

Lemma encodable_fields_val be fs : Forall (leaf_ok be) fs ->
  len (spec_enc_list be 16 (map field_val fs)) <= MAX_ARRAY -> encodable be 12 0 (fields_val fs) = true.
Proof.
  intros H Hl. unfold fields_val. rewrite encodable_array. cbn [align T_FIELD].
  change (12 + padlen 4 12 + 4 + padlen 8 (12 + padlen 4 12 + 4)) with 16.
  rewrite (encodable_fields be fs H). apply N.leb_le in Hl. rewrite Hl. reflexivity.
Qed.

Lemma spec_enc_fields_val be fs :
  spec_enc be 12 (fields_val fs) =
  enc be 4 (len (spec_enc_list be 16 (map field_val fs))) ++ spec_enc_list be 16 (map field_val fs).
Proof.
  unfold fields_val. rewrite spec_enc_array'. cbn [align T_FIELD].
  change (12 + padlen 4 12 + 4 + padlen 8 (12 + padlen 4 12 + 4)) with 16.
  change (padlen 4 12) with 0. change (padlen 8 (12 + 0 + 4)) with 0. reflexivity.
Qed.

Lemma valid_name_string (V : list N -> Prop) s : (V s -> ascii_nonnul s) -> V s ->
  utf8_valid s = true /\ has_nul s = false.
Proof.
  intros HV H. specialize (HV H). split; [apply ascii_utf8_valid, ascii_nonnul_ascii, HV|apply ascii_nonnul_no_nul, HV].
Qed.

Lemma leaf_str be code s : code < 256 -> utf8_valid s = true -> has_nul s = false -> len s < 2 ^ 32 ->
  leaf_ok be (str_field code s).
Proof.
  intros Hc Hu Hn Hl. unfold leaf_ok, str_field. cbn [hf_code hf_ty hf_val]. repeat split; try assumption; try reflexivity.
  intros pos d. cbn [encodable]. rewrite Hu, Hn. apply N.ltb_lt in Hl. now rewrite Hl.
Qed.
Lemma leaf_path be s : utf8_valid s = true -> valid_path s = true -> len s < 2 ^ 32 -> leaf_ok be (path_field s).
Proof.
  intros Hu Hp Hl. unfold leaf_ok, path_field, PATH. cbn [hf_code hf_ty hf_val]. repeat split; try reflexivity; try lia.
  intros pos d. cbn [encodable]. rewrite Hu, Hp. apply N.ltb_lt in Hl. now rewrite Hl.
Qed.
Lemma leaf_u32 be code n : code < 256 -> n < 2 ^ 32 -> leaf_ok be (u32_field code n).
Proof.
  intros Hc Hn. unfold leaf_ok, u32_field. cbn [hf_code hf_ty hf_val]. repeat split; try assumption; try reflexivity.
  cbn [wt]. unfold base_eqb. cbn [base_char is_text base_size negb andb N.eqb Pos.eqb].
  apply N.ltb_lt in Hn. change (256 ^ N.of_nat 4) with (2 ^ 32). now rewrite Hn.
Qed.
Lemma leaf_sig be s : validate_signature s = Ok tt -> leaf_ok be (sig_field s).
Proof.
  intros Hv. unfold leaf_ok, sig_field, SIGNATURE. cbn [hf_code hf_ty hf_val]. repeat split; try reflexivity; try lia.
  intros pos d. cbn [encodable]. now rewrite Hv.
Qed.

Lemma Forall_opt_field {A} (P : hfield -> Prop) (o : option A) mk :
  (forall x, o = Some x -> P (mk x)) -> Forall P (opt_field o mk).
Proof. intros H. destruct o as [x|]; cbn [opt_field]; [constructor; [now apply H|constructor]|constructor]. Qed.

Lemma valid_name_len (V : list N -> Prop) s : (V s -> ascii_nonnul s) -> (V s -> byte_length s <= MAX_NAME) -> V s ->
  len s < 2 ^ 32.
Proof.
  intros HA HL H. specialize (HA H). specialize (HL H). rewrite byte_length_str_len in HL.
  rewrite str_len_ascii in HL by (eapply Forall_impl; [|exact HA]; cbn; intros; lia). unfold MAX_NAME in HL. lia.
Qed.
Lemma interface_len s : ValidInterface s -> byte_length s <= MAX_NAME. Proof. intros [H _]. exact H. Qed.
Lemma member_len s : ValidMember s -> byte_length s <= MAX_NAME. Proof. intros (_ & H & _). exact H. Qed.
Lemma busname_len s : ValidBusName s -> byte_length s <= MAX_NAME. Proof. intros [[H _]|[H _]]; exact H. Qed.

Lemma leaves_ok m : rust_typed m -> fields_valid m -> opt_all (fun s => len s < 2 ^ 32) (m_object m) ->
  Forall (leaf_ok (m_be m)) (fields_of_msg m).
Proof.
  intros T [(Vi & Vd & Vs & Vm & Vp & Ve) [Vsig Vlive]] Hlen. unfold fields_of_msg. repeat rewrite Forall_app. repeat split.
  - apply Forall_opt_field. intros n E. apply leaf_u32; [unfold REPLY_SERIAL; lia|].
    pose proof (rt_rs m T) as R. rewrite E in R. cbn in R. unfold nonzero_u32 in R. lia.
  - apply Forall_opt_field. intros s E. rewrite E in Vi. cbn in Vi.
    destruct (valid_name_string ValidInterface s (valid_interface_ascii s) Vi) as [Hu Hn].
    apply leaf_str; auto; [unfold INTERFACE; lia|]. apply (valid_name_len ValidInterface); auto using valid_interface_ascii, interface_len.
  - apply Forall_opt_field. intros s E. rewrite E in Vd. cbn in Vd.
    destruct (valid_name_string ValidBusName s (valid_busname_ascii s) Vd) as [Hu Hn].
    apply leaf_str; auto; [unfold DESTINATION; lia|]. apply (valid_name_len ValidBusName); auto using valid_busname_ascii, busname_len.
  - apply Forall_opt_field. intros s E. rewrite E in Vs. cbn in Vs.
    destruct (valid_name_string ValidBusName s (valid_busname_ascii s) Vs) as [Hu Hn].
    apply leaf_str; auto; [unfold SENDER; lia|]. apply (valid_name_len ValidBusName); auto using valid_busname_ascii, busname_len.
  - apply Forall_opt_field. intros s E. rewrite E in Vm. cbn in Vm.
    destruct (valid_name_string ValidMember s (valid_member_ascii s) Vm) as [Hu Hn].
    apply leaf_str; auto; [unfold MEMBER; lia|]. apply (valid_name_len ValidMember); auto using valid_member_ascii, member_len.
  - apply Forall_opt_field. intros s E. rewrite E in Vp, Hlen. cbn in Vp, Hlen.
    destruct (valid_name_string ValidPath s (valid_path_ascii s) Vp) as [Hu Hn].
    apply leaf_path; auto. now apply valid_path_spec.
  - apply Forall_opt_field. intros s E. rewrite E in Ve. cbn in Ve.
    destruct (valid_name_string ValidErrorName s (valid_interface_ascii s) Ve) as [Hu Hn].
    apply leaf_str; auto; [unfold ERROR_NAME; lia|]. apply (valid_name_len ValidInterface); auto using valid_interface_ascii, interface_len.
  - destruct (m_body m) as [|x r] eqn:Eb; cbn [is_nil]; [constructor|]. constructor; [|constructor].
    apply leaf_sig. apply Vsig. discriminate.
  - destruct (N.eqb_spec (m_nfds m) 0); [constructor|]. constructor; [|constructor].
    apply leaf_u32; [unfold UNIX_FDS; lia|apply (rt_nfds m T)].
Qed.

Lemma leaf_wt be fs : Forall (leaf_ok be) fs -> Forall (fun f => hf_code f < 256 /\ wt (hf_val f) (hf_ty f) = true) fs.
Proof. intros H. eapply Forall_impl; [|exact H]. intros f (Hc & Hw & _). auto. Qed.

(* the path is contained in what marshal_fields emitted *)
Lemma marshal_fields_path_len m b b' : marshal_fields m b = Ok b' -> rust_typed m -> opt_all (fun s => len s <= len b') (m_object m).
Proof.
  intros H T. pose proof H as H0. unfold marshal_fields in H.
  apply bind_ok in H. destruct H as (b1 & H1 & H).
  apply bind_ok in H. destruct H as (b2 & H2 & H).
  apply bind_ok in H. destruct H as (b3 & H3 & H).
  apply bind_ok in H. destruct H as (b4 & H4 & H).
  apply bind_ok in H. destruct H as (b5 & H5 & H).
  apply bind_ok in H. destruct H as (b6 & H6 & H).
  apply bind_ok in H. destruct H as (b7 & H7 & H).
  apply bind_ok in H. destruct H as (b8 & H8 & H).
  apply bind_ok in H. destruct H as (b9 & H9 & H).
  injection H as <-.
  destruct (m_object m) as [s|] eqn:Eo; cbn [opt_all]; [|exact I].
  cbn [if_some] in H6. unfold marshal_header_path in H6.
  destruct (check_name validate_object_path s) as [[]| | | |]; cbn [bind] in H6; try discriminate. injection H6 as <-.
  (* later steps only append *)
  assert (M7 : len (write_string (m_be m) s (marshal_header_field 1 [111] b5)) <= len b7).
  { pose proof (if_some_seg (m_be m) _ _ is_string ValidErrorName (str_field ERROR_NAME) _ _
                  (fun x b b' => errorname_writer_ok (m_be m) x b b') (rt_error_name m T) H7) as [M _]. exact M. }
  assert (M8 : len b7 <= len b8).
  { unfold if_true in H8. destruct (negb (is_nil (m_body m))); [|injection H8 as <-; lia].
    destruct (signature_writer_ok (m_be m) _ _ _ H8) as [M _]. exact M. }
  assert (M9 : len b8 <= len b9).
  { unfold if_true in H9. destruct (negb (m_nfds m =? 0)); [|injection H9 as <-; lia].
    destruct (negb (m_live m =? m_nfds m)); [discriminate|].
    unfold marshal_header_unix_fds in H9. injection H9 as <-.
    destruct (u32_writer_ok (m_be m) 9 (m_nfds m mod 2 ^ 32) b8 ltac:(lia)) as [M _]. exact M. }
  rewrite len_write_string in M7. lia.
Qed.

(** ** the whole header *)
Lemma type_code_no t c : type_code t = Some c -> c = type_no t /\ t <> MInvalid.
Proof. destruct t; cbn; intros H; try discriminate; injection H as <-; split; try reflexivity; discriminate. Qed.

Lemma check_marshalled_array_len_ok l l' : check_marshalled_array_len l = Ok l' -> l <= MAX_ARRAY /\ l' = l.
Proof.
  unfold check_marshalled_array_len. destruct (N.ltb_spec MAX_ARRAY l) as [|H]; [discriminate|].
  intros E. injection E as <-. split; [exact H|]. apply N.mod_small. unfold MAX_ARRAY in H. 
  assert (2 ^ 26 < 2 ^ 32) by (apply N.pow_lt_mono_r; lia). lia.
Qed.

Lemma has_required_fields_iff m : has_required_fields m = true <-> required_present m.
Proof.
  unfold has_required_fields, required_present.
  destruct (m_typ m); destruct (m_object m), (m_member m), (m_interface m), (m_error_name m), (m_reply_serial m); cbn;
    intuition (try discriminate; try congruence).
Qed.

Definition pre12 (m : msg) (serial : N) : list N :=
  [endian_flag (m_be m); type_no (m_typ m); m_flags m; 1] ++ [0; 0; 0; 0] ++ enc (m_be m) 4 serial.

Theorem marshal_msg_spec m serial hb : rust_typed m -> marshal_msg m serial = Ok hb ->
  hb = spec_header m serial
  /\ fields_valid m /\ m_typ m <> MInvalid
  /\ wt (header_value m) T_FIELDS = true /\ encodable (m_be m) 12 0 (header_value m) = true
  /\ len hb + len (m_body m) <= 2 ^ 27
  /\ required_present m.
Proof.
  intros T H. unfold marshal_msg in H. apply bind_ok in H. destruct H as (hbuf & Hh & H).
  destruct (N.ltb_spec Header.MAX_MESSAGE_LEN (len (pad_to 8 hbuf) + len (m_body m))) as [|Hmax]; [discriminate|].
  injection H as <-. unfold Header.MAX_MESSAGE_LEN in Hmax.
  unfold marshal_header in Hh. destruct (type_code (m_typ m)) as [c|] eqn:Ec; [|discriminate].
  destruct (type_code_no _ _ Ec) as [-> Hninv].
  destruct (has_required_fields m) eqn:Ereq; cbn [negb] in Hh; [|discriminate]. apply has_required_fields_iff in Ereq.
  set (be := m_be m) in *.
  set (w := write_u32 be serial _) in Hh.
  assert (Ew : w = pre12 m serial).
  { subst w. unfold write_u32, pre12, endian_flag. fold be. rewrite <- !app_assoc. reflexivity. }
  assert (L12 : len (pre12 m serial) = 12).
  { unfold pre12. rewrite !len_app, len_enc. reflexivity. }
  assert (Lw : len w = 12) by (rewrite Ew; exact L12).
  clearbody w. subst w.
  apply bind_ok in Hh. destruct Hh as (bf & Hf & Hh).
  apply bind_ok in Hh. destruct Hh as (l' & Hl & Hh). injection Hh as <-.
  rewrite L12 in *.
  set (b16 := pre12 m serial ++ [0; 0; 0; 0]) in *.
  assert (E16 : b16 = pre12 m serial ++ [0; 0; 0; 0]) by reflexivity.
  assert (L16 : len b16 = 16) by (rewrite E16, len_app, L12; reflexivity).
  destruct (marshal_fields_spec m b16 bf T Hf) as [Mono Sp].
  assert (Lpad : len bf <= len (pad_to 8 (insert4 be l' 12 bf))).
  { rewrite pad_to_spec by lia. rewrite len_app. unfold insert4. rewrite !len_app, len_firstnN, len_enc, len_skipnN.
    change (N.of_nat 4) with 4. assert (H16 : 16 <= len bf) by (rewrite <- L16; exact Mono).
    clear - H16. set (z := len (zeros _)). clearbody z. rewrite N.min_l by lia. lia. }
  assert (Hbf : len bf < 2 ^ 32).
  { assert (2 ^ 27 < 2 ^ 32) by (apply N.pow_lt_mono_r; lia). lia. }
  destruct (Sp Hbf) as [Hvalid Hemit]. unfold emits in Hemit. rewrite L16 in Hemit.
  set (body := spec_enc_list be 16 (map field_val (fields_of_msg m))) in *.
  fold be in Hemit. fold body in Hemit.
  assert (El : len bf - 12 - 4 = len body) by (rewrite Hemit, len_app, L16; lia).
  rewrite El in Hl. destruct (check_marshalled_array_len_ok _ _ Hl) as [Harr ->].
  (* back-patching the array length *)
  assert (Eins : insert4 be (len body) 12 bf = pre12 m serial ++ enc be 4 (len body) ++ body).
  { rewrite Hemit, E16, <- app_assoc. rewrite <- L12 at 1. apply insert4_spec.
    unfold MAX_ARRAY in Harr. assert (2 ^ 26 < 2 ^ 32) by (apply N.pow_lt_mono_r; lia). lia. }
  rewrite Eins in *.
  assert (Eunp : forall blen, [endian_flag be; type_no (m_typ m); m_flags m; 1] ++ enc be 4 blen ++ enc be 4 serial ++ enc be 4 (len body) ++ body
                 = fixed_part be (type_no (m_typ m)) (m_flags m) blen serial ++ spec_enc be 12 (header_value m)).
  { intros blen. unfold fixed_part, header_value. rewrite spec_enc_fields_val. fold body. rewrite <- !app_assoc. reflexivity. }
  (* leaves *)
  assert (Hpath : opt_all (fun s => len s < 2 ^ 32) (m_object m)).
  { pose proof (marshal_fields_path_len m b16 bf Hf T) as Hp. destruct (m_object m); cbn [opt_all] in *; [lia|exact I]. }
  pose proof (leaves_ok m T Hvalid Hpath) as Hleaf. fold be in Hleaf.
  split; [|split; [exact Hvalid|split; [exact Hninv|split; [|split; [|split; [|exact Ereq]]]]]].
  - (* the bytes *)
    rewrite pad_to_spec by lia. unfold spec_header, spec_header_unpadded. cbv zeta. fold be.
    rewrite <- (Eunp (len (m_body m))).
    set (p := zeros (padlen 8 (len (pre12 m serial ++ enc be 4 (len body) ++ body)))).
    assert (Hb : len (m_body m) < 2 ^ 32).
    { assert (2 ^ 27 < 2 ^ 32) by (apply N.pow_lt_mono_r; lia). lia. }
    unfold pre12. fold be. rewrite <- !app_assoc.
    change ([endian_flag be; type_no (m_typ m); m_flags m; 1] ++ [0; 0; 0; 0] ++ enc be 4 serial ++ enc be 4 (len body) ++ body ++ p)
      with ([endian_flag be; type_no (m_typ m); m_flags m; 1] ++ [0; 0; 0; 0] ++ (enc be 4 serial ++ enc be 4 (len body) ++ body ++ p)).
    rewrite <- (len4 (endian_flag be) (type_no (m_typ m)) (m_flags m) 1) at 1.
    rewrite insert4_spec by exact Hb.
    assert (Elen : len (pre12 m serial ++ enc be 4 (len body) ++ body)
                   = len ([endian_flag be; type_no (m_typ m); m_flags m; 1] ++ enc be 4 (len (m_body m)) ++ enc be 4 serial ++ enc be 4 (len body) ++ body)).
    { unfold pre12. rewrite !len_app, !len_enc. fold be. change (len [0; 0; 0; 0]) with 4. change (N.of_nat 4) with 4. lia. }
    subst p. rewrite Elen. rewrite <- ?app_assoc. reflexivity.
  - apply wt_fields_val. now apply leaf_wt with (be := be).
  - apply encodable_fields_val; assumption.
  - unfold insert4. rewrite !len_app, len_firstnN, len_enc, len_skipnN. change (N.of_nat 4) with 4.
    set (L := len (pad_to 8 (pre12 m serial ++ enc be 4 (len body) ++ body))) in *.
    assert (16 <= L).
    { subst L. rewrite pad_to_spec by lia. rewrite !len_app, L12, len_enc. change (N.of_nat 4) with 4. lia. }
    lia.
Qed.

(** ** the marshaller returns Ok or Err, nothing else *)
Lemma total_bind {A B} (o : outcome A) (f : A -> outcome B) :
  ok_or_err o -> (forall a, ok_or_err (f a)) -> ok_or_err (bind o f).
Proof. intros Ho Hf. destruct o; cbn [bind]; auto. Qed.

Lemma name_writer_total (v : list N -> outcome unit) s (k : outcome (list N)) :
  (forall x, ok_or_err (v x)) -> ok_or_err k -> ok_or_err (do _ <- check_name v s; k).
Proof. intros Hv Hk. apply total_bind; [apply Hv|intros _; exact Hk]. Qed.

Lemma if_some_total {A} (o : option A) w b : (forall x b, ok_or_err (w x b)) -> ok_or_err (@if_some A o w b).
Proof. intros H. destruct o; cbn [if_some]; [apply H|exact I]. Qed.

Lemma marshal_fields_total m b : ok_or_err (marshal_fields m b).
Proof.
  unfold marshal_fields.
  apply total_bind; [apply if_some_total; intros; exact I|intros b1].
  apply total_bind; [apply if_some_total; intros; apply name_writer_total; [apply validate_interface_total|exact I]|intros b2].
  apply total_bind; [apply if_some_total; intros; apply name_writer_total; [apply validate_busname_total|exact I]|intros b3].
  apply total_bind; [apply if_some_total; intros; apply name_writer_total; [apply validate_busname_total|exact I]|intros b4].
  apply total_bind; [apply if_some_total; intros; apply name_writer_total; [apply validate_membername_total|exact I]|intros b5].
  apply total_bind; [apply if_some_total; intros; apply name_writer_total; [apply validate_object_path_total|exact I]|intros b6].
  apply total_bind; [apply if_some_total; intros; apply name_writer_total; [apply validate_errorname_total|exact I]|intros b7].
  apply total_bind; [|intros b8].
  { unfold if_true. destruct (negb _); [|exact I]. unfold marshal_header_signature.
    apply total_bind; [exact (validate_signature_total (m_sig m))|intros _; exact I]. }
  apply total_bind; [|intros b9; exact I].
  unfold if_true. destruct (negb (m_nfds m =? 0)); [|exact I]. destruct (negb _); exact I.
Qed.

Theorem marshal_msg_total m serial : ok_or_err (marshal_msg m serial).
Proof.
  unfold marshal_msg. apply total_bind.
  - unfold marshal_header. destruct (type_code (m_typ m)); [|exact I]. destruct (negb (has_required_fields m)); [exact I|].
    apply total_bind; [apply marshal_fields_total|intros bf].
    apply total_bind; [|intros l; exact I].
    unfold check_marshalled_array_len. destruct (_ <? _); exact I.
  - intros buf. destruct (_ <? _); exact I.
Qed.

(** ** refusal: an invalid name or the Invalid type cannot be marshalled *)
Theorem marshal_msg_refuse m serial : rust_typed m ->
  (~ names_valid m \/ m_typ m = MInvalid \/ ~ required_present m \/ (m_nfds m <> 0 /\ m_live m <> m_nfds m)) ->
  marshal_msg m serial = Err.
Proof.
  intros T H. pose proof (marshal_msg_total m serial) as Ht.
  destruct (marshal_msg m serial) as [hb| | | |] eqn:E; try contradiction; [|reflexivity].
  destruct (marshal_msg_spec m serial hb T E) as (_ & [Hv [_ Hl]] & Hn & _ & _ & _ & Hr).
  destruct H as [H|[H|[H|[H1 H2]]]]; [now elim H|now elim Hn|now elim H|now elim H2; apply Hl].
Qed.

(** ** what the header says about SIGNATURE and UNIX_FDS *)
Lemma has_app c a b : has c (a ++ b) <-> has c a \/ has c b.
Proof. unfold has, codes. rewrite map_app, in_app_iff. tauto. Qed.
Lemma has_opt_field {A} c (o : option A) mk : (forall x, hf_code (mk x) <> c) -> ~ has c (opt_field o mk).
Proof. intros H. destruct o; cbn; [intros [E|[]]; now apply (H a)|tauto]. Qed.

Lemma fields_signature m :
  (m_body m <> [] -> In (sig_field (m_sig m)) (fields_of_msg m)) /\
  (m_body m = [] -> ~ has SIGNATURE (fields_of_msg m)).
Proof.
  unfold fields_of_msg. split.
  - intros Hb. rewrite !in_app_iff. do 7 right. left. destruct (m_body m); [now elim Hb|]. cbn. auto.
  - intros Hb. rewrite Hb. cbn [is_nil]. rewrite !has_app. intros H.
    repeat (destruct H as [H|H]; [revert H; apply has_opt_field; intros x; cbv; discriminate|]).
    destruct H as [[]|H]. destruct (m_nfds m =? 0); cbn in H; [tauto|]. destruct H as [H|[]]. discriminate H.
Qed.

Lemma fields_unix_fds m :
  (m_nfds m <> 0 -> In (u32_field UNIX_FDS (m_nfds m)) (fields_of_msg m)) /\
  (m_nfds m = 0 -> ~ has UNIX_FDS (fields_of_msg m)).
Proof.
  unfold fields_of_msg. split.
  - intros Hb. rewrite !in_app_iff. do 8 right. destruct (N.eqb_spec (m_nfds m) 0); [now elim Hb|]. cbn. auto.
  - intros Hb. rewrite Hb. cbn [N.eqb]. rewrite !has_app. intros H.
    destruct H as [H|H].
    { destruct (m_reply_serial m); cbn in H; [destruct H as [H|[]]; discriminate H|tauto]. }
    repeat (destruct H as [H|H]; [revert H; apply has_opt_field; intros x; cbv; discriminate|]).
    destruct H as [H|[]]. destruct (is_nil (m_body m)); cbn in H; [tauto|]. destruct H as [H|[]]. discriminate H.
Qed.

(** ** reading the two length fields back from the bytes *)
Lemma slice_mid (a x b : list N) n k : len a = n -> len x = k -> slice (a ++ x ++ b) n k = x.
Proof. intros <- <-. unfold slice. rewrite skipnN_app_len. apply firstnN_app_len. Qed.

Lemma header_lengths m serial : serial < 2 ^ 32 -> len (m_body m) < 2 ^ 32 ->
  dec (m_be m) (slice (spec_header m serial) 4 4) = len (m_body m) /\
  dec (m_be m) (slice (spec_header m serial) 8 4) = serial.
Proof.
  intros Hs Hb. unfold spec_header, spec_header_unpadded, fixed_part. cbv zeta.
  set (be := m_be m). set (rest := spec_enc be 12 (header_value m)).
  set (z := zeros _).
  split.
  - replace ((([endian_flag be; type_no (m_typ m); m_flags m; 1] ++ enc be 4 (len (m_body m)) ++ enc be 4 serial) ++ rest) ++ z)
      with ([endian_flag be; type_no (m_typ m); m_flags m; 1] ++ enc be 4 (len (m_body m)) ++ (enc be 4 serial ++ rest ++ z))
      by (rewrite <- !app_assoc; reflexivity).
    rewrite slice_mid; [apply dec_enc; exact Hb|reflexivity|apply len_enc].
  - replace ((([endian_flag be; type_no (m_typ m); m_flags m; 1] ++ enc be 4 (len (m_body m)) ++ enc be 4 serial) ++ rest) ++ z)
      with (([endian_flag be; type_no (m_typ m); m_flags m; 1] ++ enc be 4 (len (m_body m))) ++ enc be 4 serial ++ (rest ++ z))
      by (rewrite <- !app_assoc; reflexivity).
    rewrite slice_mid; [apply dec_enc; exact Hs|rewrite len_app, len_enc; reflexivity|apply len_enc].
Qed.
