(** Model of rustbus/src/standard_messages.rs and of DynamicHeader::make_error_response /
    make_response (message_builder.rs) INCLUDING the bodies they push: every `push_param(x).unwrap()`
    is a marshal of x into the message's body followed by an unwrap, i.e. a panic when the marshal
    fails.  Since fix 056d58a a string containing NUL is refused by the marshaller, so these
    constructors panic on such an argument: known finding D24, class [KnownClass_D24]. *)
From RB Require Import Base.Prelude Sig.Types Sig.Parser Sig.Validator Sig.ParserProofs Sig.ValidatorProofs
  Wire.Bytes Wire.Align Wire.Text Wire.Value Wire.SpecEnc Wire.Marshal Wire.MarshalProofs
  Names.Str Names.Spec Names.StrProofs Names.Model Names.Proofs Msg.Utf8 Msg.Header Msg.HeaderSpec Msg.MsgSpec Msg.HeaderProofs Msg.Accept.

(* MarshalledMessageBody::push_param(p).unwrap(): p.marshal(ctx) on the body's buffer and descriptor list, then
   P::sig_str(&mut sig); an Err (the push is rolled back) is turned into a panic by unwrap *)
Definition push_unwrap (v : val) (m : msg) : outcome msg :=
  let '(c, ok) := marshal_t (m_be m) v {| mbuf := m_body m; mfds := m_nfds m |} in
  if ok then Ok (with_body m (mbuf c) (m_sig m ++ to_str (ty_of v)) (mfds c)) else Panic.

(* hello(), list_names(): make_standard_msg(name), nothing pushed *)
Definition std_hello : outcome msg := Ok (make_standard_msg s_Hello).
Definition std_list_names : outcome msg := Ok (make_standard_msg s_ListNames).

(* request_name(name, flags): push_param(name).unwrap(); push_param(flags).unwrap() *)
Definition std_request_name (name : list N) (flags : N) : outcome msg :=
  do m <- push_unwrap (VText BString name) (make_standard_msg s_RequestName);
  push_unwrap (VBase BUint32 flags) m.

(* release_name(name), add_match(rule), remove_match(rule): one string pushed *)
Definition std_one_string (member arg : list N) : outcome msg :=
  push_unwrap (VText BString arg) (make_standard_msg member).
Definition std_release_name := std_one_string s_ReleaseName.
Definition std_add_match := std_one_string s_AddMatch.
Definition std_remove_match := std_one_string s_RemoveMatch.

(* ping(dest) / ping_bus(): nothing pushed; dest only goes into the header *)
Definition std_ping_msg (dest : option (list N)) : outcome msg := Ok (std_ping dest).

(* the part of a received call's DynamicHeader the reply constructors read *)
Record call_hdr := {
  c_interface : option (list N); c_member : option (list N); c_object : option (list N);
  c_sender : option (list N); c_serial : option N
}.
Definition or_empty (o : option (list N)) : list N := match o with Some s => s | None => [] end.   (* .clone().unwrap_or_else(|| "".to_owned()) *)

(* DynamicHeader::make_response *)
Definition std_make_response (c : call_hdr) : outcome msg := Ok (make_response native_be (c_sender c) (c_serial c)).

(* DynamicHeader::make_error_response(error_name, error_msg): `if let Some(text) = error_msg { err_resp.body.push_param(text).unwrap(); }` *)
Definition std_make_error_response (c : call_hdr) (name : list N) (text : option (list N)) : outcome msg :=
  let m := make_error_response native_be (c_sender c) (c_serial c) name in
  match text with Some t => push_unwrap (VText BString t) m | None => Ok m end.

(* string literals of the two format! calls *)
Definition t_no_calls_to : list N := [78;111;32;99;97;108;108;115;32;116;111;32].                       (* "No calls to " *)
Definition t_are_accepted : list N :=
  [32;97;114;101;32;97;99;99;101;112;116;101;100;32;102;111;114;32;111;98;106;101;99;116;32].          (* " are accepted for object " *)
Definition t_invalid_arguments : list N :=
  [73;110;118;97;108;105;100;32;97;114;103;117;109;101;110;116;115;32;102;111;114;32;99;97;108;108;115;32;116;111;32].  (* "Invalid arguments for calls to " *)
Definition t_on_object : list N := [32;111;110;32;111;98;106;101;99;116;32].                             (* " on object " *)
Definition t_expected_signature : list N :=
  [101;120;112;101;99;116;101;100;32;115;105;103;110;97;116;117;114;101;58;32].                        (* "expected signature: " *)

(* unknown_method(call): format!("No calls to {}.{} are accepted for object {}", interface, member, object) *)
Definition text_unknown_method (c : call_hdr) : list N :=
  t_no_calls_to ++ or_empty (c_interface c) ++ [46] ++ or_empty (c_member c) ++ t_are_accepted ++ or_empty (c_object c).
Definition std_unknown_method_msg (c : call_hdr) : outcome msg :=
  std_make_error_response c s_unknown_method (Some (text_unknown_method c)).

(* invalid_args(call, sig): format!("Invalid arguments for calls to {}.{} on object {} {}", .., "expected signature: {sig}" or "") *)
Definition text_invalid_args (c : call_hdr) (sg : option (list N)) : list N :=
  t_invalid_arguments ++ or_empty (c_interface c) ++ [46] ++ or_empty (c_member c) ++ t_on_object ++ or_empty (c_object c)
  ++ [32] ++ match sg with Some s => t_expected_signature ++ s | None => [] end.
Definition std_invalid_args_msg (c : call_hdr) (sg : option (list N)) : outcome msg :=
  std_make_error_response c s_invalid_args (Some (text_invalid_args c sg)).

(** ** known finding D24: a pushed string argument contains NUL *)
Definition KnownClass_D24 (pushed : list (list N)) : bool := existsb has_nul pushed.

(* the strings each constructor pushes (directly or inside a formatted text) *)
Definition pushed_call (c : call_hdr) : list (list N) := [or_empty (c_interface c); or_empty (c_member c); or_empty (c_object c)].

(** ** proofs *)
Lemma has_nul_app a b : has_nul (a ++ b) = has_nul a || has_nul b.
Proof. unfold has_nul. apply existsb_app. Qed.

Lemma push_string s m : push_unwrap (VText BString s) m =
  if has_nul s then Panic
  else Ok (with_body m (write_string (m_be m) s (pad_to 4 (m_body m))) (m_sig m ++ [115]) (m_nfds m)).
Proof. unfold push_unwrap. cbn [marshal_t andb]. destruct (has_nul s); reflexivity. Qed.

Lemma push_u32 n m : push_unwrap (VBase BUint32 n) m =
  Ok (with_body m (pad_to 4 (m_body m) ++ enc (m_be m) 4 n) (m_sig m ++ [117]) (m_nfds m)).
Proof. reflexivity. Qed.

Lemma write_string_nonempty be s b : write_string be s b <> [].
Proof. unfold write_string. intros H. apply (f_equal len) in H. rewrite !len_app, len_enc in H. change (len [0]) with 1 in H. change (len (@nil N)) with 0 in H. lia. Qed.

(* what is established about a constructed message: it is of a valid type, carries the fields its type requires,
   all its names are valid and the signature of what was pushed is valid - by C05_accept / C05_conformant /
   C05_roundtrip it marshals (within the size limits) to a conformant header and round-trips *)
Definition std_ok (m : msg) : Prop :=
  names_valid m /\ required_present m /\ m_typ m <> MInvalid /\ (m_body m <> [] -> validate_signature (m_sig m) = Ok tt).

Theorem std_nopush_ok : std_hello = Ok (make_standard_msg s_Hello) /\ std_ok (make_standard_msg s_Hello)
  /\ std_list_names = Ok (make_standard_msg s_ListNames) /\ std_ok (make_standard_msg s_ListNames).
Proof.
  pose proof std_members_valid as V.
  assert (H : forall member, ValidMember member -> std_ok (make_standard_msg member)).
  { intros member Hm. destruct (std_call_valid member [] [] 0 Hm) as (A & B & C).
    split; [exact A|split; [exact B|split; [exact C|]]]. cbn. intros E. now elim E. }
  split; [reflexivity|]. split; [apply H, (Forall_inv V)|]. split; [reflexivity|].
  apply H. exact (Forall_inv (Forall_inv_tail (Forall_inv_tail V))).
Qed.

Theorem std_request_name_spec name flags :
  (KnownClass_D24 [name] = true -> std_request_name name flags = Panic) /\
  (KnownClass_D24 [name] = false -> exists m, std_request_name name flags = Ok m /\ std_ok m /\ m_sig m = [115; 117]).
Proof.
  unfold KnownClass_D24, std_request_name. cbn [existsb]. rewrite orb_false_r, push_string.
  destruct (has_nul name); split; try discriminate; intros _; [reflexivity|]. cbn [bind]. rewrite push_u32.
  eexists. split; [reflexivity|].
  pose proof std_members_valid as V.
  assert (Hm : ValidMember s_RequestName) by exact (Forall_inv (Forall_inv_tail (Forall_inv_tail (Forall_inv_tail V)))).
  split; [|reflexivity].
  destruct (std_call_valid s_RequestName [] [] 0 Hm) as (A & B & C).
  split; [exact A|split; [exact B|split; [exact C|]]]. intros _. vm_compute. reflexivity.
Qed.

Theorem std_one_string_spec member arg : ValidMember member ->
  (KnownClass_D24 [arg] = true -> std_one_string member arg = Panic) /\
  (KnownClass_D24 [arg] = false -> exists m, std_one_string member arg = Ok m /\ std_ok m /\ m_sig m = [115]).
Proof.
  intros Hm. unfold KnownClass_D24, std_one_string. cbn [existsb]. rewrite orb_false_r, push_string.
  destruct (has_nul arg); split; try discriminate; intros _; [reflexivity|].
  eexists. split; [reflexivity|]. split; [|reflexivity].
  destruct (std_call_valid member [] [] 0 Hm) as (A & B & C).
  split; [exact A|split; [exact B|split; [exact C|]]]. intros _. vm_compute. reflexivity.
Qed.

Lemma literal_no_nul : has_nul t_no_calls_to = false /\ has_nul t_are_accepted = false /\ has_nul t_invalid_arguments = false
  /\ has_nul t_on_object = false /\ has_nul t_expected_signature = false.
Proof. repeat split; reflexivity. Qed.

Lemma text_unknown_method_nul c : has_nul (text_unknown_method c) = KnownClass_D24 (pushed_call c).
Proof.
  unfold text_unknown_method, KnownClass_D24, pushed_call. rewrite !has_nul_app. cbn [existsb].
  destruct literal_no_nul as (-> & -> & _). change (has_nul [46]) with false.
  destruct (has_nul (or_empty (c_interface c))), (has_nul (or_empty (c_member c))), (has_nul (or_empty (c_object c))); reflexivity.
Qed.

Lemma text_invalid_args_nul c sg : has_nul (text_invalid_args c sg) = KnownClass_D24 (pushed_call c ++ [or_empty sg]).
Proof.
  unfold text_invalid_args, KnownClass_D24, pushed_call. rewrite !has_nul_app. cbn [app existsb].
  destruct literal_no_nul as (_ & _ & -> & -> & He). change (has_nul [46]) with false. change (has_nul [32]) with false.
  assert (Es : has_nul (match sg with Some s => t_expected_signature ++ s | None => [] end) = has_nul (or_empty sg)).
  { destruct sg; cbn [or_empty]; [rewrite has_nul_app, He|]; reflexivity. }
  rewrite Es.
  destruct (has_nul (or_empty (c_interface c))), (has_nul (or_empty (c_member c))), (has_nul (or_empty (c_object c))), (has_nul (or_empty sg)); reflexivity.
Qed.

(* an error reply built by make_error_response *)
Theorem std_make_error_response_spec c name text :
  (KnownClass_D24 [or_empty text] = true -> std_make_error_response c name text = Panic) /\
  (KnownClass_D24 [or_empty text] = false -> opt_all ValidBusName (c_sender c) -> c_serial c <> None -> ValidErrorName name ->
   exists m, std_make_error_response c name text = Ok m /\ std_ok m).
Proof.
  unfold KnownClass_D24, std_make_error_response. cbn [existsb]. rewrite orb_false_r.
  destruct text as [t|]; cbn [or_empty].
  - rewrite push_string. destruct (has_nul t); split; try discriminate; intros _; [reflexivity|]. intros Hs Hser Hn.
    eexists. split; [reflexivity|]. unfold std_ok, names_valid.
    cbn [with_body make_error_response m_interface m_destination m_sender m_member m_object m_error_name opt_all required_present m_typ
         m_reply_serial m_body m_sig].
    split; [exact (conj I (conj Hs (conj I (conj I (conj I Hn)))))|]. split; [split; [discriminate|exact Hser]|].
    split; [discriminate|]. intros _. vm_compute. reflexivity.
  - split; [discriminate|]. intros _ Hs Hser Hn. eexists. split; [reflexivity|]. unfold std_ok, names_valid.
    cbn [make_error_response m_interface m_destination m_sender m_member m_object m_error_name opt_all required_present m_typ
         m_reply_serial m_body m_sig].
    split; [exact (conj I (conj Hs (conj I (conj I (conj I Hn)))))|]. split; [split; [discriminate|exact Hser]|].
    split; [discriminate|]. intros E. now elim E.
Qed.

Lemma error_text_panic c name t : has_nul t = true -> std_make_error_response c name (Some t) = Panic.
Proof. intros H. apply (proj1 (std_make_error_response_spec c name (Some t))). unfold KnownClass_D24. cbn [existsb or_empty]. now rewrite H. Qed.
Lemma error_text_ok c name t : has_nul t = false -> opt_all ValidBusName (c_sender c) -> c_serial c <> None -> ValidErrorName name ->
  exists m, std_make_error_response c name (Some t) = Ok m /\ std_ok m.
Proof. intros H. apply (proj2 (std_make_error_response_spec c name (Some t))). unfold KnownClass_D24. cbn [existsb or_empty]. now rewrite H. Qed.

Theorem std_unknown_method_spec c :
  (KnownClass_D24 (pushed_call c) = true -> std_unknown_method_msg c = Panic) /\
  (KnownClass_D24 (pushed_call c) = false -> opt_all ValidBusName (c_sender c) -> c_serial c <> None ->
   exists m, std_unknown_method_msg c = Ok m /\ std_ok m).
Proof.
  unfold std_unknown_method_msg. rewrite <- text_unknown_method_nul. split.
  - apply error_text_panic.
  - intros H Hs Hser. exact (error_text_ok c _ _ H Hs Hser std_unknown_method_valid).
Qed.

Theorem std_invalid_args_spec c sg :
  (KnownClass_D24 (pushed_call c ++ [or_empty sg]) = true -> std_invalid_args_msg c sg = Panic) /\
  (KnownClass_D24 (pushed_call c ++ [or_empty sg]) = false -> opt_all ValidBusName (c_sender c) -> c_serial c <> None ->
   exists m, std_invalid_args_msg c sg = Ok m /\ std_ok m).
Proof.
  unfold std_invalid_args_msg. rewrite <- text_invalid_args_nul. split.
  - apply error_text_panic.
  - intros H Hs Hser. exact (error_text_ok c _ _ H Hs Hser std_invalid_args_valid).
Qed.

(* the witness of the known finding *)
Lemma std_nul_refuted : KnownClass_D24 [[97; 0; 98]] = true /\ std_request_name [97; 0; 98] 0 = Panic
  /\ std_add_match [97; 0] = Panic
  /\ std_unknown_method_msg {| c_interface := Some [97; 0; 98]; c_member := None; c_object := None; c_sender := None; c_serial := Some 1 |} = Panic.
Proof. repeat split; vm_compute; reflexivity. Qed.

(* a constructed message that marshals is conformant and round-trips (instance of the general theorems): e.g. request_name *)
Lemma std_request_name_fields_valid name flags m : std_request_name name flags = Ok m -> fields_valid m /\ required_present m.
Proof.
  intros H. destruct (std_request_name_spec name flags) as [P O]. destruct (KnownClass_D24 [name]) eqn:E.
  - rewrite (P eq_refl) in H. discriminate.
  - destruct (O eq_refl) as (m' & Hm & (Hn & Hr & _ & Hs) & _). rewrite H in Hm. injection Hm as <-.
    split; [split; [exact Hn|split; [exact Hs|]]|exact Hr].
    (* nothing request_name pushes carries a descriptor *)
    unfold std_request_name in H. rewrite push_string in H. destruct (has_nul name); [discriminate|]. cbn [bind] in H. rewrite push_u32 in H.
    injection H as <-. cbn. intros C. now elim C.
Qed.
