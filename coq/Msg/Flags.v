(** Model of rustbus/src/message_builder.rs `impl HeaderFlags` (into_raw, is_set, set, unset, toggle;
    as of the fix: commits) and its specification in terms of the bits of the flags byte.
    The flags byte is a [u8]: all statements are for 0 <= x < 256 and are proved by an exhaustive
    sweep over the 3 x 256 inputs evaluated by the kernel's VM. *)
From RB Require Import Base.Prelude.

(* pub enum HeaderFlags *)
Inductive hflag := NoReplyExpected | NoAutoStart | AllowInteractiveAuthorization.

(* fn into_raw(self) -> u8 *)
Definition into_raw (f : hflag) : N :=
  match f with NoReplyExpected => 1 | NoAutoStart => 2 | AllowInteractiveAuthorization => 4 end.

(* fn is_set(self, flags: u8) -> bool { flags & self.into_raw() != 0 } *)
Definition is_set (f : hflag) (flags : N) : bool := negb (N.land flags (into_raw f) =? 0).

(* fn set(self, flags: &mut u8) { *flags |= self.into_raw() } *)
Definition set (f : hflag) (flags : N) : N := N.lor flags (into_raw f).

(* fn unset(self, flags: &mut u8) { *flags &= 0xFF - self.into_raw() } *)
Definition unset (f : hflag) (flags : N) : N := N.land flags (255 - into_raw f).

(* fn toggle(self, flags: &mut u8) { if self.is_set( *flags) { self.unset(flags) } else { self.set(flags) } } *)
Definition toggle (f : hflag) (flags : N) : N := if is_set f flags then unset f flags else set f flags.

(** ** specification: the D-Bus header flags are bits 0, 1, 2 of the third header byte
    (NO_REPLY_EXPECTED 0x1, NO_AUTO_START 0x2, ALLOW_INTERACTIVE_AUTHORIZATION 0x4) *)
Definition bit (f : hflag) : N :=
  match f with NoReplyExpected => 0 | NoAutoStart => 1 | AllowInteractiveAuthorization => 2 end.

Definition all_flags : list hflag := [NoReplyExpected; NoAutoStart; AllowInteractiveAuthorization].
Definition all_bytes : list N := map N.of_nat (seq 0 256).

Lemma in_all_flags f : In f all_flags.
Proof. destruct f; cbn; auto. Qed.
Lemma in_all_bytes x : x < 256 -> In x all_bytes.
Proof.
  intros H. unfold all_bytes. apply in_map_iff. exists (N.to_nat x). split; [lia|]. apply in_seq. lia.
Qed.

(* what one input must satisfy; the last clause says no other bit is touched by any of the operations *)
Definition flag_ok (f : hflag) (x : N) : bool :=
  Bool.eqb (is_set f x) (N.testbit x (bit f))
  && (set f x =? N.setbit x (bit f))
  && (unset f x =? N.clearbit x (bit f))
  && (toggle f x =? N.lxor x (2 ^ bit f))
  && (set f x <? 256) && (unset f x <? 256) && (toggle f x <? 256)
  && (into_raw f =? 2 ^ bit f).

Lemma sweep : forallb (fun f => forallb (flag_ok f) all_bytes) all_flags = true.
Proof. vm_compute. reflexivity. Qed.

Theorem flags_spec f x : x < 256 ->
  is_set f x = N.testbit x (bit f)
  /\ set f x = N.setbit x (bit f)
  /\ unset f x = N.clearbit x (bit f)
  /\ toggle f x = N.lxor x (2 ^ bit f)
  /\ set f x < 256 /\ unset f x < 256 /\ toggle f x < 256
  /\ into_raw f = 2 ^ bit f.
Proof.
  intros Hx. pose proof sweep as S. rewrite forallb_forall in S. specialize (S f (in_all_flags f)).
  rewrite forallb_forall in S. specialize (S x (in_all_bytes x Hx)). unfold flag_ok in S.
  repeat (apply andb_prop in S; destruct S as [S ?]).
  repeat match goal with
         | H : (_ =? _) = true |- _ => apply N.eqb_eq in H
         | H : (_ <? _) = true |- _ => apply N.ltb_lt in H
         | H : Bool.eqb _ _ = true |- _ => apply Bool.eqb_prop in H
         end.
  repeat split; assumption.
Qed.

(** consequences in terms of single bits: reading bit [j] after each operation *)
Corollary flags_bits f x j : x < 256 ->
  N.testbit (set f x) j = (N.testbit x j || (j =? bit f))
  /\ N.testbit (unset f x) j = (N.testbit x j && negb (j =? bit f))
  /\ N.testbit (toggle f x) j = xorb (N.testbit x j) (j =? bit f).
Proof.
  intros Hx. destruct (flags_spec f x Hx) as (_ & E1 & E2 & E3 & _).
  rewrite E1, E2, E3. repeat split.
  - rewrite N.setbit_eqb. rewrite orb_comm. f_equal. apply N.eqb_sym.
  - rewrite N.clearbit_eqb. f_equal. f_equal. apply N.eqb_sym.
  - rewrite N.lxor_spec, N.pow2_bits_eqb. f_equal. apply N.eqb_sym.
Qed.
