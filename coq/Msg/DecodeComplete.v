(** C06, completeness: every spec-valid header is accepted by the header decoder, which returns
    the header the specification says the bytes denote, and consumes exactly the header. *)
From RB Require Import Base.Prelude Sig.Types Sig.Parser Sig.Validator Sig.ParserProofs Sig.ValidatorProofs
  Wire.Bytes Wire.Align Wire.Text Wire.Value Wire.SpecEnc Wire.Marshal Wire.MarshalProofs Wire.Decode Wire.Unmarshal
  Wire.DecodeLemmas Wire.DecodeComplete Names.Str Names.Spec Names.StrProofs Names.Model Names.Proofs
  Msg.Utf8 Msg.Shift Msg.HeaderSpec Msg.HeaderDecode Msg.HeaderProofs Msg.DecodeSound.

(** what typing and encodability of one field struct give *)
Lemma field_conditions be pos f : wt (field_val f) T_FIELD = true -> encodable be pos 1 (field_val f) = true ->
  hf_code f < 256 /\ wt (hf_val f) (hf_ty f) = true /\ type_ok (hf_ty f) = true
  /\ encodable be (pos + padlen 8 pos + 1 + len (sig_bytes (to_str (hf_ty f)))) 3 (hf_val f) = true.
Proof.
  unfold field_val, T_FIELD. intros Hw He. cbn [wt] in Hw.
  apply andb_prop in Hw. destruct Hw as [Hw1 Hw2]. rewrite andb_true_r in Hw2.
  apply andb_prop in Hw1. destruct Hw1 as [Hw1 _]. apply andb_prop in Hw1. destruct Hw1 as [_ Hc].
  apply N.ltb_lt in Hc. change (256 ^ N.of_nat (base_size BByte)) with 256 in Hc.
  rewrite encodable_struct in He. apply andb_prop in He. destruct He as [_ He]. cbn [encodable_list] in He.
  apply andb_prop in He. destruct He as [_ He]. rewrite andb_true_r in He.
  cbn [spec_enc base_align base_size] in He. rewrite padlen_1 in He. change (zeros 0) with (@nil N) in He. cbn [app] in He.
  rewrite enc1 in He by exact Hc. change (len [hf_code f]) with 1 in He.
  cbn [encodable] in He. apply andb3 in He. destruct He as (_ & Ht & Hv). change (2 + 1) with 3 in Hv. auto.
Qed.

Lemma to_str_utf8 t : utf8_valid (to_str t) = true.
Proof. apply utf8_valid_ascii, to_str_ascii. Qed.

(** the result the decoder must produce for a field *)
Definition result_of (f : hfield) : option header_field :=
  match of_hfield f with x :: _ => Some x | [] => None end.

Lemma name_arm_complete be want v (V : list N -> Prop) mk c s :
  (forall s, utf8_valid s = true -> (v (utf8_chars s) = Ok tt <-> V s)) -> V s ->
  len s < 2 ^ 32 -> utf8_valid s = true -> has_nul s = false ->
  has_at (ubuf c) (uoff c) (zeros (padlen 4 (uoff c)) ++ enc be 4 (len s) ++ s ++ [0]) ->
  name_arm be (TBase want) want v mk c = Ok (Some (mk s), set_off c (uoff c + padlen 4 (uoff c) + (len s + 5))).
Proof.
  intros HV Hs Hl Hu Hn H. unfold name_arm. rewrite ty_eqb_refl.
  rewrite (u_read_str_ok be c s Hl Hu Hn H). cbn [bind fst snd]. unfold check_name.
  apply (HV s Hu) in Hs. rewrite Hs. reflexivity.
Qed.

Theorem field_complete be c f :
  wt (field_val f) T_FIELD = true -> encodable be (uoff c) 1 (field_val f) = true -> field_ok f ->
  has_at (ubuf c) (uoff c) (spec_enc be (uoff c) (field_val f)) ->
  unmarshal_header_field be c = Ok (result_of f, set_off c (uoff c + len (spec_enc be (uoff c) (field_val f)))).
Proof.
  intros Hw He Hok H.
  destruct (field_conditions be (uoff c) f Hw He) as (Hc & Hwv & Ht & Hev).
  destruct f as [code t v]. cbn [hf_code hf_ty hf_val] in *.
  rewrite field_enc in * by exact Hc. set (off := uoff c) in *. set (p := padlen 8 off) in *.
  destruct (has_at_app4 _ _ _ _ _ _ H) as (H1 & H2 & H3 & H4). rewrite len_zeros in H2, H3, H4. change (len [code]) with 1 in H3, H4.
  set (sg := sig_bytes (to_str t)) in *.
  unfold unmarshal_header_field.
  rewrite (u_align_ok 8 c ltac:(lia) H1). cbn [bind]. fold off. fold p.
  (* the code byte *)
  assert (Hr : read_u8 (set_off c (off + p)) = Ok (code, set_off c (off + p + 1))).
  { unfold read_u8. rewrite (u_read_fixed_ok false 1 (set_off c (off + p)) code); [|auto|exact Hc|].
    - cbn [set_off ubuf uoff]. change (N.of_nat 1) with 1. rewrite padlen_1, N.add_0_r. reflexivity.
    - cbn [set_off ubuf uoff]. change (N.of_nat 1) with 1. rewrite padlen_1. change (zeros 0) with (@nil N). cbn [app].
      unfold enc. cbn [le_bytes]. rewrite N.mod_small by exact Hc. exact H2. }
  rewrite Hr. cbn [bind fst snd].
  rewrite (u_read_sig_ok (set_off c (off + p + 1)) (to_str t) (to_str_utf8 t) H3). cbn [bind fst snd set_off ubuf uoff].
  rewrite (parse_description_single t Ht). cbn [bind].
  assert (Ls : len sg = len (to_str t) + 2) by apply len_sig_bytes.
  set (c3 := {| ubuf := ubuf c; uoff := off + p + 1 + (len (to_str t) + 2); unfds := unfds c; udepth := udepth c |}).
  rewrite Ls in H4, Hev.
  change (set_off (set_off c (off + p + 1)) (off + p + 1 + (len (to_str t) + 2))) with c3.
  change (has_at (ubuf c3) (uoff c3) (spec_enc be (uoff c3) v)) in H4.
  assert (Elen : forall m, len (spec_enc be (uoff c3) v) = m ->
            set_off c3 (uoff c3 + m) = set_off c (off + len (zeros p ++ [code] ++ sg ++ spec_enc be (off + p + 1 + len sg) v))).
  { intros m <-. unfold set_off, c3. cbn [ubuf uoff unfds udepth]. f_equal.
    rewrite !len_app, len_zeros, Ls. change (len [code]) with 1. lia. }
  destruct (field_ok_inv _ Hok) as (H0 & K1 & K2 & K3 & K4 & K5 & K6 & K7 & K8 & K9). cbn [hf_code] in *.
  (* a string-valued known field *)
  assert (Str : forall (cd : N) want vv (V : list N -> Prop) mk s,
            (forall s, utf8_valid s = true -> (vv (utf8_chars s) = Ok tt <-> V s)) ->
            t = TBase want -> v = VText want s -> (want = BString \/ want = BObjectPath) -> V s ->
            name_arm be t want vv mk c3 = Ok (Some (mk s), set_off c (off + len (zeros p ++ [code] ++ sg ++ spec_enc be (off + p + 1 + len sg) v)))).
  { intros cd want vv V mk s HV -> -> Hwant HVs.
    assert (Ht' : is_text want = true) by (destruct Hwant as [->| ->]; reflexivity).
    pose proof (encodable_text be _ _ want s Ht' Hev) as Henc.
    assert (Hparts : utf8_valid s = true /\ has_nul s = false /\ len s < 2 ^ 32) by (destruct Hwant as [->| ->]; tauto).
    destruct Hparts as (Hu & Hn & Hl).
    assert (Es : spec_enc be (uoff c3) (VText want s) = zeros (padlen 4 (uoff c3)) ++ enc be 4 (len s) ++ s ++ [0])
      by (destruct Hwant as [->| ->]; reflexivity).
    rewrite Es in H4. rewrite (name_arm_complete be want vv V mk c3 s HV HVs Hl Hu Hn H4). f_equal. f_equal.
    rewrite <- N.add_assoc. rewrite Ls. apply Elen. rewrite Es, !len_app, len_zeros, len_enc. change (len [0]) with 1. change (N.of_nat 4) with 4. lia. }
  destruct (N.eqb_spec code 1) as [E1|E1].
  { destruct (K1 E1) as (s & E). injection E as _ -> ->. replace (result_of _) with (Some (HPath s)) by (rewrite E1; reflexivity).
    apply (Str 1 BObjectPath validate_object_path ValidPath HPath s path_bytes eq_refl eq_refl (or_intror eq_refl)).
    apply valid_path_spec. pose proof (encodable_text be _ _ BObjectPath s eq_refl Hev) as (_ & _ & _ & Hp). now apply Hp. }
  destruct (N.eqb_spec code 2) as [E2|E2].
  { destruct (K2 E2) as (s & E & HV). injection E as _ -> ->. replace (result_of _) with (Some (HInterface s)) by (rewrite E2; reflexivity).
    exact (Str 2 BString validate_interface ValidInterface HInterface s interface_bytes eq_refl eq_refl (or_introl eq_refl) HV). }
  destruct (N.eqb_spec code 3) as [E3|E3].
  { destruct (K3 E3) as (s & E & HV). injection E as _ -> ->. replace (result_of _) with (Some (HMember s)) by (rewrite E3; reflexivity).
    exact (Str 3 BString validate_membername ValidMember HMember s member_bytes eq_refl eq_refl (or_introl eq_refl) HV). }
  destruct (N.eqb_spec code 4) as [E4|E4].
  { destruct (K4 E4) as (s & E & HV). injection E as _ -> ->. replace (result_of _) with (Some (HErrorName s)) by (rewrite E4; reflexivity).
    exact (Str 4 BString validate_errorname ValidErrorName HErrorName s errorname_bytes eq_refl eq_refl (or_introl eq_refl) HV). }
  destruct (N.eqb_spec code 5) as [E5|E5].
  { destruct (K5 E5) as (n & E & Hnz). injection E as _ -> ->. replace (result_of _) with (Some (HReplySerial n)) by (rewrite E5; reflexivity).
    rewrite ty_eqb_refl. cbn [wt] in Hwv. apply andb_prop in Hwv. destruct Hwv as [Hwv _]. apply andb_prop in Hwv. destruct Hwv as [_ Hn].
    apply N.ltb_lt in Hn. cbn [spec_enc base_align base_size] in H4.
    rewrite (u_read_fixed_ok be 4 c3 n ltac:(auto) Hn H4). cbn [bind fst snd].
    destruct (N.eqb_spec n 0); [contradiction|]. f_equal. f_equal. change (N.of_nat 4) with 4. rewrite <- N.add_assoc. rewrite Ls. apply Elen.
    cbn [spec_enc base_align base_size]. rewrite len_app, len_zeros, len_enc. reflexivity. }
  destruct (N.eqb_spec code 6) as [E6|E6].
  { destruct (K6 E6) as (s & E & HV). injection E as _ -> ->. replace (result_of _) with (Some (HDestination s)) by (rewrite E6; reflexivity).
    exact (Str 6 BString validate_busname ValidBusName HDestination s busname_bytes eq_refl eq_refl (or_introl eq_refl) HV). }
  destruct (N.eqb_spec code 7) as [E7|E7].
  { destruct (K7 E7) as (s & E & HV). injection E as _ -> ->. replace (result_of _) with (Some (HSender s)) by (rewrite E7; reflexivity).
    exact (Str 7 BString validate_busname ValidBusName HSender s busname_bytes eq_refl eq_refl (or_introl eq_refl) HV). }
  destruct (N.eqb_spec code 8) as [E8|E8].
  { destruct (K8 E8) as (s & E). injection E as _ -> ->. replace (result_of _) with (Some (HSignature s)) by (rewrite E8; reflexivity).
    rewrite ty_eqb_refl. pose proof (encodable_text be _ _ BSignature s eq_refl Hev) as Hv. cbn [spec_enc] in H4.
    rewrite (u_read_sig_ok c3 s (valid_signature_utf8 s Hv) H4). cbn [bind fst snd].
    assert (Ev : (if is_empty s then Ok tt else validate_signature s) = Ok tt).
    { destruct s; [reflexivity|]. cbn [is_empty]. now apply is_ok_validate_signature. }
    rewrite Ev. cbn [bind]. f_equal. f_equal. rewrite Ls. apply Elen. cbn [spec_enc]. apply len_sig_bytes. }
  destruct (N.eqb_spec code 9) as [E9|E9].
  { destruct (K9 E9) as (n & E). injection E as _ -> ->. replace (result_of _) with (Some (HUnixFds n)) by (rewrite E9; reflexivity).
    rewrite ty_eqb_refl. cbn [wt] in Hwv. apply andb_prop in Hwv. destruct Hwv as [Hwv _]. apply andb_prop in Hwv. destruct Hwv as [_ Hn].
    apply N.ltb_lt in Hn. cbn [spec_enc base_align base_size] in H4.
    rewrite (u_read_fixed_ok be 4 c3 n ltac:(auto) Hn H4). cbn [bind fst snd].
    f_equal. f_equal. change (N.of_nat 4) with 4. rewrite <- N.add_assoc. rewrite Ls. apply Elen.
    cbn [spec_enc base_align base_size]. rewrite len_app, len_zeros, len_enc. reflexivity. }
  destruct (N.eqb_spec code 0) as [E0|E0]; [contradiction|].
  (* unknown field *)
  cbv beta iota.
  rewrite (validate_complete_gen be v t 3 (off + p + 1 + (len (to_str t) + 2)) (ubuf c) 66%nat Hwv Hev H4 (fuel_ok_66 3)). cbn [bind].
  assert (Hk : known code = false).
  { unfold known. destruct (N.leb_spec 1 code); destruct (N.leb_spec code 9); cbn [andb]; try reflexivity. lia. }
  unfold result_of. rewrite (of_hfield_unknown {| hf_code := code; hf_ty := t; hf_val := v |} Hk).
  f_equal. f_equal. exact (Elen _ eq_refl).
Qed.

(** ** the loop over the field region *)
Lemma of_hfield_le1 f : of_hfield f = [] \/ exists x, of_hfield f = [x].
Proof.
  unfold of_hfield. cbv zeta. destruct (hf_val f); auto;
    repeat match goal with |- context [if ?b then _ else _] => destruct b end; eauto.
Qed.

Lemma result_of_cons f rest : match result_of f with Some x => x :: rest | None => rest end = of_hfield f ++ rest.
Proof. unfold result_of. destruct (of_hfield_le1 f) as [->|(x & ->)]; reflexivity. Qed.

Lemma fields_loop_done one fuel c : remainder_len c = 0 -> fields_loop one fuel c = Ok [].
Proof. intros H. destruct fuel; cbn [fields_loop]; rewrite H; reflexivity. Qed.

Definition rcur (R : list N) (o : N) : uctx := {| ubuf := R; uoff := o; unfds := 0; udepth := 0 |}.

Lemma loop_complete be R : forall fs o fuel,
  has_at R o (spec_enc_list be o (map field_val fs)) ->
  o + len (spec_enc_list be o (map field_val fs)) = len R ->
  Forall (fun f => wt (field_val f) T_FIELD = true) fs ->
  encodable_list be o 1 (map field_val fs) = true -> Forall field_ok fs ->
  (N.to_nat (len R - o) < fuel)%nat ->
  fields_loop (unmarshal_header_field be) fuel (rcur R o) = Ok (known_list fs).
Proof.
  induction fs as [|f fs IH]; intros o fuel H Hlen Hw He Hok Hfuel.
  - cbn [map spec_enc_list] in Hlen. change (len (@nil N)) with 0 in Hlen. apply fields_loop_done.
    unfold remainder_len, rcur. cbn [ubuf uoff]. lia.
  - cbn [map spec_enc_list encodable_list] in H, Hlen, He. cbv zeta in H, Hlen.
    apply Forall_cons_iff in Hw. destruct Hw as [Hwf Hw]. apply Forall_cons_iff in Hok. destruct Hok as [Hokf Hok].
    apply andb_prop in He. destruct He as [Hef He].
    set (e := spec_enc be o (field_val f)) in *.
    pose proof (spec_enc_nonempty be _ _ o 1 Hwf Hef) as Hpos. fold e in Hpos.
    destruct (has_at_app _ _ _ _ H) as [Ha Hb]. rewrite len_app in Hlen.
    destruct fuel as [|fuel]; [lia|]. cbn [fields_loop]. unfold remainder_len. cbn [rcur ubuf uoff].
    destruct (N.eqb_spec (len R - o) 0) as [E|_]; [lia|].
    pose proof (field_complete be (rcur R o) f Hwf Hef Hokf Ha) as Hf. cbn [rcur ubuf uoff] in Hf. fold e in Hf.
    change {| ubuf := R; uoff := o; unfds := 0; udepth := 0 |} with (rcur R o). rewrite Hf. cbn [bind fst snd].
    change (set_off (rcur R o) (o + len e)) with (rcur R (o + len e)).
    rewrite (IH (o + len e) fuel Hb ltac:(lia) Hw He Hok ltac:(lia)). cbn [bind].
    rewrite result_of_cons. reflexivity.
Qed.

(** ** validate_header_fields *)
Lemma dup_loop_complete l : forall seen, NoDup (map field_code l) -> (forall c, In c (map field_code l) -> ~ In c seen) ->
  exists seen', dup_loop seen l = Ok seen' /\ (forall c, In c seen' <-> In c (map field_code l) \/ In c seen).
Proof.
  induction l as [|f r IH]; intros seen Hnd Hdis; cbn [dup_loop map] in *.
  - exists seen. split; [reflexivity|]. intros c. cbn. tauto.
  - apply NoDup_cons_iff in Hnd. destruct Hnd as [Hnin Hnd].
    destruct (existsb (N.eqb (field_code f)) seen) eqn:Ee.
    + apply existsb_eqb_in in Ee. elim (Hdis (field_code f)); [now left|exact Ee].
    + destruct (IH (field_code f :: seen) Hnd) as (seen' & Hs & Hm).
      * intros c Hin [<-|Hc]; [contradiction|]. apply (Hdis c); [now right|exact Hc].
      * exists seen'. split; [exact Hs|]. intros c. rewrite Hm. cbn [In]. tauto.
Qed.

Lemma validate_header_fields_complete typ fs : Forall field_ok fs -> 1 <= typ <= 4 ->
  no_duplicates fs -> required typ fs -> validate_header_fields typ (known_list fs) = Ok tt.
Proof.
  intros Hok Ht Hnd (R1 & R2 & R3 & R4). unfold validate_header_fields, no_duplicates in *.
  destruct (dup_loop_complete (known_list fs) []) as (seen & Hs & Hm).
  - now rewrite (known_list_codes fs Hok).
  - intros c _ [].
  - rewrite Hs. cbn [bind]. cbv zeta. rewrite (known_list_codes fs Hok) in Hm.
    assert (Have : forall c, known c = true -> has c fs -> existsb (N.eqb c) seen = true).
    { intros c Hk Hc. apply existsb_eqb_in, Hm. left. apply in_filter_known; assumption. }
    unfold PATH, INTERFACE, MEMBER, ERROR_NAME, REPLY_SERIAL in *.
    destruct (N.eqb_spec typ 1) as [E1|E1].
    { destruct (R1 E1) as [Ha Hb]. rewrite (Have 1 eq_refl Ha), (Have 3 eq_refl Hb). reflexivity. }
    destruct (N.eqb_spec typ 4) as [E4|E4].
    { destruct (R4 E4) as (Ha & Hb & Hc). rewrite (Have 1 eq_refl Ha), (Have 3 eq_refl Hc), (Have 2 eq_refl Hb). reflexivity. }
    destruct (N.eqb_spec typ 2) as [E2|E2].
    { rewrite (Have 5 eq_refl (R2 E2)). reflexivity. }
    destruct (N.eqb_spec typ 3) as [E3|E3]; [|lia].
    destruct (R3 E3) as [Ha Hb]. rewrite (Have 4 eq_refl Ha), (Have 5 eq_refl Hb). reflexivity.
Qed.

(** the decoded header is determined by the fixed part and the fields *)
Lemma decoded_unique h h' fs : decoded h fs -> decoded h' fs ->
  h_be h = h_be h' -> h_typ h = h_typ h' -> h_flags h = h_flags h' -> h_body_len h = h_body_len h' -> h_serial h = h_serial h' ->
  h = h'.
Proof.
  intros (A1 & A2 & A3 & A4 & A5 & A6 & A7 & A8 & A9) (B1 & B2 & B3 & B4 & B5 & B6 & B7 & B8 & B9) E1 E2 E3 E4 E5.
  destruct h, h'. cbn in *. congruence.
Qed.

(** ** the fixed part *)
Lemma read_u8_complete c v : v < 256 -> has_at (ubuf c) (uoff c) [v] -> read_u8 c = Ok (v, set_off c (uoff c + 1)).
Proof.
  intros Hv H. unfold read_u8. rewrite (u_read_fixed_ok false 1 c v); [|auto|exact Hv|].
  - change (N.of_nat 1) with 1. rewrite padlen_1, N.add_0_r. reflexivity.
  - change (N.of_nat 1) with 1. rewrite padlen_1. change (zeros 0) with (@nil N). cbn [app].
    unfold enc. cbn [le_bytes]. rewrite N.mod_small by exact Hv. exact H.
Qed.

Lemma u32_complete be c n : n < 2 ^ 32 -> uoff c mod 4 = 0 -> has_at (ubuf c) (uoff c) (enc be 4 n) ->
  u_read_fixed be 4 c = Ok (n, set_off c (uoff c + 4)).
Proof.
  intros Hn Hal H. rewrite (u_read_fixed_ok be 4 c n); [|auto|exact Hn|].
  - change (N.of_nat 4) with 4. rewrite padlen_0 by (try lia; exact Hal). rewrite N.add_0_r. reflexivity.
  - change (N.of_nat 4) with 4. rewrite padlen_0 by (try lia; exact Hal). exact H.
Qed.

Lemma unmarshal_header_complete B be typ flags blen serial :
  has_at B 0 (fixed_part be typ flags blen serial) ->
  1 <= typ <= 4 -> flags < 256 -> blen < 2 ^ 32 -> 0 < serial < 2 ^ 32 ->
  unmarshal_header (cursor B) =
  Ok ({| hd_be := be; hd_typ := typ; hd_flags := flags; hd_body_len := blen; hd_serial := serial |}, set_off (cursor B) 12).
Proof.
  intros H Ht Hf Hb Hs. unfold fixed_part in H.
  pose proof (has_at_bound _ _ _ H) as Hlen. rewrite !len_app, !len_enc in Hlen. change (len [endian_flag be; typ; flags; 1]) with 4 in Hlen.
  change (N.of_nat 4) with 4 in Hlen.
  destruct (has_at_app3 _ _ _ _ _ H) as (H4 & H5 & H6). change (len [endian_flag be; typ; flags; 1]) with 4 in H5, H6.
  rewrite len_enc in H6. change (N.of_nat 4) with 4 in H6.
  change [endian_flag be; typ; flags; 1] with ([endian_flag be] ++ [typ] ++ [flags] ++ [1]) in H4.
  destruct (has_at_app4 _ _ _ _ _ _ H4) as (G0 & G1 & G2 & G3). change (len [endian_flag be]) with 1 in *. change (len [typ]) with 1 in *.
  change (len [flags]) with 1 in *.
  unfold unmarshal_header. unfold remainder_len. cbn [cursor ubuf uoff].
  destruct (N.ltb_spec (len B - 0) 12) as [|_]; [lia|].
  rewrite (read_u8_complete (cursor B) (endian_flag be)); [|destruct be; cbn; lia|exact G0]. cbn [bind fst snd].
  assert (Ebe : (if endian_flag be =? 108 then Ok false else if endian_flag be =? 66 then Ok true else Err) = Ok be)
    by (destruct be; reflexivity).
  rewrite Ebe. cbn [bind].
  rewrite (read_u8_complete _ typ); [|lia|exact G1]. cbn [bind fst snd].
  destruct (N.leb_spec 1 typ); [|lia]. destruct (N.leb_spec typ 4); [|lia]. cbn [andb bind].
  rewrite (read_u8_complete _ flags); [|lia|exact G2]. cbn [bind fst snd].
  rewrite (read_u8_complete _ 1); [|lia|exact G3]. cbn [bind fst snd N.eqb Pos.eqb negb].
  rewrite (u32_complete be _ blen Hb); [|reflexivity|exact H5]. cbn [bind fst snd].
  rewrite (u32_complete be _ serial); [|lia|reflexivity|exact H6]. cbn [bind fst snd].
  destruct (N.eqb_spec serial 0); [lia|]. reflexivity.
Qed.

Lemma encodable_list_shift16 be d vs : encodable_list be 16 d vs = encodable_list be 0 d vs.
Proof.
  change 16 with (0 + 8 * 2). apply encodable_list_shift. apply Forall_forall. intros v _ pos d'. apply encodable_shift.
Qed.

(** ** the theorem *)
Theorem decode_header_complete bs h used : used <= len bs -> ValidHeader (firstnN used bs) h ->
  decode_header bs = Ok (h, used).
Proof.
  intros Hused (fs & Ep & Ht & Hfl & Hbl & Hser & Hw & He & Hok & Hnd & Hreq & Hdec).
  set (be := h_be h) in *.
  rewrite spec_enc_fields_val in Ep. set (body := spec_enc_list be 16 (map field_val fs)) in *.
  assert (Lp : used = 12 + (4 + len body)).
  { pose proof (f_equal len Ep) as E. rewrite len_firstnN, !len_app, len_enc in E.
    unfold fixed_part in E. rewrite !len_app, !len_enc in E. change (len [endian_flag be; h_typ h; h_flags h; 1]) with 4 in E.
    change (N.of_nat 4) with 4 in E. lia. }
  set (rest := skipnN used bs).
  assert (EB : bs = [] ++ (fixed_part be (h_typ h) (h_flags h) (h_body_len h) (h_serial h) ++ enc be 4 (len body) ++ body) ++ rest).
  { cbn [app]. rewrite <- Ep. symmetry. apply firstnN_skipnN. }
  assert (Lfix : len (fixed_part be (h_typ h) (h_flags h) (h_body_len h) (h_serial h)) = 12).
  { unfold fixed_part. rewrite !len_app, !len_enc. reflexivity. }
  pose proof (has_at_intro [] (fixed_part be (h_typ h) (h_flags h) (h_body_len h) (h_serial h) ++ enc be 4 (len body) ++ body) rest) as HA.
  rewrite <- EB in HA. change (len (@nil N)) with 0 in HA.
  destruct (has_at_app3 _ _ _ _ _ HA) as (A0 & A12 & A16). rewrite Lfix in A12, A16. rewrite len_enc in A16.
  change (0 + 12) with 12 in *. change (12 + N.of_nat 4) with 16 in A16.
  (* typing / encodability of the fields *)
  unfold fields_val in Hw, He. rewrite encodable_array in He. apply andb4 in He. destruct He as (_ & _ & Hmax & Hel).
  cbn [align T_FIELD] in Hmax, Hel. change (12 + padlen 4 12 + 4 + padlen 8 (12 + padlen 4 12 + 4)) with 16 in Hmax, Hel.
  fold body in Hmax. apply N.leb_le in Hmax.
  assert (Hwf : Forall (fun f => wt (field_val f) T_FIELD = true) fs).
  { unfold T_FIELDS in Hw. cbn [wt] in Hw. apply andb_prop in Hw. destruct Hw as [_ Hw]. rewrite forallb_forall in Hw.
    apply Forall_forall. intros f Hin. apply Hw. now apply in_map. }
  unfold decode_header.
  rewrite (unmarshal_header_complete bs be (h_typ h) (h_flags h) (h_body_len h) (h_serial h) A0 Ht Hfl Hbl Hser). cbn [bind fst snd].
  unfold unmarshal_dynamic_header, unmarshal_header_fields. cbn [hd_be hd_typ].
  assert (Hn32 : len body < 2 ^ 32).
  { unfold MAX_ARRAY in Hmax. assert (2 ^ 26 < 2 ^ 32) by (apply N.pow_lt_mono_r; lia). lia. }
  rewrite (u32_complete be (set_off (cursor bs) 12) (len body) Hn32); [|reflexivity|exact A12]. cbn [bind fst snd].
  unfold check_array_len. destruct (N.ltb_spec MAX_ARRAY (len body)) as [|_]; [lia|]. cbn [bind].
  unfold remainder_len. cbn [set_off cursor ubuf uoff]. change (12 + 4) with 16.
  pose proof (has_at_bound _ _ _ A16) as Hb16.
  destruct (N.ltb_spec (len bs - 16) (len body)) as [|_]; [lia|].
  rewrite (slice_has_at _ _ _ A16).
  (* the loop runs on the region, whose offset 0 is message offset 16 *)
  assert (Hloop : fields_loop (unmarshal_header_field be) (S (N.to_nat (len body))) (cursor body) = Ok (known_list fs)).
  { assert (Eb0 : spec_enc_list be 0 (map field_val fs) = body).
    { subst body. symmetry. change 16 with (16 + 0) at 1. apply spec_enc_list_shift16. }
    apply (loop_complete be body fs 0); rewrite ?Eb0.
    - pose proof (has_at_intro [] body []) as Hi. cbn [app] in Hi. rewrite app_nil_r in Hi. exact Hi.
    - lia.
    - exact Hwf.
    - rewrite <- encodable_list_shift16. exact Hel.
    - exact Hok.
    - lia. }
  rewrite Hloop. cbn [bind].
  rewrite (validate_header_fields_complete (h_typ h) fs Hok Ht Hnd Hreq). cbn [bind fst snd uoff].
  cbn [uoff set_off]. f_equal. f_equal; [|lia].
  symmetry. apply (decoded_unique h _ fs Hdec (collect_decoded _ fs Hok Hnd));
    destruct (collect_fixed (known_list fs) (hdr_of {| hd_be := be; hd_typ := h_typ h; hd_flags := h_flags h; hd_body_len := h_body_len h; hd_serial := h_serial h |}))
      as (E1 & E2 & E3 & E4 & E5); cbn [hdr_of h_be h_typ h_flags h_body_len h_serial] in *; symmetry; assumption.
Qed.
