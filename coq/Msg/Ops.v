(** Entry points for the extracted driver (ocaml/c05): the models and the specification side by
    side on one input.  Nothing is proved about these wrappers; they only bundle calls. *)
From RB Require Import Base.Prelude Sig.Types Sig.Parser Sig.Validator Wire.Bytes Wire.Align Wire.Text
  Wire.Value Wire.SpecEnc Wire.Decode Names.Str Names.Model Msg.Flags Msg.Utf8 Msg.Header Msg.HeaderSpec Msg.MsgSpec Msg.HeaderDecode Msg.StdMsgs.

(* model result and the specification's header for a message *)
Definition op_marshal (m : msg) (serial : N) : outcome (list N) * list N :=
  (marshal_msg m serial, spec_header m serial).

(* the decoders on raw bytes *)
Definition op_decode (bs : list N) (nfds : N) : outcome (hdr * N) * outcome dmsg :=
  (decode_header bs, decode_message bs nfds).

Definition op_needed (bs : list N) : outcome N := bytes_needed bs.

(* the specification on an explicitly given header: its bytes, and the decidable parts of ValidHeader
   (names are checked with the validators C08 proves equal to the specification's languages) *)
Definition ok_b (o : outcome unit) : bool := match o with Ok _ => true | _ => false end.
Definition field_ok_b (f : hfield) : bool :=
  let c := hf_code f in
  match hf_ty f, hf_val f with
  | TBase BObjectPath, VText BObjectPath _ => (c =? 1) || negb (known c || (c =? 0))
  | TBase BString, VText BString s =>
      if c =? 2 then ok_b (validate_interface s)
      else if c =? 3 then ok_b (validate_membername s)
      else if c =? 4 then ok_b (validate_errorname s)
      else if (c =? 6) || (c =? 7) then ok_b (validate_busname s)
      else negb (known c || (c =? 0))
  | TBase BUint32, VBase BUint32 n => if c =? 5 then negb (n =? 0) else (c =? 9) || negb (known c || (c =? 0))
  | TBase BSignature, VText BSignature _ => (c =? 8) || negb (known c || (c =? 0))
  | _, _ => negb (known c || (c =? 0))
  end.
Fixpoint nodup_b (l : list N) : bool :=
  match l with [] => true | x :: r => negb (existsb (N.eqb x) r) && nodup_b r end.
Definition required_b (typ : N) (fs : list hfield) : bool :=
  let have c := existsb (N.eqb c) (codes fs) in
  if typ =? 1 then have 1 && have 3
  else if typ =? 2 then have 5
  else if typ =? 3 then have 4 && have 5
  else if typ =? 4 then have 1 && have 2 && have 3
  else false.
Definition op_spec_header (be : bool) (typ flags blen serial : N) (fs : list hfield) : list N * bool :=
  (fixed_part be typ flags blen serial ++ spec_enc be 12 (fields_val fs),
   (1 <=? typ) && (typ <=? 4) && (flags <? 256) && (blen <? 2 ^ 32) && (0 <? serial) && (serial <? 2 ^ 32)
   && wt (fields_val fs) T_FIELDS && encodable be 12 0 (fields_val fs)
   && forallb field_ok_b fs && nodup_b (filter known (codes fs)) && required_b typ fs).

(* HeaderFlags: (is_set, set, unset, toggle) *)
Definition op_flags (f : hflag) (x : N) : bool * N * N * N := (is_set f x, set f x, unset f x, toggle f x).

(* the message the harness builds for an `m` line (harness/src/bin/c05.rs build_msg): through the builders of
   message_builder.rs in mode b where they apply, else field by field; then the parts no builder sets *)
Definition op_build (mode_b : bool) (be : bool) (typ : mtype) (flags : N) (rs : option N)
           (iface dest sender member path err : option (list N)) (body sg : list N) (nfds live : N) : msg :=
  let direct := {| m_typ := typ; m_flags := 0; m_be := be; m_reply_serial := None; m_interface := iface;
                   m_destination := dest; m_sender := None; m_member := member; m_object := path; m_error_name := None;
                   m_body := []; m_sig := []; m_nfds := 0; m_live := 0 |} in
  let base :=
    if mode_b then
      match typ, member with
      | MCall, Some mem => build_call be mem path iface dest
      | MSignal, Some mem =>
          match iface, path with
          | Some i, Some p => build_signal be i mem p dest
          | _, _ => direct
          end
      | _, _ => direct
      end
    else direct in
  {| m_typ := m_typ base; m_flags := flags; m_be := m_be base; m_reply_serial := rs; m_interface := m_interface base;
     m_destination := m_destination base; m_sender := sender; m_member := m_member base; m_object := m_object base;
     m_error_name := err; m_body := body; m_sig := sg; m_nfds := nfds; m_live := live |}.
