(** Strings in header fields. A Rust [String]/[&str] is modelled by its UTF-8 bytes (as everywhere in
    Wire/), the name validators of Names/Model.v work on the Unicode scalar values [str::chars()]
    yields. [utf8_chars] is that decoding (Unicode table 3-6, for well-formed input). The lemmas
    say that for the purpose of name validation bytes and scalar values coincide: a name a
    validator accepts is ASCII, and an ASCII string is its own list of scalar values. *)
From RB Require Import Base.Prelude Wire.Text Names.Str Names.Spec Names.StrProofs Names.Model Names.Proofs.

(* str::chars() on the bytes of a well-formed UTF-8 string *)
Fixpoint utf8_chars (l : list N) : list N :=
  match l with
  | [] => []
  | b0 :: r =>
      if b0 <? 128 then b0 :: utf8_chars r
      else if b0 <? 224 then
        match r with
        | b1 :: r1 => ((b0 - 192) * 64 + (b1 - 128)) :: utf8_chars r1
        | _ => []
        end
      else if b0 <? 240 then
        match r with
        | b1 :: b2 :: r2 => ((b0 - 224) * 4096 + (b1 - 128) * 64 + (b2 - 128)) :: utf8_chars r2
        | _ => []
        end
      else
        match r with
        | b1 :: b2 :: b3 :: r3 =>
            ((b0 - 240) * 262144 + (b1 - 128) * 4096 + (b2 - 128) * 64 + (b3 - 128)) :: utf8_chars r3
        | _ => []
        end
  end.

(* `params::validate_x(s)?` on a string given by its bytes: the validator sees the &str *)
Definition check_name (v : list N -> outcome unit) (s : list N) : outcome unit := v (utf8_chars s).

Definition ascii (s : list N) : Prop := Forall (fun c => c < 128) s.

Lemma utf8_chars_ascii s : ascii s -> utf8_chars s = s.
Proof.
  induction 1 as [|c r Hc Hr IH]; [reflexivity|]. cbn [utf8_chars].
  destruct (N.ltb_spec c 128); [|lia]. now rewrite IH.
Qed.

Lemma ascii_utf8_valid s : ascii s -> utf8_valid s = true.
Proof.
  induction 1 as [|c r Hc Hr IH]; [reflexivity|]. cbn [utf8_valid].
  destruct (N.ltb_spec c 128); [exact IH|lia].
Qed.

Ltac boolarith :=
  repeat match goal with
         | H : _ && _ = true |- _ => apply andb_prop in H; destruct H
         | H : Wire.Text.in_range _ _ _ = true |- _ => unfold Wire.Text.in_range in H
         | H : cont _ = true |- _ => unfold cont in H
         | H : (_ <=? _) = true |- _ => apply N.leb_le in H
         | H : (_ <? _) = true |- _ => apply N.ltb_lt in H
         | H : (_ =? _) = true |- _ => apply N.eqb_eq in H
         end.

(* a well-formed string all of whose scalar values are ASCII consists of ASCII bytes *)
Lemma utf8_chars_ascii_inv s : utf8_valid s = true -> ascii (utf8_chars s) -> ascii s.
Proof.
  remember (length s) as n eqn:Hn. revert s Hn.
  induction n as [n IH] using lt_wf_ind. intros s Hn Hv Ha.
  destruct s as [|b0 r]; [constructor|].
  cbn [utf8_valid utf8_chars] in Hv, Ha.
  destruct (N.ltb_spec b0 128) as [H0|H0].
  - inversion Ha as [|? ? Hc Hr]. constructor; [exact Hc|].
    apply (IH (length r)); [cbn [length] in Hn; lia|reflexivity|exact Hv|exact Hr].
  - exfalso.
    destruct (Wire.Text.in_range 194 223 b0) eqn:R1.
    { destruct r as [|b1 r1]; [discriminate|]. boolarith.
      destruct (N.ltb_spec b0 224); [|lia]. inversion Ha as [|? ? Hc _]. lia. }
    destruct (N.eqb_spec b0 224) as [E|E].
    { subst b0. destruct r as [|b1 [|b2 r2]]; try discriminate. boolarith.
      cbn in Ha. inversion Ha as [|? ? Hc _]. lia. }
    destruct (Wire.Text.in_range 225 236 b0 || Wire.Text.in_range 238 239 b0) eqn:R2.
    { destruct r as [|b1 [|b2 r2]]; try discriminate. boolarith.
      apply orb_prop in R2.
      assert (Hb : 225 <= b0 <= 239) by (destruct R2 as [R2|R2]; boolarith; lia).
      destruct (N.ltb_spec b0 224); [lia|]. destruct (N.ltb_spec b0 240); [|lia].
      inversion Ha as [|? ? Hc _]. lia. }
    destruct (N.eqb_spec b0 237) as [E2|E2].
    { subst b0. destruct r as [|b1 [|b2 r2]]; try discriminate. boolarith.
      cbn in Ha. inversion Ha as [|? ? Hc _]. lia. }
    destruct (N.eqb_spec b0 240) as [E3|E3].
    { subst b0. destruct r as [|b1 [|b2 [|b3 r3]]]; try discriminate. boolarith.
      cbn in Ha. inversion Ha as [|? ? Hc _]. lia. }
    destruct (Wire.Text.in_range 241 243 b0) eqn:R3.
    { destruct r as [|b1 [|b2 [|b3 r3]]]; try discriminate. boolarith.
      destruct (N.ltb_spec b0 224); [lia|]. destruct (N.ltb_spec b0 240); [lia|].
      inversion Ha as [|? ? Hc _]. lia. }
    destruct (N.eqb_spec b0 244) as [E4|E4]; [|discriminate].
    subst b0. destruct r as [|b1 [|b2 [|b3 r3]]]; try discriminate. boolarith.
    cbn in Ha. inversion Ha as [|? ? Hc _]. lia.
Qed.

Lemma ascii_nonnul_ascii s : ascii_nonnul s -> ascii s.
Proof. intros H. eapply Forall_impl; [|exact H]. cbn. intros c Hc. lia. Qed.

(** the bridge: on the bytes of a Rust string a validator (run on the chars) accepts iff the byte
    string, read as a list of code points, is in the specification's language *)
Section Bridge.
  Variable validate : list N -> outcome unit.
  Variable Valid : list N -> Prop.
  Hypothesis spec : forall s, validate s = Ok tt <-> Valid s.
  Hypothesis valid_ascii : forall s, Valid s -> ascii_nonnul s.

  Lemma bridge s : utf8_valid s = true -> (validate (utf8_chars s) = Ok tt <-> Valid s).
  Proof.
    intros Hv. split.
    - intros H. apply spec in H. pose proof (ascii_nonnul_ascii _ (valid_ascii _ H)) as Ha.
      apply (utf8_chars_ascii_inv s Hv) in Ha. rewrite (utf8_chars_ascii s Ha) in H. exact H.
    - intros H. pose proof (ascii_nonnul_ascii _ (valid_ascii _ H)) as Ha.
      rewrite (utf8_chars_ascii s Ha). now apply spec.
  Qed.
End Bridge.

Lemma interface_bytes s : utf8_valid s = true -> (validate_interface (utf8_chars s) = Ok tt <-> ValidInterface s).
Proof. apply bridge; [apply validate_interface_spec|apply valid_interface_ascii]. Qed.
Lemma errorname_bytes s : utf8_valid s = true -> (validate_errorname (utf8_chars s) = Ok tt <-> ValidErrorName s).
Proof. apply bridge; [apply validate_errorname_spec|apply valid_interface_ascii]. Qed.
Lemma busname_bytes s : utf8_valid s = true -> (validate_busname (utf8_chars s) = Ok tt <-> ValidBusName s).
Proof. apply bridge; [apply validate_busname_spec|apply valid_busname_ascii]. Qed.
Lemma member_bytes s : utf8_valid s = true -> (validate_membername (utf8_chars s) = Ok tt <-> ValidMember s).
Proof. apply bridge; [apply validate_membername_spec|apply valid_member_ascii]. Qed.
Lemma path_bytes s : utf8_valid s = true -> (validate_object_path (utf8_chars s) = Ok tt <-> ValidPath s).
Proof. apply bridge; [apply validate_object_path_spec|apply valid_path_ascii]. Qed.

(** a valid name is ASCII without NUL: as bytes it is well-formed UTF-8 and contains no NUL *)
Lemma ascii_nonnul_no_nul s : ascii_nonnul s -> has_nul s = false.
Proof.
  induction 1 as [|c r Hc Hr IH]; [reflexivity|]. cbn [has_nul existsb]. fold (has_nul r). rewrite IH.
  destruct (N.eqb_spec 0 c); [lia|reflexivity].
Qed.

(** the byte-level path validator of Wire/Text.v (used by the value decoders) and the validator of
    Names/Model.v are the same function of the list *)
Lemma path_char_alnum_us c : path_char c = alnum_us c.
Proof. reflexivity. Qed.

Lemma path_elems_split cur l :
  path_elems cur l = match split 47 l with h :: t => (rev cur ++ h) :: t | [] => [] end.
Proof.
  revert cur. induction l as [|c r IH]; intros cur; cbn [path_elems split].
  - now rewrite app_nil_r.
  - destruct (N.eqb_spec c 47) as [E|E].
    + rewrite IH. cbn [rev app]. rewrite app_nil_r.
      pose proof (split_nonempty 47 r) as Hs. destruct (split 47 r) as [|h t]; [contradiction|]. reflexivity.
    + rewrite IH. pose proof (split_nonempty 47 r) as Hs. destruct (split 47 r) as [|h t]; [contradiction|].
      cbn [rev]. rewrite <- app_assoc. reflexivity.
Qed.

Lemma valid_path_model s : valid_path s = true <-> validate_object_path s = Ok tt.
Proof.
  unfold valid_path, validate_object_path. destruct s as [|c op]; [cbn; split; discriminate|].
  cbn [split_once]. destruct (N.eqb_spec c 47) as [E|E].
  - cbn [is_empty]. destruct op as [|c1 r1]; [split; reflexivity|]. cbn [is_empty].
    rewrite path_elems_split. cbn [rev app].
    pose proof (split_nonempty 47 (c1 :: r1)) as Hs.
    destruct (split 47 (c1 :: r1)) as [|h t] eqn:Es; [contradiction|].
    assert (G : forall l, forallb (fun e => negb (match e with [] => true | _ => false end) && forallb path_char e) l = true
                     <-> find_map (fun elem => if is_empty elem || negb (chars_all alnum_us elem) then Some tt else None) l = None).
    { induction l as [|e l IHl]; [cbn; tauto|]. cbn [forallb find_map]. unfold chars_all.
      replace (forallb alnum_us e) with (forallb path_char e) by reflexivity.
      destruct e as [|x e']; cbn [is_empty negb andb orb]; [split; discriminate|].
      destruct (forallb path_char (x :: e')); cbn [negb andb]; [exact IHl|split; discriminate]. }
    specialize (G (h :: t)). destruct (find_map _ (h :: t)) as [[]|].
    + split; [intros H; apply G in H; discriminate|discriminate].
    + split; [reflexivity|intros _; now apply G].
  - destruct (split_once 47 op) as [[a b]|]; cbn [is_empty]; split; discriminate.
Qed.

Lemma valid_path_spec s : valid_path s = true <-> ValidPath s.
Proof. rewrite valid_path_model. apply validate_object_path_spec. Qed.
