(** C05, acceptance: the converse of Msg/HeaderProofs.v - a message of a valid type whose names
    (and body signature) are valid and whose header fits the protocol's size limits IS marshalled,
    to the specification's header.  Together with refusal and totality this characterises the
    result of the marshaller exactly; it also shows that the standard messages can only be refused
    because of the parts the caller supplies. *)
From RB Require Import Base.Prelude Sig.Types Sig.Parser Sig.Validator Sig.ParserProofs Sig.ValidatorProofs
  Wire.Bytes Wire.Align Wire.Text Wire.Value Wire.SpecEnc Wire.Marshal Wire.MarshalProofs
  Names.Str Names.Spec Names.StrProofs Names.Model Names.Proofs Msg.Utf8 Msg.Header Msg.HeaderSpec Msg.MsgSpec Msg.HeaderProofs.

Lemma name_writer_fwd be code v (V : list N -> Prop) s b :
  code < 256 -> (utf8_valid s = true -> (v (utf8_chars s) = Ok tt <-> V s)) -> is_string s -> V s -> len s < 2 ^ 32 ->
  (do _ <- check_name v s; Ok (write_string be s (marshal_header_field code [115] b)))
  = Ok (b ++ spec_enc be (len b) (field_val (str_field code s))).
Proof.
  intros Hc Hv Hs HV Hl. unfold check_name. apply (Hv Hs) in HV. rewrite HV. cbn [bind].
  rewrite write_string_field by exact Hl. rewrite str_field_enc by exact Hc. reflexivity.
Qed.

Lemma path_writer_fwd be s b : is_string s -> ValidPath s -> len s < 2 ^ 32 ->
  marshal_header_path be s b = Ok (b ++ spec_enc be (len b) (field_val (path_field s))).
Proof.
  intros Hs HV Hl. unfold marshal_header_path, check_name. apply (path_bytes s Hs) in HV. rewrite HV. cbn [bind].
  rewrite write_string_field by exact Hl. rewrite path_field_enc. reflexivity.
Qed.

Lemma u32_writer_fwd be code n b : code < 256 ->
  write_u32 be n (marshal_header_field code [117] b) = b ++ spec_enc be (len b) (field_val (u32_field code n)).
Proof. intros Hc. unfold write_u32. rewrite mhf_spec, u32_field_enc by exact Hc. rewrite <- !app_assoc. reflexivity. Qed.

Lemma signature_writer_fwd be s b : validate_signature s = Ok tt ->
  marshal_header_signature s b = Ok (b ++ spec_enc be (len b) (field_val (sig_field s))).
Proof.
  intros Hv. unfold marshal_header_signature. rewrite Hv. cbn [bind].
  assert (Hl : len s <= 255) by (apply validate_signature_len; now rewrite Hv).
  unfold write_signature. rewrite mhf_spec, sig_field_enc, padlen4_after8. change (zeros 0) with (@nil N).
  rewrite N.mod_small by lia. unfold sig_bytes. rewrite <- !app_assoc. reflexivity.
Qed.

(* one optional step, forwards *)
Lemma if_some_fwd {A} be (o : option A) (w : A -> list N -> outcome (list N)) (V : A -> Prop) (mk : A -> hfield) b :
  (forall x b, V x -> w x b = Ok (b ++ spec_enc be (len b) (field_val (mk x)))) -> opt_all V o ->
  exists b', if_some o w b = Ok b' /\ emits be b b' (opt_field o mk).
Proof.
  intros Hw HV. destruct o as [x|]; cbn [if_some opt_all opt_field] in *.
  - eexists. split; [apply Hw, HV|]. now apply emits_one.
  - exists b. split; [reflexivity|apply emits_nil].
Qed.

Lemma valid_len (V : list N -> Prop) s : (V s -> ascii_nonnul s) -> (V s -> byte_length s <= MAX_NAME) -> V s -> len s < 2 ^ 32.
Proof. apply valid_name_len. Qed.

Theorem marshal_fields_fwd m b : rust_typed m -> fields_valid m -> opt_all (fun s => len s < 2 ^ 32) (m_object m) ->
  exists b', marshal_fields m b = Ok b' /\ emits (m_be m) b b' (fields_of_msg m).
Proof.
  intros T [(Vi & Vd & Vs & Vm & Vp & Ve) [Vsig Vlive]] Hpl. unfold marshal_fields. set (be := m_be m).
  (* 1 reply serial *)
  destruct (if_some_fwd be (m_reply_serial m) (marshal_header_reply_serial be) (fun _ => True) (u32_field REPLY_SERIAL) b) as (b1 & E1 & M1).
  { intros x b0 _. unfold marshal_header_reply_serial. f_equal. apply u32_writer_fwd. unfold REPLY_SERIAL. lia. }
  { destruct (m_reply_serial m); exact I. }
  rewrite E1. cbn [bind].
  (* 2 interface *)
  destruct (if_some_fwd be (m_interface m) (marshal_header_interface be) (fun s => is_string s /\ ValidInterface s) (str_field INTERFACE) b1) as (b2 & E2 & M2).
  { intros x b0 [Hs HV]. apply (name_writer_fwd be 2 validate_interface ValidInterface); auto; [lia|apply interface_bytes|].
    apply (valid_name_len ValidInterface); auto using valid_interface_ascii, interface_len. }
  { pose proof (rt_interface m T). destruct (m_interface m); cbn in *; auto. }
  rewrite E2. cbn [bind].
  (* 3 destination *)
  destruct (if_some_fwd be (m_destination m) (marshal_header_destination be) (fun s => is_string s /\ ValidBusName s) (str_field DESTINATION) b2) as (b3 & E3 & M3).
  { intros x b0 [Hs HV]. apply (name_writer_fwd be 6 validate_busname ValidBusName); auto; [lia|apply busname_bytes|].
    apply (valid_name_len ValidBusName); auto using valid_busname_ascii, busname_len. }
  { pose proof (rt_destination m T). destruct (m_destination m); cbn in *; auto. }
  rewrite E3. cbn [bind].
  (* 4 sender *)
  destruct (if_some_fwd be (m_sender m) (marshal_header_sender be) (fun s => is_string s /\ ValidBusName s) (str_field SENDER) b3) as (b4 & E4 & M4).
  { intros x b0 [Hs HV]. apply (name_writer_fwd be 7 validate_busname ValidBusName); auto; [lia|apply busname_bytes|].
    apply (valid_name_len ValidBusName); auto using valid_busname_ascii, busname_len. }
  { pose proof (rt_sender m T). destruct (m_sender m); cbn in *; auto. }
  rewrite E4. cbn [bind].
  (* 5 member *)
  destruct (if_some_fwd be (m_member m) (marshal_header_member be) (fun s => is_string s /\ ValidMember s) (str_field MEMBER) b4) as (b5 & E5 & M5).
  { intros x b0 [Hs HV]. apply (name_writer_fwd be 3 validate_membername ValidMember); auto; [lia|apply member_bytes|].
    apply (valid_name_len ValidMember); auto using valid_member_ascii, member_len. }
  { pose proof (rt_member m T). destruct (m_member m); cbn in *; auto. }
  rewrite E5. cbn [bind].
  (* 6 path *)
  destruct (if_some_fwd be (m_object m) (marshal_header_path be) (fun s => is_string s /\ ValidPath s /\ len s < 2 ^ 32) path_field b5) as (b6 & E6 & M6).
  { intros x b0 (Hs & HV & Hl). now apply path_writer_fwd. }
  { pose proof (rt_object m T). destruct (m_object m); cbn in *; auto. }
  rewrite E6. cbn [bind].
  (* 7 error name *)
  destruct (if_some_fwd be (m_error_name m) (marshal_header_errorname be) (fun s => is_string s /\ ValidErrorName s) (str_field ERROR_NAME) b6) as (b7 & E7 & M7).
  { intros x b0 [Hs HV]. apply (name_writer_fwd be 4 validate_errorname ValidErrorName); auto; [lia|apply errorname_bytes|].
    apply (valid_name_len ValidInterface); auto using valid_interface_ascii, interface_len. }
  { pose proof (rt_error_name m T). destruct (m_error_name m); cbn in *; auto. }
  rewrite E7. cbn [bind].
  (* 8 signature *)
  assert (S8 : exists b8, if_true (negb (is_nil (m_body m))) (marshal_header_signature (m_sig m)) b7 = Ok b8
                          /\ emits be b7 b8 (if is_nil (m_body m) then [] else [sig_field (m_sig m)])).
  { unfold if_true. destruct (m_body m) as [|x r] eqn:Eb; cbn [is_nil negb].
    - exists b7. split; [reflexivity|apply emits_nil].
    - eexists. split; [apply (signature_writer_fwd be); apply Vsig; discriminate|]. now apply emits_one. }
  destruct S8 as (b8 & E8 & M8). rewrite E8. cbn [bind].
  (* 9 unix fds *)
  assert (S9 : exists b9, if_true (negb (m_nfds m =? 0))
                            (fun buf => if negb (m_live m =? m_nfds m) then Err else marshal_header_unix_fds be (m_nfds m mod 2 ^ 32) buf) b8 = Ok b9
                          /\ emits be b8 b9 (if m_nfds m =? 0 then [] else [u32_field UNIX_FDS (m_nfds m)])).
  { unfold if_true. destruct (N.eqb_spec (m_nfds m) 0); cbn [negb].
    - exists b8. split; [reflexivity|apply emits_nil].
    - exists (b8 ++ spec_enc be (len b8) (field_val (u32_field UNIX_FDS (m_nfds m)))). split; [|now apply emits_one].
      rewrite (Vlive n), N.eqb_refl. cbn [negb].
      unfold marshal_header_unix_fds. rewrite N.mod_small by apply (rt_nfds m T). f_equal. apply (u32_writer_fwd be 9). lia. }
  destruct S9 as (b9 & E9 & M9). rewrite E9. cbn [bind].
  exists b9. split; [reflexivity|]. unfold fields_of_msg.
  repeat (eapply emits_app; [eassumption|]). exact M9.
Qed.

Lemma len_insert4 be n p buf : p + 4 <= len buf -> len (insert4 be n p buf) = len buf.
Proof.
  intros H. unfold insert4. rewrite !len_app, len_firstnN, len_enc, len_skipnN. change (N.of_nat 4) with 4.
  rewrite N.min_l by lia. lia.
Qed.

Lemma len_spec_header m serial :
  len (spec_header m serial) =
  16 + len (spec_enc_list (m_be m) 16 (map field_val (fields_of_msg m)))
  + padlen 8 (16 + len (spec_enc_list (m_be m) 16 (map field_val (fields_of_msg m)))).
Proof.
  unfold spec_header, spec_header_unpadded, header_value. cbv zeta. rewrite spec_enc_fields_val.
  unfold fixed_part. rewrite !len_app, len_zeros, !len_enc. change (len [endian_flag (m_be m); type_no (m_typ m); m_flags m; 1]) with 4.
  change (N.of_nat 4) with 4.
  set (L := len (spec_enc_list (m_be m) 16 (map field_val (fields_of_msg m)))).
  replace (4 + (4 + 4) + (4 + L)) with (16 + L) by lia. reflexivity.
Qed.

Lemma marshal_header_fwd m serial : rust_typed m -> fields_valid m -> m_typ m <> MInvalid -> required_present m ->
  opt_all (fun s => len s < 2 ^ 32) (m_object m) ->
  len (spec_enc_list (m_be m) 16 (map field_val (fields_of_msg m))) <= MAX_ARRAY ->
  exists hbuf, marshal_header m serial = Ok hbuf
               /\ len hbuf = 16 + len (spec_enc_list (m_be m) 16 (map field_val (fields_of_msg m))).
Proof.
  intros T Hv Hni Hreq Hpl Harr. unfold marshal_header.
  destruct (type_code (m_typ m)) as [c|] eqn:Ec; [|destruct (m_typ m); try discriminate Ec; now elim Hni].
  apply has_required_fields_iff in Hreq. rewrite Hreq. cbn [negb].
  set (w := write_u32 (m_be m) serial _).
  assert (Lw : len w = 12) by (subst w; unfold write_u32; rewrite !len_app, len_enc; reflexivity).
  destruct (marshal_fields_fwd m (w ++ [0; 0; 0; 0]) T Hv Hpl) as (bf & Ef & Mf). rewrite Ef. cbn [bind].
  assert (L0 : len (w ++ [0; 0; 0; 0]) = 16) by (rewrite len_app, Lw; reflexivity).
  unfold emits in Mf. rewrite L0 in Mf.
  set (body := spec_enc_list (m_be m) 16 (map field_val (fields_of_msg m))) in *.
  assert (Lbf : len bf = 16 + len body) by (rewrite Mf, len_app, L0; reflexivity).
  rewrite Lw, Lbf. replace (16 + len body - 12 - 4) with (len body) by lia.
  unfold check_marshalled_array_len. destruct (N.ltb_spec MAX_ARRAY (len body)) as [|_]; [lia|]. cbn [bind].
  eexists. split. reflexivity. rewrite len_insert4 by lia. exact Lbf.
Qed.

Theorem marshal_accept m serial : rust_typed m -> fields_valid m -> m_typ m <> MInvalid -> required_present m ->
  len (spec_enc_list (m_be m) 16 (map field_val (fields_of_msg m))) <= MAX_ARRAY ->
  len (spec_header m serial) + len (m_body m) <= 2 ^ 27 ->
  opt_all (fun s => len s < 2 ^ 32) (m_object m) ->      (* implied by the size limit; kept explicit *)
  marshal_msg m serial = Ok (spec_header m serial).
Proof.
  intros T Hv Hni Hreq Harr Hmax Hpl.
  assert (Hmax' := Hmax). rewrite len_spec_header in Hmax'.
  set (body := spec_enc_list (m_be m) 16 (map field_val (fields_of_msg m))) in *.
  destruct (marshal_header_fwd m serial T Hv Hni Hreq Hpl Harr) as (hbuf & Eh & Lh). fold body in Lh.
  assert (R : exists hb, marshal_msg m serial = Ok hb).
  { unfold marshal_msg. rewrite Eh. cbn [bind]. rewrite pad_to_spec by lia. rewrite len_app, len_zeros, Lh.
    unfold Header.MAX_MESSAGE_LEN.
    destruct (N.ltb_spec (2 ^ 27) (16 + len body + padlen 8 (16 + len body) + len (m_body m))) as [|_]; [lia|]. eauto. }
  destruct R as (hb & Hhb). rewrite Hhb. f_equal. now destruct (marshal_msg_spec m serial hb T Hhb) as (-> & _).
Qed.

(** ** the standard messages: the names the library itself puts in are valid and the required fields are there *)
Lemma validated (v : list N -> outcome unit) (V : list N -> Prop) s : (forall s, v s = Ok tt <-> V s) -> v s = Ok tt -> V s.
Proof. intros H E. now apply H. Qed.

Lemma std_path_valid : ValidPath s_dbus_path.
Proof. apply (validated validate_object_path _ _ validate_object_path_spec). vm_compute. reflexivity. Qed.
Lemma std_dbus_iface_valid : ValidInterface s_dbus.
Proof. apply (validated validate_interface _ _ validate_interface_spec). vm_compute. reflexivity. Qed.
Lemma std_dbus_busname_valid : ValidBusName s_dbus.
Proof. apply (validated validate_busname _ _ validate_busname_spec). vm_compute. reflexivity. Qed.
Lemma std_peer_valid : ValidInterface s_peer.
Proof. apply (validated validate_interface _ _ validate_interface_spec). vm_compute. reflexivity. Qed.
Lemma std_unknown_method_valid : ValidErrorName s_unknown_method.
Proof. apply (validated validate_errorname _ _ validate_errorname_spec). vm_compute. reflexivity. Qed.
Lemma std_invalid_args_valid : ValidErrorName s_invalid_args.
Proof. apply (validated validate_errorname _ _ validate_errorname_spec). vm_compute. reflexivity. Qed.
Lemma std_members_valid : Forall ValidMember [s_Hello; s_Ping; s_ListNames; s_RequestName; s_ReleaseName; s_AddMatch; s_RemoveMatch].
Proof. repeat (apply Forall_cons; [apply (validated validate_membername _ _ validate_membername_spec); vm_compute; reflexivity|]). apply Forall_nil. Qed.

(* hello, list_names, request_name, release_name, add_match, remove_match with whatever body was pushed *)
Theorem std_call_valid member body sg nfds : ValidMember member ->
  let m := with_body (make_standard_msg member) body sg nfds in
  names_valid m /\ required_present m /\ m_typ m <> MInvalid.
Proof.
  intros Hm. cbv zeta. split; [|split].
  - unfold names_valid. cbn [with_body make_standard_msg build_call m_interface m_destination m_sender m_member m_object m_error_name opt_all].
    exact (conj std_dbus_iface_valid (conj std_dbus_busname_valid (conj I (conj Hm (conj std_path_valid I))))).
  - cbn. split; discriminate.
  - cbn. discriminate.
Qed.

(* ping / ping_bus *)
Theorem std_ping_valid dest : opt_all ValidBusName dest ->
  names_valid (std_ping dest) /\ required_present (std_ping dest) /\ m_typ (std_ping dest) <> MInvalid.
Proof.
  intros Hd. split; [|split].
  - unfold names_valid. cbn [std_ping build_call m_interface m_destination m_sender m_member m_object m_error_name opt_all].
    exact (conj std_peer_valid (conj Hd (conj I (conj (Forall_inv (Forall_inv_tail std_members_valid)) (conj std_path_valid I))))).
  - cbn. split; discriminate.
  - cbn. discriminate.
Qed.

(* unknown_method / invalid_args: error replies to a call whose sender (if any) is a valid bus name *)
Theorem std_error_valid call_sender call_serial body sg nfds : opt_all ValidBusName call_sender -> call_serial <> None ->
  let m1 := with_body (std_unknown_method call_sender call_serial) body sg nfds in
  let m2 := with_body (std_invalid_args call_sender call_serial) body sg nfds in
  names_valid m1 /\ required_present m1 /\ names_valid m2 /\ required_present m2.
Proof.
  intros Hs Hser. cbv zeta. unfold names_valid.
  cbn [with_body std_unknown_method std_invalid_args make_error_response m_interface m_destination m_sender m_member m_object
       m_error_name opt_all required_present m_typ m_reply_serial].
  split; [exact (conj I (conj Hs (conj I (conj I (conj I std_unknown_method_valid)))))|].
  split; [split; [discriminate|exact Hser]|].
  split; [exact (conj I (conj Hs (conj I (conj I (conj I std_invalid_args_valid)))))|].
  split; [discriminate|exact Hser].
Qed.
