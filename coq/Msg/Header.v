(** Model of the header marshaller, rustbus/src/wire/marshal.rs (as of the fix: commits, HEAD
    955c136): marshal, marshal_header, marshal_header_field and the nine field writers; the
    message as the marshaller sees it (message_builder.rs: MarshalledMessage, DynamicHeader,
    MessageType) and the builders of message_builder.rs / standard_messages.rs as functions that
    fill in that record.  Strings are their UTF-8 bytes; the name validators run on the chars. *)
From RB Require Import Base.Prelude Sig.Types Sig.Parser Sig.Validator Wire.Bytes Wire.Align Wire.Text
  Wire.Value Wire.SpecEnc Wire.Marshal Names.Str Names.Model Msg.Utf8.

(* message_builder.rs: pub enum MessageType *)
Inductive mtype := MSignal | MError | MCall | MReply | MInvalid.

(* message_builder.rs: MarshalledMessage { body: MarshalledMessageBody { buf[buf_offset..], raw_fds (only their
   number is used), sig, byteorder }, dynheader: DynamicHeader {..}, typ, flags }.
   dynheader.serial, dynheader.signature and dynheader.num_fds are not read by the marshaller. *)
Record msg := {
  m_typ : mtype;
  m_flags : N;                         (* u8 *)
  m_be : bool;                         (* body.byteorder() == BigEndian *)
  m_reply_serial : option N;           (* Option<NonZeroU32> *)
  m_interface : option (list N);
  m_destination : option (list N);
  m_sender : option (list N);
  m_member : option (list N);
  m_object : option (list N);
  m_error_name : option (list N);
  m_body : list N;                     (* get_buf() *)
  m_sig : list N;                      (* get_sig().as_bytes() *)
  m_nfds : N;                          (* body.get_fds().len(): the UnixFd handles of the body *)
  m_live : N                           (* body.get_raw_fds().len(): those handles whose descriptor has not been taken *)
}.

(* wire.rs *)
Definition MAX_MESSAGE_LEN : N := 2 ^ 27.

(* util::check_marshalled_array_len *)
Definition check_marshalled_array_len (n : N) : outcome N := if MAX_ARRAY <? n then Err else Ok (n mod 2 ^ 32).

(* util::write_u32 (val is a u32) *)
Definition write_u32 (be : bool) (n : N) (buf : list N) : list N := buf ++ enc be 4 n.

(* fn marshal_header_field(field_no: u8, sig: &str, buf): pad 8, code, sig.len() as u8, sig, 0, pad 4 *)
Definition marshal_header_field (code : N) (sg : list N) (buf : list N) : list N :=
  pad_to 4 (pad_to 8 buf ++ [code] ++ [len sg mod 256] ++ sg ++ [0]).

(* fn marshal_header_path *)
Definition marshal_header_path (be : bool) (s : list N) (buf : list N) : outcome (list N) :=
  do _ <- check_name validate_object_path s;
  Ok (write_string be s (marshal_header_field 1 [111] buf)).
(* fn marshal_header_interface *)
Definition marshal_header_interface (be : bool) (s : list N) (buf : list N) : outcome (list N) :=
  do _ <- check_name validate_interface s;
  Ok (write_string be s (marshal_header_field 2 [115] buf)).
(* fn marshal_header_member *)
Definition marshal_header_member (be : bool) (s : list N) (buf : list N) : outcome (list N) :=
  do _ <- check_name validate_membername s;
  Ok (write_string be s (marshal_header_field 3 [115] buf)).
(* fn marshal_header_errorname *)
Definition marshal_header_errorname (be : bool) (s : list N) (buf : list N) : outcome (list N) :=
  do _ <- check_name validate_errorname s;
  Ok (write_string be s (marshal_header_field 4 [115] buf)).
(* fn marshal_header_reply_serial *)
Definition marshal_header_reply_serial (be : bool) (n : N) (buf : list N) : outcome (list N) :=
  Ok (write_u32 be n (marshal_header_field 5 [117] buf)).
(* fn marshal_header_destination *)
Definition marshal_header_destination (be : bool) (s : list N) (buf : list N) : outcome (list N) :=
  do _ <- check_name validate_busname s;
  Ok (write_string be s (marshal_header_field 6 [115] buf)).
(* fn marshal_header_sender *)
Definition marshal_header_sender (be : bool) (s : list N) (buf : list N) : outcome (list N) :=
  do _ <- check_name validate_busname s;
  Ok (write_string be s (marshal_header_field 7 [115] buf)).
(* fn marshal_header_signature: params::validate_signature(signature)?; field 8 "g"; write_signature *)
Definition marshal_header_signature (s : list N) (buf : list N) : outcome (list N) :=
  do _ <- validate_signature s;
  Ok (write_signature s (marshal_header_field 8 [103] buf)).
(* fn marshal_header_unix_fds *)
Definition marshal_header_unix_fds (be : bool) (n : N) (buf : list N) : outcome (list N) :=
  Ok (write_u32 be n (marshal_header_field 9 [117] buf)).

(* `if let Some(x) = &msg.dynheader.f { writer(byteorder, x, buf)?; }` *)
Definition if_some {A} (o : option A) (f : A -> list N -> outcome (list N)) (buf : list N) : outcome (list N) :=
  match o with Some x => f x buf | None => Ok buf end.
Definition if_true (b : bool) (f : list N -> outcome (list N)) (buf : list N) : outcome (list N) :=
  if b then f buf else Ok buf.

Definition is_nil {A} (l : list A) : bool := match l with [] => true | _ => false end.

(* the `match msg.typ` of marshal_header *)
Definition type_code (t : mtype) : option N :=
  match t with MInvalid => None | MCall => Some 1 | MReply => Some 2 | MError => Some 3 | MSignal => Some 4 end.

(* the optional fields, in the order marshal_header writes them *)
Definition marshal_fields (m : msg) (buf : list N) : outcome (list N) :=
  let be := m_be m in
  do buf <- if_some (m_reply_serial m) (marshal_header_reply_serial be) buf;
  do buf <- if_some (m_interface m) (marshal_header_interface be) buf;
  do buf <- if_some (m_destination m) (marshal_header_destination be) buf;
  do buf <- if_some (m_sender m) (marshal_header_sender be) buf;
  do buf <- if_some (m_member m) (marshal_header_member be) buf;
  do buf <- if_some (m_object m) (marshal_header_path be) buf;
  do buf <- if_some (m_error_name m) (marshal_header_errorname be) buf;
  do buf <- if_true (negb (is_nil (m_body m))) (marshal_header_signature (m_sig m)) buf;
  do buf <- if_true (negb (m_nfds m =? 0))
              (fun buf => if negb (m_live m =? m_nfds m) then Err                (* EmptyUnixFd: a descriptor was taken (fix 955c136) *)
                          else marshal_header_unix_fds be (m_nfds m mod 2 ^ 32) buf) buf;
  Ok buf.

Definition is_some {A} (o : option A) : bool := match o with Some _ => true | None => false end.

(* the `let has_required_fields = match msg.typ {..}` of marshal_header (fix 7d0a594) *)
Definition has_required_fields (m : msg) : bool :=
  match m_typ m with
  | MCall => is_some (m_object m) && is_some (m_member m)
  | MSignal => is_some (m_object m) && is_some (m_interface m) && is_some (m_member m)
  | MError => is_some (m_error_name m) && is_some (m_reply_serial m)
  | MReply => is_some (m_reply_serial m)
  | MInvalid => false
  end.

(* fn marshal_header(msg, chosen_serial, buf), called with an empty buf (SendConn::send_message clears it) *)
Definition marshal_header (m : msg) (serial : N) : outcome (list N) :=
  let be := m_be m in
  let buf := [if be then 66 else 108] in                  (* b'B' / b'l' *)
  match type_code (m_typ m) with
  | None => Err                                            (* InvalidMessageType *)
  | Some c =>
      if negb (has_required_fields m) then Err else            (* Validation(InvalidHeaderFields) *)
      let buf := buf ++ [c] in
      let buf := buf ++ [m_flags m] in
      let buf := buf ++ [1] in                             (* version *)
      let buf := buf ++ [0; 0; 0; 0] in                    (* body length, patched by marshal *)
      let buf := write_u32 be serial buf in
      let pos := len buf in
      let buf := buf ++ [0; 0; 0; 0] in                    (* length of the header fields *)
      do buf <- marshal_fields m buf;
      let l := len buf - pos - 4 in
      do l <- check_marshalled_array_len l;
      Ok (insert4 be l pos buf)
  end.

(* pub fn marshal(msg, chosen_serial, buf) *)
Definition marshal_msg (m : msg) (serial : N) : outcome (list N) :=
  do buf <- marshal_header m serial;
  let buf := pad_to 8 buf in
  if MAX_MESSAGE_LEN <? len buf + len (m_body m) then Err     (* MessageTooLong *)
  else Ok (insert4 (m_be m) (len (m_body m)) 4 buf).

(** ** what Rust's types guarantee about a message and a serial (the theorems' standing hypothesis) *)
Definition opt_all {A} (P : A -> Prop) (o : option A) : Prop := match o with Some x => P x | None => True end.
Definition is_string (s : list N) : Prop := utf8_valid s = true.         (* String / &str *)
Definition nonzero_u32 (n : N) : Prop := 0 < n < 2 ^ 32.                 (* NonZeroU32 *)

Record rust_typed (m : msg) : Prop := {
  rt_flags : m_flags m < 256;
  rt_rs : opt_all nonzero_u32 (m_reply_serial m);
  rt_interface : opt_all is_string (m_interface m);
  rt_destination : opt_all is_string (m_destination m);
  rt_sender : opt_all is_string (m_sender m);
  rt_member : opt_all is_string (m_member m);
  rt_object : opt_all is_string (m_object m);
  rt_error_name : opt_all is_string (m_error_name m);
  rt_body : bytes_ok (m_body m);
  rt_sig : is_string (m_sig m);
  rt_nfds : m_nfds m < 2 ^ 32;         (* fewer than 2^32 descriptors are attached (`len() as u32`) *)
  rt_live : m_live m <= m_nfds m
}.

(** ** the builders (message_builder.rs) and the standard messages (standard_messages.rs) as
    functions filling in the record; the body (bytes, signature, descriptors) is whatever the
    caller pushed afterwards *)
(* MarshalledMessage::with_byteorder(b) *)
Definition new_msg (be : bool) : msg :=
  {| m_typ := MInvalid; m_flags := 0; m_be := be; m_reply_serial := None; m_interface := None;
     m_destination := None; m_sender := None; m_member := None; m_object := None; m_error_name := None;
     m_body := []; m_sig := []; m_nfds := 0; m_live := 0 |}.

Definition with_body (m : msg) (body sg : list N) (nfds : N) : msg :=
  {| m_typ := m_typ m; m_flags := m_flags m; m_be := m_be m; m_reply_serial := m_reply_serial m;
     m_interface := m_interface m; m_destination := m_destination m; m_sender := m_sender m;
     m_member := m_member m; m_object := m_object m; m_error_name := m_error_name m;
     m_body := body; m_sig := sg; m_nfds := nfds; m_live := m_live m + (nfds - m_nfds m) |}.     (* what is pushed brings live descriptors *)

(* MessageBuilder::with_byteorder(b).call(member) [.on(path)] [.with_interface(i)] [.at(dest)] .build() *)
Definition build_call (be : bool) (member : list N) (path iface dest : option (list N)) : msg :=
  {| m_typ := MCall; m_flags := 0; m_be := be; m_reply_serial := None; m_interface := iface;
     m_destination := dest; m_sender := None; m_member := Some member; m_object := path; m_error_name := None;
     m_body := []; m_sig := []; m_nfds := 0; m_live := 0 |}.

(* MessageBuilder::with_byteorder(b).signal(interface, member, object) [.to(dest)] .build() *)
Definition build_signal (be : bool) (iface member path : list N) (dest : option (list N)) : msg :=
  {| m_typ := MSignal; m_flags := 0; m_be := be; m_reply_serial := None; m_interface := Some iface;
     m_destination := dest; m_sender := None; m_member := Some member; m_object := Some path; m_error_name := None;
     m_body := []; m_sig := []; m_nfds := 0; m_live := 0 |}.

(* DynamicHeader::make_response: a Reply to `sender` with the call's serial *)
Definition make_response (be : bool) (call_sender : option (list N)) (call_serial : option N) : msg :=
  {| m_typ := MReply; m_flags := 0; m_be := be; m_reply_serial := call_serial; m_interface := None;
     m_destination := call_sender; m_sender := None; m_member := None; m_object := None; m_error_name := None;
     m_body := []; m_sig := []; m_nfds := 0; m_live := 0 |}.

(* DynamicHeader::make_error_response(error_name, _) *)
Definition make_error_response (be : bool) (call_sender : option (list N)) (call_serial : option N) (name : list N) : msg :=
  {| m_typ := MError; m_flags := 0; m_be := be; m_reply_serial := call_serial; m_interface := None;
     m_destination := call_sender; m_sender := None; m_member := None; m_object := None; m_error_name := Some name;
     m_body := []; m_sig := []; m_nfds := 0; m_live := 0 |}.

(* the strings of standard_messages.rs *)
Definition s_dbus_path : list N := [47;111;114;103;47;102;114;101;101;100;101;115;107;116;111;112;47;68;66;117;115].   (* /org/freedesktop/DBus *)
Definition s_dbus : list N := [111;114;103;46;102;114;101;101;100;101;115;107;116;111;112;46;68;66;117;115].            (* org.freedesktop.DBus *)
Definition s_peer : list N := s_dbus ++ [46;80;101;101;114].                                                            (* org.freedesktop.DBus.Peer *)
Definition s_unknown_method : list N :=
  s_dbus ++ [46;69;114;114;111;114;46;85;110;107;110;111;119;110;77;101;116;104;111;100].                               (* ...Error.UnknownMethod *)
Definition s_invalid_args : list N :=
  s_dbus ++ [46;69;114;114;111;114;46;73;110;118;97;108;105;100;65;114;103;115].                                        (* ...Error.InvalidArgs *)
Definition s_Hello : list N := [72;101;108;108;111].
Definition s_Ping : list N := [80;105;110;103].
Definition s_ListNames : list N := [76;105;115;116;78;97;109;101;115].
Definition s_RequestName : list N := [82;101;113;117;101;115;116;78;97;109;101].
Definition s_ReleaseName : list N := [82;101;108;101;97;115;101;78;97;109;101].
Definition s_AddMatch : list N := [65;100;100;77;97;116;99;104].
Definition s_RemoveMatch : list N := [82;101;109;111;118;101;77;97;116;99;104].

(* ByteOrder::NATIVE on the (little endian) targets this is run on *)
Definition native_be : bool := false.

(* fn make_standard_msg(name): hello, list_names, request_name, release_name, add_match, remove_match *)
Definition make_standard_msg (member : list N) : msg :=
  build_call native_be member (Some s_dbus_path) (Some s_dbus) (Some s_dbus).
(* fn ping(dest) / ping_bus() *)
Definition std_ping (dest : option (list N)) : msg :=
  build_call native_be s_Ping (Some s_dbus_path) (Some s_peer) dest.
(* fn unknown_method(call) / invalid_args(call, _) *)
Definition std_unknown_method (call_sender : option (list N)) (call_serial : option N) : msg :=
  make_error_response native_be call_sender call_serial s_unknown_method.
Definition std_invalid_args (call_sender : option (list N)) (call_serial : option N) : msg :=
  make_error_response native_be call_sender call_serial s_invalid_args.
