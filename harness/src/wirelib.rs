//! Shared machinery of the wire harness (bin `wire`): a token syntax for D-Bus values, wrapper
//! types that give every catalogue type (catalogue.rs) a Rust type, and the operations run on it.
//!
//! Value tokens (space separated):
//!   y|b|n|q|i|u|x|t|d <decimal raw bits>      fixed-width values (signed ones as unsigned bit pattern)
//!   h <0|1>                                    descriptor handle: 0 live, 1 taken
//!   s|o|g <hex of utf-8 bytes, - for empty>
//!   a <elem-sig> <n> v1..vn    r <n> v1..vn    e <key-sig-char> <val-sig> <n> k1 v1 .. kn vn    v <sig> value
use rustbus::message_builder::MarshalledMessageBody;
use rustbus::wire::errors::{MarshalError, UnmarshalError};
use rustbus::wire::marshal::traits::SignatureBuffer;
use rustbus::wire::marshal::MarshalContext;
use rustbus::wire::unmarshal_context::UnmarshalContext;
use rustbus::wire::{ObjectPath, SignatureWrapper, UnixFd};
use rustbus::{ByteOrder, Marshal, Signature, Unmarshal};
use std::collections::HashMap;

/// While a decode operation runs, the raw descriptors of the message's descriptor list: a decoded UnixFd is
/// printed as its index in this list (that is what the bytes say), otherwise as 0 (live) / 1 (taken).
/// With FD_DISTINCT (bin c15): as the tag of the file behind it (fd_ident).
pub static FD_TABLE: std::sync::Mutex<Vec<i32>> = std::sync::Mutex::new(Vec::new());
pub fn fd_token(fd: &UnixFd) -> String {
    if FD_DISTINCT.load(std::sync::atomic::Ordering::Relaxed) {
        return fd_ident(fd);
    }
    match fd.get_raw_fd() {
        Some(raw) => {
            let t = FD_TABLE.lock().unwrap();
            match t.iter().position(|x| *x == raw) {
                Some(i) => i.to_string(),
                None => "0".to_string(),
            }
        }
        None => "1".to_string(),
    }
}
pub fn set_fd_table(fds: &[UnixFd]) {
    *FD_TABLE.lock().unwrap() = fds.iter().filter_map(|f| f.get_raw_fd()).collect();
}

thread_local! {
    /// the message body the B* operations work on (C15)
    pub static BODY: std::cell::RefCell<rustbus::message_builder::MarshalledMessage> =
        std::cell::RefCell::new(rustbus::message_builder::MarshalledMessage::new());
    /// a parser over a leaked snapshot of BODY (P* operations)
    pub static PARSER: std::cell::RefCell<Option<rustbus::message_builder::MessageBodyParser<'static>>> =
        std::cell::RefCell::new(None);
}
pub fn body_state() -> String {
    BODY.with(|b| {
        let b = b.borrow();
        let ids: Vec<String> = b.body.get_fds().iter().map(fd_ident).collect();
        format!(
            "sig={} buf={} nfds={} fds={}",
            crate::hex(b.get_sig().as_bytes()),
            crate::hex(b.get_buf()),
            b.body.get_fds().len(),
            if ids.is_empty() { "-".to_string() } else { ids.join(",") }
        )
    })
}

// ---------------------------------------------------------------- descriptor identities (C15)
/// With FD_DISTINCT set (bin c15 sets it at start) every `h` leaf of a value gets a descriptor on a file of its OWN (a
/// memfd) instead of dup(2), and a tag: the number of `h` leaves made since the last reset_fd_tags() (live and taken ones
/// count alike, in the order the tokens are read).  The tag is kept under the file's (st_dev, st_ino), which dup() - the
/// crate dups on marshal - preserves: fd_ident tells WHICH value's file sits behind a descriptor of the body.
pub static FD_DISTINCT: std::sync::atomic::AtomicBool = std::sync::atomic::AtomicBool::new(false);
static FD_TAGS: std::sync::Mutex<Option<(u64, HashMap<(u64, u64), u64>)>> = std::sync::Mutex::new(None);
pub fn reset_fd_tags() {
    *FD_TAGS.lock().unwrap() = None;
}
/// a new raw descriptor for an `h` leaf
pub fn fresh_fd() -> i32 {
    use std::os::fd::IntoRawFd;
    if !FD_DISTINCT.load(std::sync::atomic::Ordering::Relaxed) {
        return nix::unistd::dup(2).unwrap();
    }
    let name = std::ffi::CString::new("c15").unwrap();
    let raw = nix::sys::memfd::memfd_create(&name, nix::sys::memfd::MemFdCreateFlag::MFD_CLOEXEC).unwrap().into_raw_fd();
    let st = nix::sys::stat::fstat(raw).unwrap();
    let mut g = FD_TAGS.lock().unwrap();
    let (next, map) = g.get_or_insert_with(|| (0, HashMap::new()));
    // a file that is gone may hand its inode number to a later one: the later tag replaces it
    map.insert((st.st_dev as u64, st.st_ino as u64), *next);
    *next += 1;
    raw
}
/// the tag of the file behind a descriptor: "t" taken, "?" a file no `h` leaf made (or FD_DISTINCT off)
pub fn fd_ident(fd: &UnixFd) -> String {
    let raw = match fd.get_raw_fd() {
        Some(r) => r,
        None => return "t".to_string(),
    };
    let st = match nix::sys::stat::fstat(raw) {
        Ok(st) => st,
        Err(_) => return "closed".to_string(),
    };
    let g = FD_TAGS.lock().unwrap();
    match g.as_ref().and_then(|(_, m)| m.get(&(st.st_dev as u64, st.st_ino as u64))) {
        Some(t) => t.to_string(),
        None => "?".to_string(),
    }
}
pub fn parser_state() -> String {
    PARSER.with(|p| {
        let p = p.borrow();
        match p.as_ref() {
            Some(p) => format!("next={} left={}", p.get_next_sig().map(|s| crate::hex(s.as_bytes())).unwrap_or("none".into()), p.sigs_left()),
            None => "noparser".to_string(),
        }
    })
}

pub struct Args<'a> {
    toks: Vec<&'a str>,
    pos: usize,
}
impl<'a> Args<'a> {
    pub fn new(line: &'a str) -> Self {
        Args {
            toks: line.split(' ').filter(|t| !t.is_empty()).collect(),
            pos: 0,
        }
    }
    pub fn next(&mut self) -> &'a str {
        let t = self.toks[self.pos];
        self.pos += 1;
        t
    }
    pub fn num(&mut self) -> u64 {
        self.next().parse().unwrap()
    }
    pub fn rest_len(&self) -> usize {
        self.toks.len() - self.pos
    }
}

pub fn sig_of<T: Signature>() -> String {
    let mut s = SignatureBuffer::new();
    T::sig_str(&mut s);
    s.as_str().to_owned()
}

/// Parsing a value of a Rust type from tokens / printing it back (canonical: maps sorted unless `ordered`)
pub trait Tok: Sized {
    fn from_tok(a: &mut Args) -> Self;
    fn to_tok(&self, out: &mut Vec<String>, sorted: bool);
    /// BPUSHVI: for the variant wrapper Var<T>, push_variant of the CONTENT (the Rust type T itself, whose signature may
    /// be one a variant must not carry: more than 255 characters, more than 32 nested arrays); None for every other type
    fn push_inner_variant(&self, _body: &mut MarshalledMessageBody) -> Option<Result<(), MarshalError>> {
        None
    }
}

macro_rules! num_tok {
    ($t:ty, $c:expr, $u:ty) => {
        impl Tok for $t {
            fn from_tok(a: &mut Args) -> Self {
                assert_eq!(a.next(), $c);
                a.num() as $u as $t
            }
            fn to_tok(&self, out: &mut Vec<String>, _s: bool) {
                out.push($c.to_string());
                out.push((*self as $u as u64).to_string());
            }
        }
    };
}
num_tok!(u8, "y", u8);
num_tok!(i16, "n", u16);
num_tok!(u16, "q", u16);
num_tok!(i32, "i", u32);
num_tok!(u32, "u", u32);
num_tok!(i64, "x", u64);
num_tok!(u64, "t", u64);

/// raw f64 (catalogue flavour D): compared and printed by bit pattern, never as a float
impl Tok for f64 {
    fn from_tok(a: &mut Args) -> Self {
        assert_eq!(a.next(), "d");
        f64::from_bits(a.num())
    }
    fn to_tok(&self, out: &mut Vec<String>, _s: bool) {
        out.push("d".into());
        out.push(self.to_bits().to_string());
    }
}
impl Tok for bool {
    fn from_tok(a: &mut Args) -> Self {
        assert_eq!(a.next(), "b");
        a.num() != 0
    }
    fn to_tok(&self, out: &mut Vec<String>, _s: bool) {
        out.push("b".into());
        out.push((*self as u64).to_string());
    }
}
impl Tok for String {
    fn from_tok(a: &mut Args) -> Self {
        assert_eq!(a.next(), "s");
        String::from_utf8(crate::unhex(a.next())).unwrap()
    }
    fn to_tok(&self, out: &mut Vec<String>, _s: bool) {
        out.push("s".into());
        out.push(crate::hex(self.as_bytes()));
    }
}

// ---------------------------------------------------------------- wrappers
#[derive(Debug, Clone, Copy)]
pub struct F64(pub f64);
impl Tok for F64 {
    fn from_tok(a: &mut Args) -> Self {
        assert_eq!(a.next(), "d");
        F64(f64::from_bits(a.num()))
    }
    fn to_tok(&self, out: &mut Vec<String>, _s: bool) {
        out.push("d".into());
        out.push(self.0.to_bits().to_string());
    }
}
impl Signature for F64 {
    fn signature() -> rustbus::signature::Type {
        f64::signature()
    }
    fn alignment() -> usize {
        f64::alignment()
    }
    fn sig_str(s: &mut SignatureBuffer) {
        f64::sig_str(s)
    }
    fn has_sig(s: &str) -> bool {
        f64::has_sig(s)
    }
    // no valid_slice override: a wrapper struct is not promised to have f64's layout, so arrays of F64 ("ad") take the
    // element-wise path; the raw f64 with its valid_slice is the catalogue flavour "D" ("aD" = Vec<f64>)
}
impl Marshal for F64 {
    fn marshal(&self, ctx: &mut MarshalContext) -> Result<(), MarshalError> {
        self.0.marshal(ctx)
    }
}
impl<'buf, 'fds> Unmarshal<'buf, 'fds> for F64 {
    fn unmarshal(ctx: &mut UnmarshalContext<'fds, 'buf>) -> Result<Self, UnmarshalError> {
        f64::unmarshal(ctx).map(F64)
    }
}

/// descriptor handle; `h 0` = live handle on a scratch file, `h 1` = handle whose fd was taken
#[derive(Debug)]
pub struct Fd(pub UnixFd);
impl Tok for Fd {
    fn from_tok(a: &mut Args) -> Self {
        assert_eq!(a.next(), "h");
        let taken = a.num() != 0;
        let raw = fresh_fd();
        let fd = UnixFd::new(raw);
        if taken {
            let r = fd.clone().take_raw_fd().unwrap();
            let _ = nix::unistd::close(r);
        }
        Fd(fd)
    }
    fn to_tok(&self, out: &mut Vec<String>, _s: bool) {
        out.push("h".into());
        out.push(fd_token(&self.0));
    }
}
impl Signature for Fd {
    fn signature() -> rustbus::signature::Type {
        UnixFd::signature()
    }
    fn alignment() -> usize {
        UnixFd::alignment()
    }
    fn sig_str(s: &mut SignatureBuffer) {
        UnixFd::sig_str(s)
    }
    fn has_sig(s: &str) -> bool {
        UnixFd::has_sig(s)
    }
}
impl Marshal for Fd {
    fn marshal(&self, ctx: &mut MarshalContext) -> Result<(), MarshalError> {
        self.0.marshal(ctx)
    }
}
impl<'buf, 'fds> Unmarshal<'buf, 'fds> for Fd {
    fn unmarshal(ctx: &mut UnmarshalContext<'fds, 'buf>) -> Result<Self, UnmarshalError> {
        UnixFd::unmarshal(ctx).map(Fd)
    }
}

/// descriptor handle written through `impl Marshal for &dyn AsRawFd` (catalogue flavour H; a taken handle has no raw
/// descriptor to offer and goes through UnixFd like `h`); read through UnixFd
#[derive(Debug)]
pub struct FdDyn(pub UnixFd);
impl Tok for FdDyn {
    fn from_tok(a: &mut Args) -> Self {
        FdDyn(Fd::from_tok(a).0)
    }
    fn to_tok(&self, out: &mut Vec<String>, _s: bool) {
        out.push("h".into());
        out.push(fd_token(&self.0));
    }
}
impl Signature for FdDyn {
    fn signature() -> rustbus::signature::Type {
        <&'static dyn std::os::unix::io::AsRawFd as Signature>::signature()
    }
    fn alignment() -> usize {
        <&'static dyn std::os::unix::io::AsRawFd as Signature>::alignment()
    }
    fn sig_str(s: &mut SignatureBuffer) {
        <&'static dyn std::os::unix::io::AsRawFd as Signature>::sig_str(s)
    }
    fn has_sig(s: &str) -> bool {
        <&'static dyn std::os::unix::io::AsRawFd as Signature>::has_sig(s)
    }
}
impl Marshal for FdDyn {
    fn marshal(&self, ctx: &mut MarshalContext) -> Result<(), MarshalError> {
        struct Raw(i32);
        impl std::os::unix::io::AsRawFd for Raw {
            fn as_raw_fd(&self) -> i32 {
                self.0
            }
        }
        match self.0.get_raw_fd() {
            Some(raw) => {
                let r = Raw(raw);
                let d: &dyn std::os::unix::io::AsRawFd = &r;
                d.marshal(ctx)
            }
            None => self.0.marshal(ctx),
        }
    }
}
impl<'buf, 'fds> Unmarshal<'buf, 'fds> for FdDyn {
    fn unmarshal(ctx: &mut UnmarshalContext<'fds, 'buf>) -> Result<Self, UnmarshalError> {
        UnixFd::unmarshal(ctx).map(FdDyn)
    }
}

#[derive(Debug, Clone, PartialEq, Eq, Hash)]
pub struct Path(pub String);
impl Tok for Path {
    fn from_tok(a: &mut Args) -> Self {
        assert_eq!(a.next(), "o");
        Path(String::from_utf8(crate::unhex(a.next())).unwrap())
    }
    fn to_tok(&self, out: &mut Vec<String>, _s: bool) {
        out.push("o".into());
        out.push(crate::hex(self.0.as_bytes()));
    }
}
impl Signature for Path {
    fn signature() -> rustbus::signature::Type {
        ObjectPath::<String>::signature()
    }
    fn alignment() -> usize {
        ObjectPath::<String>::alignment()
    }
    fn sig_str(s: &mut SignatureBuffer) {
        ObjectPath::<String>::sig_str(s)
    }
    fn has_sig(s: &str) -> bool {
        ObjectPath::<String>::has_sig(s)
    }
}
impl Marshal for Path {
    fn marshal(&self, ctx: &mut MarshalContext) -> Result<(), MarshalError> {
        // an invalid path can not be constructed: ObjectPath::new refuses it
        ObjectPath::new(self.0.as_str())?.marshal(ctx)
    }
}
impl<'buf, 'fds> Unmarshal<'buf, 'fds> for Path {
    fn unmarshal(ctx: &mut UnmarshalContext<'fds, 'buf>) -> Result<Self, UnmarshalError> {
        ObjectPath::<String>::unmarshal(ctx).map(|p| Path(p.as_ref().to_owned()))
    }
}

#[derive(Debug, Clone, PartialEq, Eq)]
pub struct Sig(pub String);
impl Tok for Sig {
    fn from_tok(a: &mut Args) -> Self {
        assert_eq!(a.next(), "g");
        Sig(String::from_utf8(crate::unhex(a.next())).unwrap())
    }
    fn to_tok(&self, out: &mut Vec<String>, _s: bool) {
        out.push("g".into());
        out.push(crate::hex(self.0.as_bytes()));
    }
}
impl Signature for Sig {
    fn signature() -> rustbus::signature::Type {
        SignatureWrapper::<String>::signature()
    }
    fn alignment() -> usize {
        SignatureWrapper::<String>::alignment()
    }
    fn sig_str(s: &mut SignatureBuffer) {
        SignatureWrapper::<String>::sig_str(s)
    }
    fn has_sig(s: &str) -> bool {
        SignatureWrapper::<String>::has_sig(s)
    }
}
impl Marshal for Sig {
    fn marshal(&self, ctx: &mut MarshalContext) -> Result<(), MarshalError> {
        SignatureWrapper::new(self.0.as_str())?.marshal(ctx)
    }
}
impl<'buf, 'fds> Unmarshal<'buf, 'fds> for Sig {
    fn unmarshal(ctx: &mut UnmarshalContext<'fds, 'buf>) -> Result<Self, UnmarshalError> {
        SignatureWrapper::<String>::unmarshal(ctx).map(|p| Sig(p.as_ref().to_owned()))
    }
}

/// A variant whose content type is known statically: marshal through marshal::traits::Variant<T>,
/// unmarshal through unmarshal::traits::Variant and get::<T>()
#[derive(Debug, Clone)]
pub struct Var<T>(pub T);
impl<T: Tok + Marshal> Tok for Var<T> {
    fn from_tok(a: &mut Args) -> Self {
        assert_eq!(a.next(), "v");
        let _sig = a.next();
        Var(T::from_tok(a))
    }
    fn to_tok(&self, out: &mut Vec<String>, s: bool) {
        out.push("v".into());
        out.push(sig_of::<T>());
        self.0.to_tok(out, s);
    }
    fn push_inner_variant(&self, body: &mut MarshalledMessageBody) -> Option<Result<(), MarshalError>> {
        Some(body.push_variant(&self.0))
    }
}
/// Var<T> does NOT describe the variant itself: alignment, signature and has_sig are those of the crate's
/// marshal::traits::Variant<T> (the type a user pushes), so that they are what containers around it see
impl<T: Marshal> Signature for Var<T> {
    fn signature() -> rustbus::signature::Type {
        <rustbus::wire::marshal::traits::Variant<T> as Signature>::signature()
    }
    fn alignment() -> usize {
        <rustbus::wire::marshal::traits::Variant<T> as Signature>::alignment()
    }
    fn sig_str(s: &mut SignatureBuffer) {
        <rustbus::wire::marshal::traits::Variant<T> as Signature>::sig_str(s)
    }
    fn has_sig(s: &str) -> bool {
        <rustbus::wire::marshal::traits::Variant<T> as Signature>::has_sig(s)
    }
}
impl<T: Marshal> Marshal for Var<T> {
    fn marshal(&self, ctx: &mut MarshalContext) -> Result<(), MarshalError> {
        rustbus::wire::marshal::traits::Variant(&self.0).marshal(ctx)
    }
}
impl<'buf, 'fds, T: Marshal + Unmarshal<'buf, 'fds>> Unmarshal<'buf, 'fds> for Var<T> {
    fn unmarshal(ctx: &mut UnmarshalContext<'fds, 'buf>) -> Result<Self, UnmarshalError> {
        let v = rustbus::wire::unmarshal::traits::Variant::unmarshal(ctx)?;
        v.get::<T>().map(Var)
    }
}

/// catalogue flavour V[..]: the same value, but alignment, signature and has_sig are those of the crate's
/// unmarshal::traits::Variant (the type a user asks the parser for)
#[derive(Debug, Clone)]
pub struct UVar<T>(pub T);
impl<T: Tok + Signature> Tok for UVar<T> {
    fn from_tok(a: &mut Args) -> Self {
        assert_eq!(a.next(), "v");
        let _sig = a.next();
        UVar(T::from_tok(a))
    }
    fn to_tok(&self, out: &mut Vec<String>, s: bool) {
        out.push("v".into());
        out.push(sig_of::<T>());
        self.0.to_tok(out, s);
    }
}
impl<T> Signature for UVar<T> {
    fn signature() -> rustbus::signature::Type {
        <rustbus::wire::unmarshal::traits::Variant<'static, 'static> as Signature>::signature()
    }
    fn alignment() -> usize {
        <rustbus::wire::unmarshal::traits::Variant<'static, 'static> as Signature>::alignment()
    }
    fn sig_str(s: &mut SignatureBuffer) {
        <rustbus::wire::unmarshal::traits::Variant<'static, 'static> as Signature>::sig_str(s)
    }
    fn has_sig(s: &str) -> bool {
        <rustbus::wire::unmarshal::traits::Variant<'static, 'static> as Signature>::has_sig(s)
    }
}
impl<T: Marshal> Marshal for UVar<T> {
    fn marshal(&self, ctx: &mut MarshalContext) -> Result<(), MarshalError> {
        rustbus::wire::marshal::traits::Variant(&self.0).marshal(ctx)
    }
}
impl<'buf, 'fds, T: Unmarshal<'buf, 'fds>> Unmarshal<'buf, 'fds> for UVar<T> {
    fn unmarshal(ctx: &mut UnmarshalContext<'fds, 'buf>) -> Result<Self, UnmarshalError> {
        let v = rustbus::wire::unmarshal::traits::Variant::unmarshal(ctx)?;
        v.get::<T>().map(UVar)
    }
}

// ---------------------------------------------------------------- where the body under test lives
/// A body is read relative to its buf_offset; a freshly built one has offset 0, a received one sits behind the header in
/// the message buffer. The operations that READ a body (RT, RP, RV, BV, BA) take a placement from the op token
/// ("RT@112", "RP@recv"): At(n) = from_parts(n foreign bytes ++ body, n), Recv = through the real receive path.
#[derive(Clone, Copy, PartialEq, Debug)]
pub enum Place {
    At(usize),
    Recv,
}
thread_local! {
    pub static PLACE: std::cell::Cell<Place> = std::cell::Cell::new(Place::At(0));
}
/// splits "RT@112" into ("RT", placement) and remembers the placement for this line
pub fn take_place(op: &str) -> &str {
    let (base, place) = match op.split_once('@') {
        None => (op, Place::At(0)),
        Some((b, "recv")) => (b, Place::Recv),
        Some((b, n)) => (b, Place::At(n.parse().unwrap())),
    };
    PLACE.with(|p| p.set(place));
    base
}
pub fn rehome_parts(bo: ByteOrder, sig: &str, bytes: &[u8], fds: Vec<UnixFd>, n: usize) -> MarshalledMessageBody {
    let mut buf = vec![0xAAu8; n];
    buf.extend_from_slice(bytes);
    MarshalledMessageBody::from_parts(buf, n, fds, sig.to_owned(), bo)
}
/// moves the body of `msg` to the placement of this line; answers how it got there: "none" (offset 0, untouched),
/// "parts" (from_parts with an offset), "wire" (marshal + unmarshal_header + unmarshal_dynamic_header + unmarshal_next_message)
pub fn place(msg: &mut rustbus::message_builder::MarshalledMessage) -> &'static str {
    use rustbus::wire::unmarshal::{unmarshal_dynamic_header, unmarshal_header, unmarshal_next_message};
    let n = match PLACE.with(|p| p.get()) {
        Place::At(0) => return "none",
        Place::At(n) => n,
        Place::Recv => {
            let bo = msg.body.byteorder();
            let mut outer = rustbus::message_builder::MessageBuilder::with_byteorder(bo).signal("io.verif.Wire", "Moved", "/io/verif/wire").build();
            std::mem::swap(&mut outer.body, &mut msg.body);
            let got = (|| {
                let mut wire = Vec::new();
                rustbus::wire::marshal::marshal(&outer, std::num::NonZeroU32::new(1).unwrap(), &mut wire).ok()?;
                wire.extend_from_slice(outer.get_buf());
                let mut cursor = rustbus::wire::unmarshal_context::Cursor::new(&wire);
                let header = unmarshal_header(&mut cursor).ok()?;
                let dynheader = unmarshal_dynamic_header(&header, &mut cursor).ok()?;
                let consumed = cursor.consumed();
                unmarshal_next_message(&header, dynheader, wire, consumed, outer.body.get_fds().to_vec()).ok()
            })();
            match got {
                Some(rx) if rx.get_sig() == outer.get_sig() && rx.get_buf() == outer.get_buf() => {
                    msg.body = rx.body;
                    return "wire";
                }
                _ => {
                    // not sendable as a message (signature over 255 characters, ..): the same bytes behind 112 others
                    std::mem::swap(&mut outer.body, &mut msg.body);
                    112
                }
            }
        }
    };
    let fds = msg.body.get_fds().to_vec();
    let body = rehome_parts(msg.body.byteorder(), msg.get_sig(), msg.get_buf(), fds, n);
    msg.body = body;
    "parts"
}

// ---------------------------------------------------------------- borrowed / flavoured types (same D-Bus type, other Rust impl)
/// how often a Cow<[E]> came back borrowed / owned since the counters were last taken (informational)
pub static COW_BORROWED: std::sync::atomic::AtomicUsize = std::sync::atomic::AtomicUsize::new(0);
pub static COW_OWNED: std::sync::atomic::AtomicUsize = std::sync::atomic::AtomicUsize::new(0);
pub fn take_cow_counts() -> (usize, usize) {
    use std::sync::atomic::Ordering::Relaxed;
    (COW_BORROWED.swap(0, Relaxed), COW_OWNED.swap(0, Relaxed))
}
fn cow_note() -> String {
    match take_cow_counts() {
        (0, 0) => String::new(),
        (b, o) => format!(" #cow=b{}o{}", b, o),
    }
}

/// text leaves decoded through the borrowing impls (<&str>, ObjectPath<&str>, SignatureWrapper<&str>); the borrowed
/// result is copied while the message buffer is alive
macro_rules! text_ref {
    ($name:ident, $tag:expr, $sigty:ty, $marshal:expr, $unmarshal:expr) => {
        #[derive(Debug, Clone, PartialEq, Eq, Hash)]
        pub struct $name(pub String);
        impl Tok for $name {
            fn from_tok(a: &mut Args) -> Self {
                assert_eq!(a.next(), $tag);
                $name(String::from_utf8(crate::unhex(a.next())).unwrap())
            }
            fn to_tok(&self, out: &mut Vec<String>, _s: bool) {
                out.push($tag.into());
                out.push(crate::hex(self.0.as_bytes()));
            }
        }
        impl Signature for $name {
            fn signature() -> rustbus::signature::Type {
                <$sigty>::signature()
            }
            fn alignment() -> usize {
                <$sigty>::alignment()
            }
            fn sig_str(s: &mut SignatureBuffer) {
                <$sigty>::sig_str(s)
            }
            fn has_sig(s: &str) -> bool {
                <$sigty>::has_sig(s)
            }
        }
        impl Marshal for $name {
            fn marshal(&self, ctx: &mut MarshalContext) -> Result<(), MarshalError> {
                let f: fn(&str, &mut MarshalContext) -> Result<(), MarshalError> = $marshal;
                f(self.0.as_str(), ctx)
            }
        }
        impl<'buf, 'fds> Unmarshal<'buf, 'fds> for $name {
            fn unmarshal(ctx: &mut UnmarshalContext<'fds, 'buf>) -> Result<Self, UnmarshalError> {
                let f: fn(&mut UnmarshalContext<'fds, 'buf>) -> Result<String, UnmarshalError> = $unmarshal;
                f(ctx).map($name)
            }
        }
    };
}
text_ref!(BStr, "s", &'static str, |s, ctx| s.marshal(ctx), |ctx| <&'buf str as Unmarshal>::unmarshal(ctx).map(|s| s.to_owned()));
text_ref!(BPath, "o", ObjectPath<&'static str>, |s, ctx| ObjectPath::<&str>::new(s)?.marshal(ctx), |ctx| {
    ObjectPath::<&'buf str>::unmarshal(ctx).map(|p| p.as_ref().to_owned())
});
text_ref!(BSig, "g", SignatureWrapper<&'static str>, |s, ctx| SignatureWrapper::<&str>::new(s)?.marshal(ctx), |ctx| {
    SignatureWrapper::<&'buf str>::unmarshal(ctx).map(|p| p.as_ref().to_owned())
});

/// array flavours: the value (and its tokens) is that of Vec<E>; what differs is the impl of the crate it goes through
macro_rules! arr_flavour {
    ($name:ident) => {
        #[derive(Debug, Clone)]
        pub struct $name<E>(pub Vec<E>);
        impl<E: Tok + Signature> Tok for $name<E> {
            fn from_tok(a: &mut Args) -> Self {
                $name(Vec::<E>::from_tok(a))
            }
            fn to_tok(&self, out: &mut Vec<String>, s: bool) {
                self.0.to_tok(out, s)
            }
        }
    };
}
macro_rules! sig_like {
    ($name:ident, $like:ty, $($bound:tt)+) => {
        impl<E: $($bound)+> Signature for $name<E> {
            fn signature() -> rustbus::signature::Type {
                <$like>::signature()
            }
            fn alignment() -> usize {
                <$like>::alignment()
            }
            fn sig_str(s: &mut SignatureBuffer) {
                <$like>::sig_str(s)
            }
            fn has_sig(s: &str) -> bool {
                <$like>::has_sig(s)
            }
        }
    };
}
// aC: decoded through Cow<[E]> (copied out while the buffer is alive; borrowed/owned is counted), written through &[E]
arr_flavour!(CowA);
sig_like!(CowA, std::borrow::Cow<'static, [E]>, Signature + Clone + 'static);
impl<E: Marshal + Clone + 'static> Marshal for CowA<E> {
    fn marshal(&self, ctx: &mut MarshalContext) -> Result<(), MarshalError> {
        let cow: std::borrow::Cow<[E]> = std::borrow::Cow::Borrowed(self.0.as_slice());
        <&[E] as Marshal>::marshal(&&*cow, ctx)
    }
}
impl<'buf, 'fds, E: Unmarshal<'buf, 'fds> + Clone + 'static> Unmarshal<'buf, 'fds> for CowA<E> {
    fn unmarshal(ctx: &mut UnmarshalContext<'fds, 'buf>) -> Result<Self, UnmarshalError> {
        use std::sync::atomic::Ordering::Relaxed;
        let cow = <std::borrow::Cow<'buf, [E]> as Unmarshal>::unmarshal(ctx)?;
        match &cow {
            std::borrow::Cow::Borrowed(_) => COW_BORROWED.fetch_add(1, Relaxed),
            std::borrow::Cow::Owned(_) => COW_OWNED.fetch_add(1, Relaxed),
        };
        Ok(CowA(cow.into_owned()))
    }
}
// aR: written through <&[E] as Marshal> directly (Signature of &[E]); read through Vec<E>
arr_flavour!(SliceR);
sig_like!(SliceR, &'static [E], Signature + 'static);
impl<E: Marshal + 'static> Marshal for SliceR<E> {
    fn marshal(&self, ctx: &mut MarshalContext) -> Result<(), MarshalError> {
        let slice: &[E] = self.0.as_slice();
        <&[E] as Marshal>::marshal(&slice, ctx)
    }
}
impl<'buf, 'fds, E: Unmarshal<'buf, 'fds> + 'static> Unmarshal<'buf, 'fds> for SliceR<E> {
    fn unmarshal(ctx: &mut UnmarshalContext<'fds, 'buf>) -> Result<Self, UnmarshalError> {
        Vec::<E>::unmarshal(ctx).map(SliceR)
    }
}
// aN: written through [E; N] for the lengths below, through the unsized [E] otherwise (3, 6, 7, 9..) (Signature of [E; N]); read through Vec<E>
arr_flavour!(ArrN);
sig_like!(ArrN, [E; 3], Signature + 'static);
impl<E: Marshal + 'static> Marshal for ArrN<E> {
    fn marshal(&self, ctx: &mut MarshalContext) -> Result<(), MarshalError> {
        fn as_arr<E, const N: usize>(v: &[E]) -> &[E; N] {
            v.try_into().unwrap()
        }
        let v = self.0.as_slice();
        match v.len() {
            0 => <[E; 0] as Marshal>::marshal(as_arr(v), ctx),
            1 => <[E; 1] as Marshal>::marshal(as_arr(v), ctx),
            2 => <[E; 2] as Marshal>::marshal(as_arr(v), ctx),
            4 => <[E; 4] as Marshal>::marshal(as_arr(v), ctx),
            5 => <[E; 5] as Marshal>::marshal(as_arr(v), ctx),
            8 => <[E; 8] as Marshal>::marshal(as_arr(v), ctx),
            _ => <[E] as Marshal>::marshal(v, ctx),
        }
    }
}
impl<'buf, 'fds, E: Unmarshal<'buf, 'fds> + 'static> Unmarshal<'buf, 'fds> for ArrN<E> {
    fn unmarshal(ctx: &mut UnmarshalContext<'fds, 'buf>) -> Result<Self, UnmarshalError> {
        Vec::<E>::unmarshal(ctx).map(ArrN)
    }
}
/// aBy: written through &[u8], read through <&[u8] as Unmarshal> (Cursor::read_u8_slice), copied while the buffer is alive
#[derive(Debug, Clone)]
pub struct BBytes(pub Vec<u8>);
impl Tok for BBytes {
    fn from_tok(a: &mut Args) -> Self {
        BBytes(Vec::<u8>::from_tok(a))
    }
    fn to_tok(&self, out: &mut Vec<String>, s: bool) {
        self.0.to_tok(out, s)
    }
}
impl Signature for BBytes {
    fn signature() -> rustbus::signature::Type {
        <&[u8]>::signature()
    }
    fn alignment() -> usize {
        <&[u8]>::alignment()
    }
    fn sig_str(s: &mut SignatureBuffer) {
        <&[u8]>::sig_str(s)
    }
    fn has_sig(s: &str) -> bool {
        <&[u8]>::has_sig(s)
    }
}
impl Marshal for BBytes {
    fn marshal(&self, ctx: &mut MarshalContext) -> Result<(), MarshalError> {
        let slice: &[u8] = self.0.as_slice();
        <&[u8] as Marshal>::marshal(&slice, ctx)
    }
}
impl<'buf, 'fds> Unmarshal<'buf, 'fds> for BBytes {
    fn unmarshal(ctx: &mut UnmarshalContext<'fds, 'buf>) -> Result<Self, UnmarshalError> {
        <&'buf [u8] as Unmarshal>::unmarshal(ctx).map(|s| BBytes(s.to_vec()))
    }
}

// ---------------------------------------------------------------- containers
impl<T: Tok + Signature> Tok for Vec<T> {
    fn from_tok(a: &mut Args) -> Self {
        assert_eq!(a.next(), "a");
        let _esig = a.next();
        let n = a.num();
        (0..n).map(|_| T::from_tok(a)).collect()
    }
    fn to_tok(&self, out: &mut Vec<String>, s: bool) {
        out.push("a".into());
        out.push(sig_of::<T>());
        out.push(self.len().to_string());
        for x in self {
            x.to_tok(out, s);
        }
    }
}
impl<K: Tok + Signature + std::hash::Hash + Eq, V: Tok + Signature> Tok for HashMap<K, V> {
    fn from_tok(a: &mut Args) -> Self {
        assert_eq!(a.next(), "e");
        let _k = a.next();
        let _v = a.next();
        let n = a.num();
        let mut m = HashMap::new();
        for _ in 0..n {
            let k = K::from_tok(a);
            let v = V::from_tok(a);
            m.insert(k, v);
        }
        m
    }
    fn to_tok(&self, out: &mut Vec<String>, sorted: bool) {
        out.push("e".into());
        out.push(sig_of::<K>());
        out.push(sig_of::<V>());
        out.push(self.len().to_string());
        let mut entries: Vec<Vec<String>> = self
            .iter()
            .map(|(k, v)| {
                let mut e = Vec::new();
                k.to_tok(&mut e, sorted);
                v.to_tok(&mut e, sorted);
                e
            })
            .collect();
        if sorted {
            entries.sort();
        }
        for e in entries {
            out.extend(e);
        }
    }
}
macro_rules! tuple_tok {
    ($n:expr, $($T:ident $i:tt),+) => {
        impl<$($T: Tok),+> Tok for ($($T,)+) {
            fn from_tok(a: &mut Args) -> Self {
                assert_eq!(a.next(), "r");
                assert_eq!(a.num(), $n);
                ($($T::from_tok(a),)+)
            }
            fn to_tok(&self, out: &mut Vec<String>, s: bool) {
                out.push("r".into());
                out.push($n.to_string());
                $(self.$i.to_tok(out, s);)+
            }
        }
    };
}
tuple_tok!(1, A 0);
tuple_tok!(2, A 0, B 1);
tuple_tok!(3, A 0, B 1, C 2);
tuple_tok!(4, A 0, B 1, C 2, D 3);
tuple_tok!(5, A 0, B 1, C 2, D 3, E 4);

// ---------------------------------------------------------------- operations
pub fn bo(a: &mut Args) -> ByteOrder {
    match a.next() {
        "le" => ByteOrder::LittleEndian,
        "be" => ByteOrder::BigEndian,
        x => panic!("byte order {}", x),
    }
}

/// MA <bo> <prefix-count> <value>: the free function message_builder::marshal_as_variant(value, bo, buf, fds) on a buffer that
/// already holds <prefix-count> bytes. Prints ok|err and the buffer (no signature: the function does not know a body).
pub fn marshal_as_variant_free<T: Tok + Marshal>(a: &mut Args) -> String {
    let byteorder = bo(a);
    let prefix = a.num();
    let v = T::from_tok(a);
    let mut ordered = Vec::new();
    v.to_tok(&mut ordered, false);
    let mut buf: Vec<u8> = (0..prefix).map(|i| (i as u8).wrapping_mul(37).wrapping_add(1)).collect();
    let mut fds = Vec::new();
    let r = rustbus::message_builder::marshal_as_variant(&v, byteorder, &mut buf, &mut fds);
    format!("{} sig=- buf={} nfds={} val=v {} {}", if r.is_ok() { "ok" } else { "err" }, crate::hex(&buf), fds.len(), sig_of::<T>(), ordered.join(" "))
}

/// Operations on a type that can only be marshalled (catalogue::MARSHAL_ONLY). MT as in `run`; RT marshals prefix, value
/// and trailer and hands the body back ("BODY <bo> <prefix> <nfds> <sig hex> <buf hex> <value tokens, canonical>") for bin/wire.rs to
/// read it with the dynamic API, because there is no typed decoder for these types.
pub fn run_m<T>(op: &str, a: &mut Args) -> String
where
    T: Tok + Marshal,
{
    match op {
        "BPUSHVI" => {
            let v = T::from_tok(a);
            let r = BODY.with(|b| v.push_inner_variant(&mut b.borrow_mut().body));
            match r {
                Some(r) => format!("{} {}", if r.is_ok() { "ok" } else { "err" }, body_state()),
                None => "?".to_string(),
            }
        }
        "MT" | "RT" => {
            let bo_tok = a.next();
            let byteorder = match bo_tok {
                "le" => ByteOrder::LittleEndian,
                _ => ByteOrder::BigEndian,
            };
            let prefix = a.num();
            let v = T::from_tok(a);
            let mut msg = rustbus::message_builder::MarshalledMessage::new();
            msg.body = MarshalledMessageBody::with_byteorder(byteorder);
            for i in 0..prefix {
                msg.body.push_param((i as u8).wrapping_mul(37).wrapping_add(1)).unwrap();
            }
            let r = msg.body.push_param(&v);
            if op == "MT" {
                let mut ordered = Vec::new();
                v.to_tok(&mut ordered, false);
                let res = if r.is_ok() { "ok" } else { "err" };
                return format!("{} sig={} buf={} nfds={} val={}", res, crate::hex(msg.get_sig().as_bytes()), crate::hex(msg.get_buf()), msg.body.get_fds().len(), ordered.join(" "));
            }
            if r.is_err() {
                return "pusherr".to_string();
            }
            msg.body.push_param(0xA5u8).unwrap();
            let mut orig = Vec::new();
            v.to_tok(&mut orig, true);
            format!("BODY {} {} {} {} {} {}", bo_tok, prefix, msg.body.get_fds().len(), crate::hex(msg.get_sig().as_bytes()), crate::hex(msg.get_buf()), orig.join(" "))
        }
        "MA" => marshal_as_variant_free::<T>(a),
        _ => "NOOP".to_string(),
    }
}

/// Operations on a catalogue type T. See bin/wire.rs for the line protocol.
pub fn run<T>(op: &str, a: &mut Args) -> String
where
    T: Tok + Marshal + for<'b, 'f> Unmarshal<'b, 'f>,
{
    match op {
        // MT <bo> <prefix-count> <value>: push <prefix-count> u8 params, then the value through the typed API.
        // Prints the value in the order its maps iterate (the order the marshaller used), the result,
        // and the whole body (signature, bytes, descriptor count) afterwards.
        "MT" => {
            let byteorder = bo(a);
            let prefix = a.num();
            let v = T::from_tok(a);
            let mut ordered = Vec::new();
            v.to_tok(&mut ordered, false);
            let mut msg = rustbus::message_builder::MarshalledMessage::new();
            msg.body = MarshalledMessageBody::with_byteorder(byteorder);
            for i in 0..prefix {
                msg.body.push_param((i as u8).wrapping_mul(37).wrapping_add(1)).unwrap();
            }
            let r = msg.body.push_param(&v);
            let res = if r.is_ok() { "ok" } else { "err" };
            format!("{} sig={} buf={} nfds={} val={}", res, crate::hex(msg.get_sig().as_bytes()), crate::hex(msg.get_buf()), msg.body.get_fds().len(), ordered.join(" "))
        }
        // RT <bo> <prefix-count> <value>: marshal as above, then read everything back through the typed API:
        // prefix bytes, the value as T, and one trailing u8 pushed after it (shows that exactly the right bytes were consumed)
        "RT" => {
            let byteorder = bo(a);
            let prefix = a.num();
            let v = T::from_tok(a);
            let mut msg = rustbus::message_builder::MarshalledMessage::new();
            msg.body = MarshalledMessageBody::with_byteorder(byteorder);
            for i in 0..prefix {
                msg.body.push_param((i as u8).wrapping_mul(37).wrapping_add(1)).unwrap();
            }
            if msg.body.push_param(&v).is_err() {
                return "pusherr".to_string();
            }
            msg.body.push_param(0xA5u8).unwrap();
            let placed = place(&mut msg);
            let valid = msg.body.validate().is_ok();
            let mut p = msg.body.parser();
            for _ in 0..prefix {
                if p.get::<u8>().is_err() {
                    return "prefixerr".to_string();
                }
            }
            let got = p.get::<T>();
            let mut out = Vec::new();
            let res = match &got {
                Ok(x) => {
                    x.to_tok(&mut out, true);
                    "ok"
                }
                Err(_) => "err",
            };
            let trailer = match p.get::<u8>() {
                Ok(0xA5) => "trailer=ok",
                Ok(_) => "trailer=wrong",
                Err(_) => "trailer=err",
            };
            let left = p.sigs_left();
            let mut orig = Vec::new();
            v.to_tok(&mut orig, true);
            let (cb, co) = take_cow_counts();
            format!("{} validate={} {} left={} same={} cow=b{}o{} place={} val={}", res, valid, trailer, left, orig == out, cb, co, placed, out.join(" "))
        }
        // UT <bo> <offset> <nfds> <memphase> <hex>: typed unmarshal of T from raw bytes at offset, buffer placed at
        // address = 8k + memphase. Prints ok <consumed> <value> | err
        "UT" => {
            let byteorder = bo(a);
            let offset = a.num() as usize;
            let nfds = a.num() as usize;
            let phase = a.num() as usize;
            let bytes = crate::unhex(a.next());
            let fds: Vec<UnixFd> = (0..nfds).map(|_| UnixFd::new(nix::unistd::dup(2).unwrap())).collect();
            set_fd_table(&fds);
            let mut backing = vec![0u64; bytes.len() / 8 + 3];
            let base = backing.as_mut_ptr() as *mut u8;
            let buf: &mut [u8] = unsafe { std::slice::from_raw_parts_mut(base.add(phase), bytes.len()) };
            buf.copy_from_slice(&bytes);
            let buf: &[u8] = buf;
            if offset > buf.len() {
                return "badoffset".to_string();
            }
            let mut ctx = UnmarshalContext::new(&fds, byteorder, buf, offset);
            let res = match T::unmarshal(&mut ctx) {
                Ok(x) => {
                    let mut out = Vec::new();
                    x.to_tok(&mut out, true);
                    // "#cow=b<n>o<m>": how many Cow<[E]> inside the value came back borrowed / owned (informational)
                    format!("ok {} {}{}", buf.len() - ctx.remainder().len() - offset, out.join(" "), cow_note())
                }
                Err(_) => {
                    take_cow_counts();
                    "err".to_string()
                }
            };
            set_fd_table(&[]);
            res
        }
        // GT <bo> <nfds> <sig hex> <hex>: a body built from parts (at the placement of this line), asked for a T:
        // get::<T>() -> ok <value> | wrongsig | end | err, then how many signature items are left and what get_next_sig says
        "GT" => {
            let byteorder = bo(a);
            let nfds = a.num() as usize;
            let sig = String::from_utf8(crate::unhex(a.next())).unwrap();
            let bytes = crate::unhex(a.next());
            let fds: Vec<UnixFd> = (0..nfds).map(|_| UnixFd::new(nix::unistd::dup(2).unwrap())).collect();
            let n = match PLACE.with(|p| p.get()) {
                Place::At(n) => n,
                Place::Recv => 112,
            };
            let body = rehome_parts(byteorder, &sig, &bytes, fds, n);
            let mut p = body.parser();
            let before = p.sigs_left();
            let res = match p.get::<T>() {
                Ok(x) => {
                    let mut out = Vec::new();
                    x.to_tok(&mut out, true);
                    format!("ok {}", out.join(" "))
                }
                Err(UnmarshalError::WrongSignature) => "wrongsig".to_string(),
                Err(UnmarshalError::EndOfMessage) => "end".to_string(),
                Err(_) => "err".to_string(),
            };
            take_cow_counts();
            format!("{} before={} left={}", res, before, p.sigs_left())
        }
        "MA" => marshal_as_variant_free::<T>(a),
        // ---- C15: operations on the thread-local body / parser
        // BPUSH <value> | BPUSHV <value> | BPUSHN <k> <v1..vk>   (k = 2..5: push_param<k>, otherwise push_params)
        "BPUSH" => {
            let v = T::from_tok(a);
            let r = BODY.with(|b| b.borrow_mut().body.push_param(&v));
            format!("{} {}", if r.is_ok() { "ok" } else { "err" }, body_state())
        }
        "BPUSHV" => {
            let v = T::from_tok(a);
            let r = BODY.with(|b| b.borrow_mut().body.push_variant(&v));
            format!("{} {}", if r.is_ok() { "ok" } else { "err" }, body_state())
        }
        "BPUSHVI" => {
            let v = T::from_tok(a);
            let r = BODY.with(|b| v.push_inner_variant(&mut b.borrow_mut().body));
            match r {
                Some(r) => format!("{} {}", if r.is_ok() { "ok" } else { "err" }, body_state()),
                None => "?".to_string(),
            }
        }
        "BPUSHN" => {
            let k = a.num() as usize;
            let vs: Vec<T> = (0..k).map(|_| T::from_tok(a)).collect();
            let r = BODY.with(|b| {
                let mut m = b.borrow_mut();
                match k {
                    2 => m.body.push_param2(&vs[0], &vs[1]),
                    3 => m.body.push_param3(&vs[0], &vs[1], &vs[2]),
                    4 => m.body.push_param4(&vs[0], &vs[1], &vs[2], &vs[3]),
                    5 => m.body.push_param5(&vs[0], &vs[1], &vs[2], &vs[3], &vs[4]),
                    _ => m.body.push_params(&vs),
                }
            });
            format!("{} {}", if r.is_ok() { "ok" } else { "err" }, body_state())
        }
        // PGET | PGETN <k>: get::<T>() / get<k>::<T,..,T>() on the thread-local parser
        "PGET" => PARSER.with(|p| {
            let mut p = p.borrow_mut();
            let p = p.as_mut().unwrap();
            let res = match p.get::<T>() {
                Ok(x) => {
                    let mut out = Vec::new();
                    x.to_tok(&mut out, true);
                    format!("ok {}", out.join(" "))
                }
                Err(rustbus::wire::errors::UnmarshalError::WrongSignature) => "wrongsig".to_string(),
                Err(rustbus::wire::errors::UnmarshalError::EndOfMessage) => "end".to_string(),
                Err(_) => "err".to_string(),
            };
            res
        }) + " " + &parser_state(),
        "PGETN" => {
            let k = a.num();
            PARSER.with(|p| {
                let mut p = p.borrow_mut();
                let p = p.as_mut().unwrap();
                fn show<X: Tok>(xs: &[&X]) -> String {
                    let mut out = Vec::new();
                    for x in xs {
                        x.to_tok(&mut out, true);
                    }
                    format!("ok {}", out.join(" "))
                }
                let r = match k {
                    2 => p.get2::<T, T>().map(|(a, b)| show(&[&a, &b])),
                    3 => p.get3::<T, T, T>().map(|(a, b, c)| show(&[&a, &b, &c])),
                    4 => p.get4::<T, T, T, T>().map(|(a, b, c, d)| show(&[&a, &b, &c, &d])),
                    _ => p.get5::<T, T, T, T, T>().map(|(a, b, c, d, e)| show(&[&a, &b, &c, &d, &e])),
                };
                match r {
                    Ok(s) => s,
                    Err(rustbus::wire::errors::UnmarshalError::WrongSignature) => "wrongsig".to_string(),
                    Err(rustbus::wire::errors::UnmarshalError::EndOfMessage) => "end".to_string(),
                    Err(_) => "err".to_string(),
                }
            }) + " " + &parser_state()
        }
        _ => "NOOP".to_string(),
    }
}

