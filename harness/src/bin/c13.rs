//! C13 harness: serial allocation on a real connection and the reply constructors.
//! Same line protocol as ocaml/c13/driver.ml.
//!   hist <op> ...      op := a | p:<l|B>:<preset|->:<g|b>:<k> (send, partial write, into_progress, k allocations, resume, finish) | x<n> (n allocations, prints the last) | s:<l|B>:<preset|->:<g|b>:<c|W>   (c: send_message + write_all, W: send_message_write_all;
//!                                                              b: the message has an invalid member name -> marshal error)
//!     -> a:<serial> | s:<reported>:<serial in bytes 8..12 read at the peer>:<byte order flag read at the peer> | e
//!   reply <resp|err|unk|inv|rawunk|rawinv> serial= sender= iface= member= object= dest= sig= name= text= rserial=
//!     resp/err/unk/inv: the call header is marshalled and decoded first (a received header); raw*: hand-built header
//!     -> T:<typ> RS:<n|-> D:<hex|-|none> OWN:<n|-> E:<hex|-|none> ; dT:.. dRS:.. dD:.. dS:<serial> (the reply marshalled and decoded)
use rbverif::conn::connect_pair;
use rbverif::{hex, unhex};
use rustbus::message_builder::{DynamicHeader, MarshalledMessage, MarshalledMessageBody, MessageType};
use rustbus::wire::unmarshal::{unmarshal_dynamic_header, unmarshal_header};
use rustbus::wire::unmarshal_context::Cursor;
use rustbus::ByteOrder;
use std::collections::HashMap;
use std::io::Read;
use std::num::NonZeroU32;

fn u32_at(b: &[u8], off: usize, flag: u8) -> u32 {
    let a = [b[off], b[off + 1], b[off + 2], b[off + 3]];
    if flag == b'B' {
        u32::from_be_bytes(a)
    } else {
        u32::from_le_bytes(a)
    }
}

fn read_message(peer: &mut std::os::unix::net::UnixStream) -> Vec<u8> {
    let mut h = vec![0u8; 16];
    peer.read_exact(&mut h).unwrap();
    let flag = h[0];
    let body = u32_at(&h, 4, flag) as usize;
    let fields = u32_at(&h, 12, flag) as usize;
    let rest = (fields + 7) / 8 * 8 + body;
    let mut r = vec![0u8; rest];
    peer.read_exact(&mut r).unwrap();
    h.extend_from_slice(&r);
    h
}

/// everything that is queued at the peer, without blocking
fn drain(peer: &mut std::os::unix::net::UnixStream, got: &mut Vec<u8>) {
    peer.set_nonblocking(true).unwrap();
    let mut buf = vec![0u8; 1 << 16];
    loop {
        match peer.read(&mut buf) {
            Ok(0) => break,
            Ok(n) => got.extend_from_slice(&buf[..n]),
            Err(_) => break,
        }
    }
    peer.set_nonblocking(false).unwrap();
}

fn hist(ops: &[&str]) -> String {
    let (mut conn, mut peer) = match std::panic::catch_unwind(|| connect_pair(false)) {
        Ok(p) => p,
        Err(_) => return "SETUPFAIL".to_string(),
    };
    peer.set_read_timeout(Some(std::time::Duration::from_secs(20))).unwrap();
    if ops.iter().any(|o| o.starts_with("p:")) {
        use std::os::fd::{AsRawFd, BorrowedFd};
        let b = unsafe { BorrowedFd::borrow_raw(conn.send.as_raw_fd()) };
        nix::sys::socket::setsockopt(&b, nix::sys::socket::sockopt::SndBuf, &4608usize).unwrap();
    }
    let mut out = Vec::new();
    for o in ops {
        if o.is_empty() {
            continue;
        }
        if *o == "a" {
            match std::panic::catch_unwind(std::panic::AssertUnwindSafe(|| conn.send.alloc_serial())) {
                Ok(s) => out.push(format!("a:{}", s.get())),
                Err(_) => {
                    out.push("PANIC".to_string());
                    break;
                }
            }
            continue;
        }
        if let Some(n) = o.strip_prefix('x') {
            // n allocations in a row, only the last serial is printed
            let n: u64 = n.parse().unwrap();
            let r = std::panic::catch_unwind(std::panic::AssertUnwindSafe(|| {
                let mut last = 0u32;
                for _ in 0..n {
                    last = std::hint::black_box(conn.send.alloc_serial()).get();
                }
                last
            }));
            match r {
                Ok(last) => out.push(format!("x:{}", last)),
                Err(_) => {
                    out.push("PANIC".to_string());
                    break;
                }
            }
            continue;
        }
        let f: Vec<&str> = o.split(':').collect();
        let bo = if f[1] == "B" { ByteOrder::BigEndian } else { ByteOrder::LittleEndian };
        let mut msg = MarshalledMessage {
            body: MarshalledMessageBody::with_byteorder(bo),
            dynheader: DynamicHeader::default(),
            typ: MessageType::Call,
            flags: 0,
        };
        msg.dynheader.member = Some(if f[3] == "b" { "not a member!".to_string() } else { "Member".to_string() });
        msg.dynheader.object = Some("/obj".to_string());
        if f[2] != "-" {
            msg.dynheader.serial = NonZeroU32::new(f[2].parse().unwrap());
        }
        if f[0] == "p" {
            // a send that is suspended after a partial write, k allocations, resume, written to the end
            let k: usize = f[4].parse().unwrap();
            msg.body.push_param(&vec![0x5au8; 200_000][..]).unwrap();
            let allocs = |conn: &mut rustbus::connection::ll_conn::DuplexConn| -> Option<String> {
                let mut v = Vec::new();
                for _ in 0..k {
                    match std::panic::catch_unwind(std::panic::AssertUnwindSafe(|| conn.send.alloc_serial())) {
                        Ok(s) => v.push(s.get().to_string()),
                        Err(_) => return None,
                    }
                }
                Some(if v.is_empty() { "-".to_string() } else { v.join("+") })
            };
            let first = match conn.send.send_message(&msg) {
                Err(_) => None,
                Ok(mut ctx) => {
                    let total = ctx.bytes_total();
                    let r = ctx.write_once(rustbus::connection::Timeout::Nonblock);
                    let partial = matches!(r, Ok(n) if n > 0 && n < total) && !ctx.all_bytes_written();
                    if !partial {
                        ctx.force_finish();
                        out.push("NOPARTIAL".to_string());
                        break;
                    }
                    Some((ctx.into_progress(), total))
                }
            };
            let between = match allocs(&mut conn) {
                Some(b) => b,
                None => {
                    out.push("PANIC".to_string());
                    break;
                }
            };
            match first {
                None => out.push(if between == "-" { "e".to_string() } else { format!("e:{}", between) }),
                Some((progress, total)) => {
                    let mut ctx = rustbus::connection::ll_conn::SendMessageContext::resume(&mut conn.send, &msg, progress);
                    let ctx_serial = ctx.serial();
                    let mut got: Vec<u8> = Vec::new();
                    let mut rounds = 0usize;
                    let written = loop {
                        match ctx.write(rustbus::connection::Timeout::Nonblock) {
                            Ok(s) => break Some(s),
                            Err((c, _)) => {
                                ctx = c;
                                drain(&mut peer, &mut got);
                                rounds += 1;
                                if rounds > 1_000_000 {
                                    ctx.force_finish();
                                    break None;
                                }
                            }
                        }
                    };
                    drain(&mut peer, &mut got);
                    match written {
                        Some(s) if got.len() == total && got.len() >= 16 => {
                            let mut t = format!("p:{}:{}:{}:{}", s.get(), u32_at(&got, 8, got[0]), got[0] as char, between);
                            if ctx_serial != s {
                                t.push_str(&format!(":ctx{}", ctx_serial.get()));
                            }
                            out.push(t);
                        }
                        Some(s) => out.push(format!("p:{}:short{}of{}", s.get(), got.len(), total)),
                        None => out.push("p:stuck".to_string()),
                    }
                }
            }
            continue;
        }
        let mut ctx_serial: Option<NonZeroU32> = None;
        let reported = if f[4] == "W" {
            conn.send.send_message_write_all(&msg).ok()
        } else {
            match conn.send.send_message(&msg) {
                Ok(ctx) => {
                    let s = ctx.serial();
                    match ctx.write_all() {
                        Ok(s2) => {
                            ctx_serial = Some(s);
                            Some(s2)
                        }
                        Err((ctx, _)) => {
                            ctx.force_finish();
                            None
                        }
                    }
                }
                Err(_) => None,
            }
        };
        match reported {
            Some(s) => {
                let bytes = read_message(&mut peer);
                let mut t = format!("s:{}:{}:{}", s.get(), u32_at(&bytes, 8, bytes[0]), bytes[0] as char);
                if let Some(c) = ctx_serial {
                    if c != s {
                        t.push_str(&format!(":ctx{}", c.get()));
                    }
                }
                out.push(t);
            }
            None => out.push("e".to_string()),
        }
    }
    out.join(" ")
}

fn opt(s: &str) -> Option<String> {
    if s == "none" {
        None
    } else {
        Some(String::from_utf8(unhex(s)).unwrap())
    }
}
fn show_opt(o: &Option<String>) -> String {
    match o {
        None => "none".to_string(),
        Some(s) => hex(s.as_bytes()),
    }
}
fn show_on(o: &Option<NonZeroU32>) -> String {
    match o {
        None => "-".to_string(),
        Some(n) => n.get().to_string(),
    }
}
fn typ_code(t: MessageType) -> u8 {
    match t {
        MessageType::Call => 1,
        MessageType::Reply => 2,
        MessageType::Error => 3,
        MessageType::Signal => 4,
        MessageType::Invalid => 0,
    }
}

fn decode(buf: &[u8]) -> Option<(rustbus::wire::unmarshal::Header, DynamicHeader)> {
    let mut cursor = Cursor::new(buf);
    let header = unmarshal_header(&mut cursor).ok()?;
    let dh = unmarshal_dynamic_header(&header, &mut cursor).ok()?;
    Some((header, dh))
}

fn reply(kind: &str, kv: &HashMap<&str, &str>) -> String {
    let mut call = DynamicHeader::default();
    call.serial = if kv["serial"] == "-" { None } else { NonZeroU32::new(kv["serial"].parse().unwrap()) };
    call.sender = opt(kv["sender"]);
    call.interface = opt(kv["iface"]);
    call.member = opt(kv["member"]);
    call.object = opt(kv["object"]);
    call.destination = opt(kv["dest"]);
    let call = if kind.starts_with("raw") {
        call
    } else {
        // a received header: marshal the call, decode it again (as RecvConn::get_next_message does)
        let bo = if kv["bo"] == "B" { ByteOrder::BigEndian } else { ByteOrder::LittleEndian };
        let serial = call.serial.unwrap();
        let mut m = MarshalledMessage {
            body: MarshalledMessageBody::with_byteorder(bo),
            dynheader: call,
            typ: MessageType::Call,
            flags: 0,
        };
        m.dynheader.serial = None;
        let mut buf = Vec::new();
        if rustbus::wire::marshal::marshal(&m, serial, &mut buf).is_err() {
            return "CALLMERR".to_string();
        }
        match decode(&buf) {
            Some((_, dh)) => dh,
            None => return "CALLDERR".to_string(),
        }
    };
    let sig = opt(kv["sig"]);
    let r = std::panic::catch_unwind(|| match kind {
        "resp" => call.make_response(),
        "err" => call.make_error_response(String::from_utf8(unhex(kv["name"])).unwrap(), opt(kv["text"])),
        "unk" | "rawunk" => rustbus::standard_messages::unknown_method(&call),
        _ => rustbus::standard_messages::invalid_args(&call, sig.as_deref()),
    });
    let mut r = match r {
        Ok(r) => r,
        Err(_) => return "PANIC".to_string(),
    };
    // a server answering a caller in the other byte order: same reply, body (if any) rebuilt in that order
    if kv.get("rbo").copied() == Some("B") || kv.get("rbo").copied() == Some("l") {
        let rbo = if kv["rbo"] == "B" { ByteOrder::BigEndian } else { ByteOrder::LittleEndian };
        let mut nb = MarshalledMessageBody::with_byteorder(rbo);
        let mut ok = true;
        {
            let mut p = r.body.parser();
            while p.sigs_left() > 0 {
                match p.get::<String>() {
                    Ok(s) => nb.push_param(s).unwrap(),
                    Err(_) => {
                        ok = false;
                        break;
                    }
                }
            }
        }
        if ok {
            r.body = nb;
        }
    }
    let mut out = format!(
        "T:{} RS:{} D:{} OWN:{} E:{}",
        typ_code(r.typ),
        show_on(&r.dynheader.response_serial),
        show_opt(&r.dynheader.destination),
        show_on(&r.dynheader.serial),
        show_opt(&r.dynheader.error_name)
    );
    let rserial = NonZeroU32::new(kv["rserial"].parse().unwrap()).unwrap();
    let mut buf = Vec::new();
    match rustbus::wire::marshal::marshal(&r, rserial, &mut buf) {
        Ok(()) => {
            buf.extend_from_slice(r.get_buf());
            match decode(&buf) {
                Some((h, dh)) => out.push_str(&format!(
                    " ; dT:{} dRS:{} dD:{} dS:{}",
                    typ_code(h.typ),
                    show_on(&dh.response_serial),
                    show_opt(&dh.destination),
                    h.serial.get()
                )),
                None => out.push_str(" ; DERR"),
            }
        }
        Err(_) => out.push_str(" ; MERR"),
    }
    out
}

fn main() {
    rbverif::line_loop(|line| {
        let toks: Vec<&str> = line.split(' ').collect();
        match toks[0] {
            "hist" => hist(&toks[1..]),
            "reply" => {
                let kv: HashMap<&str, &str> = toks[2..].iter().filter_map(|t| t.split_once('=')).collect();
                reply(toks[1], &kv)
            }
            _ => "?".to_string(),
        }
    });
    rbverif::conn::cleanup_scratch();
}
