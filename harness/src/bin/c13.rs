//! C13 harness: serial allocation on a real connection and the reply constructors.
//! Same line protocol as ocaml/c13/driver.ml.
//!   hello pre=<k> reply=<same|other|none>  -> hello serial=<serial of the Hello read at the peer> result=<ok|err>
//!   rhist <op> ...     as hist, alloc_serial / send_message through RpcConn (ops a and s:...:c)
//!   hist <op> ...      op := z:<bo>:<preset> (socket full, refused at zero bytes, context dropped) -> z:<ctx.serial()>
//!                            q:<bo>:<preset> (partial write, force_finish) -> q:<ctx.serial()>:<wire serial>:<flag>
//!                            f:<bo>:<preset>:<c|W> (closed attached descriptor: EBADF) -> f:<ctx.serial()|->
//!                            g (peer shut down; later sends give io:<ctx.serial()|->)
//!   hist <op> ...      op := r:<c|W> (the message OBJECT of the last s / z / r operation is sent again, as s:..:<c|W>; answered like s)
//!                            every s / r token ends in :mut<serial|-> when the caller's message carries another dynheader.serial
//!                            after the call than before it (the caller preset <preset>, the library must not write there)
//!   hist <op> ...      op := a | p:<l|B>:<preset|->:<g|b>:<k> (send, partial write, into_progress, k allocations, resume, finish) | x<n> (n allocations, prints the last) | s:<l|B>:<preset|->:<g|b>:<c|W>   (c: send_message + write_all, W: send_message_write_all;
//!                                                              b: the message has an invalid member name -> marshal error)
//!     -> a:<serial> | s:<reported>:<serial in bytes 8..12 read at the peer>:<byte order flag read at the peer> | e
//!   reply <resp|err|unk|inv|rawunk|rawinv> serial= sender= iface= member= object= dest= sig= name= text= rserial=
//!     resp/err/unk/inv: the call header is marshalled and decoded first (a received header); raw*: hand-built header
//!     -> T:<typ> RS:<n|-> D:<hex|-|none> OWN:<n|-> E:<hex|-|none> ; dT:.. dRS:.. dD:.. dS:<serial> (the reply marshalled and decoded)
use rbverif::conn::connect_pair;
use rbverif::{hex, unhex};
use rustbus::message_builder::{DynamicHeader, MarshalledMessage, MarshalledMessageBody, MessageType};
use rustbus::wire::unmarshal::{unmarshal_dynamic_header, unmarshal_header};
use rustbus::wire::unmarshal_context::Cursor;
use rustbus::ByteOrder;
use std::collections::HashMap;
use std::io::Read;
use std::num::NonZeroU32;

fn u32_at(b: &[u8], off: usize, flag: u8) -> u32 {
    let a = [b[off], b[off + 1], b[off + 2], b[off + 3]];
    if flag == b'B' {
        u32::from_be_bytes(a)
    } else {
        u32::from_le_bytes(a)
    }
}

fn read_message(peer: &mut std::os::unix::net::UnixStream) -> Vec<u8> {
    let mut h = vec![0u8; 16];
    peer.read_exact(&mut h).unwrap();
    let flag = h[0];
    let body = u32_at(&h, 4, flag) as usize;
    let fields = u32_at(&h, 12, flag) as usize;
    let rest = (fields + 7) / 8 * 8 + body;
    let mut r = vec![0u8; rest];
    peer.read_exact(&mut r).unwrap();
    h.extend_from_slice(&r);
    h
}

/// everything that is queued at the peer, without blocking
fn drain(peer: &mut std::os::unix::net::UnixStream, got: &mut Vec<u8>) {
    peer.set_nonblocking(true).unwrap();
    let mut buf = vec![0u8; 1 << 16];
    loop {
        match peer.read(&mut buf) {
            Ok(0) => break,
            Ok(n) => got.extend_from_slice(&buf[..n]),
            Err(_) => break,
        }
    }
    peer.set_nonblocking(false).unwrap();
}

fn hist(ops: &[&str], use_rpc: bool) -> String {
    let (conn, mut peer) = match std::panic::catch_unwind(|| connect_pair(true)) {
        Ok(p) => p,
        Err(_) => return "SETUPFAIL".to_string(),
    };
    // with use_rpc (line kind rhist) alloc_serial and send_message go through RpcConn, which delegates to the same counter
    let mut rpc = rustbus::connection::rpc_conn::RpcConn::new(conn);
    let mut peer_closed = false;
    peer.set_read_timeout(Some(std::time::Duration::from_secs(20))).unwrap();
    if ops.iter().any(|o| o.starts_with("p:") || o.starts_with("q:")) {
        use std::os::fd::{AsRawFd, BorrowedFd};
        let b = unsafe { BorrowedFd::borrow_raw(rpc.conn_mut().send.as_raw_fd()) };
        nix::sys::socket::setsockopt(&b, nix::sys::socket::sockopt::SndBuf, &4608usize).unwrap();
    }
    let mut out = Vec::new();
    // the message object of the last s / z / r operation and its <bo>, <preset>, <g|b> as the caller made it
    let mut prev: Option<(MarshalledMessage, [&str; 3])> = None;
    for o in ops {
        if o.is_empty() {
            continue;
        }
        if *o == "g" {
            // the peer goes away: every later write fails with EPIPE (SIGPIPE is ignored by the Rust runtime)
            let _ = peer.shutdown(std::net::Shutdown::Both);
            peer_closed = true;
            out.push("g".to_string());
            continue;
        }
        if *o == "a" {
            match std::panic::catch_unwind(std::panic::AssertUnwindSafe(|| if use_rpc { rpc.alloc_serial() } else { rpc.conn_mut().send.alloc_serial() })) {
                Ok(s) => out.push(format!("a:{}", s.get())),
                Err(_) => {
                    out.push("PANIC".to_string());
                    break;
                }
            }
            continue;
        }
        if let Some(n) = o.strip_prefix('x') {
            // n allocations in a row, only the last serial is printed
            let n: u64 = n.parse().unwrap();
            let r = std::panic::catch_unwind(std::panic::AssertUnwindSafe(|| {
                let mut last = 0u32;
                for _ in 0..n {
                    last = std::hint::black_box(rpc.conn_mut().send.alloc_serial()).get();
                }
                last
            }));
            match r {
                Ok(last) => out.push(format!("x:{}", last)),
                Err(_) => {
                    out.push("PANIC".to_string());
                    break;
                }
            }
            continue;
        }
        let f0: Vec<&str> = o.split(':').collect();
        // r:<api>: the same message object again (nothing is rebuilt, nothing is reset)
        let (f, reused): (Vec<&str>, Option<MarshalledMessage>) = if f0[0] == "r" {
            match prev.take() {
                Some((m, pf)) => (vec!["s", pf[0], pf[1], pf[2], f0[1]], Some(m)),
                None => {
                    out.push("NOPREV".to_string());
                    break;
                }
            }
        } else {
            (f0, None)
        };
        let bo = if f[1] == "B" { ByteOrder::BigEndian } else { ByteOrder::LittleEndian };
        let mut msg = match reused {
            Some(m) => m,
            None => {
                let mut msg = MarshalledMessage {
                    body: MarshalledMessageBody::with_byteorder(bo),
                    dynheader: DynamicHeader::default(),
                    typ: MessageType::Call,
                    flags: 0,
                };
                msg.dynheader.member = Some(if f.get(3) == Some(&"b") { "not a member!".to_string() } else { "Member".to_string() });
                msg.dynheader.object = Some("/obj".to_string());
                if f[2] != "-" {
                    msg.dynheader.serial = NonZeroU32::new(f[2].parse().unwrap());
                }
                msg
            }
        };
        // what the caller put into the message; compared with the message after the call
        let caller_preset: Option<NonZeroU32> = if f[2] == "-" { None } else { NonZeroU32::new(f[2].parse().unwrap()) };
        if f[0] == "z" {
            // the socket is full: the first sendmsg is refused at zero bytes, the context is dropped
            let sfd = { use std::os::fd::AsRawFd; rpc.conn_mut().send.as_raw_fd() };
            let chunk = [0xABu8; 512];
            let mut junk = 0usize;
            loop {
                let r = unsafe { nix::libc::send(sfd, chunk.as_ptr() as *const nix::libc::c_void, chunk.len(), nix::libc::MSG_DONTWAIT) };
                if r <= 0 {
                    break;
                }
                junk += r as usize;
            }
            let tok = std::panic::catch_unwind(std::panic::AssertUnwindSafe(|| match rpc.conn_mut().send.send_message(&msg) {
                Err(_) => "e".to_string(),
                Ok(mut ctx) => {
                    let ser = ctx.serial();
                    match ctx.write_once(rustbus::connection::Timeout::Nonblock) {
                        Ok(n) if n > 0 => {
                            ctx.force_finish();
                            "NOZERO".to_string()
                        }
                        _ => match std::panic::catch_unwind(std::panic::AssertUnwindSafe(move || drop(ctx))) {
                            Ok(()) => format!("z:{}", ser.get()),
                            Err(_) => "z:droppanic".to_string(),
                        },
                    }
                }
            }))
            .unwrap_or("PANIC".to_string());
            let mut got = Vec::new();
            drain(&mut peer, &mut got);
            if tok == "PANIC" {
                out.push(tok);
                break;
            }
            out.push(if got.len() != junk { format!("{}:leak{}", tok, got.len() as i64 - junk as i64) } else { tok });
            if out.last().map(|t| t == "NOZERO").unwrap_or(false) {
                break;
            }
            if msg.dynheader.serial != caller_preset {
                let t = out.pop().unwrap();
                out.push(format!("{}:mut{}", t, show_on(&msg.dynheader.serial)));
            }
            prev = Some((msg, [f[1], f[2], "g"]));
            continue;
        }
        if f[0] == "q" {
            // force_finish after a partial write
            msg.body.push_param(&vec![0x5au8; 200_000][..]).unwrap();
            let tok = std::panic::catch_unwind(std::panic::AssertUnwindSafe(|| match rpc.conn_mut().send.send_message(&msg) {
                Err(_) => "e".to_string(),
                Ok(mut ctx) => {
                    let ser = ctx.serial();
                    let total = ctx.bytes_total();
                    let r = ctx.write_once(rustbus::connection::Timeout::Nonblock);
                    let partial = matches!(r, Ok(n) if n >= 16 && n < total);
                    ctx.force_finish();
                    if partial { format!("q:{}", ser.get()) } else { "NOPARTIAL".to_string() }
                }
            }))
            .unwrap_or("PANIC".to_string());
            let mut got = Vec::new();
            drain(&mut peer, &mut got);
            if tok == "NOPARTIAL" || tok == "PANIC" {
                out.push(tok);
                break;
            }
            out.push(if got.len() >= 16 { format!("{}:{}:{}", tok, u32_at(&got, 8, got[0]), got[0] as char) } else { tok });
            continue;
        }
        if f[0] == "f" {
            // the message carries a descriptor that is not open: sendmsg fails with EBADF
            msg.body = MarshalledMessageBody::from_parts(vec![], 0, vec![rustbus::wire::UnixFd::new(1_000_000)], String::new(), bo);
            let tok = std::panic::catch_unwind(std::panic::AssertUnwindSafe(|| if f[3] == "W" {
                match rpc.conn_mut().send.send_message_write_all(&msg) {
                    Ok(s) => format!("f:sent{}", s.get()),
                    Err(_) => "f:-".to_string(),
                }
            } else {
                match rpc.conn_mut().send.send_message(&msg) {
                    Err(_) => "e".to_string(),
                    Ok(ctx) => {
                        let ser = ctx.serial();
                        match ctx.write_all() {
                            Ok(s) => format!("f:sent{}", s.get()),
                            Err(pair) => {
                                let _e = rustbus::connection::ll_conn::force_finish_on_error(pair);
                                format!("f:{}", ser.get())
                            }
                        }
                    }
                }
            }))
            .unwrap_or("PANIC".to_string());
            let mut got = Vec::new();
            if !peer_closed {
                drain(&mut peer, &mut got);
            }
            if tok == "PANIC" {
                out.push(tok);
                break;
            }
            out.push(if got.is_empty() { tok } else { format!("{}:leak{}", tok, got.len()) });
            continue;
        }
        if f[0] == "p" {
            // a send that is suspended after a partial write, k allocations, resume, written to the end
            let k: usize = f[4].parse().unwrap();
            msg.body.push_param(&vec![0x5au8; 200_000][..]).unwrap();
            let allocs = |conn: &mut rustbus::connection::ll_conn::DuplexConn| -> Option<String> {
                let mut v = Vec::new();
                for _ in 0..k {
                    match std::panic::catch_unwind(std::panic::AssertUnwindSafe(|| conn.send.alloc_serial())) {
                        Ok(s) => v.push(s.get().to_string()),
                        Err(_) => return None,
                    }
                }
                Some(if v.is_empty() { "-".to_string() } else { v.join("+") })
            };
            let first = match rpc.conn_mut().send.send_message(&msg) {
                Err(_) => None,
                Ok(mut ctx) => {
                    let total = ctx.bytes_total();
                    let r = ctx.write_once(rustbus::connection::Timeout::Nonblock);
                    let partial = matches!(r, Ok(n) if n > 0 && n < total) && !ctx.all_bytes_written();
                    if !partial {
                        ctx.force_finish();
                        out.push("NOPARTIAL".to_string());
                        break;
                    }
                    Some((ctx.into_progress(), total))
                }
            };
            let between = match allocs(rpc.conn_mut()) {
                Some(b) => b,
                None => {
                    out.push("PANIC".to_string());
                    break;
                }
            };
            match first {
                None => out.push(if between == "-" { "e".to_string() } else { format!("e:{}", between) }),
                Some((progress, total)) => {
                    let mut ctx = rustbus::connection::ll_conn::SendMessageContext::resume(&mut rpc.conn_mut().send, &msg, progress);
                    let ctx_serial = ctx.serial();
                    let mut got: Vec<u8> = Vec::new();
                    let mut rounds = 0usize;
                    let written = loop {
                        match ctx.write(rustbus::connection::Timeout::Nonblock) {
                            Ok(s) => break Some(s),
                            Err((c, _)) => {
                                ctx = c;
                                drain(&mut peer, &mut got);
                                rounds += 1;
                                if rounds > 1_000_000 {
                                    ctx.force_finish();
                                    break None;
                                }
                            }
                        }
                    };
                    drain(&mut peer, &mut got);
                    match written {
                        Some(s) if got.len() == total && got.len() >= 16 => {
                            let mut t = format!("p:{}:{}:{}:{}", s.get(), u32_at(&got, 8, got[0]), got[0] as char, between);
                            if ctx_serial != s {
                                t.push_str(&format!(":ctx{}", ctx_serial.get()));
                            }
                            out.push(t);
                        }
                        Some(s) => out.push(format!("p:{}:short{}of{}", s.get(), got.len(), total)),
                        None => out.push("p:stuck".to_string()),
                    }
                }
            }
            continue;
        }
        // outcome of one send: Ok((serial returned, ctx.serial())), Err(Some(ctx.serial())) for an I/O failure after
        // send_message succeeded, Err(None) when send_message itself failed; a panic (serials exhausted) is caught
        let res = std::panic::catch_unwind(std::panic::AssertUnwindSafe(|| {
            if f[4] == "W" {
                match rpc.conn_mut().send.send_message_write_all(&msg) {
                    Ok(s) => Ok((s, None)),
                    Err(rustbus::connection::Error::MarshalError(_)) => Err((false, None)),
                    Err(_) => Err((true, None)),
                }
            } else {
                let r = if use_rpc { rpc.send_message(&mut msg) } else { rpc.conn_mut().send.send_message(&msg) };
                match r {
                    Ok(ctx) => {
                        let s = ctx.serial();
                        match ctx.write_all() {
                            Ok(s2) => Ok((s2, Some(s))),
                            Err((ctx, _)) => {
                                ctx.force_finish();
                                Err((true, Some(s)))
                            }
                        }
                    }
                    Err(_) => Err((false, None)),
                }
            }
        }));
        let res = match res {
            Ok(r) => r,
            Err(_) => {
                out.push("PANIC".to_string());
                break;
            }
        };
        // the caller-visible preset after the call
        let mutated = if msg.dynheader.serial != caller_preset { format!(":mut{}", show_on(&msg.dynheader.serial)) } else { String::new() };
        let kept = [f[1], f[2], f[3]];
        prev = Some((msg, kept));
        let (reported, ctx_serial) = match res {
            Ok((s, c)) => (Some(s), c),
            Err((true, c)) => {
                out.push(format!("io:{}{}", c.map(|c| c.get().to_string()).unwrap_or("-".into()), mutated));
                continue;
            }
            Err((false, _)) => (None, None),
        };
        match reported {
            Some(s) => {
                let bytes = read_message(&mut peer);
                let mut t = format!("s:{}:{}:{}", s.get(), u32_at(&bytes, 8, bytes[0]), bytes[0] as char);
                if let Some(c) = ctx_serial {
                    if c != s {
                        t.push_str(&format!(":ctx{}", c.get()));
                    }
                }
                t.push_str(&mutated);
                out.push(t);
            }
            None => out.push(format!("e{}", mutated)),
        }
    }
    out.join(" ")
}

/// DuplexConn::send_hello against a peer that answers with a method return whose reply serial is the
/// Hello's serial (same), another one (other), or that carries none
fn hello(kv: &HashMap<&str, &str>) -> String {
    use std::io::Write;
    let (mut conn, mut peer) = match std::panic::catch_unwind(|| connect_pair(false)) {
        Ok(p) => p,
        Err(_) => return "SETUPFAIL".to_string(),
    };
    peer.set_read_timeout(Some(std::time::Duration::from_secs(20))).unwrap();
    let pre: usize = kv["pre"].parse().unwrap();
    for _ in 0..pre {
        conn.send.alloc_serial();
    }
    let mode = kv["reply"].to_string();
    let t = std::thread::spawn(move || {
        let bytes = read_message(&mut peer);
        let (_, call) = decode(&bytes).unwrap();
        let sent = u32_at(&bytes, 8, bytes[0]);
        let mut r = call.make_response();
        match mode.as_str() {
            "same" => {}
            "other" => r.dynheader.response_serial = NonZeroU32::new(sent.wrapping_add(1).max(1)),
            _ => {
                // a message without a reply serial: a signal
                r = rustbus::message_builder::MessageBuilder::new().signal("org.example.I", "Sig", "/o").build();
            }
        }
        r.body.push_param(":1.99").unwrap();
        let mut buf = Vec::new();
        rustbus::wire::marshal::marshal(&r, NonZeroU32::new(1000).unwrap(), &mut buf).unwrap();
        buf.extend_from_slice(r.get_buf());
        peer.write_all(&buf).unwrap();
        (sent, peer)
    });
    let res = conn.send_hello(rustbus::connection::Timeout::Duration(std::time::Duration::from_secs(20)));
    let (sent, _peer) = t.join().unwrap();
    format!("hello serial={} result={}", sent, match res { Ok(name) => if name == ":1.99" { "ok".to_string() } else { format!("ok?{}", name) }, Err(_) => "err".to_string() })
}

fn opt(s: &str) -> Option<String> {
    if s == "none" {
        None
    } else {
        Some(String::from_utf8(unhex(s)).unwrap())
    }
}
fn show_opt(o: &Option<String>) -> String {
    match o {
        None => "none".to_string(),
        Some(s) => hex(s.as_bytes()),
    }
}
fn show_on(o: &Option<NonZeroU32>) -> String {
    match o {
        None => "-".to_string(),
        Some(n) => n.get().to_string(),
    }
}
fn typ_code(t: MessageType) -> u8 {
    match t {
        MessageType::Call => 1,
        MessageType::Reply => 2,
        MessageType::Error => 3,
        MessageType::Signal => 4,
        MessageType::Invalid => 0,
    }
}

fn decode(buf: &[u8]) -> Option<(rustbus::wire::unmarshal::Header, DynamicHeader)> {
    let mut cursor = Cursor::new(buf);
    let header = unmarshal_header(&mut cursor).ok()?;
    let dh = unmarshal_dynamic_header(&header, &mut cursor).ok()?;
    Some((header, dh))
}

fn reply(kind: &str, kv: &HashMap<&str, &str>) -> String {
    let mut call = DynamicHeader::default();
    call.serial = if kv["serial"] == "-" { None } else { NonZeroU32::new(kv["serial"].parse().unwrap()) };
    call.sender = opt(kv["sender"]);
    call.interface = opt(kv["iface"]);
    call.member = opt(kv["member"]);
    call.object = opt(kv["object"]);
    call.destination = opt(kv["dest"]);
    let call = if kind.starts_with("raw") {
        call
    } else {
        // a received header: marshal the call, decode it again (as RecvConn::get_next_message does)
        let bo = if kv["bo"] == "B" { ByteOrder::BigEndian } else { ByteOrder::LittleEndian };
        let serial = call.serial.unwrap();
        let mut m = MarshalledMessage {
            body: MarshalledMessageBody::with_byteorder(bo),
            dynheader: call,
            typ: MessageType::Call,
            flags: 0,
        };
        m.dynheader.serial = None;
        let mut buf = Vec::new();
        if rustbus::wire::marshal::marshal(&m, serial, &mut buf).is_err() {
            return "CALLMERR".to_string();
        }
        match decode(&buf) {
            Some((_, dh)) => dh,
            None => return "CALLDERR".to_string(),
        }
    };
    let sig = opt(kv["sig"]);
    let r = std::panic::catch_unwind(|| match kind {
        "resp" => call.make_response(),
        "err" => call.make_error_response(String::from_utf8(unhex(kv["name"])).unwrap(), opt(kv["text"])),
        "unk" | "rawunk" => rustbus::standard_messages::unknown_method(&call),
        _ => rustbus::standard_messages::invalid_args(&call, sig.as_deref()),
    });
    let mut r = match r {
        Ok(r) => r,
        Err(_) => return "PANIC".to_string(),
    };
    // a server answering a caller in the other byte order: same reply, body (if any) rebuilt in that order
    if kv.get("rbo").copied() == Some("B") || kv.get("rbo").copied() == Some("l") {
        let rbo = if kv["rbo"] == "B" { ByteOrder::BigEndian } else { ByteOrder::LittleEndian };
        let mut nb = MarshalledMessageBody::with_byteorder(rbo);
        let mut ok = true;
        {
            let mut p = r.body.parser();
            while p.sigs_left() > 0 {
                match p.get::<String>() {
                    Ok(s) => nb.push_param(s).unwrap(),
                    Err(_) => {
                        ok = false;
                        break;
                    }
                }
            }
        }
        if ok {
            r.body = nb;
        }
    }
    let mut out = format!(
        "T:{} RS:{} D:{} OWN:{} E:{}",
        typ_code(r.typ),
        show_on(&r.dynheader.response_serial),
        show_opt(&r.dynheader.destination),
        show_on(&r.dynheader.serial),
        show_opt(&r.dynheader.error_name)
    );
    let rserial = NonZeroU32::new(kv["rserial"].parse().unwrap()).unwrap();
    let mut buf = Vec::new();
    match rustbus::wire::marshal::marshal(&r, rserial, &mut buf) {
        Ok(()) => {
            buf.extend_from_slice(r.get_buf());
            match decode(&buf) {
                Some((h, dh)) => out.push_str(&format!(
                    " ; dT:{} dRS:{} dD:{} dS:{}",
                    typ_code(h.typ),
                    show_on(&dh.response_serial),
                    show_opt(&dh.destination),
                    h.serial.get()
                )),
                None => out.push_str(" ; DERR"),
            }
        }
        Err(_) => out.push_str(" ; MERR"),
    }
    out
}

fn main() {
    rbverif::line_loop(|line| {
        let toks: Vec<&str> = line.split(' ').collect();
        match toks[0] {
            "hist" => hist(&toks[1..], false),
            "rhist" => hist(&toks[1..], true),
            "hello" => {
                let kv: HashMap<&str, &str> = toks[1..].iter().filter_map(|t| t.split_once('=')).collect();
                hello(&kv)
            }
            "reply" => {
                let kv: HashMap<&str, &str> = toks[2..].iter().filter_map(|t| t.split_once('=')).collect();
                reply(toks[1], &kv)
            }
            _ => "?".to_string(),
        }
    });
    rbverif::conn::cleanup_scratch();
}
