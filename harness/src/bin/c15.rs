//! C15 harness: histories of body-builder and body-parser operations on one thread-local body/parser.
//!   BNEW <le|be>            new body          BRESET            body.reset()
//!   BPUSH|BPUSHV|BPUSHN <catalogue-type> ...  typed pushes (see wirelib::run)
//!   BOLD <value>            push_old_param    BOLDS <k> <v1..vk>  push_old_params
//!   PNEW                    parser over a snapshot of the body
//!   PGET|PGETN <catalogue-type> ...           typed gets       PGETP   get_param
//! Every line answers "<ok|err|..> <body state | parser state>".
use rbverif::wirelib::{body_state, parser_state, Args, BODY, PARSER};
use rustbus::message_builder::{MarshalledMessage, MarshalledMessageBody};

#[path = "wire_param.rs"]
mod wire_param;

fn eval(line: &str) -> String {
    let mut a = Args::new(line);
    let op = a.next();
    match op {
        "BNEW" => {
            let bo = rbverif::wirelib::bo(&mut a);
            BODY.with(|b| {
                let mut m = MarshalledMessage::new();
                m.body = MarshalledMessageBody::with_byteorder(bo);
                *b.borrow_mut() = m;
            });
            PARSER.with(|p| *p.borrow_mut() = None);
            format!("ok {}", body_state())
        }
        "BRESET" => {
            BODY.with(|b| b.borrow_mut().body.reset());
            format!("ok {}", body_state())
        }
        "BPUSH" | "BPUSHV" | "BPUSHN" | "PGET" | "PGETN" => {
            let ty = a.next();
            rbverif::catalogue::dispatch(ty, op, &mut a)
        }
        "BOLD" => {
            let p = wire_param::param_from(&mut a);
            let r = BODY.with(|b| b.borrow_mut().body.push_old_param(&p));
            format!("{} {}", if r.is_ok() { "ok" } else { "err" }, body_state())
        }
        "BOLDS" => {
            let k = a.num();
            let ps: Vec<_> = (0..k).map(|_| wire_param::param_from(&mut a)).collect();
            let r = BODY.with(|b| b.borrow_mut().body.push_old_params(&ps));
            format!("{} {}", if r.is_ok() { "ok" } else { "err" }, body_state())
        }
        "PNEW" => {
            // snapshot: a parser borrows the body, so it gets its own leaked copy
            let snapshot: &'static MarshalledMessageBody = BODY.with(|b| {
                let b = b.borrow();
                let fds = b.body.get_fds().to_vec();
                let copy = MarshalledMessageBody::from_parts(b.get_buf().to_vec(), 0, fds, b.get_sig().to_owned(), b.body.byteorder());
                Box::leak(Box::new(copy)) as &'static MarshalledMessageBody
            });
            PARSER.with(|p| *p.borrow_mut() = Some(snapshot.parser()));
            format!("ok {}", parser_state())
        }
        "PGETP" => {
            let res = PARSER.with(|p| {
                let mut p = p.borrow_mut();
                let p = p.as_mut().unwrap();
                let r = match p.get_param() {
                    Ok(x) => {
                        let mut out = Vec::new();
                        wire_param::param_tok(&x, &mut out, true);
                        format!("ok {}", out.join(" "))
                    }
                    Err(rustbus::wire::errors::UnmarshalError::EndOfMessage) => "end".to_string(),
                    Err(_) => "err".to_string(),
                };
                r
            });
            format!("{} {}", res, parser_state())
        }
        _ => "?".to_string(),
    }
}

fn main() {
    rbverif::line_loop(|line| eval(line));
}
