//! C15 harness: histories of body-builder and body-parser operations on one thread-local body/parser.
//!   BNEW <le|be>            new body          BRESET            body.reset()
//!   BPUSH|BPUSHV|BPUSHN <catalogue-type> ...  typed pushes (see wirelib::run)
//!   BPUSHM <k> <ty1> <v1> .. <tyk> <vk>       k = 1: push_param, k = 2..5: push_param<k> with a DIFFERENT type per slot
//!                                             (types from the MIX table below)
//!   BOFF <n> | BRECV        re-make the body at buf_offset n / as the receive path delivers it (see eval)
//!   BBEYOND <k> <r|x>       re-make the body with an offset at / beyond the end of its buffer (see eval)
//!   BOLD <value>            push_old_param    BOLDS <k> <v1..vk>  push_old_params
//!   BVALID                  body.validate(), "valid=<bool>"
//!   PNEW                    parser over a snapshot of the body (same bytes in front of it as the body has: same buf_offset)
//!   PNEWX <hex>             parser over from_parts(<these bytes>, signature / descriptors / byte order of the body):
//!                           the way to a DECODE error behind a valid signature
//!   PGET|PGETN <catalogue-type> ...           typed gets       PGETP   get_param
//!   PGETM <k> <ty1> .. <tyk>                  k = 1: get, k = 2..5: get<k> with a different type per slot (MIX table)
//!   TYPES                   the type names BPUSH/PGET.. (catalogue) and BPUSHM/PGETM (MIX table) understand
//!   PCUR                    the parser's byte and signature cursor, "cur=<buf_idx>,<sig_idx>" (read off the derived
//!                           Debug output, the fields are private; "cur=?" when that output has another shape)
//! Every other line answers "<ok|err|wrongsig|end|panic> [values] <body state | parser state>".
//! Descriptors: every `h` leaf of a pushed value is a descriptor on a memfd of its own, tagged with its number among the `h`
//! leaves read since BNEW (live and taken alike); the body state lists the tags of get_fds() ("fds=0,2"; "?" a file no leaf
//! made, "t" taken) and a decoded descriptor is printed as "h <tag>" (see wirelib::fresh_fd / fd_ident).
use rbverif::wirelib::{body_state, parser_state, Args, Fd, Path, Sig, Tok, Var, BODY, F64, PARSER};
use rustbus::message_builder::{MarshalledMessage, MarshalledMessageBody, MessageBodyParser};
use rustbus::wire::errors::{MarshalError, UnmarshalError};
use rustbus::wire::marshal::traits::SignatureBuffer;
use rustbus::wire::marshal::MarshalContext;
use rustbus::wire::unmarshal_context::UnmarshalContext;
use rustbus::{Marshal, Signature, Unmarshal};
use std::cell::{Cell, RefCell};
use std::collections::HashMap;

#[path = "wire_param.rs"]
mod wire_param;

// ---------------------------------------------------------------- the MIX table: concrete Rust types by name
/// what the slot types below need to know about one concrete Rust type
struct TypeOps {
    name: &'static str,
    has_sig: fn(&str) -> bool,
    sig_str: fn(&mut SignatureBuffer),
    alignment: fn() -> usize,
    signature: fn() -> rustbus::signature::Type,
    /// T::unmarshal, the value printed as tokens
    unmarshal: for<'a, 'f, 'b> fn(&'a mut UnmarshalContext<'f, 'b>) -> Result<String, UnmarshalError>,
    /// T::from_tok, boxed
    from_tok: fn(&mut Args) -> Box<dyn ErasedMarshal>,
}
trait ErasedMarshal {
    fn marshal_erased(&self, ctx: &mut MarshalContext) -> Result<(), MarshalError>;
}
impl<T: Marshal> ErasedMarshal for T {
    fn marshal_erased(&self, ctx: &mut MarshalContext) -> Result<(), MarshalError> {
        self.marshal(ctx)
    }
}
fn un<T>(ctx: &mut UnmarshalContext<'_, '_>) -> Result<String, UnmarshalError>
where
    T: Tok + for<'b, 'f> Unmarshal<'b, 'f>,
{
    T::unmarshal(ctx).map(|x| {
        let mut out = Vec::new();
        x.to_tok(&mut out, true);
        out.join(" ")
    })
}
fn mk<T>(a: &mut Args) -> Box<dyn ErasedMarshal>
where
    T: Tok + Marshal + 'static,
{
    Box::new(T::from_tok(a))
}
fn ops<T>(name: &'static str) -> TypeOps
where
    T: Tok + Marshal + for<'b, 'f> Unmarshal<'b, 'f> + 'static,
{
    TypeOps { name, has_sig: T::has_sig, sig_str: T::sig_str, alignment: T::alignment, signature: T::signature, unmarshal: un::<T>, from_tok: mk::<T> }
}
fn mix_table() -> Vec<TypeOps> {
    vec![
        ops::<u8>("y"),
        ops::<bool>("b"),
        ops::<i16>("n"),
        ops::<u16>("q"),
        ops::<i32>("i"),
        ops::<u32>("u"),
        ops::<i64>("x"),
        ops::<u64>("t"),
        ops::<F64>("d"),
        ops::<Fd>("h"),
        ops::<String>("s"),
        ops::<Path>("o"),
        ops::<Sig>("g"),
        ops::<Var<u8>>("v[y]"),
        ops::<Var<u32>>("v[u]"),
        ops::<Var<u64>>("v[t]"),
        ops::<Var<String>>("v[s]"),
        ops::<Var<bool>>("v[b]"),
        ops::<Var<Vec<String>>>("v[as]"),
        ops::<Var<(u32, String)>>("v[(us)]"),
        ops::<Var<Var<String>>>("v[v[s]]"),
        ops::<Vec<u8>>("ay"),
        ops::<Vec<u32>>("au"),
        ops::<Vec<u64>>("at"),
        ops::<Vec<bool>>("ab"),
        ops::<Vec<String>>("as"),
        ops::<Vec<Path>>("ao"),
        ops::<Vec<(u8, String)>>("a(ys)"),
        ops::<Vec<Vec<String>>>("aas"),
        ops::<Vec<Var<String>>>("av[s]"),
        ops::<(u32, String)>("(us)"),
        ops::<(u8, u64)>("(yt)"),
        ops::<(u8, bool, String)>("(ybs)"),
        ops::<(String, (u8, bool))>("(s(yb))"),
        ops::<(u64, Vec<String>)>("(tas)"),
        ops::<(u8, Var<u32>)>("(yv[u])"),
        ops::<(u8, Var<String>)>("(yv[s])"),
        ops::<Vec<Var<u32>>>("av[u]"),
        ops::<HashMap<u8, Var<u32>>>("a{yv[u]}"),
        ops::<(String, u8, String, u8)>("(sysy)"),
        ops::<(Fd, String)>("(hs)"),
        ops::<HashMap<u32, String>>("a{us}"),
        ops::<HashMap<String, bool>>("a{sb}"),
        ops::<HashMap<u8, Var<String>>>("a{yv[s]}"),
        ops::<HashMap<String, Vec<String>>>("a{sas}"),
    ]
}
thread_local! {
    static MIX: Vec<TypeOps> = mix_table();
    /// the MIX indices of the slots of the multi-get / multi-push that is running
    static SLOTS: RefCell<Vec<usize>> = RefCell::new(Vec::new());
    /// get: the slot the next has_sig / unmarshal belongs to; push: the slot whose marshal ran last
    static SLOT_IDX: Cell<usize> = Cell::new(0);
    /// tokens of the values decoded by the slots so far
    static SLOT_OUT: RefCell<Vec<String>> = RefCell::new(Vec::new());
}
fn mix_index(name: &str) -> Option<usize> {
    MIX.with(|m| m.iter().position(|t| t.name == name))
}
fn with_cur<R>(f: impl FnOnce(&TypeOps) -> R) -> R {
    let i = SLOTS.with(|s| {
        let s = s.borrow();
        s[SLOT_IDX.with(|c| c.get()).min(s.len() - 1)]
    });
    MIX.with(|m| f(&m[i]))
}

/// One slot of get / get2..5: the i-th Slot of a call behaves as the i-th type named on the PGETM line (the crate calls
/// T::has_sig and then T::unmarshal for one slot after the other; unmarshal moves on to the next slot).
struct Slot;
impl Signature for Slot {
    fn signature() -> rustbus::signature::Type {
        with_cur(|t| (t.signature)())
    }
    fn alignment() -> usize {
        with_cur(|t| (t.alignment)())
    }
    fn sig_str(s: &mut SignatureBuffer) {
        with_cur(|t| (t.sig_str)(s))
    }
    fn has_sig(s: &str) -> bool {
        with_cur(|t| (t.has_sig)(s))
    }
}
impl<'buf, 'fds> Unmarshal<'buf, 'fds> for Slot {
    fn unmarshal(ctx: &mut UnmarshalContext<'fds, 'buf>) -> Result<Self, UnmarshalError> {
        let f = with_cur(|t| t.unmarshal);
        let toks = f(ctx)?;
        SLOT_OUT.with(|o| o.borrow_mut().push(toks));
        SLOT_IDX.with(|c| c.set(c.get() + 1));
        Ok(Slot)
    }
}
/// One slot of push_param / push_param2..5: marshal notes which slot ran, the static sig_str that follows it asks.
struct SlotM {
    idx: usize,
    v: Box<dyn ErasedMarshal>,
}
impl Signature for SlotM {
    fn signature() -> rustbus::signature::Type {
        with_cur(|t| (t.signature)())
    }
    fn alignment() -> usize {
        with_cur(|t| (t.alignment)())
    }
    fn sig_str(s: &mut SignatureBuffer) {
        with_cur(|t| (t.sig_str)(s))
    }
    fn has_sig(s: &str) -> bool {
        with_cur(|t| (t.has_sig)(s))
    }
}
impl Marshal for SlotM {
    fn marshal(&self, ctx: &mut MarshalContext) -> Result<(), MarshalError> {
        SLOT_IDX.with(|c| c.set(self.idx));
        self.v.marshal_erased(ctx)
    }
}

fn fail_word(e: &UnmarshalError) -> &'static str {
    match e {
        UnmarshalError::WrongSignature => "wrongsig",
        UnmarshalError::EndOfMessage => "end",
        _ => "err",
    }
}

/// get / get2..5 over explicit, different types. A few combinations are instantiated directly (no Slot in between), so the
/// slot mechanism itself is cross-checked by the same comparison with the model.
fn get_mixed(p: &mut MessageBodyParser<'static>, names: &[&str]) -> Result<String, UnmarshalError> {
    fn t<X: Tok>(x: &X) -> String {
        let mut out = Vec::new();
        x.to_tok(&mut out, true);
        out.join(" ")
    }
    match names {
        ["u", "s"] => return p.get2::<u32, String>().map(|(a, b)| [t(&a), t(&b)].join(" ")),
        ["s", "v[u]"] => return p.get2::<String, Var<u32>>().map(|(a, b)| [t(&a), t(&b)].join(" ")),
        ["y", "s", "t"] => return p.get3::<u8, String, u64>().map(|(a, b, c)| [t(&a), t(&b), t(&c)].join(" ")),
        ["as", "b", "(us)"] => return p.get3::<Vec<String>, bool, (u32, String)>().map(|(a, b, c)| [t(&a), t(&b), t(&c)].join(" ")),
        ["s", "b", "u", "as"] => return p.get4::<String, bool, u32, Vec<String>>().map(|(a, b, c, d)| [t(&a), t(&b), t(&c), t(&d)].join(" ")),
        ["y", "u", "s", "t", "b"] => {
            return p.get5::<u8, u32, String, u64, bool>().map(|(a, b, c, d, e)| [t(&a), t(&b), t(&c), t(&d), t(&e)].join(" "))
        }
        _ => {}
    }
    let idx: Vec<usize> = names.iter().map(|n| mix_index(n).expect("checked by the caller")).collect();
    SLOTS.with(|s| *s.borrow_mut() = idx);
    SLOT_IDX.with(|c| c.set(0));
    SLOT_OUT.with(|o| o.borrow_mut().clear());
    let r = match names.len() {
        1 => p.get::<Slot>().map(|_| ()),
        2 => p.get2::<Slot, Slot>().map(|_| ()),
        3 => p.get3::<Slot, Slot, Slot>().map(|_| ()),
        4 => p.get4::<Slot, Slot, Slot, Slot>().map(|_| ()),
        5 => p.get5::<Slot, Slot, Slot, Slot, Slot>().map(|_| ()),
        n => panic!("PGETM: {} slots", n),
    };
    r.map(|_| SLOT_OUT.with(|o| o.borrow().join(" ")))
}

fn push_mixed(body: &mut MarshalledMessageBody, slots: Vec<SlotM>, idx: Vec<usize>) -> Result<(), MarshalError> {
    SLOTS.with(|s| *s.borrow_mut() = idx);
    SLOT_IDX.with(|c| c.set(0));
    let s = &slots;
    match s.len() {
        1 => body.push_param(&s[0]),
        2 => body.push_param2(&s[0], &s[1]),
        3 => body.push_param3(&s[0], &s[1], &s[2]),
        4 => body.push_param4(&s[0], &s[1], &s[2], &s[3]),
        5 => body.push_param5(&s[0], &s[1], &s[2], &s[3], &s[4]),
        n => panic!("BPUSHM: {} slots", n),
    }
}

/// buf_idx and sig_idx of the parser, from the head of its derived Debug output
fn cursor_of(p: &MessageBodyParser) -> String {
    use std::fmt::Write;
    struct Head(String);
    impl Write for Head {
        fn write_str(&mut self, s: &str) -> std::fmt::Result {
            self.0.push_str(s);
            if self.0.len() > 120 {
                Err(std::fmt::Error)
            } else {
                Ok(())
            }
        }
    }
    let mut h = Head(String::new());
    let _ = write!(h, "{:?}", p);
    fn field(s: &str, name: &str) -> Option<u64> {
        let at = s.find(name)? + name.len();
        let digits: String = s[at..].chars().take_while(|c| c.is_ascii_digit()).collect();
        digits.parse().ok()
    }
    match (h.0.starts_with("MessageBodyParser {"), field(&h.0, "buf_idx: "), field(&h.0, "sig_idx: ")) {
        (true, Some(b), Some(s)) => format!("cur={},{}", b, s),
        _ => "cur=?".to_string(),
    }
}

thread_local! {
    /// the body copy the current parser borrows (freed when the next parser or body replaces it, so that the
    /// descriptors it holds do not pile up over a long run)
    static SNAPSHOT: Cell<*mut MarshalledMessageBody> = Cell::new(std::ptr::null_mut());
}
fn drop_parser() {
    // the parser is the only borrower of the snapshot: it goes first
    PARSER.with(|p| *p.borrow_mut() = None);
    let old = SNAPSHOT.with(|s| s.replace(std::ptr::null_mut()));
    if !old.is_null() {
        drop(unsafe { Box::from_raw(old) });
    }
}
fn snapshot_parser(bytes: Option<Vec<u8>>) {
    drop_parser();
    // a parser borrows the body, so it gets its own copy
    let copy = BODY.with(|b| {
        let b = b.borrow();
        let fds = b.body.get_fds().to_vec();
        let body = bytes.unwrap_or_else(|| b.get_buf().to_vec());
        // the same bytes in front as the body itself has: the parser reads at the body's buf_offset
        let mut buf = PREFIX.with(|p| p.borrow().clone());
        let n = buf.len();
        buf.extend_from_slice(&body);
        MarshalledMessageBody::from_parts(buf, n, fds, b.get_sig().to_owned(), b.body.byteorder())
    });
    let raw = Box::into_raw(Box::new(copy));
    SNAPSHOT.with(|s| s.set(raw));
    let snapshot: &'static MarshalledMessageBody = unsafe { &*raw };
    PARSER.with(|p| *p.borrow_mut() = Some(snapshot.parser()));
}

thread_local! {
    /// the bytes in front of the current body in its buffer (what BOFF / BRECV put there; empty when buf_offset is 0): a parser
    /// snapshot is made with the same bytes in front, so that the P* operations READ at the same buf_offset
    static PREFIX: RefCell<Vec<u8>> = RefCell::new(Vec::new());
}
fn set_prefix(p: Vec<u8>) {
    // from_parts normalises an offset that is not a multiple of 8 to 0
    PREFIX.with(|x| *x.borrow_mut() = if p.len() % 8 == 0 { p } else { Vec::new() });
}
fn rehome(m: &mut MarshalledMessage, n: usize) {
    set_prefix(vec![0xAAu8; n]);
    let mut buf = vec![0xAAu8; n];
    buf.extend_from_slice(m.get_buf());
    let fds = m.body.get_fds().to_vec();
    let body = MarshalledMessageBody::from_parts(buf, n, fds, m.get_sig().to_owned(), m.body.byteorder());
    m.body = body;
}
fn receive(m: &mut MarshalledMessage) -> bool {
    use rustbus::wire::unmarshal::{unmarshal_dynamic_header, unmarshal_header, unmarshal_next_message};
    let bo = m.body.byteorder();
    let mut outer = rustbus::message_builder::MessageBuilder::with_byteorder(bo).signal("io.verif.C15", "Moved", "/io/verif/c15").build();
    std::mem::swap(&mut outer.body, &mut m.body);
    let got = (|| {
        let mut wire = Vec::new();
        rustbus::wire::marshal::marshal(&outer, std::num::NonZeroU32::new(1).unwrap(), &mut wire).ok()?;
        wire.extend_from_slice(outer.get_buf());
        let mut cursor = rustbus::wire::unmarshal_context::Cursor::new(&wire);
        let header = unmarshal_header(&mut cursor).ok()?;
        let dynheader = unmarshal_dynamic_header(&header, &mut cursor).ok()?;
        let consumed = cursor.consumed();
        let head = wire[..wire.len() - outer.get_buf().len()].to_vec();
        unmarshal_next_message(&header, dynheader, wire, consumed, outer.body.get_fds().to_vec()).ok().map(|rx| (rx, head))
    })();
    match got {
        Some((rx, head)) if rx.get_sig() == outer.get_sig() && rx.get_buf() == outer.get_buf() => {
            // an empty body comes back with no buffer at all (offset 0)
            set_prefix(if rx.get_buf().is_empty() { Vec::new() } else { head });
            m.body = rx.body;
            true
        }
        _ => {
            std::mem::swap(&mut outer.body, &mut m.body);
            rehome(m, 112);
            false
        }
    }
}

fn eval(line: &str) -> String {
    let mut a = Args::new(line);
    let op = a.next();
    match op {
        "BNEW" => {
            let bo = rbverif::wirelib::bo(&mut a);
            BODY.with(|b| {
                let mut m = MarshalledMessage::new();
                m.body = MarshalledMessageBody::with_byteorder(bo);
                *b.borrow_mut() = m;
            });
            drop_parser();
            set_prefix(Vec::new());
            // descriptor tags count from 0 in every history
            rbverif::wirelib::reset_fd_tags();
            format!("ok {}", body_state())
        }
        "BRESET" => {
            BODY.with(|b| b.borrow_mut().body.reset());
            set_prefix(Vec::new());
            format!("ok {}", body_state())
        }
        // BOFF <n>: the same body (signature, bytes, descriptors, byte order) re-made by from_parts with n foreign bytes in
        // front of it (buf_offset = n).  BRECV: the same body as it comes out of the receive path: put into a signal, marshalled
        // (header + body in one buffer), decoded by unmarshal_header / unmarshal_dynamic_header / unmarshal_next_message; when
        // that is not possible (signature longer than 255, ..) as BOFF 112.  Neither changes what the body IS: the model ignores them.
        "BOFF" => {
            let n = a.num() as usize;
            BODY.with(|b| rehome(&mut b.borrow_mut(), n));
            format!("ok {} via=parts", body_state())
        }
        // BBEYOND <k> <r|x>: from_parts(the body's bytes, offset, same signature / descriptors) with an offset at or beyond the end
        // of the buffer: x: offset = length + k; r = 0..7: the smallest offset >= length + k that is r modulo 8.
        // What is left is a body without bytes (the model empties bbuf).
        "BBEYOND" => {
            let k = a.num() as usize;
            let r = a.next();
            BODY.with(|b| {
                let mut m = b.borrow_mut();
                let buf = m.get_buf().to_vec();
                let mut n = buf.len() + k;
                if let Ok(r) = r.parse::<usize>() {
                    while n % 8 != r % 8 {
                        n += 1;
                    }
                }
                let fds = m.body.get_fds().to_vec();
                let body = MarshalledMessageBody::from_parts(buf, n, fds, m.get_sig().to_owned(), m.body.byteorder());
                m.body = body;
            });
            set_prefix(Vec::new());
            format!("ok {} via=beyond", body_state())
        }
        "BRECV" => {
            let wire = BODY.with(|b| receive(&mut b.borrow_mut()));
            format!("ok {} via={}", body_state(), if wire { "wire" } else { "parts" })
        }
        "BPUSH" | "BPUSHV" | "BPUSHVI" | "BPUSHN" | "PGET" | "PGETN" => {
            let ty = a.next();
            rbverif::catalogue::dispatch(ty, op, &mut a)
        }
        "BPUSHM" => {
            let k = a.num() as usize;
            let mut slots = Vec::new();
            let mut idx = Vec::new();
            for i in 0..k {
                let name = a.next();
                let ti = match mix_index(name) {
                    Some(ti) if (1..=5).contains(&k) => ti,
                    _ => return "NOTYPE".to_string(),
                };
                let f = MIX.with(|m| m[ti].from_tok);
                slots.push(SlotM { idx: i, v: f(&mut a) });
                idx.push(ti);
            }
            let r = BODY.with(|b| push_mixed(&mut b.borrow_mut().body, slots, idx));
            format!("{} {}", if r.is_ok() { "ok" } else { "err" }, body_state())
        }
        "BOLD" => {
            let p = wire_param::param_from(&mut a);
            let r = BODY.with(|b| b.borrow_mut().body.push_old_param(&p));
            format!("{} {}", if r.is_ok() { "ok" } else { "err" }, body_state())
        }
        "BOLDS" => {
            let k = a.num();
            let ps: Vec<_> = (0..k).map(|_| wire_param::param_from(&mut a)).collect();
            let r = BODY.with(|b| b.borrow_mut().body.push_old_params(&ps));
            format!("{} {}", if r.is_ok() { "ok" } else { "err" }, body_state())
        }
        // the type names this binary can dispatch (the check uses only these, so a catalogue that is being regenerated
        // next to it costs coverage, never a verdict)
        "TYPES" => format!("catalogue={} mix={}", rbverif::catalogue::CATALOGUE.join(","), MIX.with(|m| m.iter().map(|t| t.name).collect::<Vec<_>>().join(","))),
        // BVALID: body.validate() of the body where it lies (at its buf_offset)
        "BVALID" => BODY.with(|b| format!("valid={}", b.borrow().body.validate().is_ok())),
        "PNEW" => {
            snapshot_parser(None);
            format!("ok {} at={}", parser_state(), PREFIX.with(|p| p.borrow().len()))
        }
        "PNEWX" => {
            snapshot_parser(Some(rbverif::unhex(a.next())));
            format!("ok {} at={}", parser_state(), PREFIX.with(|p| p.borrow().len()))
        }
        "PCUR" => PARSER.with(|p| match p.borrow().as_ref() {
            Some(p) => cursor_of(p),
            None => "noparser".to_string(),
        }),
        "PGETM" => {
            let k = a.num() as usize;
            let names: Vec<&str> = (0..k).map(|_| a.next()).collect();
            if k < 1 || k > 5 || names.iter().any(|n| mix_index(n).is_none()) {
                return "NOTYPE".to_string();
            }
            let res = PARSER.with(|p| {
                let mut p = p.borrow_mut();
                match get_mixed(p.as_mut().unwrap(), &names) {
                    Ok(s) => format!("ok {}", s),
                    Err(e) => fail_word(&e).to_string(),
                }
            });
            format!("{} {}", res, parser_state())
        }
        "PGETP" => {
            let res = PARSER.with(|p| {
                let mut p = p.borrow_mut();
                let p = p.as_mut().unwrap();
                let r = match p.get_param() {
                    Ok(x) => {
                        let mut out = Vec::new();
                        wire_param::param_tok(&x, &mut out, true);
                        format!("ok {}", out.join(" "))
                    }
                    Err(e) => fail_word(&e).to_string(),
                };
                r
            });
            format!("{} {}", res, parser_state())
        }
        _ => "?".to_string(),
    }
}

fn main() {
    // descriptors: values with UnixFd leaves dup(2); give the run the whole hard limit (best effort)
    if let Ok((_, hard)) = nix::sys::resource::getrlimit(nix::sys::resource::Resource::RLIMIT_NOFILE) {
        let _ = nix::sys::resource::setrlimit(nix::sys::resource::Resource::RLIMIT_NOFILE, hard, hard);
    }
    // every `h` leaf gets a file of its own and a tag; body_state lists the tags of get_fds(), decoded descriptors print theirs
    rbverif::wirelib::FD_DISTINCT.store(true, std::sync::atomic::Ordering::Relaxed);
    rbverif::line_loop(|line| {
        // a panic inside the crate is an outcome of the operation ("panic" + the state it left behind), not the end of the run
        match std::panic::catch_unwind(|| eval(line)) {
            Ok(s) => s,
            Err(_) => {
                let op = line.split(' ').next().unwrap_or("");
                if op.starts_with('B') {
                    format!("panic {}", std::panic::catch_unwind(body_state).unwrap_or_else(|_| "state=?".into()))
                } else {
                    format!("panic {}", std::panic::catch_unwind(parser_state).unwrap_or_else(|_| "state=?".into()))
                }
            }
        }
    });
}
