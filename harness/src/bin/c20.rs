//! C20 harness: the real handle_peer_message / filter_peer, observed at the peer of a scripted
//! connection.  Result lines start with "R " (the crate prints a freshly created id on stdout).
//!
//!   p <iface|-> <member|-> <typ c|s|r|e|i> <serial> <sender|-> <reply serial of the incoming message|-> <flags> <destination|-> <body string|-> [<object path|-> <num_fds|-> <body kind -|u|2>]
//!        handle_peer_message on a message with that header, then a marker signal; everything
//!        the peer receives before the marker is what the call wrote.  The three optional fields: the
//!        object path ("-" = NO path field; default /x), the num_fds header field, and the shape of the
//!        body (- = the body string alone or an empty body, u = one u32, 2 = a string and a u32)
//!   u <12 bytes hex> <12 bytes hex>
//!        (private mount namespace only) first draw into the /dev/urandom fixture, stored id
//!        removed, GetMachineId; second draw into the fixture, GetMachineId again
//!   g    (private mount namespace only) GetMachineId twice on whatever id file an EARLIER process left in
//!        the directory mounted over /tmp; nothing is removed or planted by the harness
//!   e <12 bytes hex> <12 bytes hex> <12 bytes hex>
//!        (private mount namespace only) three GetMachineId calls in this process, each with another
//!        draw in the fixture; nothing is removed, no file path is assumed: only the ids returned count.
//!        Used with the process environment (TMPDIR, HOME, XDG_RUNTIME_DIR) varied by the check.
//!   n <12 bytes hex> <12 bytes hex> <12 bytes hex>
//!        (namespace with a small tmpfs over /tmp) /tmp is filled until nothing more can be written, then
//!        GetMachineId (storing the id must fail); the filler is removed; GetMachineId twice more
//!   race <processes> <rounds>
//!        (namespace, REAL /dev/urandom) per round: /tmp is emptied, <processes> child processes of this
//!        binary are started, each sets up its connection and waits; all are released together and
//!        call GetMachineId three times; prints one line per round with every id returned
//!   f    fallback without a namespace: a real draw; any existing /tmp/dbus_machine_uuid is saved
//!        and restored
//!
//! GetMachineId is refused unless VERIF_C20_NS=1 (set by the wrapper that created the namespace)
//! or the line is `f`, so the sandbox's real /tmp/dbus_machine_uuid is never touched by accident.
use rbverif::{hex, unhex};
use rustbus::connection::ll_conn::DuplexConn;
use rustbus::message_builder::{DynamicHeader, MarshalledMessage, MarshalledMessageBody, MessageBuilder, MessageType};
use rustbus::peer::{filter_peer, handle_peer_message};
use std::io::{BufRead, Read};
use std::num::NonZeroU32;
use std::os::unix::net::UnixStream;

const ID_PATH: &str = "/tmp/dbus_machine_uuid";

// ------------------------------------------------------------------ hand-written decoder (little endian)
struct Seen {
    typ: u8,
    reply_serial: Option<u32>,
    destination: Option<Vec<u8>>,
    codes: Vec<u8>,
    signature: Vec<u8>,
    body: Vec<u8>,
}

fn get_u32(b: &[u8], at: usize) -> Option<u32> {
    b.get(at..at + 4).map(|x| u32::from_le_bytes([x[0], x[1], x[2], x[3]]))
}

enum Dec {
    Msgs(Vec<Seen>),
    Incomplete,
    Bad,
}

fn decode_all(bytes: &[u8]) -> Dec {
    let mut out = Vec::new();
    let mut pos = 0;
    while pos < bytes.len() {
        let b = &bytes[pos..];
        if b.len() < 16 {
            return Dec::Incomplete;
        }
        if b[0] != b'l' || b[3] != 1 {
            return Dec::Bad;
        }
        let body_len = get_u32(b, 4).unwrap() as usize;
        let flen = get_u32(b, 12).unwrap() as usize;
        let fields_end = 16 + flen;
        let body_start = (fields_end + 7) / 8 * 8;
        if b.len() < body_start + body_len {
            return Dec::Incomplete;
        }
        let mut seen = Seen {
            typ: b[1],
            reply_serial: None,
            destination: None,
            codes: Vec::new(),
            signature: Vec::new(),
            body: b[body_start..body_start + body_len].to_vec(),
        };
        let mut p = 16;
        while p < fields_end {
            p = (p + 7) / 8 * 8;
            if p >= fields_end {
                break;
            }
            let code = b[p];
            let siglen = b[p + 1] as usize;
            let sig = b[p + 2..p + 2 + siglen].to_vec();
            p += 2 + siglen + 1;
            seen.codes.push(code);
            match sig.as_slice() {
                b"s" | b"o" => {
                    p = (p + 3) / 4 * 4;
                    let l = get_u32(b, p).unwrap() as usize;
                    let s = b[p + 4..p + 4 + l].to_vec();
                    p += 4 + l + 1;
                    if code == 6 {
                        seen.destination = Some(s);
                    }
                }
                b"u" => {
                    p = (p + 3) / 4 * 4;
                    let v = get_u32(b, p).unwrap();
                    p += 4;
                    if code == 5 {
                        seen.reply_serial = Some(v);
                    }
                }
                b"g" => {
                    let l = b[p] as usize;
                    let s = b[p + 1..p + 1 + l].to_vec();
                    p += 1 + l + 1;
                    if code == 8 {
                        seen.signature = s;
                    }
                }
                _ => return Dec::Bad,
            }
        }
        seen.codes.sort();
        out.push(seen);
        pos += body_start + body_len;
    }
    Dec::Msgs(out)
}

fn show_seen(s: &Seen) -> String {
    let body = if s.signature == b"s" && s.body.len() >= 5 {
        let l = get_u32(&s.body, 0).unwrap() as usize;
        if s.body.len() == 4 + l + 1 {
            format!("s:{}", hex(&s.body[4..4 + l]))
        } else {
            format!("raw:{}", hex(&s.body))
        }
    } else if s.body.is_empty() {
        "-".to_string()
    } else {
        format!("raw:{}", hex(&s.body))
    };
    format!(
        "{};{};{};{};{}",
        s.typ,
        s.reply_serial.map(|v| v.to_string()).unwrap_or_else(|| "-".into()),
        s.destination.as_ref().map(|d| hex(d)).unwrap_or_else(|| "-".into()),
        s.codes.iter().map(|c| c.to_string()).collect::<Vec<_>>().join("."),
        body
    )
}

// ------------------------------------------------------------------ one observed call
struct Sess {
    conn: DuplexConn,
    peer: UnixStream,
}

fn opt_string(s: &str) -> Option<String> {
    if s == "-" {
        None
    } else {
        Some(String::from_utf8(unhex(s)).expect("harness input must be UTF-8"))
    }
}

fn make_msg(iface: &str, member: &str, typ: &str, serial: u32, sender: &str, rs: &str) -> MarshalledMessage {
    make_msg_full(iface, member, typ, serial, sender, rs, 0, "-", "-", &hex(b"/x"), "-", "-")
}

#[allow(clippy::too_many_arguments)]
fn make_msg_full(
    iface: &str, member: &str, typ: &str, serial: u32, sender: &str, rs: &str, flags: u8, dest: &str, body: &str, obj: &str, fds: &str, bk: &str,
) -> MarshalledMessage {
    let mut b = MarshalledMessageBody::new();
    match bk {
        "u" => b.push_param(42u32).unwrap(),
        "2" => {
            b.push_param(opt_string(body).unwrap_or_else(|| "a".to_string()).as_str()).unwrap();
            b.push_param(7u32).unwrap();
        }
        _ => {
            if let Some(text) = opt_string(body) {
                b.push_param(text.as_str()).unwrap();
            }
        }
    }
    MarshalledMessage {
        typ: match typ {
            "c" => MessageType::Call,
            "s" => MessageType::Signal,
            "r" => MessageType::Reply,
            "i" => MessageType::Invalid,
            _ => MessageType::Error,
        },
        dynheader: DynamicHeader {
            interface: opt_string(iface),
            member: opt_string(member),
            object: opt_string(obj),
            num_fds: if fds == "-" { None } else { Some(fds.parse().unwrap()) },
            serial: NonZeroU32::new(serial),
            sender: opt_string(sender),
            destination: opt_string(dest),
            response_serial: if rs == "-" { None } else { NonZeroU32::new(rs.parse().unwrap()) },
            ..Default::default()
        },
        flags,
        body: b,
    }
}

impl Sess {
    fn new() -> Sess {
        let (conn, peer) = rbverif::conn::connect_pair(false);
        peer.set_read_timeout(Some(std::time::Duration::from_secs(20))).unwrap(); // hang detector only
        Sess { conn, peer }
    }

    /// handle_peer_message(msg), then a marker; returns (handled, what the peer received before the marker)
    fn observe(&mut self, msg: &MarshalledMessage) -> (String, String) {
        let conn = &mut self.conn;
        let handled = match std::panic::catch_unwind(std::panic::AssertUnwindSafe(|| handle_peer_message(msg, conn))) {
            Ok(Ok(true)) => "true",
            Ok(Ok(false)) => "false",
            Ok(Err(_)) => "err",
            Err(_) => "panic",
        }
        .to_string();
        let marker = MessageBuilder::new().signal("verif.Marker", "Marker", "/marker").build();
        self.conn.send.send_message_write_all(&marker).unwrap();
        let mut bytes = Vec::new();
        let mut chunk = [0u8; 4096];
        let written = loop {
            match decode_all(&bytes) {
                Dec::Msgs(v) if v.last().map(|m| m.typ == 4).unwrap_or(false) => {
                    let before = &v[..v.len() - 1];
                    break if before.is_empty() {
                        "-".to_string()
                    } else {
                        before.iter().map(show_seen).collect::<Vec<_>>().join("|")
                    };
                }
                Dec::Bad => break format!("undecodable:{}", hex(&bytes)),
                _ => {}
            }
            match self.peer.read(&mut chunk) {
                Ok(0) => break format!("eof:{}", hex(&bytes)),
                Ok(n) => bytes.extend_from_slice(&chunk[..n]),
                Err(e) if e.kind() == std::io::ErrorKind::Interrupted => continue,
                Err(_) => break format!("hang:{}", hex(&bytes)),
            }
        };
        (handled, written)
    }
}

fn read_id_file() -> String {
    match std::fs::read(ID_PATH) {
        Ok(b) => format!("{}", hex(&b)),
        Err(_) => "none".to_string(),
    }
}

fn urandom12() -> Vec<u8> {
    // what create_and_store_machine_uuid would read now (the fixture may be shorter: then it would panic)
    let mut b = Vec::new();
    if let Ok(f) = std::fs::File::open("/dev/urandom") {
        let _ = f.take(12).read_to_end(&mut b);
    }
    b
}

fn now_secs() -> u64 {
    std::time::SystemTime::now().duration_since(std::time::UNIX_EPOCH).unwrap().as_secs()
}

fn get_id_msg() -> MarshalledMessage {
    make_msg(&hex(b"org.freedesktop.DBus.Peer"), &hex(b"GetMachineId"), "c", 77, &hex(b":1.9"), "-")
}

fn main() {
    std::panic::set_hook(Box::new(|i| eprintln!("panic: {}", i)));
    let in_ns = std::env::var("VERIF_C20_NS").map(|v| v == "1").unwrap_or(false);
    if std::env::args().nth(1).as_deref() == Some("racechild") {
        if !in_ns {
            return;
        }
        // connection first, then tell the parent we are ready and wait for the common start
        let mut sess = Sess::new();
        {
            use std::io::Write;
            let mut o = std::io::stdout();
            o.write_all(b"r").unwrap();
            o.flush().unwrap();
        }
        let mut go = [0u8; 1];
        let _ = std::io::stdin().read_exact(&mut go);
        for _ in 0..3 {
            let (h, r) = sess.observe(&get_id_msg());
            println!("\nC {};{}", h, r.replace(';', "/"));
        }
        rbverif::conn::cleanup_scratch();
        return;
    }
    let fixture = std::env::var("VERIF_C20_FIXTURE").ok();
    let stdin = std::io::stdin();
    let mut sess = Sess::new();
    for line in stdin.lock().lines() {
        let line = line.unwrap();
        let parts: Vec<&str> = line.split(' ').collect();
        match parts.as_slice() {
            ["p", iface, member, typ, serial, sender, rs, flags, dest, body, ..] if parts.len() == 10 || parts.len() == 13 => {
                let default_obj = hex(b"/x");
                let (obj, fds, bk) = if parts.len() == 13 { (parts[10], parts[11], parts[12]) } else { (default_obj.as_str(), "-", "-") };
                let is_get_id = *member == hex(b"GetMachineId");
                if is_get_id && !in_ns {
                    println!("R refused");
                    continue;
                }
                let msg = make_msg_full(iface, member, typ, serial.parse().unwrap(), sender, rs, flags.parse().unwrap(), dest, body, obj, fds, bk);
                let filter = filter_peer(&msg.dynheader);
                let pre = if in_ns { read_id_file() } else { "unobserved".to_string() };
                let draw = if in_ns { hex(&urandom12()) } else { "unobserved".to_string() };
                let (handled, written) = sess.observe(&msg);
                let post = if in_ns { read_id_file() } else { "unobserved".to_string() };
                println!(
                    "R handled={} filter={} written={} pre={} post={} draw={}",
                    handled, filter, written, pre, post, draw
                );
            }
            ["u", d1, d2] => {
                let fx = match (&fixture, in_ns) {
                    (Some(f), true) => f.clone(),
                    _ => {
                        println!("R nofixture");
                        continue;
                    }
                };
                let b1 = unhex(d1);
                std::fs::write(&fx, &b1).unwrap();
                if urandom12() != b1 {
                    println!("R nofixture");
                    continue;
                }
                let _ = std::fs::remove_file(ID_PATH);
                let t0 = now_secs();
                let (h1, r1) = sess.observe(&get_id_msg());
                let t1 = now_secs();
                let file1 = read_id_file();
                std::fs::write(&fx, unhex(d2)).unwrap();
                let (h2, r2) = sess.observe(&get_id_msg());
                let file2 = read_id_file();
                println!(
                    "R handled1={} r1={} file1={} handled2={} r2={} file2={} t0={} t1={}",
                    h1, r1, file1, h2, r2, file2, t0, t1
                );
            }
            ["g"] => {
                if !in_ns {
                    println!("R refused");
                    continue;
                }
                let pre = read_id_file();
                let draw = hex(&urandom12());
                let (h1, r1) = sess.observe(&get_id_msg());
                let file1 = read_id_file();
                let (h2, r2) = sess.observe(&get_id_msg());
                let file2 = read_id_file();
                println!(
                    "R pre={} draw={} handled1={} r1={} file1={} handled2={} r2={} file2={}",
                    pre, draw, h1, r1, file1, h2, r2, file2
                );
            }
            ["e", d1, d2, d3] => {
                let fx = match (&fixture, in_ns) {
                    (Some(f), true) => f.clone(),
                    _ => {
                        println!("R nofixture");
                        continue;
                    }
                };
                let mut out = String::new();
                for (i, d) in [d1, d2, d3].iter().enumerate() {
                    std::fs::write(&fx, unhex(d)).unwrap();
                    let (h, r) = sess.observe(&get_id_msg());
                    out.push_str(&format!(" handled{}={} r{}={}", i + 1, h, i + 1, r));
                }
                println!("R{} fixed_path={}", out, read_id_file());
            }
            ["n", d1, d2, d3] => {
                let fx = match (&fixture, in_ns) {
                    (Some(f), true) => f.clone(),
                    _ => {
                        println!("R nofixture");
                        continue;
                    }
                };
                let _ = std::fs::remove_file(ID_PATH);
                // fill /tmp: big chunks first, then single bytes, until nothing more can be written
                let filler = "/tmp/verif_filler";
                {
                    use std::io::Write;
                    let mut f = std::fs::File::create(filler).unwrap();
                    for chunk in [4096usize, 512, 64, 1] {
                        let buf = vec![0x55u8; chunk];
                        while f.write_all(&buf).is_ok() {}
                    }
                }
                // is it really full? (a 32-byte file cannot be written)
                let full = std::fs::write("/tmp/verif_probe", [0x41u8; 32]).is_err();
                let _ = std::fs::remove_file("/tmp/verif_probe");
                std::fs::write(&fx, unhex(d1)).unwrap();
                let (h1, r1) = sess.observe(&get_id_msg());
                let file1 = read_id_file();
                let _ = std::fs::remove_file(filler);
                std::fs::write(&fx, unhex(d2)).unwrap();
                let (h2, r2) = sess.observe(&get_id_msg());
                std::fs::write(&fx, unhex(d3)).unwrap();
                let (h3, r3) = sess.observe(&get_id_msg());
                let file3 = read_id_file();
                let leftovers = std::fs::read_dir("/tmp").map(|d| d.count()).unwrap_or(0);
                println!(
                    "R full={} handled1={} r1={} file1={} handled2={} r2={} handled3={} r3={} file3={} files_in_tmp={}",
                    full, h1, r1, file1, h2, r2, h3, r3, file3, leftovers
                );
            }
            ["race", nproc, rounds] => {
                if !in_ns {
                    println!("R refused");
                    continue;
                }
                let nproc: usize = nproc.parse().unwrap();
                let rounds: usize = rounds.parse().unwrap();
                let me = std::env::current_exe().unwrap();
                for _ in 0..rounds {
                    if let Ok(dir) = std::fs::read_dir("/tmp") {
                        for e in dir.flatten() {
                            let _ = std::fs::remove_file(e.path());
                        }
                    }
                    let mut kids = Vec::new();
                    for _ in 0..nproc {
                        let mut c = std::process::Command::new(&me)
                            .arg("racechild")
                            .stdin(std::process::Stdio::piped())
                            .stdout(std::process::Stdio::piped())
                            .spawn()
                            .unwrap();
                        // wait until the child has its connection set up
                        let mut ready = [0u8; 1];
                        c.stdout.as_mut().unwrap().read_exact(&mut ready).unwrap();
                        kids.push(c);
                    }
                    for c in kids.iter_mut() {
                        use std::io::Write;
                        let _ = c.stdin.as_mut().unwrap().write_all(b"g");
                    }
                    let mut ids = Vec::new();
                    for mut c in kids {
                        drop(c.stdin.take());
                        let mut out = String::new();
                        let _ = c.stdout.as_mut().unwrap().read_to_string(&mut out);
                        let _ = c.wait();
                        ids.push(out.lines().filter(|l| l.starts_with("C ")).map(|l| l[2..].to_string()).collect::<Vec<_>>().join("+"));
                    }
                    println!("R round={}", ids.join(","));
                }
            }
            ["f"] => {
                let saved = std::fs::read(ID_PATH).ok();
                let _ = std::fs::remove_file(ID_PATH);
                let t0 = now_secs();
                let (h1, r1) = sess.observe(&get_id_msg());
                let t1 = now_secs();
                let file1 = read_id_file();
                let (h2, r2) = sess.observe(&get_id_msg());
                let file2 = read_id_file();
                match saved {
                    Some(b) => std::fs::write(ID_PATH, b).unwrap(),
                    None => {
                        let _ = std::fs::remove_file(ID_PATH);
                    }
                }
                println!(
                    "R handled1={} r1={} file1={} handled2={} r2={} file2={} t0={} t1={}",
                    h1, r1, file1, h2, r2, file2, t0, t1
                );
            }
            _ => println!("R ?"),
        }
    }
    rbverif::conn::cleanup_scratch();
}
