//! C08 harness: the real name validators, ObjectPath::new and the header marshaller.
//! Same line protocol and output format as ocaml/c08/driver.ml (see there).
use rbverif::{hex, unhex};
use rustbus::message_builder::{MarshalledMessage, MarshalledMessageBody, MessageBuilder};
use rustbus::params::validation::{
    validate_busname, validate_errorname, validate_interface, validate_membername,
    validate_object_path,
};
use rustbus::params::{Base, Param};
use rustbus::wire::marshal::marshal;
use rustbus::wire::ObjectPath;
use rustbus::ByteOrder;
use std::io::{BufRead, Write};
use std::num::NonZeroU32;
use std::panic::{catch_unwind, AssertUnwindSafe};

fn st<T, E>(r: &std::thread::Result<Result<T, E>>) -> &'static str {
    match r {
        Ok(Ok(_)) => "ok",
        Ok(Err(_)) => "err",
        Err(_) => "panic",
    }
}

fn rd_u32(bo: u8, b: &[u8]) -> usize {
    let a = [b[0], b[1], b[2], b[3]];
    (if bo == b'l' {
        u32::from_le_bytes(a)
    } else {
        u32::from_be_bytes(a)
    }) as usize
}

/// Independent reader of the header-field array of a marshalled header: the (code, string) of
/// every field whose signature is "s" or "o". None when the bytes are not a well-formed header.
fn name_fields(buf: &[u8]) -> Option<Vec<(u8, Vec<u8>)>> {
    if buf.len() < 16 || (buf[0] != b'l' && buf[0] != b'B') {
        return None;
    }
    let bo = buf[0];
    let flen = rd_u32(bo, &buf[12..16]);
    let end = 16 + flen;
    if end > buf.len() {
        return None;
    }
    let mut pos = 16;
    let mut out = Vec::new();
    while pos < end {
        pos = (pos + 7) & !7;
        if pos >= end {
            break;
        }
        if pos + 2 > end {
            return None;
        }
        let code = buf[pos];
        let slen = buf[pos + 1] as usize;
        if pos + 2 + slen + 1 > end {
            return None;
        }
        let sig = &buf[pos + 2..pos + 2 + slen];
        if buf[pos + 2 + slen] != 0 {
            return None;
        }
        pos += 2 + slen + 1;
        match sig {
            b"s" | b"o" => {
                pos = (pos + 3) & !3;
                if pos + 4 > end {
                    return None;
                }
                let n = rd_u32(bo, &buf[pos..pos + 4]);
                pos += 4;
                if pos + n + 1 > end || buf[pos + n] != 0 {
                    return None;
                }
                out.push((code, buf[pos..pos + n].to_vec()));
                pos += n + 1;
            }
            b"u" => {
                pos = (pos + 3) & !3;
                if pos + 4 > end {
                    return None;
                }
                pos += 4;
            }
            b"g" => {
                if pos + 1 > end {
                    return None;
                }
                let n = buf[pos] as usize;
                pos += 1 + n + 1;
                if pos > end {
                    return None;
                }
            }
            _ => return None,
        }
    }
    Some(out)
}

const DEFAULTS: [&str; 6] = ["/x", "a.b", "m", "e.f", "c.d", ":1.2"];
/// name fields each message type requires (positions: 0 path, 1 interface, 2 member, 3 error name,
/// 4 destination, 5 sender): Call, Signal, Reply, Error
const REQUIRED: [&[usize]; 4] = [&[0, 2], &[0, 1, 2], &[], &[3]];
const CODES: [u8; 6] = [1, 2, 3, 4, 6, 7];

/// marshal a message of type `typ` (0 Call, 1 Signal, 2 Reply, 3 Error) that carries `s` in header
/// position k, the fields the type requires, and (full) all other name fields, with valid defaults
fn wire1(k: usize, s: &str, bo: ByteOrder, typ: usize, full: bool) -> char {
    let r = catch_unwind(AssertUnwindSafe(|| {
        let present = |j: usize| full || j == k || REQUIRED[typ].contains(&j);
        let val = |j: usize| if j == k { s } else { DEFAULTS[j] };
        // the public constructors first (they carry the strings into the header) ...
        let mut msg: MarshalledMessage = match typ {
            0 => {
                let mut b = MessageBuilder::with_byteorder(bo).call(val(2)).on(val(0));
                if present(1) {
                    b = b.with_interface(val(1));
                }
                if present(4) {
                    b = b.at(val(4));
                }
                b.build()
            }
            1 => {
                let mut b = MessageBuilder::with_byteorder(bo).signal(val(1), val(2), val(0));
                if present(4) {
                    b = b.to(val(4));
                }
                b.build()
            }
            _ => {
                let orig = rustbus::message_builder::DynamicHeader {
                    sender: if present(4) { Some(val(4).to_string()) } else { None },
                    serial: NonZeroU32::new(7),
                    ..Default::default()
                };
                if typ == 2 {
                    orig.make_response()
                } else {
                    orig.make_error_response(val(3), None)
                }
            }
        };
        // ... then the remaining fields directly
        let set = |j: usize| if present(j) { Some(val(j).to_string()) } else { None };
        let dh = &mut msg.dynheader;
        if dh.object.is_none() {
            dh.object = set(0);
        }
        if dh.interface.is_none() {
            dh.interface = set(1);
        }
        if dh.member.is_none() {
            dh.member = set(2);
        }
        if dh.error_name.is_none() {
            dh.error_name = set(3);
        }
        if dh.destination.is_none() {
            dh.destination = set(4);
        }
        if dh.sender.is_none() {
            dh.sender = set(5);
        }
        let fields = [&dh.object, &dh.interface, &dh.member, &dh.error_name, &dh.destination, &dh.sender];
        let mut expected: Vec<(u8, Vec<u8>)> = Vec::new();
        for j in 0..6 {
            // the message must carry exactly the intended subset
            if fields[j].as_deref() != (if present(j) { Some(val(j)) } else { None }) {
                return 'x';
            }
            if let Some(v) = fields[j] {
                expected.push((CODES[j], v.as_bytes().to_vec()));
            }
        }
        let mut buf = Vec::new();
        match marshal(&msg, NonZeroU32::new(1).unwrap(), &mut buf) {
            Err(_) => 'e',
            Ok(()) => match name_fields(&buf) {
                Some(mut got) => {
                    got.sort();
                    expected.sort();
                    if got == expected && buf[1] == [1u8, 4, 2, 3][typ] {
                        'o'
                    } else {
                        'x'
                    }
                }
                None => 'x',
            },
        }
    }));
    r.unwrap_or('p')
}

/// (summary letter, detail): the letter common to all 8 configurations, or 'm' and the 8 letters
fn wire(k: usize, s: &str, bo: ByteOrder) -> (char, Option<String>) {
    let d: String = (0..8).map(|c| wire1(k, s, bo, c / 2, c % 2 == 1)).collect();
    let first = d.chars().next().unwrap();
    if d.chars().all(|c| c == first) {
        (first, None)
    } else {
        ('m', Some(format!("{}={}", k, d)))
    }
}

/// push a wrapper with the typed API and read the value back from the body bytes
fn typed_marshal<S: AsRef<str>>(p: &ObjectPath<S>, s: &str) -> char {
    let mut body = MarshalledMessageBody::with_byteorder(ByteOrder::LittleEndian);
    match body.push_param(p) {
        Err(_) => 'n',
        Ok(()) => {
            let mut msg = MarshalledMessage::with_byteorder(ByteOrder::LittleEndian);
            msg.body = body;
            let b = msg.get_buf();
            let ok = msg.get_sig() == "o"
                && b.len() == 4 + s.len() + 1
                && rd_u32(b'l', &b[0..4]) == s.len()
                && &b[4..4 + s.len()] == s.as_bytes()
                && b[4 + s.len()] == 0;
            if ok {
                'o'
            } else {
                'x'
            }
        }
    }
}

/// every public way of making an ObjectPath wrapper, followed by the typed Marshal impl:
/// 0 ObjectPath::<String>::new, 1 TryFrom<&str>, 2 TryFrom<String>, 3 new(&str) and its to_owned(),
/// 4 / 5 impl Unmarshal for ObjectPath<&str> / ObjectPath<String> on body bytes holding the string
fn ctor(which: usize, s: &str) -> char {
    use std::convert::TryFrom;
    let r = catch_unwind(AssertUnwindSafe(|| match which {
        0 => match ObjectPath::<String>::new(s.to_string()) {
            Err(_) => 'e',
            Ok(p) if p.as_ref() != s => 'x',
            Ok(p) => typed_marshal(&p, s),
        },
        1 => match ObjectPath::<&str>::try_from(s) {
            Err(_) => 'e',
            Ok(p) if p.as_ref() != s => 'x',
            Ok(p) => typed_marshal(&p, s),
        },
        2 => match ObjectPath::<String>::try_from(s.to_string()) {
            Err(_) => 'e',
            Ok(p) if p.as_ref() != s => 'x',
            Ok(p) => typed_marshal(&p, s),
        },
        4 => {
            let body = body_with_path(s);
            let r = body.parser().get::<ObjectPath<&str>>();
            match r {
                Err(_) => 'e',
                Ok(p) if p.as_ref() != s => 'x',
                Ok(p) => typed_marshal(&p, s),
            }
        }
        5 => {
            let body = body_with_path(s);
            let r = body.parser().get::<ObjectPath<String>>();
            match r {
                Err(_) => 'e',
                Ok(p) if p.as_ref() != s => 'x',
                Ok(p) => typed_marshal(&p, s),
            }
        }
        _ => match ObjectPath::new(s) {
            Err(_) => 'e',
            Ok(p) if p.as_ref() != s => 'x',
            Ok(p) => {
                let o = p.to_owned();
                let (a, b) = (typed_marshal(&p, s), typed_marshal(&o, s));
                if o.as_ref() == s && a == b {
                    a
                } else {
                    'x'
                }
            }
        },
    }));
    r.unwrap_or('p')
}

fn le_str(s: &str) -> Vec<u8> {
    let mut v = (s.len() as u32).to_le_bytes().to_vec();
    v.extend_from_slice(s.as_bytes());
    v.push(0);
    v
}

/// the string as an object path pushed into a message body with the Param API, by six routes:
/// 0 Base::ObjectPath(String), 1 Base::ObjectPathRef(&str), 2 array element, 3 variant value,
/// 4 dict key, 5 struct field. o = Ok and the body bytes are exactly the encoding of that value,
/// e = Err, x = Ok with other bytes/signature
fn body_path(route: usize, s: &str) -> char {
    use rustbus::params::{Array, Container, Dict, Variant};
    use rustbus::signature;
    let r = catch_unwind(AssertUnwindSafe(|| {
        let o = signature::Type::Base(signature::Base::ObjectPath);
        let owned = || Param::Base(Base::ObjectPath(s.to_string()));
        let byref = || Param::Base(Base::ObjectPathRef(s));
        let enc = le_str(s);
        let (param, sig, bytes): (Param, &str, Vec<u8>) = match route {
            0 => (owned(), "o", enc.clone()),
            1 => (byref(), "o", enc.clone()),
            2 => {
                let mut b = (enc.len() as u32).to_le_bytes().to_vec();
                b.extend_from_slice(&enc);
                (
                    Param::Container(Container::Array(Array {
                        element_sig: o.clone(),
                        values: vec![byref()],
                    })),
                    "ao",
                    b,
                )
            }
            3 => {
                let mut b = vec![1, b'o', 0, 0];
                b.extend_from_slice(&enc);
                (
                    Param::Container(Container::Variant(Box::new(Variant {
                        sig: o.clone(),
                        value: owned(),
                    }))),
                    "v",
                    b,
                )
            }
            4 => {
                let mut map = std::collections::HashMap::new();
                map.insert(Base::ObjectPathRef(s), Param::Base(Base::Byte(9)));
                let mut b = ((enc.len() + 1) as u32).to_le_bytes().to_vec();
                b.extend_from_slice(&[0, 0, 0, 0]);
                b.extend_from_slice(&enc);
                b.push(9);
                (
                    Param::Container(Container::Dict(Dict {
                        key_sig: signature::Base::ObjectPath,
                        value_sig: signature::Type::Base(signature::Base::Byte),
                        map,
                    })),
                    "a{oy}",
                    b,
                )
            }
            _ => (
                Param::Container(Container::Struct(vec![owned()])),
                "(o)",
                enc.clone(),
            ),
        };
        let mut body = MarshalledMessageBody::with_byteorder(ByteOrder::LittleEndian);
        match body.push_old_param(&param) {
            Err(_) => 'e',
            Ok(()) => {
                let mut msg = MarshalledMessage::with_byteorder(ByteOrder::LittleEndian);
                msg.body = body;
                if msg.get_sig() == sig && msg.get_buf() == &bytes[..] {
                    'o'
                } else {
                    'x'
                }
            }
        }
    }));
    r.unwrap_or('p')
}

/// a body that holds the string with signature "o", as it arrives from a peer
fn body_with_path(s: &str) -> MarshalledMessageBody {
    MarshalledMessageBody::from_parts(le_str(s), 0, Vec::new(), "o".to_string(), ByteOrder::LittleEndian)
}

/// receive side of a body object path: 0 parser().get_param(), 1 MarshalledMessageBody::validate()
fn recv_path(which: usize, s: &str) -> char {
    let r = catch_unwind(AssertUnwindSafe(|| {
        let body = body_with_path(s);
        if which == 0 {
            match body.parser().get_param() {
                Err(_) => 'e',
                Ok(Param::Base(Base::ObjectPath(p))) if p == s => 'o',
                Ok(_) => 'x',
            }
        } else {
            match body.validate() {
                Err(_) => 'e',
                Ok(()) => 'o',
            }
        }
    }));
    r.unwrap_or('p')
}

/// a little-endian body that holds the string as an object path NESTED in a container, as it arrives
/// from a peer (hand-encoded, independent of rustbus's marshaller): 0 second element of an array
/// "ao" (after "/x"), 1 field of a struct "(yo)", 2 dict key "a{oy}", 3 dict value "a{yo}",
/// 4 content of a variant "v"
fn nested_body(route: usize, s: &str) -> MarshalledMessageBody {
    let enc = le_str(s);
    let (bytes, sig): (Vec<u8>, &str) = match route {
        0 => {
            let mut b = ((8 + enc.len()) as u32).to_le_bytes().to_vec();
            b.extend_from_slice(&le_str("/x"));
            b.push(0);
            b.extend_from_slice(&enc);
            (b, "ao")
        }
        1 => {
            let mut b = vec![7, 0, 0, 0];
            b.extend_from_slice(&enc);
            (b, "(yo)")
        }
        2 => {
            let mut b = ((enc.len() + 1) as u32).to_le_bytes().to_vec();
            b.extend_from_slice(&[0, 0, 0, 0]);
            b.extend_from_slice(&enc);
            b.push(9);
            (b, "a{oy}")
        }
        3 => {
            let mut b = ((enc.len() + 4) as u32).to_le_bytes().to_vec();
            b.extend_from_slice(&[0, 0, 0, 0]);
            b.extend_from_slice(&[9, 0, 0, 0]);
            b.extend_from_slice(&enc);
            (b, "a{yo}")
        }
        _ => {
            let mut b = vec![1, b'o', 0, 0];
            b.extend_from_slice(&enc);
            (b, "v")
        }
    };
    MarshalledMessageBody::from_parts(bytes, 0, Vec::new(), sig.to_string(), ByteOrder::LittleEndian)
}

/// receive side of a NESTED body object path: route as in nested_body, decoder 0
/// MarshalledMessageBody::validate(), 1 parser().get_param() (Param decoder), 2 the typed
/// parser().get::<..>() with ObjectPath wrappers. o = accepted (and the decoded value is the one
/// encoded), e = Err, x = Ok with another value, p = panic
fn recv_nested(route: usize, dec: usize, s: &str) -> char {
    use rustbus::params::{Container, Param};
    use std::collections::HashMap;
    let r = catch_unwind(AssertUnwindSafe(|| {
        let body = nested_body(route, s);
        let is_path = |p: &Param, want: &str| match p {
            Param::Base(Base::ObjectPath(q)) => q == want,
            Param::Base(Base::ObjectPathRef(q)) => *q == want,
            _ => false,
        };
        match dec {
            0 => match body.validate() {
                Err(_) => 'e',
                Ok(()) => 'o',
            },
            1 => match body.parser().get_param() {
                Err(_) => 'e',
                Ok(Param::Container(c)) => {
                    let good = match (route, &c) {
                        (0, Container::Array(a)) => {
                            a.values.len() == 2 && is_path(&a.values[0], "/x") && is_path(&a.values[1], s)
                        }
                        (1, Container::Struct(f)) => {
                            f.len() == 2 && matches!(f[0], Param::Base(Base::Byte(7))) && is_path(&f[1], s)
                        }
                        (2, Container::Dict(d)) => {
                            d.map.len() == 1
                                && d.map.iter().all(|(k, v)| {
                                    is_path(&Param::Base(k.clone()), s) && matches!(v, Param::Base(Base::Byte(9)))
                                })
                        }
                        (3, Container::Dict(d)) => {
                            d.map.len() == 1
                                && d.map.iter().all(|(k, v)| matches!(k, Base::Byte(9)) && is_path(v, s))
                        }
                        (4, Container::Variant(v)) => is_path(&v.value, s),
                        _ => false,
                    };
                    if good {
                        'o'
                    } else {
                        'x'
                    }
                }
                Ok(_) => 'x',
            },
            _ => {
                let mut parser = body.parser();
                let res: Result<bool, rustbus::wire::errors::UnmarshalError> = match route {
                    0 => parser
                        .get::<Vec<ObjectPath<&str>>>()
                        .map(|v| v.len() == 2 && v[0].as_ref() == "/x" && v[1].as_ref() == s),
                    1 => parser
                        .get::<(u8, ObjectPath<&str>)>()
                        .map(|(y, p)| y == 7 && p.as_ref() == s),
                    2 => parser
                        .get::<HashMap<ObjectPath<String>, u8>>()
                        .map(|m| m.len() == 1 && m.iter().all(|(k, v)| k.as_ref() == s && *v == 9)),
                    3 => parser
                        .get::<HashMap<u8, ObjectPath<&str>>>()
                        .map(|m| m.len() == 1 && m.iter().all(|(k, v)| *k == 9 && v.as_ref() == s)),
                    _ => parser
                        .get::<rustbus::wire::unmarshal::traits::Variant>()
                        .and_then(|v| v.get::<ObjectPath<&str>>())
                        .map(|p| p.as_ref() == s),
                };
                match res {
                    Err(_) => 'e',
                    Ok(true) => 'o',
                    Ok(false) => 'x',
                }
            }
        }
    }));
    r.unwrap_or('p')
}

/// hand-written encoder of a little-endian header with the given name fields (position, string)
/// and optional reply serial; independent of rustbus's marshaller
fn encode_header(typ: usize, names: &[(usize, &str)], reply_serial: bool) -> Vec<u8> {
    let mut b = vec![b'l', [1u8, 4, 2, 3][typ], 0, 1, 0, 0, 0, 0, 1, 0, 0, 0, 0, 0, 0, 0];
    let pad8 = |b: &mut Vec<u8>| {
        while b.len() % 8 != 0 {
            b.push(0)
        }
    };
    if reply_serial {
        pad8(&mut b);
        b.extend_from_slice(&[5, 1, b'u', 0, 7, 0, 0, 0]);
    }
    for (j, v) in names {
        pad8(&mut b);
        b.extend_from_slice(&[CODES[*j], 1, if *j == 0 { b'o' } else { b's' }, 0]);
        b.extend_from_slice(&le_str(v));
    }
    let flen = (b.len() - 16) as u32;
    b[12..16].copy_from_slice(&flen.to_le_bytes());
    pad8(&mut b);
    b
}

/// decode a header of type `typ` that carries `s` in position k (same configurations as wire1)
fn recv1(k: usize, s: &str, typ: usize, full: bool) -> char {
    use rustbus::wire::unmarshal::{unmarshal_dynamic_header, unmarshal_header};
    use rustbus::wire::unmarshal_context::Cursor;
    let r = catch_unwind(AssertUnwindSafe(|| {
        let present = |j: usize| full || j == k || REQUIRED[typ].contains(&j);
        let names: Vec<(usize, &str)> = (0..6)
            .filter(|j| present(*j))
            .map(|j| (j, if j == k { s } else { DEFAULTS[j] }))
            .collect();
        let bytes = encode_header(typ, &names, typ >= 2);
        let mut cursor = Cursor::new(&bytes);
        let header = match unmarshal_header(&mut cursor) {
            Ok(h) => h,
            Err(_) => return 'x', // the fixed part is always well-formed
        };
        match unmarshal_dynamic_header(&header, &mut cursor) {
            Err(_) => 'e',
            Ok(dh) => {
                let got = [&dh.object, &dh.interface, &dh.member, &dh.error_name, &dh.destination, &dh.sender];
                let same = (0..6).all(|j| {
                    got[j].as_deref() == (if present(j) { Some(if j == k { s } else { DEFAULTS[j] }) } else { None })
                });
                if same {
                    'o'
                } else {
                    'x'
                }
            }
        }
    }));
    r.unwrap_or('p')
}

fn recv(k: usize, s: &str) -> (char, Option<String>) {
    let d: String = (0..8).map(|c| recv1(k, s, c / 2, c % 2 == 1)).collect();
    let first = d.chars().next().unwrap();
    if d.chars().all(|c| c == first) {
        (first, None)
    } else {
        ('m', Some(format!("{}={}", k, d)))
    }
}

fn is_name_char(c: char) -> bool {
    c.is_ascii_alphanumeric() || c == '_' || c == '-'
}
fn is_sep(c: char) -> bool {
    c == '/' || c == '.' || c == ':'
}

/// (interesting, nontrivial, line)
fn eval(s: &str, n: u64, label: Option<&str>) -> (bool, bool, String) {
    let p = st(&catch_unwind(|| validate_object_path(s)));
    let i = st(&catch_unwind(|| validate_interface(s)));
    let e = st(&catch_unwind(|| validate_errorname(s)));
    let b = st(&catch_unwind(|| validate_busname(s)));
    let m = st(&catch_unwind(|| validate_membername(s)));
    let o = match catch_unwind(|| ObjectPath::new(s).map(|p| p.as_ref() == s)) {
        Ok(Ok(true)) => "ok",
        Ok(Ok(false)) => "bad",
        Ok(Err(_)) => "err",
        Err(_) => "panic",
    };
    // alternate the byte order so that both are exercised
    let bo = if n % 2 == 0 {
        ByteOrder::LittleEndian
    } else {
        ByteOrder::BigEndian
    };
    let ws: Vec<(char, Option<String>)> = (0..6).map(|k| wire(k, s, bo)).collect();
    let w: String = ws.iter().map(|x| x.0).collect();
    let wd: Vec<String> = ws.into_iter().filter_map(|x| x.1).collect();
    let y: String = (0..6).map(|k| body_path(k, s)).collect();
    let t: String = (0..6).map(|k| ctor(k, s)).collect();
    let r: String = (0..2).map(|k| recv_path(k, s)).collect();
    let nn: String = (0..15).map(|k| recv_nested(k / 3, k % 3, s)).collect();
    let hs: Vec<(char, Option<String>)> = (0..6).map(|k| recv(k, s)).collect();
    let h: String = hs.iter().map(|x| x.0).collect();
    let hd: Vec<String> = hs.into_iter().filter_map(|x| x.1).collect();
    let interesting = [p, i, e, b, m, o].iter().any(|v| *v != "err")
        || w != "eeeeee"
        || y != "eeeeee"
        || t != "eeeeee"
        || r != "ee"
        || nn != "eeeeeeeeeeeeeee"
        || h != "eeeeee";
    let nontrivial = interesting || (s.chars().any(is_sep) && s.chars().any(is_name_char));
    (
        interesting,
        nontrivial,
        format!(
            "{} P:{} I:{} E:{} B:{} M:{} O:{} W:{} Y:{} T:{} R:{} N:{} H:{}{}{}",
            match label {
                Some(l) => l.to_string(),
                None => hex(s.as_bytes()),
            },
            p,
            i,
            e,
            b,
            m,
            o,
            w,
            y,
            t,
            r,
            nn,
            h,
            if wd.is_empty() {
                String::new()
            } else {
                format!(" WD:{}", wd.join(","))
            },
            if hd.is_empty() {
                String::new()
            } else {
                format!(" HD:{}", hd.join(","))
            }
        ),
    )
}

fn main() {
    std::panic::set_hook(Box::new(|_| {}));
    let stdin = std::io::stdin();
    let stdout = std::io::stdout();
    let mut out = std::io::BufWriter::new(stdout.lock());
    let mut n = 0u64;
    for line in stdin.lock().lines() {
        let line = line.unwrap();
        let parts: Vec<&str> = line.split(' ').collect();
        match parts.as_slice() {
            ["s", h] => {
                let bytes = unhex(h);
                match std::str::from_utf8(&bytes) {
                    Ok(s) => {
                        n += 1;
                        writeln!(out, "{}", eval(s, n, None).2).unwrap()
                    }
                    Err(_) => writeln!(out, "{} NOTUTF8", hex(&bytes)).unwrap(),
                }
            }
            ["rep", pfx, unit, count, sfx] => {
                // prefix ++ unit * count ++ suffix (long strings without megabytes of hex on the lines)
                let count: usize = count.parse().unwrap();
                let mut bytes = unhex(pfx);
                let u = unhex(unit);
                for _ in 0..count {
                    bytes.extend_from_slice(&u);
                }
                bytes.extend_from_slice(&unhex(sfx));
                let label = format!("rep/{}/{}/{}/{}", pfx, unit, count, sfx);
                match std::str::from_utf8(&bytes) {
                    Ok(s) => {
                        n += 1;
                        writeln!(out, "{}", eval(s, n, Some(&label)).2).unwrap()
                    }
                    Err(_) => writeln!(out, "{} NOTUTF8", label).unwrap(),
                }
            }
            ["enum", al, len, first] => {
                let alpha: Vec<char> = al
                    .split(',')
                    .map(|x| char::from_u32(u32::from_str_radix(x, 16).unwrap()).unwrap())
                    .collect();
                let k = alpha.len();
                let len: usize = len.parse().unwrap();
                let first: i64 = first.parse().unwrap();
                let mut idx = vec![0usize; len];
                if len > 0 && first >= 0 {
                    idx[0] = first as usize;
                }
                let lo = if first >= 0 { 1 } else { 0 };
                let mut total = 0u64;
                let mut nontriv = 0u64;
                loop {
                    let s: String = idx.iter().map(|&i| alpha[i]).collect();
                    total += 1;
                    n += 1;
                    let (interesting, nt, l) = eval(&s, n, None);
                    if nt {
                        nontriv += 1;
                    }
                    if interesting {
                        writeln!(out, "{}", l).unwrap();
                    }
                    let mut j = len as i64 - 1;
                    let mut carry = true;
                    while carry && j >= lo {
                        idx[j as usize] += 1;
                        if idx[j as usize] < k {
                            carry = false;
                        } else {
                            idx[j as usize] = 0;
                            j -= 1;
                        }
                    }
                    if carry {
                        break;
                    }
                }
                writeln!(out, "total {} nontrivial {}", total, nontriv).unwrap();
            }
            ["scan", lo, hi, pfx, sfx] => {
                let lo: u32 = lo.parse().unwrap();
                let hi: u32 = hi.parse().unwrap();
                let pfx = String::from_utf8(unhex(pfx)).unwrap();
                let sfx = String::from_utf8(unhex(sfx)).unwrap();
                let mut total = 0u64;
                let mut nontriv = 0u64;
                for c in lo..hi {
                    if let Some(ch) = char::from_u32(c) {
                        let mut s = pfx.clone();
                        s.push(ch);
                        s.push_str(&sfx);
                        total += 1;
                        n += 1;
                        let (interesting, nt, l) = eval(&s, n, None);
                        if nt {
                            nontriv += 1;
                        }
                        if interesting {
                            writeln!(out, "{}", l).unwrap();
                        }
                    }
                }
                writeln!(out, "total {} nontrivial {}", total, nontriv).unwrap();
            }
            _ => writeln!(out, "?").unwrap(),
        }
    }
    out.flush().unwrap();
}
