//! C17 harness: the real get_session_bus_path / parse_dbus_addr_str, std::str::from_utf8 and
//! DuplexConn::connect_to_bus against a scripted server. Same line protocol as ocaml/c17/driver.ml.
//!
//! usage: c17 [--uid N]      (--uid: setgid/setuid to N first, so that getuid() inside auth.rs returns N)
//! stdin lines:
//!   a <hex|-|none>          DBUS_SESSION_BUS_ADDRESS := these bytes (none: unset); get_session_bus_path()
//!                           -> "<hex> P:<hex path>" | "A:<hex abstract name>" | "E" | "PANIC" | "SKIP" (NUL byte)
//!   u <hex|->               std::str::from_utf8(bytes).is_ok() -> "1" | "0"
//!   s <n> <k>               n child processes with the DEFAULT SIGPIPE disposition (as a non-Rust or sig_dfl program has it) call
//!                           connect_to_bus against a server that reads k bytes and closes (0: at accept)
//!                           -> "sig killed=<a> err=<b> ok=<c> other=<d>"
//!   y                       get_system_bus_path() -> "P:<hex>" | "N:<hex of the path reported missing>" | "E" | "PANIC"
//!   h <0|1> <p|a> <script> [m]
//!                           connect_to_bus(addr, with_fd) against a scripted server; p = path socket in the
//!                           scratch directory, a = abstract socket. script = steps separated by ';', the first is
//!                           the greeting (sent on accept), the following are sent one per CRLF-terminated line
//!                           received from the client. A step is "k", "l", "c" or "g" followed by ",<chunk>"*
//!                           (chunk = "<hex>" | "<hh>*<n>" joined by '+', optionally "/<piece size>"): each chunk
//!                           is one write(); "c": the server shuts its receiving side down before the chunks of the
//!                           step (the client's next write fails) and closes after them. A last step "x<k>": the
//!                           server reads exactly k more bytes from the client and closes.
//!                           "l": like "k", but a chunk is written only after the client has read the previous one
//!                           (SIOCOUTQ == 0), so every chunk is one read. "g": the server writes CR-LF-free bytes until
//!                           the client closes or the deadline passes; W:<n> reports how many the kernel accepted.
//!                           "m": after the script the server reads one more line (BEGIN) and then sends a D-Bus
//!                           signal; the client, if connected, must receive exactly that message.
//!                           -> "<ok|authfailed|fdfailed|err|panic|hang> S:<hex of all bytes the server received> M:<ok|bad:..|-> W:<n>"
//! Nothing here sleeps; the only timers are hang detectors (deadline(), 4 s unless C17_DEADLINE_MS is set).


use rbverif::{hex, unhex};
use rustbus::connection::ll_conn::DuplexConn;
use rustbus::connection::Timeout;
use std::io::{BufRead, Read, Write};
use std::os::unix::ffi::OsStringExt;
use std::os::unix::net::{UnixListener, UnixStream};
use std::sync::mpsc;
use std::time::Duration;

/// hang detector; C17_deadline()_MS overrides it (the check re-runs a script that hit it alone with a longer one)
fn deadline() -> Duration {
    static D: std::sync::OnceLock<Duration> = std::sync::OnceLock::new();
    *D.get_or_init(|| {
        Duration::from_millis(
            std::env::var("C17_deadline()_MS").ok().and_then(|v| v.parse().ok()).unwrap_or(4000),
        )
    })
}
const MAX_HANGS: usize = 3;

fn addr_line(h: &str) -> String {
    const VAR: &str = "DBUS_SESSION_BUS_ADDRESS";
    if h == "none" {
        std::env::remove_var(VAR);
    } else {
        let bytes = unhex(h);
        if bytes.contains(&0) {
            return format!("{} SKIP", h);
        }
        std::env::set_var(VAR, std::ffi::OsString::from_vec(bytes));
    }
    let r = std::panic::catch_unwind(rustbus::connection::get_session_bus_path);
    let res = match r {
        Err(_) => "PANIC".to_string(),
        Ok(Err(_)) => "E".to_string(),
        Ok(Ok(addr)) => show_addr(&addr),
    };
    format!("{} {}", h, res)
}

fn show_addr(addr: &nix::sys::socket::UnixAddr) -> String {
    use std::os::unix::ffi::OsStrExt;
    if let Some(p) = addr.path() {
        format!("P:{}", hex(p.as_os_str().as_bytes()))
    } else if let Some(k) = addr.as_abstract() {
        format!("A:{}", hex(k))
    } else {
        "UNNAMED".to_string()
    }
}

struct Step {
    chunks: Vec<Vec<u8>>,
    closes: bool,
    read_exact: Option<usize>, // "x<k>": read exactly k more bytes from the client, then close
    lockstep: bool,            // "l": write a chunk only after the client has consumed the previous one
    garbage: bool,             // "g": keep writing CR-LF-free bytes until the client closes (or the deadline)
}

/// "<hex>" | "<hh>*<n>" joined by '+', optionally "/<piece size>"
fn parse_chunks(tok: &str) -> Vec<Vec<u8>> {
    let (body, piece) = match tok.split_once('/') {
        Some((b, s)) => (b, Some(s.parse::<usize>().unwrap())),
        None => (tok, None),
    };
    let mut bytes = Vec::new();
    for seg in body.split('+') {
        match seg.split_once('*') {
            Some((b, n)) => {
                let v = u8::from_str_radix(b, 16).unwrap();
                bytes.extend(std::iter::repeat(v).take(n.parse().unwrap()));
            }
            None => bytes.extend(unhex(seg)),
        }
    }
    match piece {
        Some(s) => bytes.chunks(s).map(|c| c.to_vec()).collect(),
        None => vec![bytes],
    }
}

/// bytes written to the socket that the peer has not read yet (SIOCOUTQ)
fn unread_by_peer(s: &UnixStream) -> i32 {
    use std::os::fd::AsRawFd;
    let mut n: nix::libc::c_int = 0;
    unsafe { nix::libc::ioctl(s.as_raw_fd(), nix::libc::TIOCOUTQ, &mut n) };
    n
}

fn parse_script(s: &str) -> Vec<Step> {
    s.split(';')
        .map(|st| {
            let mut it = st.split(',');
            let tag = it.next().unwrap_or("k");
            Step {
                chunks: it.flat_map(parse_chunks).collect(),
                closes: tag == "c",
                read_exact: tag.strip_prefix('x').and_then(|k| k.parse().ok()),
                lockstep: tag == "l",
                garbage: tag == "g",
            }
        })
        .collect()
}

/// the signal the server sends after BEGIN in "m" scripts
fn probe_message() -> Vec<u8> {
    let mut msg = rustbus::message_builder::MessageBuilder::new()
        .signal("io.verif.C17", "Probe", "/io/verif/c17")
        .build();
    msg.body.push_param("after BEGIN").unwrap();
    msg.body.push_param(0x1234_5678u32).unwrap();
    let mut buf = Vec::new();
    rustbus::wire::marshal::marshal(&msg, std::num::NonZeroU32::new(7).unwrap(), &mut buf).unwrap();
    buf.extend_from_slice(msg.get_buf());
    buf
}

/// read until the bytes received since `from` contain CR LF; returns the position after that CR LF,
/// None at EOF / error / deadline
fn read_line(s: &mut UnixStream, got: &mut Vec<u8>, from: usize, timed_out: &mut bool) -> Option<usize> {
    let mut buf = [0u8; 256];
    loop {
        if let Some(p) = got[from..].windows(2).position(|w| w == b"\r\n") {
            return Some(from + p + 2);
        }
        match s.read(&mut buf) {
            Ok(0) => return None,
            Ok(n) => got.extend_from_slice(&buf[..n]),
            Err(e) => {
                if matches!(e.kind(), std::io::ErrorKind::WouldBlock | std::io::ErrorKind::TimedOut) {
                    *timed_out = true;
                }
                return None;
            }
        }
    }
}

static COUNTER: std::sync::atomic::AtomicUsize = std::sync::atomic::AtomicUsize::new(0);

fn handshake_line(with_fd: bool, kind: &str, script: &str, probe: bool, dir: &std::path::Path) -> String {
    let steps = parse_script(script);
    let n = COUNTER.fetch_add(1, std::sync::atomic::Ordering::SeqCst);
    let (listener, addr, path) = if kind == "a" {
        use std::os::linux::net::SocketAddrExt;
        let name = format!("rbverif-c17-{}-{}", std::process::id(), n);
        let sa = std::os::unix::net::SocketAddr::from_abstract_name(name.as_bytes()).unwrap();
        (
            UnixListener::bind_addr(&sa).unwrap(),
            nix::sys::socket::UnixAddr::new_abstract(name.as_bytes()).unwrap(),
            None,
        )
    } else {
        let p = dir.join(format!("h{}", n));
        let _ = std::fs::remove_file(&p);
        (
            UnixListener::bind(&p).unwrap(),
            nix::sys::socket::UnixAddr::new(&p).unwrap(),
            Some(p),
        )
    };
    let expect_probe = probe_message();
    let expect_probe2 = expect_probe.clone();
    let (tx, rx) = mpsc::channel::<(String, String)>();
    let client = std::thread::spawn(move || {
        let r = std::panic::catch_unwind(move || DuplexConn::connect_to_bus(addr, with_fd));
        let (class, m) = match r {
            Err(_) => ("panic".to_string(), "-".to_string()),
            Ok(Err(rustbus::connection::Error::AuthFailed)) => ("authfailed".to_string(), "-".to_string()),
            Ok(Err(rustbus::connection::Error::UnixFdNegotiationFailed)) => ("fdfailed".to_string(), "-".to_string()),
            Ok(Err(_)) => ("err".to_string(), "-".to_string()),
            Ok(Ok(mut conn)) => {
                let m = if probe {
                    match std::panic::catch_unwind(std::panic::AssertUnwindSafe(|| {
                        conn.recv.get_next_message(Timeout::Duration(deadline()))
                    })) {
                        Ok(Ok(msg)) => {
                            // re-marshal what arrived and compare with what was sent
                            let mut buf = Vec::new();
                            let ok = rustbus::wire::marshal::marshal(&msg, std::num::NonZeroU32::new(7).unwrap(), &mut buf).is_ok();
                            buf.extend_from_slice(msg.get_buf());
                            if ok && buf == expect_probe2 {
                                "ok".to_string()
                            } else {
                                format!("bad:differs:{}", hex(&buf))
                            }
                        }
                        Ok(Err(e)) => format!("bad:{}", format!("{:?}", e).replace(' ', "_")),
                        Err(_) => "bad:panic".to_string(),
                    }
                } else {
                    "-".to_string()
                };
                drop(conn);
                ("ok".to_string(), m)
            }
        };
        let _ = tx.send((class, m));
    });

    // ---- the scripted server (this thread)
    let mut got: Vec<u8> = Vec::new();
    let mut written = 0usize; // bytes of a "g" step the kernel accepted
    let mut timed_out = false;
    let (mut s, _) = listener.accept().unwrap();
    s.set_read_timeout(Some(deadline())).unwrap();
    s.set_write_timeout(Some(deadline())).unwrap();
    let mut open = true;
    let mut from = 0usize;
    for (i, st) in steps.iter().enumerate() {
        if let Some(k) = st.read_exact {
            let mut b = [0u8; 1];
            let mut n = 0;
            while n < k {
                match s.read(&mut b) {
                    Ok(1) => {
                        got.push(b[0]);
                        n += 1;
                    }
                    _ => break,
                }
            }
            let _ = s.shutdown(std::net::Shutdown::Both);
            open = false;
            break;
        }
        if i > 0 {
            // wait for the client's next line
            match read_line(&mut s, &mut got, from, &mut timed_out) {
                Some(p) => from = p,
                None => break,
            }
        }
        if st.closes {
            let _ = s.shutdown(std::net::Shutdown::Read);
        }
        if st.garbage {
            let block = [b'x'; 4096];
            let t0 = std::time::Instant::now();
            while t0.elapsed() < deadline() {
                match s.write(&block) {
                    Ok(n) => written += n,
                    Err(_) => break,
                }
            }
        }
        for c in &st.chunks {
            if !c.is_empty() && s.write_all(c).is_err() {
                break;
            }
            let _ = s.flush();
            if st.lockstep {
                // the next chunk must arrive in a read of its own: wait until this one has been taken
                let t0 = std::time::Instant::now();
                while unread_by_peer(&s) > 0 && t0.elapsed() < deadline() {
                    std::thread::yield_now();
                }
            } else {
                std::thread::yield_now();
            }
        }
        if st.closes {
            let _ = s.shutdown(std::net::Shutdown::Both);
            open = false;
            break;
        }
    }
    if open && !timed_out {
        if probe {
            if read_line(&mut s, &mut got, from, &mut timed_out).is_some() {
                let _ = s.write_all(&expect_probe);
            }
        }
        // everything else the client sends, until it closes
        let mut buf = [0u8; 256];
        loop {
            match s.read(&mut buf) {
                Ok(0) => break,
                Ok(n) => got.extend_from_slice(&buf[..n]),
                Err(e) => {
                    if matches!(e.kind(), std::io::ErrorKind::WouldBlock | std::io::ErrorKind::TimedOut) {
                        timed_out = true;
                    }
                    break;
                }
            }
        }
    }
    // the server has seen the client close (or has given up waiting for it): the result is due
    let res = rx.recv_timeout(if timed_out { Duration::from_millis(500) } else { deadline() });
    drop(s);
    drop(listener);
    if let Some(p) = path {
        let _ = std::fs::remove_file(p);
    }
    let (class, m) = match res {
        Ok(x) => {
            let _ = client.join();
            x
        }
        Err(_) => ("hang".to_string(), "-".to_string()), // the client thread is left behind
    };
    format!("{} S:{} M:{} W:{}", class, hex(&got), m, written)
}

fn pin_to_cpu0() {
    unsafe {
        let mut set: nix::libc::cpu_set_t = std::mem::zeroed();
        nix::libc::CPU_SET(0, &mut set);
        nix::libc::sched_setaffinity(0, std::mem::size_of::<nix::libc::cpu_set_t>(), &set);
    }
}

/// child of the demonstration: SIGPIPE as a non-Rust or `sig_dfl` program has it, same CPU and lower priority than the
/// server thread so that the server's accept+close runs between the client's connect() and its first sendmsg()
fn sigpipe_child(name: &str, dfl: bool) -> ! {
    unsafe {
        nix::libc::signal(nix::libc::SIGPIPE, if dfl { nix::libc::SIG_DFL } else { nix::libc::SIG_IGN });
        nix::libc::setpriority(nix::libc::PRIO_PROCESS, 0, 19);
    }
    pin_to_cpu0();
    let addr = nix::sys::socket::UnixAddr::new_abstract(name.as_bytes()).unwrap();
    let r = DuplexConn::connect_to_bus(addr, false);
    std::process::exit(if r.is_ok() { 0 } else { 3 })
}

/// N child processes with the DEFAULT SIGPIPE disposition call connect_to_bus against a server that reads k bytes and
/// closes (k = 0: closes at accept). The server thread runs with real-time priority on the child's CPU so that its
/// accept+close gets in between the child's connect() and its first sendmsg() as often as possible.
/// -> "sig killed=<by a signal> err=<returned an error> ok=<returned Ok> other=<anything else>"
fn sigpipe_line(n: usize, k: usize) -> String {
    use std::os::linux::net::SocketAddrExt;
    use std::os::unix::process::ExitStatusExt;
    let exe = std::env::current_exe().unwrap();
    let (mut killed, mut err, mut ok, mut other) = (0, 0, 0, 0);
    for i in 0..n {
        let name = format!("rbverif-c17-sigpipe-{}-{}-{}", std::process::id(), k, i);
        let sa = std::os::unix::net::SocketAddr::from_abstract_name(name.as_bytes()).unwrap();
        let listener = UnixListener::bind_addr(&sa).unwrap();
        let srv = std::thread::spawn(move || {
            pin_to_cpu0();
            unsafe {
                let p = nix::libc::sched_param { sched_priority: 1 };
                nix::libc::sched_setscheduler(0, nix::libc::SCHED_FIFO, &p); // best effort (needs CAP_SYS_NICE)
            }
            if let Ok((mut s, _)) = listener.accept() {
                let _ = s.set_read_timeout(Some(deadline()));
                let mut b = [0u8; 1];
                for _ in 0..k {
                    if !matches!(s.read(&mut b), Ok(1)) {
                        break;
                    }
                }
                drop(s);
            }
        });
        let st = std::process::Command::new(&exe).args(["--sigpipe-child", &name, "dfl"]).status().unwrap();
        let _ = srv.join();
        if st.signal().is_some() {
            killed += 1
        } else if st.code() == Some(3) {
            err += 1
        } else if st.code() == Some(0) {
            ok += 1
        } else {
            other += 1
        }
    }
    format!("sig killed={} err={} ok={} other={}", killed, err, ok, other)
}

fn main() {
    std::panic::set_hook(Box::new(|_| {}));
    let args: Vec<String> = std::env::args().collect();
    if args.len() >= 4 && args[1] == "--sigpipe-child" {
        sigpipe_child(&args[2], args[3] == "dfl");
    }

    let dir = rbverif::conn::scratch_dir();
    if args.len() >= 3 && args[1] == "--uid" {
        let uid: u32 = args[2].parse().unwrap();
        use std::os::unix::fs::PermissionsExt;
        std::fs::set_permissions(&dir, std::fs::Permissions::from_mode(0o777)).unwrap();
        if nix::unistd::getuid().as_raw() != uid {
            let _ = nix::unistd::setgroups(&[]);
            if nix::unistd::setgid(nix::unistd::Gid::from_raw(uid)).is_err()
                || nix::unistd::setuid(nix::unistd::Uid::from_raw(uid)).is_err()
            {
                println!("NOSETUID");
                return;
            }
        }
    }
    println!("UID {}", nix::unistd::getuid().as_raw());
    let stdin = std::io::stdin();
    let stdout = std::io::stdout();
    let mut out = std::io::BufWriter::new(stdout.lock());
    let mut hangs = 0usize;
    for line in stdin.lock().lines() {
        let line = line.unwrap();
        let parts: Vec<&str> = line.split(' ').collect();
        let res = match parts.as_slice() {
            ["a", h] => addr_line(h),
            ["u", h] => {
                if std::str::from_utf8(&unhex(h)).is_ok() { "1".to_string() } else { "0".to_string() }
            }
            ["s", n, k] => sigpipe_line(n.parse().unwrap(), k.parse().unwrap()),
            ["y"] => match std::panic::catch_unwind(rustbus::connection::get_system_bus_path) {
                Err(_) => "PANIC".to_string(),
                Ok(Err(rustbus::connection::Error::PathDoesNotExist(p))) => format!("N:{}", hex(p.as_bytes())),
                Ok(Err(_)) => "E".to_string(),
                Ok(Ok(a)) => show_addr(&a),
            },
            ["h", fd, kind, script] | ["h", fd, kind, script, _] => {
                if hangs >= MAX_HANGS {
                    "skipped S:- M:- W:0".to_string()
                } else {
                    let r = handshake_line(*fd == "1", kind, script, parts.len() == 5, &dir);
                    if r.starts_with("hang") {
                        hangs += 1;
                    }
                    r
                }
            }
            _ => "?".to_string(),
        };
        writeln!(out, "{}", res).unwrap();
        out.flush().unwrap();
    }
    drop(out);
    let _ = std::fs::remove_dir_all(&dir);
    // client threads left behind by hangs must not keep the process alive
    std::process::exit(0);
}
