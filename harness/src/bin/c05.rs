//! C05/C06 harness: the real header marshaller and header decoder.
//! One case per stdin line, one result per stdout line (same protocol as ocaml/c05/driver.ml).
//!
//!   m <mode> <bo> <typ> <flags> <serial> <rs> <iface> <dest> <sender> <member> <path> <err> <body>
//!       mode  d  = fields set directly on MarshalledMessage / DynamicHeader
//!             b  = MessageBuilder (call / signal builders for the fields they cover, the rest set directly)
//!       bo    l | B            typ 1..4 (call reply error signal) | 0 (Invalid)
//!       flags 0..255           serial 1..2^32-1       rs = reply serial or -
//!       string fields: hex of the UTF-8 bytes, `-` = None, `e` = Some("")
//!       body  raw:<bodyhex>:<sighex>:<nfds>[:<taken>]   (MarshalledMessageBody::from_parts; <taken> of the handles have their descriptor taken)
//!             push:<item>,<item>,..           items y<n> u<n> t<n> s<hex> o<hex> h (descriptor) vu<n> (variant of u32) as<hex>;<hex>
//!     -> B:<bodyhex>:<sighex>:<nfds> L:<handles whose descriptor is still there> H:<headerhex|err> D:<decoded>
//!   (an optional 14th argument X:<serial|->:<sighex|-|e>:<num_fds|-> of `m` sets dynheader.serial/signature/num_fds to stale values)
//!   r <m args> <body2> <serial2>   marshal, decode, replace the DECODED message's body by body2, marshal with serial2 -> R:ok B:.. H:..
//!   M <m args with body big:<nbytes>:<seed>:<sighex>:<nfds>>   like `m`, the body is BUILT HERE from the descriptor (nbytes >= 4: u32
//!                              nbytes-4 in the message's byte order, then the 251-byte block of LCG(seed) repeated; below 4: zeros);
//!                              body bytes are printed as #<len>.<crc32 hex> in B: and in N:
//!   ww <m args> ; <m args> ; ..   ALL the messages are sent, in order, through ONE connection (send_message_write_all each; a
//!                              message that does not marshal is skipped by the library); a thread reads the peer end to EOF
//!     -> S:<o|e per message> W:<hex of everything the peer read|->
//!   w <m args>                 send through a real connection (send_message_write_all), bytes read at the peer -> B:.. W:<hex|err>
//!   g <hex>                    bytes written to the peer end of a fresh connection, RecvConn::get_next_message -> G:<err|ok fields N:ok:body:sig:nfds>
//!   s <name> <args..>          a standard_messages constructor (then treated like `m`, serial = 1st arg)
//!     -> M:<the message as an `m d` argument list> B:.. H:.. D:..
//!   d <hex> <nfds>             decode bytes as get_next_message does (unmarshal_header, unmarshal_dynamic_header, unmarshal_next_message)
//!     -> D:<decoded>
//!   n <hex>                    RecvConn::bytes_needed_for_current_message after the bytes were written to the peer
//!                              end of a fresh connection and (if >= 16 bytes) one read_once
//!     -> N:<n|err>
//!   n2 <hex>                   like n, with a second read_once so that more than 16 bytes are buffered
//!   f                          HeaderFlags: for each flag 256 entries
//!     -> F <raw0> <256 x is/set/unset/toggle> ...
//!   decoded := err@<stage> | ok be:<0|1> t:<n> f:<n> bl:<n> ser:<n> used:<n> rs:<n|-> i:<s> d:<s> sn:<s> m:<s> p:<s> e:<s> g:<s> fd:<n|->
//!              N:<err | ok:<bodyhex>:<sighex>:<nfds>>
use rbverif::conn::connect_pair;
use rbverif::{hex, unhex};
use rustbus::connection::Timeout;
use rustbus::message_builder::{
    DynamicHeader, HeaderFlags, MarshalledMessage, MarshalledMessageBody, MessageBuilder, MessageType,
};
use rustbus::wire::unmarshal::{unmarshal_dynamic_header, unmarshal_header, unmarshal_next_message};
use rustbus::wire::unmarshal_context::Cursor;
use rustbus::wire::{ObjectPath, UnixFd};
use rustbus::ByteOrder;
use std::io::Write;
use std::num::NonZeroU32;
use std::os::fd::IntoRawFd;

fn ostr(s: &str) -> Option<String> {
    match s {
        "-" => None,
        "e" => Some(String::new()),
        h => Some(String::from_utf8(unhex(h)).expect("utf8")),
    }
}
fn shex(s: &Option<String>) -> String {
    match s {
        None => "-".to_string(),
        Some(s) if s.is_empty() => "e".to_string(),
        Some(s) => hex(s.as_bytes()),
    }
}
fn bhex(b: &[u8]) -> String {
    hex(b)
}

fn new_fd() -> UnixFd {
    let f = std::fs::File::open("/dev/null").unwrap();
    UnixFd::new(f.into_raw_fd())
}

fn typ_of(n: &str) -> MessageType {
    match n {
        "1" => MessageType::Call,
        "2" => MessageType::Reply,
        "3" => MessageType::Error,
        "4" => MessageType::Signal,
        _ => MessageType::Invalid,
    }
}
fn typ_no(t: MessageType) -> u8 {
    match t {
        MessageType::Call => 1,
        MessageType::Reply => 2,
        MessageType::Error => 3,
        MessageType::Signal => 4,
        MessageType::Invalid => 0,
    }
}

fn crc32(data: &[u8]) -> u32 {
    let mut table = [0u32; 256];
    for i in 0..256u32 {
        let mut c = i;
        for _ in 0..8 {
            c = if c & 1 != 0 { 0xEDB8_8320 ^ (c >> 1) } else { c >> 1 };
        }
        table[i as usize] = c;
    }
    let mut c = 0xFFFF_FFFFu32;
    for b in data {
        c = table[((c ^ *b as u32) & 0xFF) as usize] ^ (c >> 8);
    }
    c ^ 0xFFFF_FFFF
}

/// body bytes as printed by the short forms: #<len>.<crc32>
fn short_body(b: &[u8]) -> String {
    format!("#{}.{:08x}", b.len(), crc32(b))
}

/// big:<nbytes>:<seed>:<sighex>:<nfds> - a body of nbytes built here (see the header comment)
fn big_body(spec: &str, bo: ByteOrder) -> Option<MarshalledMessageBody> {
    let r = spec.strip_prefix("big:")?;
    let p: Vec<&str> = r.split(':').collect();
    let nbytes: usize = p[0].parse().unwrap();
    let mut x: u32 = p[1].parse().unwrap();
    let sig = String::from_utf8(unhex(p[2])).expect("utf8 sig");
    let n: usize = p[3].parse().unwrap();
    let mut block = [0u8; 251];
    for b in block.iter_mut() {
        x = x.wrapping_mul(1103515245).wrapping_add(12345);
        *b = (x >> 16) as u8;
    }
    let mut buf: Vec<u8> = Vec::with_capacity(nbytes);
    if nbytes >= 4 {
        let l = (nbytes - 4) as u32;
        buf.extend_from_slice(&match bo {
            ByteOrder::BigEndian => l.to_be_bytes(),
            ByteOrder::LittleEndian => l.to_le_bytes(),
        });
        while buf.len() < nbytes {
            let k = usize::min(251, nbytes - buf.len());
            buf.extend_from_slice(&block[..k]);
        }
    } else {
        buf.resize(nbytes, 0);
    }
    let fds: Vec<UnixFd> = (0..n).map(|_| new_fd()).collect();
    Some(MarshalledMessageBody::from_parts(buf, 0, fds, sig, bo))
}

fn raw_body(spec: &str, bo: ByteOrder) -> Option<MarshalledMessageBody> {
    if let Some(b) = big_body(spec, bo) {
        return Some(b);
    }
    let r = spec.strip_prefix("raw:")?;
    let p: Vec<&str> = r.split(':').collect();
    let buf = unhex(p[0]);
    let sig = String::from_utf8(unhex(p[1])).expect("utf8 sig");
    let n: usize = p[2].parse().unwrap();
    let fds: Vec<UnixFd> = (0..n).map(|_| new_fd()).collect();
    // optional 4th part: that many of the handles have their descriptor taken (through a clone, as a user of
    // UnixFd::take_raw_fd would) - the handle stays in the body, the descriptor is gone
    let taken: usize = p.get(3).map(|x| x.parse().unwrap()).unwrap_or(0);
    for fd in fds.iter().take(taken) {
        if let Some(raw) = fd.clone().take_raw_fd() {
            let _ = nix::unistd::close(raw);
        }
    }
    Some(MarshalledMessageBody::from_parts(buf, 0, fds, sig, bo))
}

/// push the items of a `push:` body spec INTO the given body (the body keeps its own byte order)
fn push_items(body: &mut MarshalledMessageBody, spec: &str) {
    let items = spec.strip_prefix("push:").expect("body spec");
    for it in items.split(',') {
        if it.is_empty() {
            continue;
        }
        let (k, v) = it.split_at(1);
        match k {
            "y" => body.push_param(v.parse::<u8>().unwrap()).unwrap(),
            "u" => body.push_param(v.parse::<u32>().unwrap()).unwrap(),
            "t" => body.push_param(v.parse::<u64>().unwrap()).unwrap(),
            "s" => body.push_param(String::from_utf8(unhex(v)).unwrap().as_str()).unwrap(),
            "o" => body
                .push_param(ObjectPath::new(String::from_utf8(unhex(v)).unwrap().as_str()).unwrap())
                .unwrap(),
            "h" => body.push_param(new_fd()).unwrap(),
            "v" => body.push_variant(v[1..].parse::<u32>().unwrap()).unwrap(),
            "a" => {
                let strs: Vec<String> = v[1..]
                    .split(';')
                    .filter(|x| !x.is_empty())
                    .map(|x| String::from_utf8(unhex(x)).unwrap())
                    .collect();
                body.push_param(strs.as_slice()).unwrap()
            }
            _ => panic!("bad body item"),
        }
    }
}

fn build_body(spec: &str, bo: ByteOrder) -> MarshalledMessageBody {
    if let Some(b) = raw_body(spec, bo) {
        return b;
    }
    let mut body = MarshalledMessageBody::with_byteorder(bo);
    push_items(&mut body, spec);
    body
}

fn body_desc(msg: &MarshalledMessage) -> String {
    body_desc_with(msg, false)
}
fn body_desc_with(msg: &MarshalledMessage, short: bool) -> String {
    format!(
        "B:{}:{}:{} L:{}",
        if short { short_body(msg.get_buf()) } else { bhex(msg.get_buf()) },
        bhex(msg.get_sig().as_bytes()),
        msg.body.get_fds().len(),
        msg.body.get_raw_fds().len()
    )
}

fn decode(bytes: &[u8], nfds: usize) -> String {
    decode_with(bytes, nfds, false)
}
fn decode_with(bytes: &[u8], nfds: usize, short: bool) -> String {
    let mut cursor = Cursor::new(bytes);
    let header = match unmarshal_header(&mut cursor) {
        Ok(h) => h,
        Err(_) => return "err@header".to_string(),
    };
    let dynheader = match unmarshal_dynamic_header(&header, &mut cursor) {
        Ok(h) => h,
        Err(_) => return "err@fields".to_string(),
    };
    let used = cursor.consumed();
    let mut out = format!(
        "ok be:{} t:{} f:{} bl:{} ser:{} used:{} rs:{} i:{} d:{} sn:{} m:{} p:{} e:{} g:{} fd:{} dser:{}",
        match header.byteorder {
            ByteOrder::BigEndian => 1,
            ByteOrder::LittleEndian => 0,
        },
        typ_no(header.typ),
        header.flags,
        header.body_len,
        header.serial.get(),
        used,
        dynheader.response_serial.map(|x| x.get().to_string()).unwrap_or("-".into()),
        shex(&dynheader.interface),
        shex(&dynheader.destination),
        shex(&dynheader.sender),
        shex(&dynheader.member),
        shex(&dynheader.object),
        shex(&dynheader.error_name),
        shex(&dynheader.signature),
        dynheader.num_fds.map(|x| x.to_string()).unwrap_or("-".into()),
        dynheader.serial.map(|x| x.get().to_string()).unwrap_or("-".into()),
    );
    let fds: Vec<UnixFd> = (0..nfds).map(|_| new_fd()).collect();
    match unmarshal_next_message(&header, dynheader, bytes.to_vec(), used, fds) {
        Ok(m) => {
            out.push_str(&format!(
                " N:ok:{}:{}:{}:{}:{}",
                if short { short_body(m.get_buf()) } else { bhex(m.get_buf()) },
                bhex(m.get_sig().as_bytes()),
                m.body.get_fds().len(),
                typ_no(m.typ),
                m.flags
            ));
        }
        Err(_) => out.push_str(" N:err"),
    }
    out
}

fn marshal_and_back(msg: &MarshalledMessage, serial: u32) -> String {
    marshal_and_back_with(msg, serial, false)
}
fn marshal_and_back_with(msg: &MarshalledMessage, serial: u32, short: bool) -> String {
    let mut buf = Vec::new();
    let serial = NonZeroU32::new(serial).expect("serial");
    match rustbus::wire::marshal::marshal(msg, serial, &mut buf) {
        Err(_) => format!("{} H:err D:-", body_desc_with(msg, short)),
        Ok(()) => {
            let mut all = buf.clone();
            all.extend_from_slice(msg.get_buf());
            format!(
                "{} H:{} D:{}",
                body_desc_with(msg, short),
                bhex(&buf),
                decode_with(&all, msg.body.get_fds().len(), short)
            )
        }
    }
}

fn msg_args(msg: &MarshalledMessage) -> String {
    format!(
        "{} {} {} {} {} {} {} {} {} {}",
        match msg.body.byteorder() {
            ByteOrder::BigEndian => "B",
            ByteOrder::LittleEndian => "l",
        },
        typ_no(msg.typ),
        msg.flags,
        msg.dynheader.response_serial.map(|x| x.get().to_string()).unwrap_or("-".into()),
        shex(&msg.dynheader.interface),
        shex(&msg.dynheader.destination),
        shex(&msg.dynheader.sender),
        shex(&msg.dynheader.member),
        shex(&msg.dynheader.object),
        shex(&msg.dynheader.error_name),
    )
}

/// the message described by the arguments of an `m` line, and the serial to marshal it with
fn build_msg(p: &[&str]) -> (MarshalledMessage, u32) {
    let mode = p[0];
    let bo = if p[1] == "B" { ByteOrder::BigEndian } else { ByteOrder::LittleEndian };
    let typ = typ_of(p[2]);
    let flags: u8 = p[3].parse().unwrap();
    let serial: u32 = p[4].parse().unwrap();
    let rs = if p[5] == "-" { None } else { Some(NonZeroU32::new(p[5].parse().unwrap()).unwrap()) };
    let (iface, dest, sender, member, path, err) =
        (ostr(p[6]), ostr(p[7]), ostr(p[8]), ostr(p[9]), ostr(p[10]), ostr(p[11]));
    let mut msg = if mode == "b" && typ == MessageType::Call && member.is_some() {
        let mut b = MessageBuilder::with_byteorder(bo).call(member.clone().unwrap());
        if let Some(x) = &path {
            b = b.on(x.clone());
        }
        if let Some(x) = &iface {
            b = b.with_interface(x.clone());
        }
        if let Some(x) = &dest {
            b = b.at(x.clone());
        }
        b.build()
    } else if mode == "b" && typ == MessageType::Signal && member.is_some() && iface.is_some() && path.is_some() {
        let mut b = MessageBuilder::with_byteorder(bo).signal(
            iface.clone().unwrap(),
            member.clone().unwrap(),
            path.clone().unwrap(),
        );
        if let Some(x) = &dest {
            b = b.to(x.clone());
        }
        b.build()
    } else {
        let mut m = MarshalledMessage::with_byteorder(bo);
        m.typ = typ;
        m.dynheader.interface = iface.clone();
        m.dynheader.destination = dest.clone();
        m.dynheader.member = member.clone();
        m.dynheader.object = path.clone();
        m
    };
    // the parts no builder sets
    msg.flags = flags;
    msg.dynheader.sender = sender;
    msg.dynheader.error_name = err;
    msg.dynheader.response_serial = rs;
    // the body: pushed INTO the body the builder made (its byte order is the one chosen through the builder);
    // only a hand-made body (from_parts) replaces it
    match raw_body(p[12], bo) {
        Some(b) => msg.body = b,
        None => push_items(&mut msg.body, p[12]),
    }
    // stale header entries as a decoded / forwarded header carries them: the marshaller must not read them
    if let Some(x) = p.get(13).and_then(|x| x.strip_prefix("X:")) {
        let q: Vec<&str> = x.split(':').collect();
        msg.dynheader.serial = if q[0] == "-" { None } else { NonZeroU32::new(q[0].parse().unwrap()) };
        msg.dynheader.signature = ostr(q[1]);
        msg.dynheader.num_fds = if q[2] == "-" { None } else { Some(q[2].parse().unwrap()) };
    }
    (msg, serial)
}

fn op_m(p: &[&str]) -> String {
    let (msg, serial) = build_msg(p);
    marshal_and_back(&msg, serial)
}

/// `m` with a body built here from a descriptor; body bytes printed as length and crc32
fn op_big(p: &[&str]) -> String {
    let (msg, serial) = build_msg(p);
    marshal_and_back_with(&msg, serial, true)
}

/// all the messages go through ONE connection, in order; a thread reads the peer end until the connection is closed
fn op_ww(p: &[&str]) -> String {
    use std::io::Read;
    let built: Vec<(MarshalledMessage, u32)> = p.split(|t| *t == ";").map(build_msg).collect();
    let with_fd = built.iter().any(|(m, _)| !m.body.get_fds().is_empty());
    let (mut conn, mut peer) = connect_pair(with_fd);
    // hang detector only
    peer.set_read_timeout(Some(std::time::Duration::from_secs(120))).unwrap();
    let reader = std::thread::spawn(move || {
        let mut all = Vec::new();
        let ok = peer.read_to_end(&mut all).is_ok();
        (all, ok)
    });
    let mut sent = String::new();
    for (mut msg, serial) in built {
        msg.dynheader.serial = NonZeroU32::new(serial);
        sent.push(if conn.send.send_message_write_all(&msg).is_ok() { 'o' } else { 'e' });
    }
    drop(conn);
    let (all, ok) = reader.join().unwrap();
    if ok {
        format!("S:{} W:{}", sent, bhex(&all))
    } else {
        format!("S:{} W:hang", sent)
    }
}

/// marshal, decode, give the DECODED message a different body, marshal again with another serial
fn op_r(p: &[&str]) -> String {
    let (msg, serial) = build_msg(p);
    let n = p.len();
    let (body2, serial2): (&str, u32) = (p[n - 2], p[n - 1].parse().unwrap());
    let mut buf = Vec::new();
    if rustbus::wire::marshal::marshal(&msg, NonZeroU32::new(serial).unwrap(), &mut buf).is_err() {
        return "R:first-marshal-err".to_string();
    }
    let mut all = buf.clone();
    all.extend_from_slice(msg.get_buf());
    let mut cursor = Cursor::new(&all);
    let header = match unmarshal_header(&mut cursor) {
        Ok(h) => h,
        Err(_) => return "R:decode-err".to_string(),
    };
    let dynheader = match unmarshal_dynamic_header(&header, &mut cursor) {
        Ok(h) => h,
        Err(_) => return "R:decode-err".to_string(),
    };
    let used = cursor.consumed();
    let fds: Vec<UnixFd> = (0..msg.body.get_fds().len()).map(|_| new_fd()).collect();
    let mut back = match unmarshal_next_message(&header, dynheader, all.clone(), used, fds) {
        Ok(m) => m,
        Err(_) => return "R:decode-err".to_string(),
    };
    back.body = build_body(body2, back.body.byteorder());
    let mut buf2 = Vec::new();
    match rustbus::wire::marshal::marshal(&back, NonZeroU32::new(serial2).unwrap(), &mut buf2) {
        Ok(()) => format!("R:ok {} H:{}", body_desc(&back), bhex(&buf2)),
        Err(_) => format!("R:ok {} H:err", body_desc(&back)),
    }
}

/// send the message through a real connection and read the bytes at the peer end
fn op_w(p: &[&str]) -> String {
    use std::io::Read;
    let (mut msg, serial) = build_msg(p);
    msg.dynheader.serial = NonZeroU32::new(serial);
    let with_fd = !msg.body.get_fds().is_empty();
    let (mut conn, mut peer) = connect_pair(with_fd);
    peer.set_read_timeout(Some(std::time::Duration::from_secs(30))).unwrap();
    match conn.send.send_message_write_all(&msg) {
        Err(_) => format!("{} W:err", body_desc(&msg)),
        Ok(_) => {
            let mut h = vec![0u8; 16];
            if peer.read_exact(&mut h).is_err() {
                return format!("{} W:short", body_desc(&msg));
            }
            let u = |o: usize| {
                let a = [h[o], h[o + 1], h[o + 2], h[o + 3]];
                if h[0] == b'B' { u32::from_be_bytes(a) } else { u32::from_le_bytes(a) }
            };
            let rest = (u(12) as usize + 7) / 8 * 8 + u(4) as usize;
            let mut r = vec![0u8; rest];
            if peer.read_exact(&mut r).is_err() {
                return format!("{} W:short", body_desc(&msg));
            }
            h.extend_from_slice(&r);
            // nothing else may be on the wire
            peer.set_nonblocking(true).unwrap();
            let mut extra = [0u8; 1];
            let more = matches!(peer.read(&mut extra), Ok(n) if n > 0);
            format!("{} W:{}{}", body_desc(&msg), bhex(&h), if more { " EXTRA" } else { "" })
        }
    }
}

/// the bytes are written to the peer end of a fresh connection (then the peer stops writing);
/// RecvConn::get_next_message decodes them
fn op_g(bytes: &[u8]) -> String {
    let (mut conn, mut peer) = connect_pair(false);
    if !bytes.is_empty() {
        peer.write_all(bytes).unwrap();
        peer.flush().unwrap();
    }
    peer.shutdown(std::net::Shutdown::Write).unwrap();
    match conn.recv.get_next_message(Timeout::Duration(std::time::Duration::from_secs(30))) {
        Err(_) => "G:err".to_string(),
        Ok(m) => format!(
            "G:ok t:{} f:{} rs:{} i:{} d:{} sn:{} m:{} p:{} e:{} g:{} fd:{} dser:{} N:ok:{}:{}:{}",
            typ_no(m.typ),
            m.flags,
            m.dynheader.response_serial.map(|x| x.get().to_string()).unwrap_or("-".into()),
            shex(&m.dynheader.interface),
            shex(&m.dynheader.destination),
            shex(&m.dynheader.sender),
            shex(&m.dynheader.member),
            shex(&m.dynheader.object),
            shex(&m.dynheader.error_name),
            shex(&m.dynheader.signature),
            m.dynheader.num_fds.map(|x| x.to_string()).unwrap_or("-".into()),
            m.dynheader.serial.map(|x| x.get().to_string()).unwrap_or("-".into()),
            bhex(m.get_buf()),
            bhex(m.get_sig().as_bytes()),
            m.body.get_fds().len()
        ),
    }
}

fn op_s(p: &[&str]) -> String {
    use rustbus::standard_messages as sm;
    let serial: u32 = p[1].parse().unwrap();
    let arg = |i: usize| String::from_utf8(unhex(p[i])).unwrap();
    let call_hdr = |i: usize| DynamicHeader {
        interface: ostr(p[i]),
        member: ostr(p[i + 1]),
        object: ostr(p[i + 2]),
        sender: ostr(p[i + 3]),
        serial: if p[i + 4] == "-" { None } else { NonZeroU32::new(p[i + 4].parse().unwrap()) },
        ..Default::default()
    };
    let msg = match p[0] {
        "hello" => sm::hello(),
        "ping" => sm::ping(arg(2)),
        "ping_bus" => sm::ping_bus(),
        "list_names" => sm::list_names(),
        "request_name" => sm::request_name(&arg(2), p[3].parse().unwrap()),
        "release_name" => sm::release_name(&arg(2)),
        "add_match" => sm::add_match(&arg(2)),
        "remove_match" => sm::remove_match(&arg(2)),
        "unknown_method" => sm::unknown_method(&call_hdr(2)),
        "invalid_args" => {
            let sg = ostr(p[7]);
            sm::invalid_args(&call_hdr(2), sg.as_deref())
        }
        "make_response" => call_hdr(2).make_response(),
        "make_error_response" => call_hdr(2).make_error_response(arg(7), ostr(p[8])),
        _ => panic!("unknown constructor"),
    };
    format!("M:{} {}", msg_args(&msg).replace(' ', ","), marshal_and_back(&msg, serial))
}

fn op_n(bytes: &[u8]) -> String {
    let (mut conn, mut peer) = connect_pair(false);
    if !bytes.is_empty() {
        peer.write_all(bytes).unwrap();
        peer.flush().unwrap();
    }
    if bytes.len() >= 16 {
        // one read towards the message: refill_buffer(16) = one recvmsg of at most 16 bytes, all of which are queued
        if conn.recv.read_once(Timeout::Duration(std::time::Duration::from_secs(30))).is_err() {
            return "N:err".to_string();
        }
    }
    match conn.recv.bytes_needed_for_current_message() {
        Ok(n) => format!("N:{}", n),
        Err(_) => "N:err".to_string(),
    }
}

/// like `n`, but a second read_once buffers the rest of the input (up to the announced length) first, so
/// bytes_needed_for_current_message is observed with more than 16 bytes buffered
fn op_n2(bytes: &[u8]) -> String {
    let (mut conn, mut peer) = connect_pair(false);
    peer.write_all(bytes).unwrap();
    peer.flush().unwrap();
    let t = Timeout::Duration(std::time::Duration::from_secs(30));
    if bytes.len() >= 16 {
        if conn.recv.read_once(t).is_err() {
            return "N:err".to_string();
        }
        if bytes.len() > 16 && conn.recv.read_once(t).is_err() {
            return "N:err".to_string();
        }
    }
    match conn.recv.bytes_needed_for_current_message() {
        Ok(n) => format!("N:{}", n),
        Err(_) => "N:err".to_string(),
    }
}

fn op_f() -> String {
    let mut out = String::from("F");
    for f in [
        HeaderFlags::NoReplyExpected,
        HeaderFlags::NoAutoStart,
        HeaderFlags::AllowInteractiveAuthorization,
    ] {
        out.push_str(&format!(" {}", f.into_raw()));
        out.push(' ');
        for x in 0..=255u8 {
            let is = f.is_set(x);
            let mut s = x;
            f.set(&mut s);
            let mut u = x;
            f.unset(&mut u);
            let mut t = x;
            f.toggle(&mut t);
            out.push_str(&format!("{}{:02x}{:02x}{:02x}", if is { 1 } else { 0 }, s, u, t));
        }
    }
    out
}

fn main() {
    // messages with a few hundred descriptors are built (and decoded with as many fresh ones)
    {
        use nix::sys::resource::{getrlimit, setrlimit, Resource};
        if let Ok((_soft, hard)) = getrlimit(Resource::RLIMIT_NOFILE) {
            let _ = setrlimit(Resource::RLIMIT_NOFILE, hard, hard);
        }
    }
    rbverif::line_loop(|line| {
        let parts: Vec<&str> = line.split(' ').collect();
        let r = match parts[0] {
            "m" => op_m(&parts[1..]),
            "r" => op_r(&parts[1..]),
            "w" => op_w(&parts[1..]),
            "ww" => op_ww(&parts[1..]),
            "M" => op_big(&parts[1..]),
            "g" => op_g(&unhex(parts[1])),
            "s" => op_s(&parts[1..]),
            "d" => format!("D:{}", decode(&unhex(parts[1]), parts.get(2).map(|x| x.parse().unwrap()).unwrap_or(0))),
            "n" => op_n(&unhex(parts[1])),
            "n2" => op_n2(&unhex(parts[1])),
            "f" => op_f(),
            _ => "?".to_string(),
        };
        r
    });
    rbverif::conn::cleanup_scratch();
}
