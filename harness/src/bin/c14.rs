//! C14 harness: the real RpcConn on a real DuplexConn; the peer end of the socket writes whole
//! messages (arrivals) and reads back whatever RpcConn sends (unknown-method errors).
//!
//! stdin line:  run <filter index> <op>,<op>,...
//!   a:<kind>.<serial>.<reply>.<member>.<sender 0|1>.<iface 0|1>   the peer writes this message
//!         kind c|s|r|e ; reply 0 = none ; member - = none
//!   ap:<spec>:<k>   the peer writes only the first k bytes of that message (k: <n> | b+<d> | b-<d> | e-<d>,
//!                   b = first byte of the body, e = length; clamped to 1..len-1) ; result token p
//!   af              the peer writes the rest of it ; result token = the filter's verdict as for `a`
//!   tr:<s> | ts | tc                      try_get_response / try_get_signal / try_get_call
//!   wr:<s>:<mode> | ws:<mode> | wc:<mode> wait_* ; mode I = Duration(2 s) standing in for Infinite (the message is there), N = Nonblock, D = Duration(1ms)
//!   ro:<mode>                             refill_once
//!         mode u<micros>: Duration of that many microseconds (0 = already expired); the token of such an operation
//!         ends in #<n> = number of whole arrivals it took off the socket (by FIONREAD)
//!   ra                                    refill_all
//!   tro:<mode>                            try_refill_once (result Y<kind> like refill_once)
//!   sf:<j>                                set_filter(table entry j) ; result S
//!   filter index 16 = no set_filter call (the default filter of RpcConn::new) ; mode F = Timeout::Infinite
//!   a spec may carry three more fields: .<flags>.<l|B>.<destination 0|1>
//!   a call or signal spec with reply != 0 carries a REPLY_SERIAL header field (it must still be routed by its type)
//!   ca:<spec>       (only at the start of a line, before `cn`) the scripted bus writes this message right after it
//!                   has read the client's Hello call, in the order given ; result token + (the filter RpcConn::new installs)
//!   cn:<s>:<mode>   the client is built by RpcConn::connect_to_path (auth handshake, Hello through send_message,
//!                   wait_response) against a scripted bus that answers Hello with the `ca` messages; one of them is the
//!                   reply/error to the Hello call (reply serial <s> = the serial connect_to_path gave Hello) ; result token
//!                   M<ident of that reply> when connect_to_path returns Ok (it consumes the reply), E.. / T otherwise.
//!                   A filter index other than 16 is installed after connect_to_path has returned.
//!   as              alloc_serial ; result S
//!   sm              send_message(call Out on /out).write_all() ; result S when the peer reads exactly that call
//! stdout: one token per op, comma separated; after the token, `|` and the errors the peer read
//! from the socket after that op (`;` separated):
//!   arrival: + / - (verdict of the installed filter on that message)
//!   M<kind>.<serial>.<reply>.<member>   N   T   Y<kind>   R<err>;<err>...   E<variant>
//!   err = <reply serial>~<destination hex or _>~<error name hex>~<text hex>
use rbverif::hex;
use rustbus::connection::rpc_conn::RpcConn;
use rustbus::connection::Timeout;
use rustbus::message_builder::{DynamicHeader, MarshalledMessage, MarshalledMessageBody};
use rustbus::wire::unmarshal;
use rustbus::wire::unmarshal_context::Cursor;
use rustbus::{ByteOrder, MessageBuilder, MessageType};
use std::io::{Read, Write};
use std::num::NonZeroU32;

/// The same table as `filter_family` in coq/Conn/Rpc.v: predicates on (type, member).
fn filter_family(i: u32, m: &MarshalledMessage) -> bool {
    let k = m.typ;
    let member = m.dynheader.member.as_deref();
    let starts_with = |c: u8| member.map(|s| s.as_bytes().first() == Some(&c)).unwrap_or(false);
    let len_even = member.map(|s| s.len() % 2 == 0).unwrap_or(true);
    let is_call = k == MessageType::Call;
    let is_signal = k == MessageType::Signal;
    let is_response = k == MessageType::Reply || k == MessageType::Error;
    match i {
        0 => true,
        1 => false,
        2 => is_call,
        3 => !is_call,
        4 => is_signal,
        5 => !is_signal,
        6 => is_response,
        7 => !is_response,
        8 => starts_with(b'A'),
        9 => !starts_with(b'A'),
        10 => !is_call || starts_with(b'A'),
        11 => !is_signal || len_even,
        12 => k != MessageType::Error,
        13 => k != MessageType::Reply,
        14 => {
            if is_call {
                !len_even
            } else if is_signal {
                starts_with(b'B')
            } else {
                true
            }
        }
        _ => !(is_call || is_signal),
    }
}

fn kind_char(t: MessageType) -> &'static str {
    match t {
        MessageType::Call => "c",
        MessageType::Reply => "r",
        MessageType::Error => "e",
        MessageType::Signal => "s",
        MessageType::Invalid => "i",
    }
}

fn ident(m: &MarshalledMessage) -> String {
    format!(
        "{}.{}.{}.{}",
        kind_char(m.typ),
        m.dynheader.serial.map(|s| s.get()).unwrap_or(0),
        m.dynheader.response_serial.map(|s| s.get()).unwrap_or(0),
        m.dynheader.member.clone().unwrap_or_else(|| "-".to_string())
    )
}

fn err_canon(m: &MarshalledMessage) -> String {
    let text: String = m.body.parser().get::<String>().unwrap_or_else(|_| "<no text>".to_string());
    let extra = if m.typ != MessageType::Error || m.dynheader.member.is_some() || m.dynheader.interface.is_some() {
        "!shape"
    } else {
        ""
    };
    format!(
        "{}~{}~{}~{}{}",
        m.dynheader.response_serial.map(|s| s.get()).unwrap_or(0),
        m.dynheader.destination.as_ref().map(|d| hex(d.as_bytes())).unwrap_or_else(|| "_".to_string()),
        hex(m.dynheader.error_name.clone().unwrap_or_default().as_bytes()),
        hex(text.as_bytes()),
        extra
    )
}

fn build(spec: &str) -> (MarshalledMessage, NonZeroU32) {
    let p: Vec<&str> = spec.split('.').collect();
    let serial = NonZeroU32::new(p[1].parse().unwrap()).unwrap();
    let reply = NonZeroU32::new(p[2].parse().unwrap());
    let member = if p[3] == "-" { None } else { Some(p[3].to_string()) };
    let sender = if p[4] == "1" { Some(":1.5".to_string()) } else { None };
    let iface = p[5] == "1";
    // optional: header flags, byte order (l|B), destination (0|1)
    let flags: u8 = p.get(6).map(|x| x.parse().unwrap()).unwrap_or(0);
    let bo = if p.get(7).copied() == Some("B") { ByteOrder::BigEndian } else { ByteOrder::LittleEndian };
    let dest = p.get(8).copied() == Some("1");
    let mut msg = match p[0] {
        "c" => {
            let b = MessageBuilder::with_byteorder(bo).call(member.clone().unwrap()).on("/o");
            let b = if iface { b.with_interface("i.f") } else { b };
            b.build()
        }
        "s" => MessageBuilder::with_byteorder(bo).signal("s.i", member.clone().unwrap(), "/s").build(),
        "r" => MarshalledMessage {
            typ: MessageType::Reply,
            dynheader: DynamicHeader {
                response_serial: reply,
                ..Default::default()
            },
            flags: 0,
            body: MarshalledMessageBody::with_byteorder(bo),
        },
        _ => MarshalledMessage {
            typ: MessageType::Error,
            dynheader: DynamicHeader {
                response_serial: reply,
                error_name: Some("e.r.R".to_string()),
                ..Default::default()
            },
            flags: 0,
            body: MarshalledMessageBody::with_byteorder(bo),
        },
    };
    if matches!(p[0], "c" | "s") {
        // a call / signal may carry a REPLY_SERIAL field too (nothing in the wire format forbids it)
        msg.dynheader.response_serial = reply;
    }
    msg.dynheader.sender = sender;
    msg.flags = flags;
    if dest {
        msg.dynheader.destination = Some(":1.77".to_string());
    }
    msg.body.push_param(serial.get()).unwrap();
    // a string argument of 0..59 bytes (from the serial) so that body-internal split positions exist
    let filler: String = (0..(serial.get() as usize * 7) % 60).map(|i| (b'a' + (i % 26) as u8) as char).collect();
    msg.body.push_param(filler.as_str()).unwrap();
    (msg, serial)
}

/// what the peer finds in its socket: complete frames only (RpcConn writes with write_all)
fn drain_peer(peer: &mut std::os::unix::net::UnixStream, pending: &mut Vec<u8>) -> Vec<String> {
    let mut tmp = [0u8; 4096];
    loop {
        match peer.read(&mut tmp) {
            Ok(0) => break,
            Ok(n) => pending.extend_from_slice(&tmp[..n]),
            Err(ref e) if e.kind() == std::io::ErrorKind::WouldBlock => break,
            Err(_) => break,
        }
    }
    let mut out = Vec::new();
    loop {
        if pending.len() < 16 {
            break;
        }
        let bo = if pending[0] == b'l' { ByteOrder::LittleEndian } else { ByteOrder::BigEndian };
        let u32at = |o: usize| -> usize {
            let b = [pending[o], pending[o + 1], pending[o + 2], pending[o + 3]];
            (match bo {
                ByteOrder::LittleEndian => u32::from_le_bytes(b),
                ByteOrder::BigEndian => u32::from_be_bytes(b),
            }) as usize
        };
        let body_len = u32at(4);
        let hfl = u32at(12);
        let total = (16 + hfl + 7) / 8 * 8 + body_len;
        if pending.len() < total {
            break;
        }
        let frame: Vec<u8> = pending.drain(..total).collect();
        let mut cursor = Cursor::new(&frame);
        let parsed = unmarshal::unmarshal_header(&mut cursor).and_then(|h| {
            let d = unmarshal::unmarshal_dynamic_header(&h, &mut cursor)?;
            let consumed = cursor.consumed();
            unmarshal::unmarshal_next_message(&h, d, frame.clone(), consumed, vec![])
        });
        match parsed {
            // a call is what the `sm` operation sent (RpcConn itself only ever sends unknown-method errors)
            Ok(m) if m.typ == MessageType::Call => out.push(format!(
                "OUT{}.{}",
                m.dynheader.serial.map(|s| s.get()).unwrap_or(0),
                m.dynheader.member.clone().unwrap_or_default()
            )),
            Ok(m) => out.push(err_canon(&m)),
            Err(e) => out.push(format!("UNPARSABLE{:?}", e).replace([' ', ',', ';', '|'], "_")),
        }
    }
    out
}

/// "I": the model says the message is there, so the call returns at once; a generous bound instead of
/// Timeout::Infinite keeps the harness alive when the implementation does not find it (reported as HANG)
fn long_ms() -> u64 {
    std::env::var("C14_LONG_MS").ok().and_then(|v| v.parse().ok()).unwrap_or(2000)
}

/// where to cut an arrival that is written in two pieces: `<n>` absolute, `b+<d>` / `b-<d>` relative to the first
/// byte of the body, `e-<d>` relative to the end; clamped to 1..len-1
fn split_pos(tok: &str, body_start: usize, len: usize) -> usize {
    let num = |s: &str| s.parse::<i64>().unwrap_or(0);
    let k: i64 = if let Some(d) = tok.strip_prefix("b+") {
        body_start as i64 + num(d)
    } else if let Some(d) = tok.strip_prefix("b-") {
        body_start as i64 - num(d)
    } else if let Some(d) = tok.strip_prefix("e-") {
        len as i64 - num(d)
    } else {
        num(tok)
    };
    k.clamp(1, len as i64 - 1) as usize
}

fn tmo(mode: &str) -> Timeout {
    match mode {
        "I" => Timeout::Duration(std::time::Duration::from_millis(long_ms())),
        "N" => Timeout::Nonblock,
        // F: really Timeout::Infinite (the model says the message is there; the per-case deadline is the hang detector)
        "F" => Timeout::Infinite,
        // u<micros>: a deadline so close that it may pass while the call is at work (0: has passed already)
        m if m.starts_with('u') => Timeout::Duration(std::time::Duration::from_micros(m[1..].parse().unwrap())),
        _ => Timeout::Duration(std::time::Duration::from_millis(1)),
    }
}

fn show_err(e: &rustbus::connection::Error) -> String {
    use rustbus::connection::Error::*;
    match e {
        TimedOut => "T".to_string(),
        other => format!("E{:?}", other).replace([' ', ',', ';', '|'], "_"),
    }
}

fn show_msg(r: Result<MarshalledMessage, rustbus::connection::Error>) -> String {
    match r {
        Ok(m) => format!("M{}", ident(&m)),
        Err(e) => show_err(&e),
    }
}

fn read_line(s: &mut std::os::unix::net::UnixStream) -> std::io::Result<Vec<u8>> {
    let mut line = Vec::new();
    let mut b = [0u8; 1];
    loop {
        if s.read(&mut b)? == 0 {
            return Err(std::io::ErrorKind::UnexpectedEof.into());
        }
        line.push(b[0]);
        if line.ends_with(b"\r\n") {
            return Ok(line);
        }
    }
}

/// bytes of the message a spec describes, as the peer writes them; (bytes, first byte of the body, the message as received)
fn wire_bytes(spec: &str) -> (Vec<u8>, usize, MarshalledMessage) {
    let (msg, serial) = build(spec);
    let mut buf = Vec::new();
    rustbus::wire::marshal::marshal(&msg, serial, &mut buf).unwrap();
    let body_start = buf.len();
    buf.extend_from_slice(msg.get_buf());
    let mut seen = msg;
    seen.dynheader.serial = Some(serial);
    (buf, body_start, seen)
}

/// The scripted bus of the `cn` operation: server side of the auth handshake (as rbverif::conn::connect_pair), then it
/// reads one message - the client's Hello call - and answers with `script` (whole messages, in order, in one go).
/// Returns its end of the socket and the serial of the Hello call.
fn scripted_bus(listener: std::os::unix::net::UnixListener, script: Vec<Vec<u8>>) -> Result<(std::os::unix::net::UnixStream, u32), String> {
    let io = |e: std::io::Error| format!("io_{:?}", e.kind());
    let (mut s, _) = listener.accept().map_err(io)?;
    s.set_read_timeout(Some(std::time::Duration::from_secs(10))).map_err(io)?;
    let mut z = [0u8; 1];
    s.read_exact(&mut z).map_err(io)?;
    let _auth = read_line(&mut s).map_err(io)?;
    s.write_all(b"OK 1234deadbeef\r\n").map_err(io)?;
    let _neg = read_line(&mut s).map_err(io)?;
    s.write_all(b"AGREE_UNIX_FD\r\n").map_err(io)?;
    let _begin = read_line(&mut s).map_err(io)?;
    let mut frame = vec![0u8; 16];
    s.read_exact(&mut frame).map_err(io)?;
    let le = frame[0] == b'l';
    let u32at = |f: &[u8], o: usize| -> usize {
        let b = [f[o], f[o + 1], f[o + 2], f[o + 3]];
        (if le { u32::from_le_bytes(b) } else { u32::from_be_bytes(b) }) as usize
    };
    let total = (16 + u32at(&frame, 12) + 7) / 8 * 8 + u32at(&frame, 4);
    if total > 4096 {
        return Err("first_message_too_long".to_string());
    }
    frame.resize(total, 0);
    s.read_exact(&mut frame[16..]).map_err(io)?;
    let mut cursor = Cursor::new(&frame);
    let hello = unmarshal::unmarshal_header(&mut cursor)
        .and_then(|h| {
            let d = unmarshal::unmarshal_dynamic_header(&h, &mut cursor)?;
            let consumed = cursor.consumed();
            unmarshal::unmarshal_next_message(&h, d, frame.clone(), consumed, vec![])
        })
        .map_err(|e| format!("first_message_unparsable_{:?}", e))?;
    if hello.typ != MessageType::Call
        || hello.dynheader.member.as_deref() != Some("Hello")
        || hello.dynheader.destination.as_deref() != Some("org.freedesktop.DBus")
    {
        return Err("first_message_is_not_Hello".to_string());
    }
    let serial = hello.dynheader.serial.map(|x| x.get()).unwrap_or(0);
    for m in script {
        s.write_all(&m).map_err(io)?;
    }
    Ok((s, serial))
}

/// `cn`: RpcConn::connect_to_path against the scripted bus. Ok: (client, peer, token of the cn operation)
fn connect_scripted(specs: &[&str], cn: &[&str]) -> Result<(Option<RpcConn>, Option<std::os::unix::net::UnixStream>, String), ()> {
    static COUNTER: std::sync::atomic::AtomicUsize = std::sync::atomic::AtomicUsize::new(0);
    let want: u32 = cn.get(1).and_then(|x| x.parse().ok()).unwrap_or(0);
    let mode = cn.get(2).copied().unwrap_or("I");
    let path = rbverif::conn::scratch_dir().join(format!("c14cn{}", COUNTER.fetch_add(1, std::sync::atomic::Ordering::SeqCst)));
    let _ = std::fs::remove_file(&path);
    let listener = std::os::unix::net::UnixListener::bind(&path).map_err(|_| ())?;
    let mut script = Vec::new();
    let mut reply_ident = None;
    for sp in specs {
        let (bytes, _, seen) = wire_bytes(sp);
        if reply_ident.is_none()
            && matches!(seen.typ, MessageType::Reply | MessageType::Error)
            && seen.dynheader.response_serial.map(|x| x.get()) == Some(want)
        {
            reply_ident = Some(ident(&seen));
        }
        script.push(bytes);
    }
    let srv = std::thread::spawn(move || scripted_bus(listener, script));
    let addr = nix::sys::socket::UnixAddr::new(&path).map_err(|_| ())?;
    let res = RpcConn::connect_to_path(addr, tmo(mode));
    let _ = std::fs::remove_file(&path);
    // the bus has written its whole script before connect_to_path can have seen the reply; when connect_to_path
    // failed early its socket is closed and the script thread ends with an error
    let bus = srv.join().map_err(|_| ())?;
    Ok(match (res, bus) {
        (Ok(rpc), Ok((peer, hello_serial))) => {
            let tok = if hello_serial != want {
                format!("Ehello_serial_{}_expected_{}", hello_serial, want)
            } else {
                match reply_ident {
                    Some(id) => format!("M{}", id),
                    None => "Econnect_returned_without_a_reply_to_Hello".to_string(),
                }
            };
            (Some(rpc), Some(peer), tok)
        }
        (Err(e), Ok((peer, _))) => (None, Some(peer), show_err(&e)),
        (Ok(rpc), Err(b)) => (Some(rpc), None, format!("Ebus_{}", b)),
        (Err(e), Err(b)) => (None, None, format!("{}_bus_{}", show_err(&e), b).replace("T_bus", "Etimeout_bus")),
    })
}

fn run(fidx: u32, ops: &str) -> String {
    let mut out = Vec::new();
    let mut unread: std::collections::VecDeque<usize> = std::collections::VecDeque::new();
    let oplist: Vec<&str> = ops.split(',').filter(|o| !o.is_empty()).collect();
    let via_connect = oplist.iter().any(|o| o.starts_with("cn:"));
    let mut skip = 0;
    let (conn_rpc, mut peer) = if via_connect {
        // the prologue: `ca`* `cn`
        let n_ca = oplist.iter().take_while(|o| o.starts_with("ca:")).count();
        if !oplist.get(n_ca).map(|o| o.starts_with("cn:")).unwrap_or(false) {
            return "?|".to_string();
        }
        let specs: Vec<&str> = oplist[..n_ca].iter().map(|o| &o[3..]).collect();
        let cn: Vec<&str> = oplist[n_ca].split(':').collect();
        let (rpc, peer, tok) = match std::panic::catch_unwind(|| connect_scripted(&specs, &cn)) {
            Ok(Ok(x)) => x,
            Ok(Err(())) => return "SETUPFAIL|".to_string(),
            Err(_) => return "PANIC in RpcConn::connect_to_path".to_string(),
        };
        for sp in &specs {
            unread.push_back(wire_bytes(sp).0.len());
            out.push("+|".to_string());
        }
        let hang = tok == "T" && oplist[n_ca].ends_with(":I");
        out.push(format!("{}|", if hang { "HANG" } else { &tok }));
        skip = n_ca + 1;
        match (rpc, peer) {
            (Some(r), Some(p)) if !hang => (r, p),
            _ => return out.join(","),
        }
    } else {
        let (conn, peer) = match std::panic::catch_unwind(|| rbverif::conn::connect_pair(true)) {
            Ok(x) => x,
            Err(_) => return "SETUPFAIL|".to_string(),
        };
        (RpcConn::new(conn), peer)
    };
    let mut rpc = conn_rpc;
    // index 16: no set_filter call at all - the filter RpcConn::new installs accepts everything (= table entry 0)
    let mut fidx = fidx;
    if fidx == 16 {
        fidx = 0;
    } else {
        rpc.set_filter(Box::new(move |m| filter_family(fidx, m)));
    }
    peer.set_nonblocking(true).unwrap();
    let mut pending = Vec::new();
    let mut rest: Option<(Vec<u8>, MarshalledMessage, usize)> = None;
    // `unread`: lengths of the arrivals written completely and not yet read by the client (oldest first)
    let mut last_sent: Option<u32> = None;
    for op in oplist.into_iter().skip(skip) {
        let p: Vec<&str> = op.split(':').collect();
        let tok = match p[0] {
            "a" | "ap" => {
                // the filter's verdict on the message as it will be received (serial set)
                let (buf, body_start, seen) = wire_bytes(p[1]);
                let verdict = if filter_family(fidx, &seen) { "+" } else { "-" };
                if p[0] == "a" {
                    peer.write_all(&buf).unwrap();
                    unread.push_back(buf.len());
                    verdict.to_string()
                } else {
                    // only the first k bytes now; the rest with the next `af`. On a local socket the bytes are
                    // queued at the receiver when write returns, so the next client operation sees exactly them.
                    let k = split_pos(p[2], body_start, buf.len());
                    peer.write_all(&buf[..k]).unwrap();
                    rest = Some((buf[k..].to_vec(), seen, buf.len()));
                    "p".to_string()
                }
            }
            "af" => match rest.take() {
                Some((bytes, seen, total)) => {
                    peer.write_all(&bytes).unwrap();
                    unread.push_back(total);
                    // the verdict of the filter that is installed when the arrival is complete
                    let verdict = if filter_family(fidx, &seen) { "+" } else { "-" };
                    verdict.to_string()
                }
                None => "?".to_string(),
            },
            "tr" => match rpc.try_get_response(NonZeroU32::new(p[1].parse().unwrap()).unwrap()) {
                Some(m) => format!("M{}", ident(&m)),
                None => "N".to_string(),
            },
            "ts" => match rpc.try_get_signal() {
                Some(m) => format!("M{}", ident(&m)),
                None => "N".to_string(),
            },
            "tc" => match rpc.try_get_call() {
                Some(m) => format!("M{}", ident(&m)),
                None => "N".to_string(),
            },
            "wr" => show_msg(rpc.wait_response(NonZeroU32::new(p[1].parse().unwrap()).unwrap(), tmo(p[2]))),
            "ws" => show_msg(rpc.wait_signal(tmo(p[1]))),
            "wc" => show_msg(rpc.wait_call(tmo(p[1]))),
            "ro" => match rpc.refill_once(tmo(p[1])) {
                Ok(t) => format!("Y{}", kind_char(t)),
                Err(e) => show_err(&e),
            },
            // the public single step of refill_once
            "tro" => match rpc.try_refill_once(tmo(p[1])) {
                Ok(Some(t)) => format!("Y{}", kind_char(t)),
                Ok(None) => "Ynone".to_string(),
                Err(e) => show_err(&e),
            },
            // a new filter in the middle of a run (the check drains the socket first: it applies to later arrivals)
            "sf" => {
                let j: u32 = p[1].parse().unwrap();
                fidx = j;
                rpc.set_filter(Box::new(move |m| filter_family(j, m)));
                "S".to_string()
            }
            // the two public pass-throughs to SendConn: they must not disturb the queues
            "as" => {
                let _ = rpc.alloc_serial();
                "S".to_string()
            }
            "sm" => {
                let mut call = MessageBuilder::new().call("Out").on("/out").build();
                let r = match rpc.send_message(&mut call) {
                    Ok(ctx) => ctx.write_all().map_err(rustbus::connection::ll_conn::force_finish_on_error),
                    Err(e) => Err(e),
                };
                match r {
                    Ok(serial) => {
                        last_sent = Some(serial.get());
                        "S".to_string()
                    }
                    Err(e) => format!("Esend_{}", show_err(&e)),
                }
            }
            "ra" => match rpc.refill_all() {
                Ok(v) => format!("R{}", v.iter().map(err_canon).collect::<Vec<_>>().join(";")),
                Err(e) => show_err(&e),
            },
            _ => "?".to_string(),
        };
        let mut sent = drain_peer(&mut peer, &mut pending);
        let mut tok = tok;
        // calls the client sent: exactly the one of this `sm` operation
        let outs: Vec<String> = sent.iter().filter(|x| x.starts_with("OUT")).cloned().collect();
        sent.retain(|x| !x.starts_with("OUT"));
        let want_outs: Vec<String> = last_sent.take().map(|n| format!("OUT{}.Out", n)).into_iter().collect();
        if outs != want_outs {
            tok = format!("Esent_calls_at_peer_{}_expected_{}", outs.join("+"), want_outs.join("+"));
        }
        let hang = tok == "T" && op.ends_with(":I");
        // how many whole arrivals this operation took off the socket (FIONREAD counts all queued bytes of a
        // stream socket); reported for the operations with a tiny deadline, whose outcome is not determined
        if rest.is_none() && !matches!(p[0], "a" | "ap" | "af") {
            let mut queued: nix::libc::c_int = 0;
            let fd = std::os::unix::io::AsRawFd::as_raw_fd(rpc.conn());
            unsafe { nix::libc::ioctl(fd, nix::libc::FIONREAD, &mut queued) };
            let mut taken = 0;
            // an arrival counts as taken when all its bytes have left the socket (a call whose deadline passes in
            // the middle of a message keeps the part it has read in RecvConn's buffer: not taken yet)
            while let Some(&front) = unread.front() {
                if unread.iter().sum::<usize>() - front >= queued as usize {
                    unread.pop_front();
                    taken += 1;
                } else {
                    break;
                }
            }
            if op.rsplit(':').next().map(|m| m.starts_with('u')).unwrap_or(false) {
                tok = format!("{}#{}", tok, taken);
            }
        }
        out.push(format!("{}|{}", if hang { "HANG" } else { &tok }, sent.join(";")));
        if hang {
            break;
        }
    }
    if !pending.is_empty() {
        out.push(format!("LEFTOVER{}", pending.len()));
    }
    out.join(",")
}

fn main() {
    let case_ms: u64 = std::env::var("C14_CASE_MS").ok().and_then(|v| v.parse().ok()).unwrap_or(3000) + long_ms();
    let mut hangs = 0;
    rbverif::line_loop(move |line| {
        let parts: Vec<&str> = line.split(' ').collect();
        match parts[0] {
            "run" => {
                if hangs >= 3 {
                    return "SKIPPED".to_string();
                }
                let fidx: u32 = parts[1].parse().unwrap();
                let ops = parts.get(2).copied().unwrap_or("").to_string();
                // every case has a deadline of its own (hang detector only: the longest wait of a case is the 2 s
                // stand-in for Infinite, after which the case stops)
                let (tx, rx) = std::sync::mpsc::channel();
                std::thread::spawn(move || {
                    let r = std::panic::catch_unwind(|| run(fidx, &ops));
                    let _ = tx.send(r.unwrap_or_else(|_| "PANIC in RpcConn".to_string()));
                });
                match rx.recv_timeout(std::time::Duration::from_millis(case_ms)) {
                    Ok(r) => r,
                    Err(_) => {
                        hangs += 1;
                        "STUCK|".to_string()
                    }
                }
            }
            _ => "?".to_string(),
        }
    });
    rbverif::conn::cleanup_scratch();
}
