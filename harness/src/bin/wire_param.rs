//! Param-tree <-> token syntax, shared by the wire and c15 binaries (included with #[path]).
#![allow(dead_code)]
use rbverif::wirelib::Args;
use rbverif::{hex, unhex};
use rustbus::params::{Base, Container, Param};
use rustbus::signature;
use rustbus::wire::UnixFd;
use std::collections::HashMap;

pub fn parse_one_type(s: &str) -> signature::Type {
    let mut v = signature::Type::parse_description(s).unwrap();
    assert_eq!(v.len(), 1);
    v.remove(0)
}

pub fn base_from(a: &mut Args, tag: &str) -> Base<'static> {
    match tag {
        "y" => Base::Byte(a.num() as u8),
        "b" => Base::Boolean(a.num() != 0),
        "n" => Base::Int16(a.num() as u16 as i16),
        "q" => Base::Uint16(a.num() as u16),
        "i" => Base::Int32(a.num() as u32 as i32),
        "u" => Base::Uint32(a.num() as u32),
        "x" => Base::Int64(a.num() as i64),
        "t" => Base::Uint64(a.num()),
        "d" => Base::Double(a.num()),
        "h" => {
            let taken = a.num() != 0;
            let fd = UnixFd::new(rbverif::wirelib::fresh_fd());
            if taken {
                let r = fd.clone().take_raw_fd().unwrap();
                let _ = nix::unistd::close(r);
            }
            Base::UnixFd(fd)
        }
        "s" => Base::String(String::from_utf8(unhex(a.next())).unwrap()),
        "o" => Base::ObjectPath(String::from_utf8(unhex(a.next())).unwrap()),
        "g" => Base::Signature(String::from_utf8(unhex(a.next())).unwrap()),
        x => panic!("base tag {}", x),
    }
}

pub fn param_from(a: &mut Args) -> Param<'static, 'static> {
    param_from_flavour(a, Flavour::Owned)
}

/// which variants of params::{Base, Container} a tree is built from: the owned ones, the borrowing ones (ArrayRef,
/// StructRef, DictRef, StringRef, ObjectPathRef, SignatureRef; the borrowed data is leaked), or alternating by depth
#[derive(Clone, Copy, PartialEq)]
pub enum Flavour {
    Owned,
    Ref,
    /// alternating: owned at this level, borrowing one level down, ...
    MixedOwned,
    MixedRef,
}
impl Flavour {
    /// MP/RP owned, MPR/RPR borrowing, MPX/RPX alternating
    pub fn of_op(op: &str) -> Flavour {
        match op.as_bytes().get(2) {
            Some(b'R') => Flavour::Ref,
            Some(b'X') => Flavour::MixedOwned,
            _ => Flavour::Owned,
        }
    }
    fn here_ref(self) -> bool {
        matches!(self, Flavour::Ref | Flavour::MixedRef)
    }
    fn child(self) -> Flavour {
        match self {
            Flavour::MixedOwned => Flavour::MixedRef,
            Flavour::MixedRef => Flavour::MixedOwned,
            f => f,
        }
    }
}

fn base_ref(b: Base<'static>) -> Base<'static> {
    fn leak(s: String) -> &'static str {
        Box::leak(s.into_boxed_str())
    }
    match b {
        Base::String(s) => Base::StringRef(leak(s)),
        Base::ObjectPath(s) => Base::ObjectPathRef(leak(s)),
        Base::Signature(s) => Base::SignatureRef(leak(s)),
        other => other,
    }
}

pub fn param_from_flavour(a: &mut Args, fl: Flavour) -> Param<'static, 'static> {
    let tag = a.next();
    let child = fl.child();
    match tag {
        "a" => {
            let esig = parse_one_type(a.next());
            let n = a.num();
            let values: Vec<Param<'static, 'static>> = (0..n).map(|_| param_from_flavour(a, child)).collect();
            if fl.here_ref() {
                Param::Container(Container::ArrayRef(rustbus::params::ArrayRef { element_sig: esig, values: Box::leak(values.into_boxed_slice()) }))
            } else {
                Param::Container(Container::Array(rustbus::params::Array { element_sig: esig, values }))
            }
        }
        "r" => {
            let n = a.num();
            let fields: Vec<Param<'static, 'static>> = (0..n).map(|_| param_from_flavour(a, child)).collect();
            if fl.here_ref() {
                Param::Container(Container::StructRef(Box::leak(fields.into_boxed_slice())))
            } else {
                Param::Container(Container::Struct(fields))
            }
        }
        "e" => {
            let k = match parse_one_type(a.next()) {
                signature::Type::Base(b) => b,
                _ => panic!("dict key sig"),
            };
            let vs = parse_one_type(a.next());
            let n = a.num();
            let mut map = HashMap::new();
            for _ in 0..n {
                let kt = a.next();
                let key = base_from(a, kt);
                let key = if fl.here_ref() { base_ref(key) } else { key };
                let val = param_from_flavour(a, child);
                map.insert(key, val);
            }
            if fl.here_ref() {
                Param::Container(Container::DictRef(rustbus::params::DictRef { key_sig: k, value_sig: vs, map: Box::leak(Box::new(map)) }))
            } else {
                Param::Container(Container::Dict(rustbus::params::Dict { key_sig: k, value_sig: vs, map }))
            }
        }
        "v" => {
            let sig = parse_one_type(a.next());
            let value = param_from_flavour(a, child);
            Param::Container(Container::Variant(Box::new(rustbus::params::Variant { sig, value })))
        }
        t => {
            let b = base_from(a, t);
            Param::Base(if fl.here_ref() { base_ref(b) } else { b })
        }
    }
}

pub fn sig_str(t: &signature::Type) -> String {
    let mut s = String::new();
    t.to_str(&mut s);
    s
}

/// print a Param in token syntax; maps in iteration order (sorted = false) or sorted by printed entry
pub fn param_tok(p: &Param, out: &mut Vec<String>, sorted: bool) {
    match p {
        Param::Base(b) => base_tok(b, out),
        Param::Container(c) => match c {
            Container::Array(rustbus::params::Array { element_sig, values }) => array_tok(element_sig, values, out, sorted),
            Container::ArrayRef(rustbus::params::ArrayRef { element_sig, values }) => array_tok(element_sig, values, out, sorted),
            Container::Struct(fields) => struct_tok(fields, out, sorted),
            Container::StructRef(fields) => struct_tok(fields, out, sorted),
            Container::Dict(rustbus::params::Dict { key_sig, value_sig, map }) => dict_tok(*key_sig, value_sig, map, out, sorted),
            Container::DictRef(rustbus::params::DictRef { key_sig, value_sig, map }) => dict_tok(*key_sig, value_sig, map, out, sorted),
            Container::Variant(v) => {
                out.push("v".into());
                out.push(sig_str(&v.sig));
                param_tok(&v.value, out, sorted);
            }
        },
    }
}
fn array_tok(element_sig: &signature::Type, values: &[Param], out: &mut Vec<String>, sorted: bool) {
    out.push("a".into());
    out.push(sig_str(element_sig));
    out.push(values.len().to_string());
    for v in values {
        param_tok(v, out, sorted);
    }
}
fn struct_tok(fields: &[Param], out: &mut Vec<String>, sorted: bool) {
    out.push("r".into());
    out.push(fields.len().to_string());
    for v in fields {
        param_tok(v, out, sorted);
    }
}
fn dict_tok(key_sig: signature::Base, value_sig: &signature::Type, map: &rustbus::params::DictMap, out: &mut Vec<String>, sorted: bool) {
    out.push("e".into());
    out.push(sig_str(&signature::Type::Base(key_sig)));
    out.push(sig_str(value_sig));
    out.push(map.len().to_string());
    let mut entries: Vec<Vec<String>> = map
                    .iter()
                    .map(|(k, v)| {
                        let mut e = Vec::new();
                        base_tok(k, &mut e);
                        param_tok(v, &mut e, sorted);
                        e
                    })
                    .collect();
    if sorted {
        entries.sort();
    }
    for e in entries {
        out.extend(e);
    }
}
pub fn base_tok(b: &Base, out: &mut Vec<String>) {
    let (t, v) = match b {
        Base::Byte(x) => ("y", (*x as u64).to_string()),
        Base::Boolean(x) => ("b", (*x as u64).to_string()),
        Base::Int16(x) => ("n", (*x as u16 as u64).to_string()),
        Base::Uint16(x) => ("q", (*x as u64).to_string()),
        Base::Int32(x) => ("i", (*x as u32 as u64).to_string()),
        Base::Uint32(x) => ("u", (*x as u64).to_string()),
        Base::Int64(x) => ("x", (*x as u64).to_string()),
        Base::Uint64(x) => ("t", x.to_string()),
        Base::Double(x) => ("d", x.to_string()),
        Base::UnixFd(fd) => ("h", rbverif::wirelib::fd_token(fd)),
        Base::String(s) => ("s", hex(s.as_bytes())),
        Base::ObjectPath(s) => ("o", hex(s.as_bytes())),
        Base::Signature(s) => ("g", hex(s.as_bytes())),
        Base::StringRef(s) => ("s", hex(s.as_bytes())),
        Base::ObjectPathRef(s) => ("o", hex(s.as_bytes())),
        Base::SignatureRef(s) => ("g", hex(s.as_bytes())),
    };
    out.push(t.into());
    out.push(v);
}

